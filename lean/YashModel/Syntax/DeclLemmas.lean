/-
  C06 — lemmas about the declaration-utility decision of `simple_command` (`Decl.lean`).
-/
import YashModel.Syntax.Decl
namespace YashModel.Syntax
open YashModel.Generated

theorem declLoop_eq_wordModes (g : Glossary) : ∀ (items : List SItem) (st : Option Bool),
    declLoop g st items = wordModes g st (items.filterMap SItem.word?) := by
  intro items
  induction items with
  | nil => intro st; cases st <;> rfl
  | cons i is ih =>
    intro st
    cases i with
    | redir => cases st <;> simp [declLoop, List.filterMap_cons, SItem.word?, ih]
    | assign => cases st <;> simp [declLoop, List.filterMap_cons, SItem.word?, ih]
    | word w =>
      cases st with
      | none => simp [declLoop, wordModes, SItem.word?, ih]
      | some d => simp [declLoop, wordModes, SItem.word?, ih]

theorem filterMap_printed (k m : Nat) (ws : List Word) :
    ((List.replicate k SItem.assign ++ ws.map SItem.word ++ List.replicate m SItem.redir).filterMap SItem.word?) = ws ∧
    ((List.replicate m SItem.redir ++ ws.map SItem.word).filterMap SItem.word?) = ws := by
  have h1 : ∀ n, (List.replicate n SItem.assign).filterMap SItem.word? = [] := by
    intro n; induction n <;> simp_all [List.replicate_succ, SItem.word?]
  have h2 : ∀ n, (List.replicate n SItem.redir).filterMap SItem.word? = [] := by
    intro n; induction n <;> simp_all [List.replicate_succ, SItem.word?]
  have h3 : (ws.map SItem.word).filterMap SItem.word? = ws := by
    induction ws <;> simp_all [SItem.word?]
  simp [List.filterMap_append, h1, h2, h3]

theorem posixGlossary_spec :
    posixGlossary "export".toList = some true ∧ posixGlossary "readonly".toList = some true ∧
    posixGlossary "command".toList = none ∧
    ∀ s : List Char, s ≠ "export".toList → s ≠ "readonly".toList → s ≠ "command".toList →
      posixGlossary s = some false := by
  refine ⟨by decide, by decide, by decide, ?_⟩
  intro s h1 h2 h3
  have e1 : ("command".toList == s) = false := by simpa using fun e => h3 e.symm
  have e2 : ("export".toList == s) = false := by simpa using fun e => h1 e.symm
  have e3 : ("readonly".toList == s) = false := by simpa using fun e => h2 e.symm
  simp only [posixGlossary, SyntaxTables.posixGlossary, List.find?, e1, e2, e3, SyntaxTables.posixGlossaryDefault]
  decide

end YashModel.Syntax
