/-
  C06 — end of input directly after the last token: word, token, piece and simple-command level
  (the bottom layers of the plan in notes/C06.md; the structural layers above still need a following character).
-/
import YashModel.Syntax.ParserLemmas
namespace YashModel.Syntax

/-! ## End of input directly after the last token -/

theorem lexToken_eof : lexToken [] = some (⟨[], .endOfInput⟩, []) := by rfl

theorem parseRedir_word_eof (w : Word) (hw : TokWordOk w []) (sp : Bool) :
    parseRedir ((if sp then [' '] else []) ++ printWord w) = some (none, (if sp then [' '] else []) ++ printWord w) := by
  have ht := lexToken_word_eof w hw sp
  unfold parseRedir
  rw [ht]
  simp [parseRedirBody, ht]

theorem loop_eof (b : Builder) (fuel : Nat) : parseSimpleLoop (fuel + 1) b [] = some (b, []) := by
  simp [parseSimpleLoop, parseRedir, parseRedirBody, lexToken_eof]


theorem lexToken_word_eof2 (w : Word) (hw : TokWordOk w []) (sp : Bool) :
    lexToken ((if sp then [' '] else []) ++ (printWord w ++ ([] : List Char))) =
      some (⟨w, .word (isKeywordWord w)⟩, []) := by
  simpa using lexToken_word_eof w hw sp

theorem parseRedir_word_eof2 (w : Word) (hw : TokWordOk w []) (sp : Bool) :
    parseRedir ((if sp then [' '] else []) ++ (printWord w ++ ([] : List Char))) =
      some (none, (if sp then [' '] else []) ++ (printWord w ++ ([] : List Char))) := by
  simpa using parseRedir_word_eof w hw sp

theorem parseOperand_word_eof (w : Word) (hw : TokWordOk w ([] : List Char))
    (sp : Bool) :
    parseOperand ((if sp then [' '] else []) ++ (printWord w ++ ([] : List Char))) = some (w, ([] : List Char)) := by
  unfold parseOperand
  rw [lexToken_word_eof2 w hw sp]

theorem parseRedirBody_normal_eof (fd : Option Nat) (op : RedirOp) (w : Word) (hw : TokWordOk w ([] : List Char)) (sp : Bool) :
    parseRedirBody fd ((if sp then [' '] else []) ++ (op.str ++ (printWord w ++ ([] : List Char)))) =
      some (some (.normal fd op w), ([] : List Char)) := by
  obtain ⟨y, t, e, hy, hk⟩ := tokWord_head w ([] : List Char) hw
  obtain ⟨c, tl, ec, hc⟩ := redirOp_str_head op
  have ho : lexOperator (op.str ++ y :: (t ++ ([] : List Char))) = some (opOfRedirOp op, y :: (t ++ ([] : List Char))) :=
    lexOperator_redirOp op y _ (by simpa using hk ([] : List Char)) hy
  have hin : op.str ++ (printWord w ++ ([] : List Char)) = c :: (tl ++ y :: (t ++ ([] : List Char))) := by simp [ec, e]
  rw [ec] at ho
  have hop := parseOperand_word_eof w hw false
  simp only [Bool.false_eq_true, if_false, List.nil_append, e] at hop
  unfold parseRedirBody
  rw [hin, lexToken_op c _ hc _ _ (by simpa using ho) sp]
  simp only [redirOpOf_opOf]
  simp only [List.cons_append, List.append_nil] at hop ⊢
  rw [hop]
  rfl

theorem parseRedir_normal_eof (fd : Option Nat) (hfd : FdOk fd) (op : RedirOp) (w : Word)
    (hw : TokWordOk w ([] : List Char)) (sp : Bool) :
    parseRedir ((if sp then [' '] else []) ++ (printRedir (.normal fd op w) ++ ([] : List Char))) =
      some (some (.normal fd op w), ([] : List Char)) := by
  obtain ⟨y, t, e, hy, hk⟩ := tokWord_head w ([] : List Char) hw
  obtain ⟨c, tl, ec, hc⟩ := redirOp_str_head op
  have ho : lexOperator (op.str ++ y :: (t ++ ([] : List Char))) = some (opOfRedirOp op, y :: (t ++ ([] : List Char))) :=
    lexOperator_redirOp op y _ (by simpa using hk ([] : List Char)) hy
  rw [ec] at ho
  have hin : printRedir (.normal fd op w) ++ ([] : List Char) = printFd fd ++ c :: (tl ++ (printWord w ++ ([] : List Char))) := by
    simp [printRedir, ec]
  rw [hin, parseRedir_fd fd hfd c _ hc (opOfRedirOp op) (y :: (t ++ ([] : List Char))) (by simpa [e] using ho) sp]
  have := parseRedirBody_normal_eof fd op w hw (if fd.isSome then false else sp)
  rw [ec] at this
  cases hfs : fd.isSome <;> simp [hfs] at this ⊢ <;> exact this

theorem loop_word_eof (w : Word) (hw : TokWordOk w ([] : List Char))
    (sp : Bool) (b : Builder) (fuel : Nat)
    (h1 : b.words = [] → assignOf w = none ∧ (isKeywordWord w = true → b.isEmpty = false))
    (h2 : b.words ≠ [] → (hasUnquotedTilde w && (assignOf w).isSome) = false) :
    parseSimpleLoop (fuel + 1) b ((if sp then [' '] else []) ++ (printWord w ++ ([] : List Char))) =
      parseSimpleLoop fuel { b with words := b.words ++ [w] } ([] : List Char) := by
  have ht := lexToken_word_eof2 w hw sp
  try simp only [List.append_nil] at ht ⊢
  have hr := parseRedir_word_eof2 w hw sp
  try simp only [List.append_nil] at hr ⊢
  by_cases hbw : b.words = []
  · obtain ⟨ha, hk⟩ := h1 hbw
    have hkb : (isKeywordWord w && b.isEmpty) = false := by
      cases hkw : isKeywordWord w with
      | false => simp
      | true => simp [hk hkw]
    simp [parseSimpleLoop, hr, ht, hkb, hbw, ha]
  · have hbe : b.isEmpty = false := by
      cases hws : b.words with
      | nil => exact absurd hws hbw
      | cons x xs => simp [Builder.isEmpty, hws]
    have hwe : b.words.isEmpty = false := by
      cases hws : b.words with
      | nil => exact absurd hws hbw
      | cons x xs => rfl
    simp [parseSimpleLoop, hr, ht, hbe, hwe, h2 hbw]

theorem loop_redir_eof (fd : Option Nat) (hfd : FdOk fd) (op : RedirOp) (w : Word) (hw : TokWordOk w ([] : List Char)) (sp : Bool) (b : Builder) (fuel : Nat) :
    parseSimpleLoop (fuel + 1) b
        ((if sp then [' '] else []) ++ (printRedir (.normal fd op w) ++ ([] : List Char))) =
      parseSimpleLoop fuel { b with redirs := b.redirs ++ [.normal fd op w] } ([] : List Char) := by
  have hp := parseRedir_normal_eof fd hfd op w hw sp
  simp only [List.append_nil] at hp
  simp [parseSimpleLoop, hp]

theorem loop_assign_eof (n : List Char) (v : Word) (hw : TokWordOk (assignWord n v) ([] : List Char)) (sp : Bool) (b : Builder) (fuel : Nat)
    (hb : b.words = []) (h1 : '=' ∉ n) (h2 : n ≠ []) (h3 : hasUnquotedTilde v = false)
    (h4 : (v.isEmpty && arrayFollows ([] : List Char)) = false) :
    parseSimpleLoop (fuel + 1) b ((if sp then [' '] else []) ++ ((n ++ '=' :: printWord v) ++ ([] : List Char))) =
      parseSimpleLoop fuel { b with assigns := b.assigns ++ [⟨n, .scalar v⟩] } ([] : List Char) := by
  rw [← printWord_assignWord]
  have ht := lexToken_word_eof2 _ hw sp
  try simp only [List.append_nil] at ht ⊢
  have hr := parseRedir_word_eof2 _ hw sp
  try simp only [List.append_nil] at hr ⊢
  simp [parseSimpleLoop, hr, ht, isKeywordWord_assignWord, hb, assignOf_assignWord n v h1 h2, h3, h4]


/-- the loop of `simple_command` on printed pieces that the end of input follows -/
theorem loop_pieces_eof :
    ∀ (ps : List Piece) (b : Builder) (fuel : Nat) (sp : Bool), ps.length + 1 ≤ fuel →
      (ps = [] → sp = false) → PiecesOk b ps [] →
      parseSimpleLoop fuel b ((if sp then [' '] else []) ++ printPieces ps) =
        some (ps.foldl Builder.push b, []) := by
  intro ps
  induction ps with
  | nil =>
    intro b fuel sp hf hsp _
    obtain ⟨k, rfl⟩ : ∃ k, fuel = k + 1 := ⟨fuel - 1, by simp at hf; omega⟩
    simpa [hsp rfl, printPieces, joinWith] using loop_eof b k
  | cons p ps ih =>
    intro b fuel sp hf _ hok
    obtain ⟨k, rfl⟩ : ∃ k, fuel = k + 1 := ⟨fuel - 1, by simp at hf; omega⟩
    obtain ⟨hp, hrest⟩ := hok
    have ih' := ih (b.push p) k (!ps.isEmpty) (by simp at hf; omega) (by intro h; simp [h]) hrest
    have hpp : printPieces (p :: ps) = p.print ++ afterPiece ps [] := by
      simpa using printPieces_cons p ps []
    have haf : afterPiece ps [] = (if (!ps.isEmpty) = true then [' '] else []) ++ printPieces ps := by
      simpa using afterPiece_eq ps []
    rw [hpp, List.foldl_cons, ← ih', ← haf]
    cases ps with
    | nil =>
      have ha : afterPiece [] ([] : List Char) = [] := by simp [afterPiece, printPieces, joinWith]
      rw [ha] at hp ⊢
      cases p with
      | assign n v =>
        obtain ⟨h0, h1, h2, h3, h4, h5⟩ := hp
        simpa [Piece.print, Builder.push] using loop_assign_eof n v h1 sp b k h0 h2 h3 h4 h5
      | word w =>
        obtain ⟨h1, h2, h3⟩ := hp
        simpa [Piece.print, Builder.push] using loop_word_eof w h1 sp b k h2 h3
      | redir fd op w =>
        obtain ⟨h1, h2⟩ := hp
        simpa [Piece.print, Builder.push] using loop_redir_eof fd h1 op w h2 sp b k
      | arrayAssign n ws =>
        obtain ⟨h0, h1, h2, h3, h4⟩ := hp
        simpa [Piece.print, Builder.push] using loop_arrayAssign n ws [] h1 sp b k h0 h2 h3 h4
    | cons q qs =>
      have hn : NextOk (afterPiece (q :: qs) []) :=
        ⟨Or.inr ⟨' ', printPieces (q :: qs) ++ [], by simp [afterPiece], ⟨by decide, by decide⟩⟩, by
          simp [afterPiece, nextIsAngle, skipLC_cons_ne]⟩
      cases p with
      | assign n v =>
        obtain ⟨h0, h1, h2, h3, h4, h5⟩ := hp
        exact loop_assign n v _ h1 hn sp b k h0 h2 h3 h4 h5
      | word w =>
        obtain ⟨h1, h2, h3⟩ := hp
        exact loop_word w _ h1 hn sp b k h2 h3
      | redir fd op w =>
        obtain ⟨h1, h2⟩ := hp
        exact loop_redir fd h1 op w _ h2 hn sp b k
      | arrayAssign n ws =>
        obtain ⟨h0, h1, h2, h3, h4⟩ := hp
        exact loop_arrayAssign n ws _ h1 sp b k h0 h2 h3 h4

end YashModel.Syntax
