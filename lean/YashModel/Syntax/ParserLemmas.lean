/-
  C06 — lemmas about tokens, redirections and the simple-command loop on printed text.
-/
import YashModel.Syntax.FragmentLemmas
import YashModel.Syntax.Parser
namespace YashModel.Syntax

/-! ## decimal numbers -/

theorem digitChar_facts (d : Nat) (h : d < 10) :
    isAsciiDigit (Char.ofNat (48 + d)) = true ∧ (Char.ofNat (48 + d)).toNat - 48 = d := by
  have : d = 0 ∨ d = 1 ∨ d = 2 ∨ d = 3 ∨ d = 4 ∨ d = 5 ∨ d = 6 ∨ d = 7 ∨ d = 8 ∨ d = 9 := by omega
  rcases this with h | h | h | h | h | h | h | h | h | h <;> subst h <;> decide

theorem digitsValue_append (s : List Char) (c : Char) :
    digitsValue (s ++ [c]) = digitsValue s * 10 + (c.toNat - 48) := by
  simp [digitsValue, List.foldl_append]

theorem natDigits_spec : ∀ fuel n, n < fuel →
    (natDigits fuel n).all isAsciiDigit = true ∧ digitsValue (natDigits fuel n) = n ∧
      natDigits fuel n ≠ [] := by
  intro fuel
  induction fuel with
  | zero => intro n h; omega
  | succ f ih =>
    intro n h
    by_cases h10 : n < 10
    · have := digitChar_facts n h10
      simp [natDigits, h10, this.1, digitsValue, this.2]
    · have hq : n / 10 < f := by omega
      obtain ⟨a1, a2, a3⟩ := ih (n / 10) hq
      have := digitChar_facts (n % 10) (Nat.mod_lt _ (by decide))
      simp only [natDigits, h10, if_false]
      refine ⟨by simp [List.all_append, a1, this.1], ?_, by simp⟩
      rw [digitsValue_append, a2, this.2]
      omega

theorem printNat_spec (n : Nat) :
    (printNat n).all isAsciiDigit = true ∧ digitsValue (printNat n) = n ∧ printNat n ≠ [] :=
  natDigits_spec (n + 1) n (Nat.lt_succ_self n)

open YashModel.Generated.QuoteTables

/-! ## operators -/

theorem opTail_stop (y : Char) (t : List Char) (edges : List (Char × Op)) (d : Op)
    (hk : skipLC (y :: t) = y :: t) (hl : edges.lookup y = none) :
    opTail (y :: t) edges d = (d, y :: t) := by
  simp [opTail, hk, hl]

theorem opTail_hit (c : Char) (t : List Char) (edges : List (Char × Op)) (d o : Op)
    (hc : c ≠ '\\') (hl : edges.lookup c = some o) :
    opTail (c :: t) edges d = (o, t) := by
  simp [opTail, skipLC_cons_ne c t hc, hl]

/-- a character that cannot continue or start an operator -/
def NotOpChar (y : Char) : Prop := isOperatorChar y = false

theorem notOp_facts (y : Char) (h : NotOpChar y) :
    y ≠ '\n' ∧ y ≠ '&' ∧ y ≠ '(' ∧ y ≠ ')' ∧ y ≠ ';' ∧ y ≠ '<' ∧ y ≠ '>' ∧ y ≠ '|' := by
  unfold NotOpChar isOperatorChar operatorChars at h
  simp at h
  obtain ⟨a1, a2, a3, a4, a5, a6, a7, a8⟩ := h
  refine ⟨?_, ?_, ?_, ?_, ?_, ?_, ?_, ?_⟩ <;> intro e <;> subst e <;> simp_all

theorem lexOperator_none (y : Char) (t : List Char) (hk : skipLC (y :: t) = y :: t)
    (h : NotOpChar y) : lexOperator (y :: t) = none := by
  obtain ⟨a1, a2, a3, a4, a5, a6, a7, a8⟩ := notOp_facts y h
  simp [lexOperator, hk, a1, a2, a3, a4, a5, a6, a7, a8]

/-- `Operator::from(RedirOp)` -/
def opOfRedirOp : RedirOp → Op
  | .fileIn => .less | .fileInOut => .lessGreater | .fileOut => .greater
  | .fileAppend => .greaterGreater | .fileClobber => .greaterBar | .fdIn => .lessAnd
  | .fdOut => .greaterAnd | .pipe => .greaterGreaterBar | .string => .lessLessLess

theorem notOp_beq (y : Char) (h : NotOpChar y) :
    (y == '&') = false ∧ (y == '(') = false ∧ (y == '<') = false ∧ (y == '>') = false ∧
      (y == '|') = false ∧ (y == ';') = false := by
  obtain ⟨a1, a2, a3, a4, a5, a6, a7, a8⟩ := notOp_facts y h
  simp [a2, a3, a5, a6, a7, a8]

theorem lexOperator_redirOp (op : RedirOp) (y : Char) (t : List Char)
    (hk : skipLC (y :: t) = y :: t) (h : NotOpChar y) :
    lexOperator (op.str ++ y :: t) = some (opOfRedirOp op, y :: t) := by
  obtain ⟨b1, b2, b3, b4, b5, b6⟩ := notOp_beq y h
  cases op <;>
    simp [RedirOp.str, lexOperator, opTail, skipLC_cons_ne, hk, opOfRedirOp, List.lookup, b1, b2, b3,
      b4, b5, b6]

theorem lexOperator_heredoc (y : Char) (t : List Char)
    (hk : skipLC (y :: t) = y :: t) (h1 : y ≠ '-') (h2 : y ≠ '<') :
    lexOperator ('<' :: '<' :: y :: t) = some (.lessLess, y :: t) := by
  have b1 : (y == '-') = false := by simp [h1]
  have b2 : (y == '<') = false := by simp [h2]
  simp [lexOperator, opTail, skipLC_cons_ne, hk, List.lookup, h1, h2, b1, b2]

theorem lexOperator_heredoc_dash (t : List Char) :
    lexOperator ('<' :: '<' :: '-' :: t) = some (.lessLessDash, t) := by
  simp [lexOperator, opTail, skipLC_cons_ne, List.lookup]


/-! ## word tokens -/

theorem firstOk_token (y : Char) (h : FirstOk .token y) : NotOpChar y ∧ isBlank y = false := by
  rcases h with h | h | h | h | h | h
  any_goals (subst h; exact ⟨by unfold NotOpChar; decide, by decide⟩)
  simp [Delim.test, isTokenDelimiter] at h
  exact ⟨h.1, h.2⟩

/-- is the word a reserved word (`token_id`)? -/
def isKeywordWord (w : Word) : Bool := ((wordLiteral w).map isKeyword).getD false

/-- a word that is printed as a token of its own -/
structure TokWordOk (w : Word) (next : List Char) : Prop where
  ok : WordUnits.Ok .word .token w next
  nonempty : w ≠ []
  noTilde : NoTildeFront w
  noComment : (printWord w).head? ≠ some '#'

/-- what follows a printed token: a delimiter that is not `<` or `>` -/
structure NextOk (next : List Char) : Prop where
  ends : next = [] ∨ ∃ x r, next = x :: r ∧ Delim.token.Ends x
  noAngle : nextIsAngle next = false

theorem printWord_ne_nil (ctx : Ctx) (d : Delim) (w : List WordUnit) (next : List Char)
    (h : WordUnits.Ok ctx d w next) (hne : w ≠ []) : printWord w ≠ [] := by
  cases w with
  | nil => exact absurd rfl hne
  | cons u us =>
    simp only [WordUnits.Ok] at h
    obtain ⟨y, t, e, _, _⟩ := printWordUnit_head ctx d u _ h.1
    simp [printWord, e]

theorem skipComment_id (y : Char) (t : List Char) (hk : skipLC (y :: t) = y :: t) (hy : y ≠ '#') :
    skipComment (y :: t) = y :: t := by
  simp [skipComment, hk, hy]

theorem lexToken_word_gen (w : Word) (next : List Char) (hw : TokWordOk w next)
    (hends : ∃ x r, next = x :: r ∧ Delim.token.Ends x) (sp : Bool) :
    lexToken ((if sp then [' '] else []) ++ (printWord w ++ next)) =
      some (⟨w, tokenId w next⟩, next) := by
  obtain ⟨x, r, rfl, hx⟩ := hends
  have hne := printWord_ne_nil _ _ w _ hw.ok hw.nonempty
  obtain ⟨y, t, e, hy, hk⟩ := printWord_head_ok .word .token w _ hw.ok hne
  have hk' := hk (x :: r)
  obtain ⟨hop, hbl⟩ := firstOk_token y hy
  have hyc : y ≠ '#' := by
    intro e'; apply hw.noComment; simp [e, e']
  have hwl := word_self_delimiting_full .token w x r hw.ok hx
  have hlen : 2 ≤ ((if sp then [' '] else []) ++ y :: (t ++ x :: r)).length := by
    cases sp <;> simp <;> omega
  have hsb := skipBlanks_pre sp y (t ++ x :: r) (by simpa using hk') hbl _ hlen
  have hin : (if sp then [' '] else []) ++ (printWord w ++ x :: r) =
      (if sp then [' '] else []) ++ y :: (t ++ x :: r) := by simp [e]
  have hwl' : lexWord .token (y :: (t ++ x :: r)) = some (w, x :: r) := by
    rw [← hwl, e]; simp
  unfold lexToken
  simp only []
  rw [hin, hsb, skipComment_id y _ (by simpa using hk') hyc,
    lexOperator_none y _ (by simpa using hk') hop, hwl']
  simp [parseTildeFront_id w hw.noTilde]

theorem lexWordUnit_eof (ctx : Ctx) (d : Delim) (k : Nat) : lexWordUnit (k + 1) ctx d [] = .none [] := by
  simp [lexWordUnit, skipLC]

/-- the outermost list of word units at the end of input (inner lists end at `}` / `"`) -/
theorem wordUnits_eof (ctx : Ctx) (d : Delim) : ∀ (w : List WordUnit) (n : Nat), WordUnits.Ok ctx d w [] →
    (printWord w).length + 4 ≤ n → lexWordUnits n ctx d (printWord w) = some (w, []) := by
  intro w
  induction w with
  | nil =>
    intro n _ hf
    obtain ⟨k, rfl⟩ : ∃ k, n = k + 2 := ⟨n - 2, by simp [printWord] at hf; omega⟩
    simp [printWord, lexWordUnits, lexWordUnit_eof]
  | cons u us ih =>
    intro n h hf
    obtain ⟨k, rfl⟩ : ∃ k, n = k + 1 := ⟨n - 1, by omega⟩
    simp only [WordUnits.Ok] at h
    rw [printWord_cons] at hf ⊢
    simp only [List.length_append] at hf
    obtain ⟨y, tl, ey, _, _⟩ := printWordUnit_head ctx d u _ h.1
    have hpos : 1 ≤ (printWordUnit u).length := by simp [ey]
    have h1 := (lex_all k).2.2.2.1 ctx d u (printWord us ++ []) h.1 (by omega)
    have h2 := ih k h.2 (by omega)
    simp only [List.append_nil] at h1
    simp only [lexWordUnits, h1, h2]

theorem word_eof (d : Delim) (w : Word) (h : WordUnits.Ok .word d w []) :
    lexWord d (printWord w) = some (w, []) := by
  unfold lexWord
  exact wordUnits_eof .word d w _ h (by omega)


theorem lexToken_word_eof (w : Word) (hw : TokWordOk w []) (sp : Bool) :
    lexToken ((if sp then [' '] else []) ++ printWord w) = some (⟨w, .word (isKeywordWord w)⟩, []) := by
  have hne := printWord_ne_nil _ _ w _ hw.ok hw.nonempty
  obtain ⟨y, t, e, hy, hk⟩ := printWord_head_ok .word .token w _ hw.ok hne
  have hk' := hk []
  obtain ⟨hop, hbl⟩ := firstOk_token y hy
  have hyc : y ≠ '#' := by
    intro e'; apply hw.noComment; simp [e, e']
  have hwl := word_eof .token w hw.ok
  have hlen : 2 ≤ ((if sp then [' '] else []) ++ y :: t).length + 1 := by
    cases sp <;> simp
  have hin : (if sp then [' '] else []) ++ printWord w = (if sp then [' '] else []) ++ y :: t := by simp [e]
  have hsb : skipBlanks ((if sp then [' '] else []) ++ y :: t).length ((if sp then [' '] else []) ++ y :: t) = y :: t := by
    cases sp with
    | false => simpa using skipBlanks_stop y t (by simpa using hk') hbl _
    | true =>
      have := skipBlanks_pre true y t (by simpa using hk') hbl (([' '] ++ y :: t).length) (by simp)
      simpa using this
  have hwl' : lexWord .token (y :: t) = some (w, []) := by rw [← hwl, e]
  have hwe : w.isEmpty = false := by
    cases w with
    | nil => exact absurd rfl hw.nonempty
    | cons _ _ => rfl
  unfold lexToken
  simp only []
  rw [hin, hsb, skipComment_id y _ (by simpa using hk') hyc,
    lexOperator_none y _ (by simpa using hk') hop, hwl']
  simp [parseTildeFront_id w hw.noTilde, tokenId, hwe, nextIsAngle, skipLC, isKeywordWord]
  cases hkw : ((wordLiteral w).map isKeyword).getD false <;> simp

theorem lexToken_word (w : Word) (next : List Char) (hw : TokWordOk w next) (hn : NextOk next)
    (sp : Bool) :
    lexToken ((if sp then [' '] else []) ++ (printWord w ++ next)) =
      some (⟨w, .word (isKeywordWord w)⟩, next) := by
  rcases hn.ends with rfl | hends
  · simpa using lexToken_word_eof w hw sp
  rw [lexToken_word_gen w next hw hends sp]
  have hwe : w.isEmpty = false := by
    cases w with
    | nil => exact absurd rfl hw.nonempty
    | cons _ _ => rfl
  simp [tokenId, hwe, hn.noAngle, isKeywordWord]
  cases hkw : ((wordLiteral w).map isKeyword).getD false <;> simp


/-! ## redirections -/

/-- token that starts with `<` or `>` -/
theorem lexToken_op (c : Char) (body : List Char) (hc : c = '<' ∨ c = '>') (o : Op) (r : List Char)
    (ho : lexOperator (c :: body) = some (o, r)) (sp : Bool) :
    lexToken ((if sp then [' '] else []) ++ c :: body) = some (⟨[], .op o⟩, r) := by
  have hcb : c ≠ '\\' ∧ isBlank c = false ∧ c ≠ '#' := by
    rcases hc with e | e <;> subst e <;> exact ⟨by decide, by decide, by decide⟩
  have hk := skipLC_cons_ne c body hcb.1
  have hlen : 2 ≤ ((if sp then [' '] else []) ++ c :: body).length ∨ sp = false := by
    cases sp <;> simp
  unfold lexToken
  simp only []
  have hsb : skipBlanks ((if sp then [' '] else []) ++ c :: body).length
      ((if sp then [' '] else []) ++ c :: body) = c :: body := by
    cases sp with
    | false => simpa using skipBlanks_stop c body hk hcb.2.1 _
    | true =>
      have := skipBlanks_pre true c body hk hcb.2.1 (([' '] ++ c :: body).length) (by simp)
      simpa using this
  rw [hsb, skipComment_id c body hk hcb.2.2, ho]

/-- the digits of a file descriptor as a word -/
def digitsWord (s : List Char) : Word := s.map fun c => .unquoted (.literal c)

theorem printWord_digitsWord (s : List Char) : printWord (digitsWord s) = s := by
  induction s with
  | nil => simp [digitsWord, printWord]
  | cons c s ih =>
    simp only [digitsWord, List.map_cons] at ih ⊢
    simp [printWord, printWordUnit, printTextUnit, ih]

theorem wordLiteral_digitsWord (s : List Char) : wordLiteral (digitsWord s) = some s := by
  induction s with
  | nil => simp [digitsWord, wordLiteral]
  | cons c s ih =>
    simp only [digitsWord, List.map_cons] at ih ⊢
    simp [wordLiteral, ih]

theorem digit_plain (c : Char) (h : isAsciiDigit c = true) :
    c ≠ '\\' ∧ c ≠ '$' ∧ c ≠ '`' ∧ Delim.token.test c = false ∧ c ≠ '"' ∧ c ≠ '\'' ∧ c ≠ '~' ∧
      c ≠ '#' := by
  simp only [isAsciiDigit, Bool.and_eq_true, decide_eq_true_eq] at h
  obtain ⟨h1, h2⟩ := h
  have hr : 48 ≤ c.toNat ∧ c.toNat ≤ 57 := ⟨h1, h2⟩
  have hne : ∀ x : Char, (x.toNat < 48 ∨ 57 < x.toNat) → c ≠ x := by
    intro x hx e; subst e; omega
  refine ⟨hne _ (by decide), hne _ (by decide), hne _ (by decide), ?_, hne _ (by decide),
    hne _ (by decide), hne _ (by decide), hne _ (by decide)⟩
  simp only [Delim.test, isTokenDelimiter, isOperatorChar, operatorChars, isBlank, isWhitespace,
    whitespaceRanges, blankExcluded]
  simp only [List.contains_cons, List.contains_nil, List.any_cons, List.any_nil, Bool.or_false,
    Bool.or_eq_false_iff, beq_eq_false_iff_ne, ne_eq, Bool.and_eq_false_imp]
  refine ⟨⟨hne _ (by decide), hne _ (by decide), hne _ (by decide), hne _ (by decide),
    hne _ (by decide), hne _ (by decide), hne _ (by decide), hne _ (by decide)⟩, ?_⟩
  intro _
  simp
  omega


theorem digitsWord_ok (s : List Char) (hs : s.all isAsciiDigit = true) (next : List Char) :
    WordUnits.Ok .word .token (digitsWord s) next := by
  induction s with
  | nil => simp [digitsWord, WordUnits.Ok]
  | cons c s ih =>
    simp only [List.all_cons, Bool.and_eq_true] at hs
    obtain ⟨h1, h2, h3, h4, h5, h6, _, _⟩ := digit_plain c hs.1
    have := ih hs.2
    simp only [digitsWord, List.map_cons] at this ⊢
    simp only [WordUnits.Ok, WordUnit.Ok, TextUnit.Ok, UnquotedOk]
    exact ⟨⟨⟨h1, h2, h3, h4⟩, h5, fun _ => h6⟩, this⟩

theorem isKeyword_digits (s : List Char) (hs : s.all isAsciiDigit = true) : isKeyword s = false := by
  cases s with
  | nil => decide
  | cons c t =>
    simp only [List.all_cons, Bool.and_eq_true] at hs
    have hc := hs.1
    simp only [isKeyword, keywords, List.contains_cons, List.contains_nil, Bool.or_false,
      Bool.or_eq_false_iff]
    refine ⟨?_, ?_, ?_, ?_, ?_, ?_, ?_, ?_, ?_, ?_, ?_, ?_, ?_, ?_, ?_, ?_, ?_, ?_, ?_, ?_, ?_⟩ <;>
    · apply beq_eq_false_iff_ne.mpr
      intro e
      injection e with e1 _
      subst e1
      revert hc
      decide

/-- conditions on a file descriptor number -/
def FdOk : Option Nat → Prop
  | none => True
  | some n => n ≤ 2147483647

/-- the optional IO_NUMBER in front of a redirection operator -/
theorem parseRedir_fd (fd : Option Nat) (hfd : FdOk fd) (c : Char) (body : List Char)
    (hc : c = '<' ∨ c = '>') (o : Op) (r : List Char) (ho : lexOperator (c :: body) = some (o, r))
    (sp : Bool) :
    parseRedir ((if sp then [' '] else []) ++ (printFd fd ++ c :: body)) =
      parseRedirBody fd ((if fd.isSome then [] else if sp then [' '] else []) ++ c :: body) := by
  cases fd with
  | none =>
    simp only [printFd, List.nil_append, Option.isSome_none, Bool.false_eq_true, if_false]
    unfold parseRedir
    rw [lexToken_op c body hc o r ho sp]
  | some n =>
    obtain ⟨d1, d2, d3⟩ := printNat_spec n
    have hn : n ≤ 2147483647 := hfd
    have hcE : Delim.token.Ends c := by
      rcases hc with e | e <;> subst e <;> exact ⟨by decide, by decide⟩
    have hwok : TokWordOk (digitsWord (printNat n)) (c :: body) := by
      refine ⟨digitsWord_ok _ d1 _, ?_, ?_, ?_⟩
      · cases hp : printNat n with
        | nil => exact absurd hp d3
        | cons x xs => simp [digitsWord]
      · cases hp : printNat n with
        | nil => exact absurd hp d3
        | cons x xs =>
          rw [hp] at d1
          simp only [List.all_cons, Bool.and_eq_true] at d1
          have := (digit_plain x d1.1).2.2.2.2.2.2.1
          simp [digitsWord, NoTildeFront, this]
      · rw [printWord_digitsWord]
        cases hp : printNat n with
        | nil => exact absurd hp d3
        | cons x xs =>
          rw [hp] at d1
          simp only [List.all_cons, Bool.and_eq_true] at d1
          have := (digit_plain x d1.1).2.2.2.2.2.2.2
          simp [this]
    have ht := lexToken_word_gen (digitsWord (printNat n)) (c :: body) hwok ⟨c, body, rfl, hcE⟩ sp
    rw [printWord_digitsWord] at ht
    have hna : nextIsAngle (c :: body) = true := by
      rcases hc with e | e <;> subst e <;> simp [nextIsAngle, skipLC_cons_ne]
    have hwe : (digitsWord (printNat n)).isEmpty = false := by
      cases hp : printNat n with
      | nil => exact absurd hp d3
      | cons x xs => simp [digitsWord]
    have hid : tokenId (digitsWord (printNat n)) (c :: body) = .ioNumber := by
      simp [tokenId, hwe, wordLiteral_digitsWord, isKeyword_digits _ d1, d1, hna]
    simp only [printFd, Option.isSome_some, if_true, List.nil_append]
    unfold parseRedir
    rw [ht, hid]
    simp [fdOf, wordLiteral_digitsWord, d2, hn]


theorem redirOp_str_head (op : RedirOp) :
    ∃ c tl, op.str = c :: tl ∧ (c = '<' ∨ c = '>') := by
  cases op <;> simp [RedirOp.str]

theorem redirOpOf_opOf (op : RedirOp) : redirOpOf (opOfRedirOp op) = some op := by
  cases op <;> rfl

theorem parseOperand_word (w : Word) (next : List Char) (hw : TokWordOk w next) (hn : NextOk next)
    (sp : Bool) :
    parseOperand ((if sp then [' '] else []) ++ (printWord w ++ next)) = some (w, next) := by
  unfold parseOperand
  rw [lexToken_word w next hw hn sp]

/-- first character of a printed token word, with what the operator lexer needs to know -/
theorem tokWord_head (w : Word) (next : List Char) (hw : TokWordOk w next) :
    ∃ y t, printWord w = y :: t ∧ NotOpChar y ∧ ∀ X, skipLC (y :: t ++ X) = y :: t ++ X := by
  have hne := printWord_ne_nil _ _ w _ hw.ok hw.nonempty
  obtain ⟨y, t, e, hy, hk⟩ := printWord_head_ok .word .token w _ hw.ok hne
  exact ⟨y, t, e, (firstOk_token y hy).1, hk⟩

theorem parseRedirBody_normal (fd : Option Nat) (op : RedirOp) (w : Word) (next : List Char)
    (hw : TokWordOk w next) (hn : NextOk next) (sp : Bool) :
    parseRedirBody fd ((if sp then [' '] else []) ++ (op.str ++ (printWord w ++ next))) =
      some (some (.normal fd op w), next) := by
  obtain ⟨y, t, e, hy, hk⟩ := tokWord_head w next hw
  obtain ⟨c, tl, ec, hc⟩ := redirOp_str_head op
  have ho : lexOperator (op.str ++ y :: (t ++ next)) = some (opOfRedirOp op, y :: (t ++ next)) :=
    lexOperator_redirOp op y _ (by simpa using hk next) hy
  have hin : op.str ++ (printWord w ++ next) = c :: (tl ++ y :: (t ++ next)) := by simp [ec, e]
  rw [ec] at ho
  have hop := parseOperand_word w next hw hn false
  simp only [Bool.false_eq_true, if_false, List.nil_append, e] at hop
  unfold parseRedirBody
  rw [hin, lexToken_op c _ hc _ _ (by simpa using ho) sp]
  simp only [redirOpOf_opOf]
  simp only [List.cons_append] at hop
  rw [hop]
  rfl

/-- `impl Display for Redir` on a normal redirection reads back -/
theorem parseRedir_normal (fd : Option Nat) (hfd : FdOk fd) (op : RedirOp) (w : Word)
    (next : List Char) (hw : TokWordOk w next) (hn : NextOk next) (sp : Bool) :
    parseRedir ((if sp then [' '] else []) ++ (printRedir (.normal fd op w) ++ next)) =
      some (some (.normal fd op w), next) := by
  obtain ⟨y, t, e, hy, hk⟩ := tokWord_head w next hw
  obtain ⟨c, tl, ec, hc⟩ := redirOp_str_head op
  have ho : lexOperator (op.str ++ y :: (t ++ next)) = some (opOfRedirOp op, y :: (t ++ next)) :=
    lexOperator_redirOp op y _ (by simpa using hk next) hy
  rw [ec] at ho
  have hin : printRedir (.normal fd op w) ++ next = printFd fd ++ c :: (tl ++ (printWord w ++ next)) := by
    simp [printRedir, ec]
  rw [hin, parseRedir_fd fd hfd c _ hc (opOfRedirOp op) (y :: (t ++ next)) (by simpa [e] using ho) sp]
  have := parseRedirBody_normal fd op w next hw hn (if fd.isSome then false else sp)
  rw [ec] at this
  cases hfs : fd.isSome <;> simp [hfs] at this ⊢ <;> exact this


/-- operators that do not start a redirection -/
def Op.plain (o : Op) : Bool :=
  (redirOpOf o).isNone && o != .lessLess && o != .lessLessDash && o != .lessOpenParen &&
    o != .greaterOpenParen && o != .openParen

theorem opTail_plain (r : List Char) (edges : List (Char × Op)) (d : Op) (hd : d.plain = true)
    (he : ∀ p ∈ edges, p.2.plain = true) : (opTail r edges d).1.plain = true := by
  unfold opTail
  cases skipLC r with
  | nil => simpa using hd
  | cons c r' =>
    cases hl : edges.lookup c with
    | none => simp only [hl]; exact hd
    | some o =>
      have : (c, o) ∈ edges := by
        induction edges with
        | nil => simp at hl
        | cons p ps ih =>
          obtain ⟨a, b⟩ := p
          simp only [List.lookup] at hl
          by_cases hca : c = a
          · subst hca
            simp at hl
            subst hl
            simp
          · have hne : (c == a) = false := by simp [hca]
            simp only [hne] at hl
            exact List.mem_cons_of_mem _ (ih (fun q hq => he q (List.mem_cons_of_mem _ hq)) hl)
      simp only [hl]
      exact he _ this

/-- command terminators -/
def TermOk (e : Char) : Prop := e = ';' ∨ e = '&' ∨ e = '|' ∨ e = ')' ∨ e = '\n'

theorem lexOperator_term (e : Char) (he : TermOk e) (rest : List Char) :
    ∃ x, lexOperator (e :: rest) = some x ∧ x.1.plain = true := by
  rcases he with h | h | h | h | h <;> subst h
  · have h1 := opTail_plain rest [('&', Op.semicolonAnd), (';', .semicolonSemicolon), ('|', .semicolonBar)]
      .semicolon (by decide) (by decide)
    have h2 := fun r => opTail_plain r [('&', Op.semicolonSemicolonAnd)] .semicolonSemicolon (by decide)
      (by decide)
    simp only [lexOperator, skipLC_cons_ne ';' rest (by decide)]
    simp only [show (';' : Char) ≠ '\n' from by decide, show (';' : Char) ≠ '&' from by decide,
      show (';' : Char) ≠ '(' from by decide, show (';' : Char) ≠ ')' from by decide, if_false, if_true]
    split
    · exact ⟨_, rfl, h2 _⟩
    · exact ⟨_, rfl, h1⟩
  · exact ⟨_, by simp [lexOperator, skipLC_cons_ne],
      opTail_plain rest [('&', Op.andAnd)] .and (by decide) (by decide)⟩
  · exact ⟨_, by simp [lexOperator, skipLC_cons_ne],
      opTail_plain rest [('|', Op.barBar)] .bar (by decide) (by decide)⟩
  · exact ⟨(.closeParen, rest), by simp [lexOperator, skipLC_cons_ne], rfl⟩
  · exact ⟨(.newline, rest), by simp [lexOperator, skipLC_cons_ne], rfl⟩


/-! ## the simple-command loop -/

theorem term_facts (e : Char) (he : TermOk e) : e ≠ '\\' ∧ isBlank e = false ∧ e ≠ '#' := by
  rcases he with h | h | h | h | h <;> subst h <;> exact ⟨by decide, by decide, by decide⟩

theorem lexToken_term (e : Char) (he : TermOk e) (rest : List Char) :
    ∃ o r, lexToken (e :: rest) = some (⟨[], .op o⟩, r) ∧ o.plain = true := by
  obtain ⟨h1, h2, h3⟩ := term_facts e he
  obtain ⟨x, hx, hp⟩ := lexOperator_term e he rest
  have hk := skipLC_cons_ne e rest h1
  refine ⟨x.1, x.2, ?_, hp⟩
  unfold lexToken
  simp only []
  rw [skipBlanks_stop e rest hk h2, skipComment_id e rest hk h3, hx]

theorem parseRedirBody_plain (fd : Option Nat) (cs : List Char) (o : Op) (r : List Char)
    (h : lexToken cs = some (⟨[], .op o⟩, r)) (hp : o.plain = true) :
    parseRedirBody fd cs = some (none, cs) := by
  unfold parseRedirBody
  rw [h]
  simp only [Op.plain, Bool.and_eq_true, Option.isNone_iff_eq_none, bne_iff_ne, ne_eq] at hp
  obtain ⟨⟨⟨⟨p1, p2⟩, p3⟩, p4⟩, p5⟩ := hp
  simp [p1, p2, p3, p4, p5]

theorem loop_term (e : Char) (he : TermOk e) (rest : List Char) (b : Builder) (fuel : Nat) :
    parseSimpleLoop (fuel + 1) b (e :: rest) = some (b, e :: rest) := by
  obtain ⟨o, r, ht, hp⟩ := lexToken_term e he rest
  have hr : parseRedir (e :: rest) = some (none, e :: rest) := by
    unfold parseRedir
    rw [ht]
    exact parseRedirBody_plain none _ o r ht hp
  simp [parseSimpleLoop, hr, ht]

/-- a word token is not a redirection -/
theorem parseRedir_word (w : Word) (next : List Char) (hw : TokWordOk w next) (hn : NextOk next)
    (sp : Bool) :
    parseRedir ((if sp then [' '] else []) ++ (printWord w ++ next)) =
      some (none, (if sp then [' '] else []) ++ (printWord w ++ next)) := by
  have ht := lexToken_word w next hw hn sp
  unfold parseRedir
  rw [ht]
  simp only []
  unfold parseRedirBody
  rw [ht]

theorem loop_word (w : Word) (next : List Char) (hw : TokWordOk w next) (hn : NextOk next)
    (sp : Bool) (b : Builder) (fuel : Nat)
    (h1 : b.words = [] → assignOf w = none ∧ (isKeywordWord w = true → b.isEmpty = false))
    (h2 : b.words ≠ [] → (hasUnquotedTilde w && (assignOf w).isSome) = false) :
    parseSimpleLoop (fuel + 1) b ((if sp then [' '] else []) ++ (printWord w ++ next)) =
      parseSimpleLoop fuel { b with words := b.words ++ [w] } next := by
  have ht := lexToken_word w next hw hn sp
  have hr := parseRedir_word w next hw hn sp
  by_cases hbw : b.words = []
  · obtain ⟨ha, hk⟩ := h1 hbw
    have hkb : (isKeywordWord w && b.isEmpty) = false := by
      cases hkw : isKeywordWord w with
      | false => simp
      | true => simp [hk hkw]
    simp [parseSimpleLoop, hr, ht, hkb, hbw, ha]
  · have hbe : b.isEmpty = false := by
      cases hws : b.words with
      | nil => exact absurd hws hbw
      | cons x xs => simp [Builder.isEmpty, hws]
    have hwe : b.words.isEmpty = false := by
      cases hws : b.words with
      | nil => exact absurd hws hbw
      | cons x xs => rfl
    simp [parseSimpleLoop, hr, ht, hbe, hwe, h2 hbw]

theorem loop_redir (fd : Option Nat) (hfd : FdOk fd) (op : RedirOp) (w : Word) (next : List Char)
    (hw : TokWordOk w next) (hn : NextOk next) (sp : Bool) (b : Builder) (fuel : Nat) :
    parseSimpleLoop (fuel + 1) b
        ((if sp then [' '] else []) ++ (printRedir (.normal fd op w) ++ next)) =
      parseSimpleLoop fuel { b with redirs := b.redirs ++ [.normal fd op w] } next := by
  simp [parseSimpleLoop, parseRedir_normal fd hfd op w next hw hn sp]


/-- the word token `name=value` -/
def assignWord (n : List Char) (v : Word) : Word := digitsWord n ++ .unquoted (.literal '=') :: v

theorem printWord_append (a b : Word) : printWord (a ++ b) = printWord a ++ printWord b := by
  induction a with
  | nil => simp [printWord]
  | cons u us ih => simp [printWord, ih]

theorem printWord_assignWord (n : List Char) (v : Word) :
    printWord (assignWord n v) = n ++ '=' :: printWord v := by
  simp [assignWord, printWord_append, printWord_digitsWord, printWord, printWordUnit, printTextUnit]

theorem splitAssign_assignWord (n : List Char) (v : Word) (h : '=' ∉ n) :
    splitAssign (assignWord n v) = some (n, v) := by
  induction n with
  | nil => simp [assignWord, digitsWord, splitAssign]
  | cons c n ih =>
    have hc : c ≠ '=' := by intro e; apply h; simp [e]
    have hn : '=' ∉ n := by intro e; apply h; simp [e]
    have := ih hn
    simp only [assignWord, digitsWord, List.map_cons, List.cons_append] at this ⊢
    simp [splitAssign, hc, this]

theorem assignOf_assignWord (n : List Char) (v : Word) (h : '=' ∉ n) (hne : n ≠ []) :
    assignOf (assignWord n v) = some (n, v) := by
  cases n with
  | nil => exact absurd rfl hne
  | cons c n => simp [assignOf, splitAssign_assignWord _ v h]

theorem wordLiteral_assignWord (n : List Char) (v : Word) :
    wordLiteral (assignWord n v) = (wordLiteral v).map fun s => n ++ '=' :: s := by
  induction n with
  | nil =>
    simp only [assignWord, digitsWord, List.map_nil, List.nil_append, wordLiteral]
  | cons c n ih =>
    simp only [assignWord, digitsWord, List.map_cons, List.cons_append] at ih ⊢
    simp only [wordLiteral, ih]
    cases wordLiteral v <;> simp

theorem isKeyword_has_eq (s : List Char) (h : '=' ∈ s) : isKeyword s = false := by
  have hk : ∀ k ∈ keywords, '=' ∉ k := by decide
  cases hs : isKeyword s with
  | false => rfl
  | true =>
    have : s ∈ keywords := by simpa [isKeyword] using hs
    exact absurd h (hk s this)

theorem isKeywordWord_assignWord (n : List Char) (v : Word) : isKeywordWord (assignWord n v) = false := by
  simp only [isKeywordWord, wordLiteral_assignWord]
  cases wordLiteral v with
  | none => simp
  | some s => simp [isKeyword_has_eq]

theorem loop_assign (n : List Char) (v : Word) (next : List Char)
    (hw : TokWordOk (assignWord n v) next) (hn : NextOk next) (sp : Bool) (b : Builder) (fuel : Nat)
    (hb : b.words = []) (h1 : '=' ∉ n) (h2 : n ≠ []) (h3 : hasUnquotedTilde v = false)
    (h4 : (v.isEmpty && arrayFollows next) = false) :
    parseSimpleLoop (fuel + 1) b ((if sp then [' '] else []) ++ ((n ++ '=' :: printWord v) ++ next)) =
      parseSimpleLoop fuel { b with assigns := b.assigns ++ [⟨n, .scalar v⟩] } next := by
  rw [← printWord_assignWord]
  have ht := lexToken_word _ next hw hn sp
  have hr := parseRedir_word _ next hw hn sp
  simp [parseSimpleLoop, hr, ht, isKeywordWord_assignWord, hb, assignOf_assignWord n v h1 h2, h3, h4]


/-! ## Array assignments `name=(w₁ … wₙ)` -/

theorem lexToken_op_char (e : Char) (tail : List Char) (o : Op) (he : e ≠ '\\' ∧ isBlank e = false ∧ e ≠ '#')
    (ho : lexOperator (e :: tail) = some (o, tail)) (sp : Bool) :
    lexToken ((if sp then [' '] else []) ++ e :: tail) = some (⟨[], .op o⟩, tail) := by
  have hk := skipLC_cons_ne e tail he.1
  have hsb : skipBlanks ((if sp then [' '] else []) ++ e :: tail).length
      ((if sp then [' '] else []) ++ e :: tail) = e :: tail := by
    cases sp with
    | false => simpa using skipBlanks_stop e tail hk he.2.1 _
    | true =>
      have := skipBlanks_pre true e tail hk he.2.1 (([' '] ++ e :: tail).length) (by simp)
      simpa using this
  unfold lexToken
  simp only []
  rw [hsb, skipComment_id e tail hk he.2.2, ho]

/-- the printed words of an array value -/
def printArrayWords (ws : List Word) : List Char := joinWith [' '] (ws.map printWord)

/-- the words of an array value, given the text after the closing parenthesis -/
def ArrWordsOk : List Word → List Char → Prop
  | [], _ => True
  | [w], next => TokWordOk w (')' :: next)
  | w :: v :: ws, next => TokWordOk w (' ' :: (printArrayWords (v :: ws) ++ ')' :: next)) ∧ ArrWordsOk (v :: ws) next

theorem nextOk_rparen (x : List Char) : NextOk (')' :: x) :=
  ⟨Or.inr ⟨')', x, rfl, ⟨by decide, by decide⟩⟩, by simp [nextIsAngle, skipLC_cons_ne]⟩

theorem nextOk_space (x : List Char) : NextOk (' ' :: x) :=
  ⟨Or.inr ⟨' ', x, rfl, ⟨by decide, by decide⟩⟩, by simp [nextIsAngle, skipLC_cons_ne]⟩

theorem printArrayWords_cons2 (w v : Word) (ws : List Word) :
    printArrayWords (w :: v :: ws) = printWord w ++ ' ' :: printArrayWords (v :: ws) := by
  simp [printArrayWords, joinWith]

/-- `Parser::array_values` after the opening parenthesis reads the printed words back -/
theorem arrWords_rt (next : List Char) :
    ∀ (ws : List Word) (fuel : Nat) (sp : Bool), ws.length + 1 ≤ fuel → (ws = [] → sp = false) →
      ArrWordsOk ws next →
      parseArrayWords fuel ((if sp then [' '] else []) ++ (printArrayWords ws ++ ')' :: next)) = some (ws, next) := by
  intro ws
  induction ws with
  | nil =>
    intro fuel sp hf hsp _
    obtain ⟨k, rfl⟩ : ∃ k, fuel = k + 1 := ⟨fuel - 1, by simp at hf; omega⟩
    have hl := lexToken_op_char ')' next .closeParen ⟨by decide, by decide, by decide⟩
      (by simp [lexOperator, skipLC_cons_ne]) false
    simp only [Bool.false_eq_true, if_false, List.nil_append] at hl
    simp [hsp rfl, printArrayWords, joinWith, parseArrayWords, hl]
  | cons w ws ih =>
    intro fuel sp hf _ hok
    obtain ⟨k, rfl⟩ : ∃ k, fuel = k + 1 := ⟨fuel - 1, by simp at hf; omega⟩
    cases ws with
    | nil =>
      have hw : TokWordOk w (')' :: next) := hok
      have ht := lexToken_word w _ hw (nextOk_rparen next) sp
      have hl := lexToken_op_char ')' next .closeParen ⟨by decide, by decide, by decide⟩
        (by simp [lexOperator, skipLC_cons_ne]) false
      simp only [Bool.false_eq_true, if_false, List.nil_append] at hl
      obtain ⟨j, rfl⟩ : ∃ j, k = j + 1 := ⟨k - 1, by simp at hf; omega⟩
      simp [printArrayWords, joinWith, parseArrayWords, ht, hl]
    | cons v vs =>
      obtain ⟨hw, hrest⟩ := hok
      have ht := lexToken_word w _ hw (nextOk_space _) sp
      have ih' := ih k true (by simp at hf ⊢; omega) (by intro e; cases e) hrest
      simp only [if_true, List.singleton_append] at ih'
      rw [printArrayWords_cons2]
      simp only [List.append_assoc, List.cons_append]
      rw [parseArrayWords]
      rw [ht]
      simp [ih']

theorem arrWords_length (next : List Char) : ∀ ws : List Word, ArrWordsOk ws next →
    ws.length ≤ (printArrayWords ws).length := by
  intro ws
  induction ws with
  | nil => intro _; simp
  | cons w ws ih =>
    intro h
    cases ws with
    | nil =>
      have hw : TokWordOk w (')' :: next) := h
      have := printWord_ne_nil _ _ w _ hw.ok hw.nonempty
      cases hp : printWord w with
      | nil => exact absurd hp this
      | cons _ _ => simp [printArrayWords, joinWith, hp]
    | cons v vs =>
      have := ih h.2
      rw [printArrayWords_cons2]
      simp only [List.length_cons, List.length_append] at this ⊢
      omega

/-- the text of an array assignment -/
def printArrayAssign (n : List Char) (ws : List Word) : List Char :=
  n ++ '=' :: '(' :: (printArrayWords ws ++ [')'])

theorem loop_arrayAssign (n : List Char) (ws : List Word) (next : List Char)
    (hw : TokWordOk (assignWord n []) ('(' :: (printArrayWords ws ++ ')' :: next)))
    (sp : Bool) (b : Builder) (fuel : Nat)
    (hb : b.words = []) (h1 : '=' ∉ n) (h2 : n ≠ []) (hws : ArrWordsOk ws next) :
    parseSimpleLoop (fuel + 1) b ((if sp then [' '] else []) ++ (printArrayAssign n ws ++ next)) =
      parseSimpleLoop fuel { b with assigns := b.assigns ++ [⟨n, .array ws⟩] } next := by
  have hn : NextOk ('(' :: (printArrayWords ws ++ ')' :: next)) :=
    ⟨Or.inr ⟨'(', _, rfl, ⟨by decide, by decide⟩⟩, by simp [nextIsAngle, skipLC_cons_ne]⟩
  have ht := lexToken_word _ _ hw hn sp
  have hr := parseRedir_word _ _ hw hn sp
  rw [printWord_assignWord] at ht hr
  simp only [printWord, List.append_assoc, List.cons_append, List.nil_append] at ht hr
  have hlp := lexToken_op_char '(' (printArrayWords ws ++ ')' :: next) .openParen
    ⟨by decide, by decide, by decide⟩ (by simp [lexOperator, skipLC_cons_ne]) false
  simp only [Bool.false_eq_true, if_false, List.nil_append] at hlp
  have hlen := arrWords_length next ws hws
  have ha := arrWords_rt next ws ((printArrayWords ws ++ ')' :: next).length + 2) false
    (by simp only [List.length_append, List.length_cons]; omega) (fun _ => rfl) hws
  simp only [Bool.false_eq_true, if_false, List.nil_append, List.length_append, List.length_cons] at ha
  have hx : printArrayAssign n ws ++ next = n ++ '=' :: '(' :: (printArrayWords ws ++ ')' :: next) := by
    simp [printArrayAssign]
  rw [hx]
  simp [parseSimpleLoop, hr, ht, isKeywordWord_assignWord, hb, assignOf_assignWord n [] h1 h2, hasUnquotedTilde,
    arrayFollows, skipLC_cons_ne, hlp, ha]

/-- the printed pieces of a simple command -/
inductive Piece
  | assign (name : List Char) (v : Word)
  | word (w : Word)
  | redir (fd : Option Nat) (op : RedirOp) (w : Word)
  | arrayAssign (name : List Char) (ws : List Word)

def Piece.print : Piece → List Char
  | .assign n v => n ++ '=' :: printWord v
  | .word w => printWord w
  | .redir fd op w => printRedir (.normal fd op w)
  | .arrayAssign n ws => printArrayAssign n ws

def Builder.push (b : Builder) : Piece → Builder
  | .assign n v => { b with assigns := b.assigns ++ [⟨n, .scalar v⟩] }
  | .word w => { b with words := b.words ++ [w] }
  | .redir fd op w => { b with redirs := b.redirs ++ [.normal fd op w] }
  | .arrayAssign n ws => { b with assigns := b.assigns ++ [⟨n, .array ws⟩] }

/-- what the parser needs to know about a piece, given the builder state and the text that follows -/
def PieceOk (b : Builder) : Piece → List Char → Prop
  | .assign n v, next =>
    b.words = [] ∧ TokWordOk (assignWord n v) next ∧ '=' ∉ n ∧ n ≠ [] ∧ hasUnquotedTilde v = false ∧
      (v.isEmpty && arrayFollows next) = false
  | .word w, next =>
    TokWordOk w next ∧
      (b.words = [] → assignOf w = none ∧ (isKeywordWord w = true → b.isEmpty = false)) ∧
      (b.words ≠ [] → (hasUnquotedTilde w && (assignOf w).isSome) = false)
  | .redir fd _ w, next => FdOk fd ∧ TokWordOk w next
  | .arrayAssign n ws, next =>
    b.words = [] ∧ TokWordOk (assignWord n []) ('(' :: (printArrayWords ws ++ ')' :: next)) ∧ '=' ∉ n ∧ n ≠ [] ∧
      ArrWordsOk ws next

def printPieces (ps : List Piece) : List Char := joinWith [' '] (ps.map Piece.print)

/-- the text that follows the first of the pieces `p :: ps` -/
def afterPiece (ps : List Piece) (tail : List Char) : List Char :=
  (if ps.isEmpty then [] else [' ']) ++ (printPieces ps ++ tail)

def PiecesOk (b : Builder) : List Piece → List Char → Prop
  | [], _ => True
  | p :: ps, tail => PieceOk b p (afterPiece ps tail) ∧ PiecesOk (b.push p) ps tail

theorem printPieces_cons (p : Piece) (ps : List Piece) (tail : List Char) :
    printPieces (p :: ps) ++ tail = p.print ++ afterPiece ps tail := by
  cases ps with
  | nil => simp [printPieces, joinWith, afterPiece]
  | cons q qs => simp [printPieces, joinWith, afterPiece]

theorem nextOk_after (ps : List Piece) (e : Char) (rest : List Char) (he : TermOk e) :
    NextOk (afterPiece ps (e :: rest)) := by
  cases ps with
  | nil =>
    have hE : Delim.token.Ends e := by
      rcases he with h | h | h | h | h <;> subst h <;> exact ⟨by decide, by decide⟩
    have hA : nextIsAngle (e :: rest) = false := by
      rcases he with h | h | h | h | h <;> subst h <;> simp [nextIsAngle, skipLC_cons_ne]
    exact ⟨Or.inr ⟨e, rest, by simp [afterPiece, printPieces, joinWith], hE⟩, by
      simpa [afterPiece, printPieces, joinWith] using hA⟩
  | cons q qs =>
    exact ⟨Or.inr ⟨' ', printPieces (q :: qs) ++ e :: rest, by simp [afterPiece], ⟨by decide, by decide⟩⟩, by
      simp [afterPiece, nextIsAngle, skipLC_cons_ne]⟩

theorem afterPiece_eq (ps : List Piece) (tail : List Char) :
    afterPiece ps tail = (if (!ps.isEmpty) = true then [' '] else []) ++ (printPieces ps ++ tail) := by
  cases ps <;> simp [afterPiece]

theorem loop_pieces (e : Char) (he : TermOk e) (rest : List Char) :
    ∀ (ps : List Piece) (b : Builder) (fuel : Nat) (sp : Bool), ps.length + 1 ≤ fuel →
      (ps = [] → sp = false) → PiecesOk b ps (e :: rest) →
      parseSimpleLoop fuel b ((if sp then [' '] else []) ++ (printPieces ps ++ e :: rest)) =
        some (ps.foldl Builder.push b, e :: rest) := by
  intro ps
  induction ps with
  | nil =>
    intro b fuel sp hf hsp _
    obtain ⟨k, rfl⟩ : ∃ k, fuel = k + 1 := ⟨fuel - 1, by simp at hf; omega⟩
    simpa [hsp rfl, printPieces, joinWith] using loop_term e he rest b k
  | cons p ps ih =>
    intro b fuel sp hf _ hok
    obtain ⟨k, rfl⟩ : ∃ k, fuel = k + 1 := ⟨fuel - 1, by simp at hf; omega⟩
    obtain ⟨hp, hrest⟩ := hok
    have hn := nextOk_after ps e rest he
    have ih' := ih (b.push p) k (!ps.isEmpty) (by simp at hf; omega) (by intro h; simp [h]) hrest
    rw [← afterPiece_eq] at ih'
    rw [printPieces_cons, List.foldl_cons, ← ih']
    cases p with
    | assign n v =>
      obtain ⟨h0, h1, h2, h3, h4, h5⟩ := hp
      exact loop_assign n v _ h1 hn sp b k h0 h2 h3 h4 h5
    | word w =>
      obtain ⟨h1, h2, h3⟩ := hp
      exact loop_word w _ h1 hn sp b k h2 h3
    | redir fd op w =>
      obtain ⟨h1, h2⟩ := hp
      exact loop_redir fd h1 op w _ h2 hn sp b k
    | arrayAssign n ws =>
      obtain ⟨h0, h1, h2, h3, h4⟩ := hp
      exact loop_arrayAssign n ws _ h1 sp b k h0 h2 h3 h4


/-- a simple command with scalar assignments and normal redirections -/
def mkSimple (as : List (List Char × Word)) (ws : List Word)
    (rs : List (Option Nat × RedirOp × Word)) : SimpleCommand :=
  ⟨as.map fun a => ⟨a.1, .scalar a.2⟩, ws, rs.map fun r => .normal r.1 r.2.1 r.2.2⟩

def assignPieces (as : List (List Char × Word)) : List Piece := as.map fun a => .assign a.1 a.2
def wordPieces (ws : List Word) : List Piece := ws.map .word
def redirPieces (rs : List (Option Nat × RedirOp × Word)) : List Piece :=
  rs.map fun r => .redir r.1 r.2.1 r.2.2

/-- the pieces in the order `impl Display for SimpleCommand` prints them -/
def simplePieces (as : List (List Char × Word)) (ws : List Word)
    (rs : List (Option Nat × RedirOp × Word)) : List Piece :=
  if !(mkSimple as ws rs).assigns.isEmpty || !firstWordIsKeyword (mkSimple as ws rs) then
    assignPieces as ++ wordPieces ws ++ redirPieces rs
  else redirPieces rs ++ wordPieces ws

theorem printSimple_pieces (as : List (List Char × Word)) (ws : List Word)
    (rs : List (Option Nat × RedirOp × Word)) :
    printSimple (mkSimple as ws rs) = printPieces (simplePieces as ws rs) := by
  unfold printSimple simplePieces printPieces
  split <;>
    simp [mkSimple, assignPieces, wordPieces, redirPieces, List.map_append, List.map_map,
      Function.comp_def, Piece.print, printAssign, printValue]

theorem foldl_assigns (as : List (List Char × Word)) (b : Builder) :
    (assignPieces as).foldl Builder.push b =
      { b with assigns := b.assigns ++ as.map fun a => ⟨a.1, .scalar a.2⟩ } := by
  induction as generalizing b with
  | nil => simp [assignPieces]
  | cons a as ih =>
    simp only [assignPieces, List.map_cons, List.foldl_cons] at ih ⊢
    rw [ih]
    simp [Builder.push]

theorem foldl_words (ws : List Word) (b : Builder) :
    (wordPieces ws).foldl Builder.push b = { b with words := b.words ++ ws } := by
  induction ws generalizing b with
  | nil => simp [wordPieces]
  | cons a as ih =>
    simp only [wordPieces, List.map_cons, List.foldl_cons] at ih ⊢
    rw [ih]
    simp [Builder.push]

theorem foldl_redirs (rs : List (Option Nat × RedirOp × Word)) (b : Builder) :
    (redirPieces rs).foldl Builder.push b =
      { b with redirs := b.redirs ++ rs.map fun r => .normal r.1 r.2.1 r.2.2 } := by
  induction rs generalizing b with
  | nil => simp [redirPieces]
  | cons a as ih =>
    simp only [redirPieces, List.map_cons, List.foldl_cons] at ih ⊢
    rw [ih]
    simp [Builder.push]

theorem foldl_simplePieces (as : List (List Char × Word)) (ws : List Word)
    (rs : List (Option Nat × RedirOp × Word)) :
    (simplePieces as ws rs).foldl Builder.push ⟨[], [], []⟩ =
      ⟨(mkSimple as ws rs).assigns, (mkSimple as ws rs).words, (mkSimple as ws rs).redirs⟩ := by
  unfold simplePieces
  split
  · simp [List.foldl_append, foldl_assigns, foldl_words, foldl_redirs, mkSimple]
  · rename_i h
    have : as = [] := by
      cases as with
      | nil => rfl
      | cons a as => simp [mkSimple] at h
    subst this
    simp [List.foldl_append, foldl_words, foldl_redirs, mkSimple]

/-- ★ A simple command with scalar assignments, words and redirections (with or without a file
    descriptor number, every redirection operator) prints — assignments, words, redirections, or
    redirections first when there is no assignment and the first word is a reserved word — as text
    that the model of `Parser::simple_command` reads back as the same command, stopping in front of the
    terminator. -/
theorem simple_command_roundtrip_aux (as : List (List Char × Word)) (ws : List Word)
    (rs : List (Option Nat × RedirOp × Word)) (e : Char) (rest : List Char) (he : TermOk e)
    (hne : (mkSimple as ws rs).assigns ≠ [] ∨ ws ≠ [] ∨ (mkSimple as ws rs).redirs ≠ [])
    (hok : PiecesOk ⟨[], [], []⟩ (simplePieces as ws rs) (e :: rest)) :
    parseSimple ((simplePieces as ws rs).length + 1) (printSimple (mkSimple as ws rs) ++ e :: rest) =
      some (some (mkSimple as ws rs), e :: rest) := by
  have hl := loop_pieces e he rest (simplePieces as ws rs) ⟨[], [], []⟩ _ false (Nat.le_refl _)
    (fun _ => rfl) hok
  simp only [Bool.false_eq_true, if_false, List.nil_append] at hl
  unfold parseSimple
  rw [printSimple_pieces, hl, foldl_simplePieces]
  have : (Builder.mk (mkSimple as ws rs).assigns (mkSimple as ws rs).words
      (mkSimple as ws rs).redirs).isEmpty = false := by
    simp only [Builder.isEmpty]
    rcases hne with h | h | h
    · cases hh : (mkSimple as ws rs).assigns with
      | nil => exact absurd hh h
      | cons _ _ => simp
    · have : (mkSimple as ws rs).words = ws := rfl
      rw [this]
      cases ws with
      | nil => exact absurd rfl h
      | cons _ _ => simp
    · cases hh : (mkSimple as ws rs).redirs with
      | nil => exact absurd hh h
      | cons _ _ => simp
  simp [this]


theorem litWord_tok (c : Char) (next : List Char)
    (h : c ≠ '\\' ∧ c ≠ '$' ∧ c ≠ '`' ∧ Delim.token.test c = false ∧ c ≠ '"' ∧ c ≠ '\'' ∧ c ≠ '~' ∧ c ≠ '#')
    (cs : List Char)
    (hcs : ∀ x ∈ cs, x ≠ '\\' ∧ x ≠ '$' ∧ x ≠ '`' ∧ Delim.token.test x = false ∧ x ≠ '"' ∧ x ≠ '\'') :
    TokWordOk (digitsWord (c :: cs)) next := by
  refine ⟨?_, by simp [digitsWord], by simp [digitsWord, NoTildeFront, h.2.2.2.2.2.2.1], ?_⟩
  · have : ∀ l : List Char, (∀ x ∈ l, x ≠ '\\' ∧ x ≠ '$' ∧ x ≠ '`' ∧ Delim.token.test x = false ∧
        x ≠ '"' ∧ x ≠ '\'') → WordUnits.Ok .word .token (digitsWord l) next := by
      intro l
      induction l with
      | nil => intro _; simp [digitsWord, WordUnits.Ok]
      | cons y ys ih =>
        intro hy
        have h1 := hy y (by simp)
        have := ih (fun x hx => hy x (by simp [hx]))
        simp only [digitsWord, List.map_cons] at this ⊢
        simp only [WordUnits.Ok, WordUnit.Ok, TextUnit.Ok, UnquotedOk]
        exact ⟨⟨⟨h1.1, h1.2.1, h1.2.2.1, h1.2.2.2.1⟩, h1.2.2.2.2.1, fun _ => h1.2.2.2.2.2⟩, this⟩
    apply this
    intro x hx
    simp at hx
    rcases hx with rfl | hx
    · exact ⟨h.1, h.2.1, h.2.2.1, h.2.2.2.1, h.2.2.2.2.1, h.2.2.2.2.2.1⟩
    · exact hcs x hx
  · rw [printWord_digitsWord]
    simp [h.2.2.2.2.2.2.2]


end YashModel.Syntax
