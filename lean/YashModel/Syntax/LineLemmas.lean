/-
  C06 — command lines and whole scripts: lemmas for `command_line_roundtrip` / `script_roundtrip`
  (the printed list followed by a newline is read back by the model of `Parser::command_line`; a script of
  such lines is read back up to the end of input).
-/
import YashModel.Syntax.Closed
namespace YashModel.Syntax

/-! ## Command lines: a printed list followed by a newline, and whole scripts up to the end of input -/

theorem lexToken_nl (x : List Char) : lexToken ('\n' :: x) = some (⟨[], .op .newline⟩, x) :=
  lexToken_op1 '\n' x .newline ⟨by decide, by decide, by decide⟩ (by simp [lexOperator, skipLC_cons_ne])

theorem lexToken_amp_nl (x : List Char) : lexToken ('&' :: '\n' :: x) = some (⟨[], .op .and⟩, '\n' :: x) := by
  apply lexToken_op1 '&' _ .and ⟨by decide, by decide, by decide⟩
  simp [lexOperator, opTail, skipLC_cons_ne, List.lookup]

/-- the end of input: no command line -/
theorem commandLine_eof (n : Nat) : parseCommandLine (parseCommand (n + 1)) [] = some (none, []) := by
  rfl


/-- a line of the closed fragment: the items of a list that a newline follows -/
def LineOk (l : List Item) (rest : List Char) : Prop := ItemsOk false l ('\n' :: rest)

theorem listEnd_nl (pc : CmdParser) (n : Nat) (hpc : PcOk pc n) (x : List Char) :
    ListEnd pc false ('\n' :: x) := by
  have hl := lexToken_nl x
  have hns : NoStart ⟨[], .op .newline⟩ := Or.inr ⟨.newline, rfl, by decide⟩
  refine ⟨noCmdAt_of pc n hpc _ _ _ hl hns (by simp [Token.isKw]), lexToken_amp_nl x,
    (fun h => Bool.noConfusion h), ?_, ⟨_, _, hl⟩⟩
  intro t r h
  rw [hl] at h
  cases h
  simp [Token.isOp]

theorem ends_nl (x : List Char) : EndsWithout ('\n' :: x) contOps :=
  endsWithout_of _ (tailOk_cons '\n' x (Or.inr (Or.inr (Or.inr (Or.inr rfl))))) _ _ (lexToken_nl x) contOps
    (by decide)

theorem ends_amp_nl (x : List Char) : EndsWithout ('&' :: '\n' :: x) contOps :=
  endsWithout_of _ (tailOk_cons '&' _ (Or.inr (Or.inl rfl))) _ _ (lexToken_amp_nl x) contOps (by decide)

theorem itemsRT_length (pc : CmdParser) (alt : Bool) (tail : List Char) :
    ∀ l : List Item, ItemsRT pc alt l tail → l.length ≤ (listText alt l tail).length := by
  intro l
  induction l with
  | nil => intro _; simp
  | cons i l ih =>
    intro h
    obtain ⟨a, async⟩ := i
    cases l with
    | nil =>
      have ha : AndOrRT pc a ((if async then ['&'] else if alt then [';'] else []) ++ tail) := h
      obtain ⟨y, t, e, _⟩ := ha.1
      simp only [listText, e]
      simp
    | cons j rest =>
      have := ih h.2
      simp only [listText, List.length_cons, List.length_append] at this ⊢
      omega

/-- `Parser::list` reads a printed line of the fragment up to its newline -/
theorem line_list_rt (pc : CmdParser) (n : Nat) (hpc : PcOk pc n) (l : List Item) (rest : List Char)
    (h : LineOk l rest) (hd : ldepth l ≤ n) (fuel : Nat) (hf : l.length + 2 ≤ fuel) :
    parseList pc fuel (printList false l ++ '\n' :: rest) = some (l, '\n' :: rest) := by
  have hrt := items_rt pc n hpc false ('\n' :: rest) (ends_amp_nl rest) (fun e => Bool.noConfusion e)
    (fun _ => ends_nl rest) l h hd
  have := parseList_rt pc false ('\n' :: rest) (listEnd_nl pc n hpc rest) l fuel false hf hrt (fun _ => rfl)
  rw [printList_eq]
  simpa using this

/-- `Parser::command_line` on a printed line of the fragment -/
theorem commandLine_rt (n : Nat) (l : List Item) (rest : List Char) (h : LineOk l rest) (hd : ldepth l ≤ n) :
    parseCommandLine (parseCommand (n + 1)) (printList false l ++ '\n' :: rest) = some (some l, rest) := by
  have hpc := parseCommand_pcOk n
  have hrt := items_rt _ n hpc false ('\n' :: rest) (ends_amp_nl rest) (fun e => Bool.noConfusion e)
    (fun _ => ends_nl rest) l h hd
  have hlen := itemsRT_length _ false _ l hrt
  rw [← printList_eq] at hlen
  have hl := line_list_rt _ n hpc l rest h hd ((printList false l ++ '\n' :: rest).length + 2) (by omega)
  unfold parseCommandLine
  rw [hl]
  simp [lexToken_nl, Token.isOp]

/-- the text of a script: every line printed and ended by a newline -/
def scriptText : List (List Item) → List Char
  | [] => []
  | l :: ls => printList false l ++ '\n' :: scriptText ls

/-- scripts of the closed fragment -/
def ScriptOk : List (List Item) → Prop
  | [] => True
  | l :: ls => LineOk l (scriptText ls) ∧ ScriptOk ls

theorem lines_rt (n : Nat) : ∀ ls : List (List Item), ScriptOk ls → (∀ l ∈ ls, ldepth l ≤ n) →
    ∀ fuel, ls.length + 1 ≤ fuel → parseLines (parseCommand (n + 1)) fuel (scriptText ls) = some ls := by
  intro ls
  induction ls with
  | nil =>
    intro _ _ fuel hf
    obtain ⟨k, rfl⟩ : ∃ k, fuel = k + 1 := ⟨fuel - 1, by omega⟩
    simp only [scriptText, parseLines, commandLine_eof]
  | cons l ls ih =>
    intro h hd fuel hf
    obtain ⟨k, rfl⟩ : ∃ k, fuel = k + 1 := ⟨fuel - 1, by omega⟩
    have h1 := commandLine_rt n l (scriptText ls) h.1 (hd l (List.mem_cons_self ..))
    have h2 := ih h.2 (fun x hx => hd x (List.mem_cons_of_mem _ hx)) k (by simp at hf; omega)
    simp only [scriptText, parseLines, h1, h2, Option.map_some]

theorem scriptText_length (ls : List (List Item)) : ls.length ≤ (scriptText ls).length := by
  induction ls with
  | nil => simp
  | cons l ls ih => simp only [scriptText, List.length_cons, List.length_append]; omega

theorem script_depth (ls : List (List Item)) : ∀ l ∈ ls, ldepth l ≤ (scriptText ls).length := by
  induction ls with
  | nil => intro l hl; cases hl
  | cons x ls ih =>
    intro l hl
    simp only [scriptText, List.length_append, List.length_cons]
    rcases List.mem_cons.mp hl with rfl | hm
    · have := ldepth_le false l; omega
    · have := ih l hm; omega

/-- a whole script of the closed fragment, read line by line up to the end of input -/
theorem script_rt (ls : List (List Item)) (h : ScriptOk ls) : parseScript (scriptText ls) = some ls := by
  unfold parseScript
  apply lines_rt _ ls h
  · intro l hl; have := script_depth ls l hl; omega
  · have := scriptText_length ls; omega


/-! ## Rejections: the boundaries of the round-trip statements -/


/-- a command line must not end in front of a `)`: `UnopenedSubshell` -/
theorem commandLine_rparen (n : Nat) (l : List Item) (rest : List Char) (h : ProgramOk l rest) (hd : ldepth l ≤ n) :
    parseCommandLine (parseCommand (n + 1)) (printList false l ++ ')' :: rest) = none := by
  have hpc := parseCommand_pcOk n
  have hrt := items_rt _ n hpc false (')' :: rest) (ends_amp _ (Or.inr ⟨_, rfl⟩) contOps (fun _ h => h))
    (fun e => Bool.noConfusion e) (fun _ => ends_rparen rest contOps (fun _ h => h)) l h hd
  have hlen := itemsRT_length _ false _ l hrt
  rw [← printList_eq] at hlen
  have hl := parseList_rt _ false (')' :: rest) (listEnd_rparen _ n hpc rest).1 l
    ((printList false l ++ ')' :: rest).length + 2) false (by omega) hrt (fun _ => rfl)
  rw [← printList_eq] at hl
  simp only [Bool.false_eq_true, if_false, List.nil_append] at hl
  unfold parseCommandLine
  rw [hl]
  simp [lexToken_rparen, Token.isOp]



/-- `FdOutOfRange`: an IO_NUMBER above `i32::MAX` in front of a redirection operator is a syntax error
    (the boundary of `FdOk`: 2147483647 is accepted, 2147483648 is not) -/
theorem parseRedir_fd_out_of_range (n : Nat) (hn : 2147483647 < n) (c : Char) (body : List Char)
    (hc : c = '<' ∨ c = '>') (sp : Bool) :
    parseRedir ((if sp then [' '] else []) ++ (printNat n ++ c :: body)) = none := by
  obtain ⟨d1, d2, d3⟩ := printNat_spec n
  have hcE : Delim.token.Ends c := by
    rcases hc with e | e <;> subst e <;> exact ⟨by decide, by decide⟩
  have hwok : TokWordOk (digitsWord (printNat n)) (c :: body) := by
    refine ⟨digitsWord_ok _ d1 _, ?_, ?_, ?_⟩
    · cases hp : printNat n with
      | nil => exact absurd hp d3
      | cons x xs => simp [digitsWord]
    · cases hp : printNat n with
      | nil => exact absurd hp d3
      | cons x xs =>
        rw [hp] at d1
        simp only [List.all_cons, Bool.and_eq_true] at d1
        have := (digit_plain x d1.1).2.2.2.2.2.2.1
        simp [digitsWord, NoTildeFront, this]
    · rw [printWord_digitsWord]
      cases hp : printNat n with
      | nil => exact absurd hp d3
      | cons x xs =>
        rw [hp] at d1
        simp only [List.all_cons, Bool.and_eq_true] at d1
        have := (digit_plain x d1.1).2.2.2.2.2.2.2
        simp [this]
  have ht := lexToken_word_gen (digitsWord (printNat n)) (c :: body) hwok ⟨c, body, rfl, hcE⟩ sp
  rw [printWord_digitsWord] at ht
  have hna : nextIsAngle (c :: body) = true := by
    rcases hc with e | e <;> subst e <;> simp [nextIsAngle, skipLC_cons_ne]
  have hwe : (digitsWord (printNat n)).isEmpty = false := by
    cases hp : printNat n with
    | nil => exact absurd hp d3
    | cons x xs => simp [digitsWord]
  have hid : tokenId (digitsWord (printNat n)) (c :: body) = .ioNumber := by
    simp [tokenId, hwe, wordLiteral_digitsWord, isKeyword_digits _ d1, d1, hna]
  unfold parseRedir
  rw [ht, hid]
  simp only [fdOf, wordLiteral_digitsWord, d2]
  rw [if_neg (by omega)]





/-! ## Fuel -/
/-- every accepted command line consumes at least one character -/
def LineProgress (pc : CmdParser) : Prop :=
  ∀ cs l r, parseCommandLine pc cs = some (some l, r) → r.length < cs.length

/-- the line loop never runs out of fuel once the fuel exceeds the input length: more fuel changes nothing -/
theorem parseLines_fuel_stable (pc : CmdParser) (hp : LineProgress pc) :
    ∀ (n : Nat) (cs : List Char) (f1 f2 : Nat), cs.length ≤ n → n + 1 ≤ f1 → n + 1 ≤ f2 →
      parseLines pc f1 cs = parseLines pc f2 cs := by
  intro n
  induction n with
  | zero =>
    intro cs f1 f2 hc h1 h2
    obtain ⟨k1, rfl⟩ : ∃ k, f1 = k + 1 := ⟨f1 - 1, by omega⟩
    obtain ⟨k2, rfl⟩ : ∃ k, f2 = k + 1 := ⟨f2 - 1, by omega⟩
    simp only [parseLines]
    cases h : parseCommandLine pc cs with
    | none => rfl
    | some p =>
      obtain ⟨o, r⟩ := p
      cases o with
      | none => rfl
      | some l => have := hp cs l r h; omega
  | succ n ih =>
    intro cs f1 f2 hc h1 h2
    obtain ⟨k1, rfl⟩ : ∃ k, f1 = k + 1 := ⟨f1 - 1, by omega⟩
    obtain ⟨k2, rfl⟩ : ∃ k, f2 = k + 1 := ⟨f2 - 1, by omega⟩
    simp only [parseLines]
    cases h : parseCommandLine pc cs with
    | none => rfl
    | some p =>
      obtain ⟨o, r⟩ := p
      cases o with
      | none => rfl
      | some l =>
        have := hp cs l r h
        simp only []
        rw [ih r k1 k2 (by omega) (by omega) (by omega)]



/-! ## End of input directly after the last token: lists, programs, the last script line -/

theorem lexToken_amp_eof : lexToken ['&'] = some (⟨[], .op .and⟩, []) := by rfl

theorem parseCommand_eof (n : Nat) : parseCommand (n + 1) [] = some (none, []) := by rfl

theorem listEnd_eof (n : Nat) : ListEnd (parseCommand (n + 1)) false [] ∧ CloserAt [] := by
  refine ⟨⟨?_, lexToken_amp_eof, (fun h => Bool.noConfusion h), ?_, ⟨_, _, lexToken_eof⟩⟩,
    ⟨_, _, lexToken_eof, by simp [Token.isOp], by simp [Token.isClauseDelimiter]⟩⟩
  · simp [NoCmdAt, parseAndOr, parsePipeline, parseCommand_eof, lexToken_eof, Token.isKw]
  · intro t r h
    rw [lexToken_eof] at h
    cases h
    simp [Token.isOp]

theorem ends_eof : EndsWithout [] contOps := by
  refine ⟨Or.inl rfl, ?_⟩
  intro o r h
  rw [lexToken_eof] at h
  cases h

theorem ends_amp_eof : EndsWithout ['&'] contOps :=
  endsWithout_of _ (tailOk_cons '&' [] (Or.inr (Or.inl rfl))) _ _ lexToken_amp_eof contOps (by decide)

/-- programs of the closed fragment that the end of input follows directly -/
def ProgramEofOk (l : List Item) : Prop := ItemsOk false l []

theorem program_eof_rt (l : List Item) (h : ProgramEofOk l) (n fuel : Nat) (hn : ldepth l ≤ n) (hf : 1 ≤ fuel) :
    parseCompoundList (parseCommand (n + 1)) fuel (printList false l) = some (l, []) := by
  have hpc := parseCommand_pcOk n
  have hl := list_rt' (parseCommand (n + 1)) n hpc false l [] ends_amp_eof (fun e => Bool.noConfusion e)
    (fun _ => ends_eof) (listEnd_eof n) h hn
  have := hl false (fun _ => rfl) fuel hf
  simpa using this

theorem parseProgram_eof_rt (l : List Item) (h : ProgramEofOk l) :
    parseProgram (printList false l) = some (l, []) := by
  unfold parseProgram
  have hd := ldepth_le false l
  exact program_eof_rt l h ((printList false l).length + 1) _ (by omega) (by omega)

/-- `Parser::command_line` on a last line that no newline ends -/
theorem commandLine_eof_rt (n : Nat) (l : List Item) (hne : l ≠ []) (h : ProgramEofOk l) (hd : ldepth l ≤ n) :
    parseCommandLine (parseCommand (n + 1)) (printList false l) = some (some l, []) := by
  have hpc := parseCommand_pcOk n
  have hrt := items_rt _ n hpc false [] ends_amp_eof (fun e => Bool.noConfusion e) (fun _ => ends_eof) l h hd
  have hlen := itemsRT_length _ false _ l hrt
  rw [← printList_eq] at hlen
  have hl := parseList_rt _ false [] (listEnd_eof n).1 l ((printList false l).length + 2) false
    (by simp only [List.append_nil] at hlen; omega) hrt (fun _ => rfl)
  rw [← printList_eq] at hl
  simp only [Bool.false_eq_true, if_false, List.nil_append, List.append_nil] at hl
  unfold parseCommandLine
  rw [hl]
  cases l with
  | nil => exact absurd rfl hne
  | cons _ _ => simp [lexToken_eof, Token.isOp]


/-- the text of a script whose last line `l` is not ended by a newline -/
def scriptTextLast : List (List Item) → List Item → List Char
  | [], l => printList false l
  | x :: ls, l => printList false x ++ '\n' :: scriptTextLast ls l

/-- scripts of the closed fragment whose last line the end of input follows directly -/
def ScriptLastOk : List (List Item) → List Item → Prop
  | [], l => ProgramEofOk l
  | x :: ls, l => LineOk x (scriptTextLast ls l) ∧ ScriptLastOk ls l

theorem lines_last_rt (n : Nat) (l : List Item) (hne : l ≠ []) (hdl : ldepth l ≤ n) :
    ∀ ls : List (List Item), ScriptLastOk ls l → (∀ x ∈ ls, ldepth x ≤ n) →
    ∀ fuel, ls.length + 2 ≤ fuel →
      parseLines (parseCommand (n + 1)) fuel (scriptTextLast ls l) = some (ls ++ [l]) := by
  intro ls
  induction ls with
  | nil =>
    intro h _ fuel hf
    obtain ⟨k, rfl⟩ : ∃ k, fuel = k + 2 := ⟨fuel - 2, by simp at hf; omega⟩
    have h1 := commandLine_eof_rt n l hne h hdl
    simp only [scriptTextLast, parseLines, h1, commandLine_eof, Option.map_some, List.nil_append]
  | cons x ls ih =>
    intro h hd fuel hf
    obtain ⟨k, rfl⟩ : ∃ k, fuel = k + 1 := ⟨fuel - 1, by omega⟩
    have h1 := commandLine_rt n x (scriptTextLast ls l) h.1 (hd x (List.mem_cons_self ..))
    have h2 := ih h.2 (fun y hy => hd y (List.mem_cons_of_mem _ hy)) k (by simp at hf; omega)
    simp only [scriptTextLast, parseLines, h1, h2, Option.map_some, List.cons_append]

theorem scriptTextLast_length (ls : List (List Item)) (l : List Item) :
    ls.length ≤ (scriptTextLast ls l).length ∧ (printList false l).length ≤ (scriptTextLast ls l).length ∧
    ∀ x ∈ ls, ldepth x ≤ (scriptTextLast ls l).length := by
  induction ls with
  | nil => simp [scriptTextLast]
  | cons y ls ih =>
    obtain ⟨i1, i2, i3⟩ := ih
    simp only [scriptTextLast, List.length_cons, List.length_append]
    refine ⟨by omega, by omega, ?_⟩
    intro x hx
    rcases List.mem_cons.mp hx with rfl | hm
    · have := ldepth_le false x; omega
    · have := i3 x hm; omega

/-- a whole script whose last line is not ended by a newline, read to the end of input -/
theorem script_last_rt (ls : List (List Item)) (l : List Item) (hne : l ≠ []) (h : ScriptLastOk ls l) :
    parseScript (scriptTextLast ls l) = some (ls ++ [l]) := by
  unfold parseScript
  obtain ⟨i1, i2, i3⟩ := scriptTextLast_length ls l
  have hl := ldepth_le false l
  apply lines_last_rt _ l hne (by omega) ls h
  · intro x hx; have := i3 x hx; omega
  · omega


end YashModel.Syntax
