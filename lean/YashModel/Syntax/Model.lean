/-
  C06 — Impl model, part 1: syntax tree and printer.

  Transcription of the data types of `yash-syntax/src/syntax.rs` (locations dropped; a `Param` is kept
  as its `id`, which is all that `Display` uses and from which the parser derives the type) and of the
  `Display` implementations of `yash-syntax/src/syntax/impl_display.rs`.

  Strings are `List Char` (Rust `char` = Unicode scalar value = Lean `Char`); `u8` is `UInt8`.
  The lexer/parser half of the model is in `Lexer.lean`.
-/
namespace YashModel.Syntax

/-! ## Escape units (`EscapeUnit`, content of `$'…'`) -/

inductive EscapeUnit
  | literal (c : Char)
  | doubleQuote | singleQuote | backslash | question
  | alert | backspace | escape | formFeed | newline | carriageReturn | tab | verticalTab
  | control (b : UInt8)
  | octal (b : UInt8)
  | hex (b : UInt8)
  | unicode (c : Char)
  deriving DecidableEq, Repr, Inhabited

/-- digit `d < 16` as printed by `{:X}` -/
def upperHexDigit (d : Nat) : Char :=
  if d < 10 then Char.ofNat (48 + d) else Char.ofNat (55 + d)

/-- digit `d < 16` as printed by `{:x}` -/
def lowerHexDigit (d : Nat) : Char :=
  if d < 10 then Char.ofNat (48 + d) else Char.ofNat (87 + d)

/-- `{b:03o}` for `b < 512` -/
def octal3 (n : Nat) : List Char :=
  [Char.ofNat (48 + n / 64 % 8), Char.ofNat (48 + n / 8 % 8), Char.ofNat (48 + n % 8)]

/-- `{b:02X}` for `b < 256` -/
def upperHex2 (n : Nat) : List Char :=
  [upperHexDigit (n / 16 % 16), upperHexDigit (n % 16)]

/-- `{:04x}` for `n < 65536` -/
def lowerHex4 (n : Nat) : List Char :=
  [lowerHexDigit (n / 4096 % 16), lowerHexDigit (n / 256 % 16), lowerHexDigit (n / 16 % 16),
   lowerHexDigit (n % 16)]

/-- `{:08X}` for `n < 2^32` -/
def upperHex8 (n : Nat) : List Char :=
  [upperHexDigit (n / 268435456 % 16), upperHexDigit (n / 16777216 % 16),
   upperHexDigit (n / 1048576 % 16), upperHexDigit (n / 65536 % 16),
   upperHexDigit (n / 4096 % 16), upperHexDigit (n / 256 % 16), upperHexDigit (n / 16 % 16),
   upperHexDigit (n % 16)]

/-- `impl Display for EscapeUnit` -/
def printEscape : EscapeUnit → List Char
  | .literal c => [c]
  | .doubleQuote => ['\\', '"']
  | .singleQuote => ['\\', '\'']
  | .backslash => ['\\', '\\']
  | .question => ['\\', '?']
  | .alert => ['\\', 'a']
  | .backspace => ['\\', 'b']
  | .escape => ['\\', 'e']
  | .formFeed => ['\\', 'f']
  | .newline => ['\\', 'n']
  | .carriageReturn => ['\\', 'r']
  | .tab => ['\\', 't']
  | .verticalTab => ['\\', 'v']
  | .control b =>
    -- The backslash needs to be doubled to be parsed as `Control(0x1C)`.
    if b = 0x1C then ['\\', 'c', '\\', '\\']
    else ['\\', 'c', Char.ofNat (b ^^^ 0x40).toNat]
  | .octal b => '\\' :: octal3 b.toNat
  | .hex b => '\\' :: 'x' :: upperHex2 b.toNat
  | .unicode c =>
    if c.toNat ≤ 0xFFFF then '\\' :: 'u' :: lowerHex4 c.toNat
    else '\\' :: 'U' :: upperHex8 c.toNat

/-- `impl Display for EscapedString` -/
def printEscaped : List EscapeUnit → List Char
  | [] => []
  | u :: us => printEscape u ++ printEscaped us

/-! ## Words -/

inductive BackquoteUnit
  | literal (c : Char)
  | backslashed (c : Char)
  deriving DecidableEq, Repr, Inhabited

inductive SwitchAction | alter | default | assign | error
  deriving DecidableEq, Repr, Inhabited

inductive TrimSide | pfx | sfx
  deriving DecidableEq, Repr, Inhabited

mutual
  inductive TextUnit
    | literal (c : Char)
    | backslashed (c : Char)
    | rawParam (id : List Char)
    | bracedParam (id : List Char) (m : Modifier)
    | commandSubst (content : List Char)
    | backquote (content : List BackquoteUnit)
    | arith (content : List TextUnit)
  /-- `Modifier` with `Switch`/`Trim` inlined; `colon` = `SwitchCondition::UnsetOrEmpty`,
      `longest` = `TrimLength::Longest` -/
  inductive Modifier
    | none
    | length
    | switch (colon : Bool) (action : SwitchAction) (word : List WordUnit)
    | trim (side : TrimSide) (longest : Bool) (pattern : List WordUnit)
  inductive WordUnit
    | unquoted (u : TextUnit)
    | singleQuote (s : List Char)
    | doubleQuote (t : List TextUnit)
    | dollarSingleQuote (s : List EscapeUnit)
    | tilde (name : List Char) (followedBySlash : Bool)
end

/-- `Word` without its location -/
abbrev Word := List WordUnit

instance : Inhabited TextUnit := ⟨.literal 'x'⟩
instance : Inhabited WordUnit := ⟨.unquoted default⟩

def SwitchAction.char : SwitchAction → Char
  | .alter => '+' | .default => '-' | .assign => '=' | .error => '?'

def TrimSide.char : TrimSide → Char
  | .pfx => '#' | .sfx => '%'

def printBackquoteUnit : BackquoteUnit → List Char
  | .literal c => [c]
  | .backslashed c => ['\\', c]

def printBackquoteUnits : List BackquoteUnit → List Char
  | [] => []
  | u :: us => printBackquoteUnit u ++ printBackquoteUnits us

mutual
  /-- `impl Display for TextUnit` (+ `BracedParam`) -/
  def printTextUnit : TextUnit → List Char
    | .literal c => [c]
    | .backslashed c => ['\\', c]
    | .rawParam id => '$' :: id
    | .bracedParam id m => '$' :: '{' :: printBraced id m
    | .commandSubst s => '$' :: '(' :: (s ++ [')'])
    | .backquote us => '`' :: (printBackquoteUnits us ++ ['`'])
    | .arith t => '$' :: '(' :: '(' :: (printText t ++ [')', ')'])
  /-- the part of `impl Display for BracedParam` after `${` (with `Switch`, `Trim`) -/
  def printBraced (id : List Char) : Modifier → List Char
    | .none => id ++ ['}']
    | .length => '#' :: (id ++ ['}'])
    | .switch colon a w =>
      id ++ ((if colon then [':'] else []) ++ (a.char :: (printWord w ++ ['}'])))
    | .trim side longest w =>
      id ++ (side.char :: ((if longest then [side.char] else []) ++ (printWord w ++ ['}'])))
  /-- `impl Display for Text` -/
  def printText : List TextUnit → List Char
    | [] => []
    | u :: us => printTextUnit u ++ printText us
  /-- `impl Display for WordUnit` -/
  def printWordUnit : WordUnit → List Char
    | .unquoted u => printTextUnit u
    | .singleQuote s => '\'' :: (s ++ ['\''])
    | .doubleQuote t => '"' :: (printText t ++ ['"'])
    | .dollarSingleQuote s => '$' :: '\'' :: (printEscaped s ++ ['\''])
    | .tilde name _ => '~' :: name
  /-- `impl Display for Word` -/
  def printWord : List WordUnit → List Char
    | [] => []
    | u :: us => printWordUnit u ++ printWord us
end

/-! ## Redirections, assignments, simple commands -/

inductive RedirOp
  | fileIn | fileInOut | fileOut | fileAppend | fileClobber | fdIn | fdOut | pipe | string
  deriving DecidableEq, Repr, Inhabited

/-- `Operator::from(RedirOp).as_str()` -/
def RedirOp.str : RedirOp → List Char
  | .fileIn => ['<'] | .fileInOut => ['<', '>'] | .fileOut => ['>'] | .fileAppend => ['>', '>']
  | .fileClobber => ['>', '|'] | .fdIn => ['<', '&'] | .fdOut => ['>', '&']
  | .pipe => ['>', '>', '|'] | .string => ['<', '<', '<']

/-- `Redir` with `RedirBody` inlined; a here-document carries no content (the printed form omits it) -/
inductive Redir
  | normal (fd : Option Nat) (op : RedirOp) (operand : Word)
  | hereDoc (fd : Option Nat) (removeTabs : Bool) (delimiter : Word)

/-- decimal digits of `n`, most significant first (`fuel > n` suffices) -/
def natDigits : Nat → Nat → List Char
  | 0, _ => []
  | fuel + 1, n =>
    if n < 10 then [Char.ofNat (48 + n)]
    else natDigits fuel (n / 10) ++ [Char.ofNat (48 + n % 10)]

/-- `{fd}` (`impl Display for i32` on a non-negative value) -/
def printNat (n : Nat) : List Char := natDigits (n + 1) n

def printFd : Option Nat → List Char
  | none => []
  | some n => printNat n

/-- `impl Display for Redir` / `RedirBody` / `HereDoc` -/
def printRedir : Redir → List Char
  | .normal fd op w => printFd fd ++ (op.str ++ printWord w)
  | .hereDoc fd removeTabs w =>
    printFd fd ++ ((if removeTabs then ['<', '<', '-'] else ['<', '<']) ++
      -- This space is to disambiguate `<< --` and `<<- -`
      ((match w with
        | .unquoted (.literal '-') :: _ => [' ']
        | _ => []) ++ printWord w))

inductive Value
  | scalar (w : Word)
  | array (ws : List Word)

structure Assign where
  name : List Char
  value : Value

/-- `iter.format(sep)` of itertools on already printed pieces -/
def joinWith (sep : List Char) : List (List Char) → List Char
  | [] => []
  | [x] => x
  | x :: y :: rest => x ++ (sep ++ joinWith sep (y :: rest))

def printValue : Value → List Char
  | .scalar w => printWord w
  | .array ws => '(' :: (joinWith [' '] (ws.map printWord) ++ [')'])

def printAssign (a : Assign) : List Char := a.name ++ ('=' :: printValue a.value)

/-- `SimpleCommand` (the `ExpansionMode` of a word is not printed and is dropped) -/
structure SimpleCommand where
  assigns : List Assign
  words : List Word
  redirs : List Redir

/-- the strings accepted by `Keyword::from_str` -/
def keywords : List (List Char) :=
  [['!'], ['[', '['], [']', ']'], ['c', 'a', 's', 'e'], ['d', 'o'], ['d', 'o', 'n', 'e'],
   ['e', 'l', 'i', 'f'], ['e', 'l', 's', 'e'], ['e', 's', 'a', 'c'], ['f', 'i'], ['f', 'o', 'r'],
   ['f', 'u', 'n', 'c', 't', 'i', 'o', 'n'], ['i', 'f'], ['i', 'n'],
   ['n', 'a', 'm', 'e', 's', 'p', 'a', 'c', 'e'], ['s', 'e', 'l', 'e', 'c', 't'], ['t', 'h', 'e', 'n'],
   ['u', 'n', 't', 'i', 'l'], ['w', 'h', 'i', 'l', 'e'], ['{'], ['}']]

/-- `Keyword::from_str(..).is_ok()` -/
def isKeyword (s : List Char) : Bool := keywords.contains s

/-- `MaybeLiteral::to_string_if_literal` for a word: every unit is `Unquoted(Literal(c))` -/
def wordLiteral : Word → Option (List Char)
  | [] => some []
  | .unquoted (.literal c) :: us => (wordLiteral us).map (c :: ·)
  | _ => none

/-- `SimpleCommand::first_word_is_keyword` -/
def firstWordIsKeyword (c : SimpleCommand) : Bool :=
  match c.words with
  | [] => false
  | w :: _ => match wordLiteral w with
    | some s => isKeyword s
    | none => false

/-- `impl Display for SimpleCommand` -/
def printSimple (c : SimpleCommand) : List Char :=
  let i1 := c.assigns.map printAssign
  let i2 := c.words.map printWord
  let i3 := c.redirs.map printRedir
  if !c.assigns.isEmpty || !firstWordIsKeyword c then joinWith [' '] (i1 ++ i2 ++ i3)
  else joinWith [' '] (i3 ++ i2)

/-! ## Compound commands and lists -/

inductive CaseCont | break_ | fallThrough | continue_
  deriving DecidableEq, Repr, Inhabited

/-- `Operator::from(CaseContinuation).as_str()` -/
def CaseCont.str : CaseCont → List Char
  | .break_ => [';', ';'] | .fallThrough => [';', '&'] | .continue_ => [';', '|']

mutual
  inductive CompoundCommand
    | grouping (body : List Item)
    | subshell (body : List Item)
    | forLoop (name : Word) (values : Option (List Word)) (body : List Item)
    | whileLoop (cond body : List Item)
    | untilLoop (cond body : List Item)
    | ifCmd (cond body : List Item) (elifs : List ElifThen) (hasElse : Bool) (else_ : List Item)
    | caseCmd (subject : Word) (items : List CaseItem)
  inductive ElifThen
    | mk (cond body : List Item)
  inductive CaseItem
    | mk (patterns : List Word) (body : List Item) (cont : CaseCont)
  /-- `Command`; `compound` = `FullCompoundCommand`, `function` carries its body's two fields -/
  inductive Command
    | simple (c : SimpleCommand)
    | compound (c : CompoundCommand) (redirs : List Redir)
    | function (hasKeyword : Bool) (name : Word) (body : CompoundCommand) (redirs : List Redir)
  inductive Pipeline
    | mk (commands : List Command) (negation : Bool)
  /-- one `(AndOr, Pipeline)` pair of `AndOrList::rest`; `isAnd` = `AndOr::AndThen` -/
  inductive AndOrRest
    | mk (isAnd : Bool) (p : Pipeline)
  inductive AndOrList
    | mk (first : Pipeline) (rest : List AndOrRest)
  inductive Item
    | mk (andOr : AndOrList) (async : Bool)
end

def str (s : String) : List Char := s.toList

/-- `matches!(name.units.last(), Some(Unquoted(Literal('$'))))` (`impl Display for FunctionDefinition`) -/
def endsWithDollar (w : Word) : Bool :=
  -- `match self.name.units.last()`: keyed on the LAST UNIT, whatever the units before it are (quoted parts,
  -- parameters, …); the `$` may also be the last character of the name of a tilde expansion
  match w.getLast? with
  | some (.unquoted (.literal c)) => c = '$'
  | some (.tilde name _) => name.getLast? = some '$'
  | _ => false

def printRedirsSp : List Redir → List Char
  | [] => []
  | r :: rs => ' ' :: (printRedir r ++ printRedirsSp rs)

def printWordsSp : List Word → List Char
  | [] => []
  | w :: ws => ' ' :: (printWord w ++ printWordsSp ws)

mutual
  /-- `impl Display for CompoundCommand` -/
  def printCompound : CompoundCommand → List Char
    | .grouping l => str "{ " ++ (printList true l ++ str " }")
    | .subshell l => '(' :: (printList false l ++ [')'])
    | .forLoop name values body =>
      str "for " ++ (printWord name ++
        ((match values with
          | some vs => str " in" ++ (printWordsSp vs ++ [';'])
          | none => []) ++ (str " do " ++ (printList true body ++ str " done"))))
    | .whileLoop c b =>
      str "while " ++ (printList true c ++ (str " do " ++ (printList true b ++ str " done")))
    | .untilLoop c b =>
      str "until " ++ (printList true c ++ (str " do " ++ (printList true b ++ str " done")))
    | .ifCmd c b elifs hasElse e =>
      str "if " ++ (printList true c ++ (str " then " ++ (printList true b ++ (' ' ::
        (printElifs elifs ++ ((if hasElse then str "else " ++ (printList true e ++ [' ']) else [])
          ++ str "fi"))))))
    | .caseCmd subject items =>
      str "case " ++ (printWord subject ++ (str " in " ++ (printCaseItems items ++ str "esac")))
  /-- `for elif in elifs { write!(f, "{elif:#} ") }` with `impl Display for ElifThen` -/
  def printElifs : List ElifThen → List Char
    | [] => []
    | .mk c b :: rest =>
      str "elif " ++ (printList true c ++ (str " then " ++ (printList true b ++ (' ' ::
        printElifs rest))))
  /-- `for item in items { write!(f, "{item} ") }` with `impl Display for CaseItem` -/
  def printCaseItems : List CaseItem → List Char
    | [] => []
    | .mk pats body cont :: rest =>
      '(' :: (joinWith (str " | ") (pats.map printWord) ++ (str ") " ++ (printList false body ++
        (cont.str ++ (' ' :: printCaseItems rest)))))
  /-- `impl Display for Command` / `FullCompoundCommand` / `FunctionDefinition` -/
  def printCommand : Command → List Char
    | .simple c => printSimple c
    | .compound c redirs => printCompound c ++ printRedirsSp redirs
    | .function kw name body redirs =>
      -- A name ending with an unquoted `$` must not be directly followed by `(`, or the result
      -- would be parsed as a command substitution.
      (if kw then str "function " else []) ++ (printWord name ++
        ((if endsWithDollar name then [' '] else []) ++ (str "() " ++
          (printCompound body ++ printRedirsSp redirs))))
  /-- `self.commands.iter().format(" | ")` -/
  def printCommands : List Command → List Char
    | [] => []
    | [c] => printCommand c
    | c :: d :: rest => printCommand c ++ (str " | " ++ printCommands (d :: rest))
  /-- `impl Display for Pipeline` -/
  def printPipeline : Pipeline → List Char
    | .mk cmds neg => (if neg then str "! " else []) ++ printCommands cmds
  def printAndOrRest : List AndOrRest → List Char
    | [] => []
    | .mk isAnd p :: rest =>
      ' ' :: ((if isAnd then str "&&" else str "||") ++ (' ' :: (printPipeline p ++
        printAndOrRest rest)))
  /-- `impl Display for AndOrList` -/
  def printAndOr : AndOrList → List Char
    | .mk first rest => printPipeline first ++ printAndOrRest rest
  /-- `impl Display for Item` (`alt` = the `{:#}` flag) -/
  def printItem (alt : Bool) : Item → List Char
    | .mk ao async => printAndOr ao ++ (if async then ['&'] else if alt then [';'] else [])
  /-- `impl Display for List` -/
  def printList (alt : Bool) : List Item → List Char
    | [] => []
    | [last] => printItem alt last
    | i :: j :: rest => printItem true i ++ (' ' :: printList alt (j :: rest))
end

end YashModel.Syntax
