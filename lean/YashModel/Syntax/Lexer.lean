/-
  C06 — Impl model, part 2: model lexer for the printed fragment.

  Transcription of `yash-syntax/src/parser/lex/escape.rs` (`escape_unit`, `escaped_string`,
  `single_quoted_escaped_string`), `word.rs` (`single_quote`, `double_quote`, `word_unit`, `word`),
  `text.rs` (`text_unit`, `text`), `dollar.rs`, `raw_param.rs`, `braced_param.rs`, `modifier.rs`,
  `backquote.rs`, `tilde.rs` (`parse_tilde_front`), `core.rs` (`peek_char` with line continuation,
  `is_blank`), `op.rs` (`is_operator_char`), `token.rs` (`is_token_delimiter_char`).

  A `&mut Lexer` becomes "remaining input in, remaining input out"; loops and the recursion through
  `${…}` take fuel (every call consumes at least one character, so `input.length + 1` always suffices).
  Command substitutions `$(…)` and arithmetic expansions `$((…))` need the command parser to find their
  end and are NOT modelled: the model lexer answers `err` on them (the driver then reports `-`).
  The non-portable mode (`Mode::portable = false`, the default of `Lexer::with_code`) is modelled.
-/
import YashModel.Generated.QuoteTables
import YashModel.Syntax.Model
namespace YashModel.Syntax
open YashModel.Generated.QuoteTables

/-! ## Characters -/

/-- Rust `char::is_whitespace` (table re-extracted from the Rust std docs by the C07 translator) -/
def isWhitespace (c : Char) : Bool :=
  whitespaceRanges.any fun r => decide (r.1 ≤ c.toNat) && decide (c.toNat ≤ r.2)

/-- `is_blank` -/
def isBlank (c : Char) : Bool := !blankExcluded.contains c && isWhitespace c

/-- `is_operator_char` -/
def isOperatorChar (c : Char) : Bool := operatorChars.contains c

/-- `is_token_delimiter_char` -/
def isTokenDelimiter (c : Char) : Bool := isOperatorChar c || isBlank c

/-- `is_portable_name_char` -/
def isNameChar (c : Char) : Bool :=
  ('0' ≤ c && c ≤ '9') || ('A' ≤ c && c ≤ 'Z') || c = '_' || ('a' ≤ c && c ≤ 'z')

def isAsciiDigit (c : Char) : Bool := '0' ≤ c && c ≤ '9'

/-- `is_special_parameter_char` -/
def isSpecialParamChar (c : Char) : Bool := specialParamChars.contains c

/-- `char::to_digit(16)` -/
def hexVal (c : Char) : Option Nat :=
  if '0' ≤ c ∧ c ≤ '9' then some (c.toNat - 48)
  else if 'a' ≤ c ∧ c ≤ 'f' then some (c.toNat - 87)
  else if 'A' ≤ c ∧ c ≤ 'F' then some (c.toNat - 55)
  else none

/-- `char::to_digit(8)` -/
def octVal (c : Char) : Option Nat :=
  if '0' ≤ c ∧ c ≤ '7' then some (c.toNat - 48) else none

/-- `char::to_ascii_uppercase` -/
def toAsciiUpper (c : Char) : Char :=
  if 'a' ≤ c ∧ c ≤ 'z' then Char.ofNat (c.toNat - 32) else c

/-- `Lexer::peek_char` with line continuations enabled: backslash-newline pairs are skipped -/
def skipLC : List Char → List Char
  | '\\' :: '\n' :: rest => skipLC rest
  | cs => cs

/-! ## Escape units (line continuations disabled) -/

/-- the loop of `hex_digits`: up to `n` further digits -/
def hexDigitsMore : Nat → Nat → List Char → Nat × List Char
  | 0, v, cs => (v, cs)
  | _ + 1, v, [] => (v, [])
  | n + 1, v, c :: cs =>
    match hexVal c with
    | some d => hexDigitsMore n (v * 16 + d) cs     -- `(value << 4) | digit`, digit < 16
    | none => (v, c :: cs)

/-- `hex_digits(count)`: `none` when no digit is found -/
def hexDigits (count : Nat) : List Char → Option (Nat × List Char)
  | [] => none
  | c :: cs =>
    match hexVal c with
    | some d => some (hexDigitsMore (count - 1) d cs)
    | none => none

/-- at most two further octal digits -/
def octDigitsMore : Nat → Nat → List Char → Nat × List Char
  | 0, v, cs => (v, cs)
  | _ + 1, v, [] => (v, [])
  | n + 1, v, c :: cs =>
    match octVal c with
    | some d => octDigitsMore n (v * 8 + d) cs
    | none => (v, c :: cs)

/-- `char::from_u32` -/
def charFromU32 (n : Nat) : Option Char :=
  if n.isValidChar then some (Char.ofNat n) else none

/-- `Lexer::escape_unit`; `none` = end of input or syntax error -/
def lexEscape : List Char → Option (EscapeUnit × List Char)
  | [] => none
  | c1 :: rest =>
    if c1 ≠ '\\' then some (.literal c1, rest) else
    match rest with
    | [] => none                                         -- IncompleteEscape
    | c2 :: rest =>
      if c2 = '"' then some (.doubleQuote, rest)
      else if c2 = '\'' then some (.singleQuote, rest)
      else if c2 = '\\' then some (.backslash, rest)
      else if c2 = '?' then some (.question, rest)
      else if c2 = 'a' then some (.alert, rest)
      else if c2 = 'b' then some (.backspace, rest)
      else if c2 = 'e' then some (.escape, rest)
      else if c2 = 'E' then some (.escape, rest)
      else if c2 = 'f' then some (.formFeed, rest)
      else if c2 = 'n' then some (.newline, rest)
      else if c2 = 'r' then some (.carriageReturn, rest)
      else if c2 = 't' then some (.tab, rest)
      else if c2 = 'v' then some (.verticalTab, rest)
      else if c2 = 'c' then
        match rest with
        | [] => none                                     -- IncompleteControlEscape
        | c3 :: rest =>
          let u := toAsciiUpper c3
          if u = '\\' then
            match rest with
            | '\\' :: rest => some (.control 0x1C, rest)
            | _ => none                                  -- IncompleteControlBackslashEscape
          else if 0x3F ≤ u.toNat ∧ u.toNat < 0x60 then
            some (.control (UInt8.ofNat u.toNat ^^^ 0x40), rest)
          else none                                      -- InvalidControlEscape
      else if c2 = 'x' then
        match hexDigits 2 rest with
        | some (v, rest) => some (.hex (UInt8.ofNat v), rest)
        | none => none                                   -- IncompleteHexEscape
      else if c2 = 'u' then
        match hexDigits 4 rest with
        | some (v, rest) => (charFromU32 v).map fun c => (.unicode c, rest)
        | none => none
      else if c2 = 'U' then
        match hexDigits 8 rest with
        | some (v, rest) => (charFromU32 v).map fun c => (.unicode c, rest)
        | none => none
      else
        match octVal c2 with
        | none => none                                   -- InvalidEscape
        | some d =>
          let (v, rest) := octDigitsMore 2 d rest
          if v < 256 then some (.octal (UInt8.ofNat v), rest) else none

/-- `escaped_string(|c| c == '\'')` followed by the closing quote of
    `single_quoted_escaped_string`; `none` = syntax error (bad escape or unclosed) -/
def lexEscapedQuoted : Nat → List Char → Option (List EscapeUnit × List Char)
  | 0, _ => none
  | _ + 1, [] => none                                     -- UnclosedDollarSingleQuote
  | fuel + 1, c :: cs =>
    if c = '\'' then some ([], cs) else
    match lexEscape (c :: cs) with
    | none => none
    | some (u, rest) =>
      match lexEscapedQuoted fuel rest with
      | none => none
      | some (us, rest) => some (u :: us, rest)

/-! ## Words -/

/-- `WordContext` -/
inductive Ctx | word | text
  deriving DecidableEq, Repr

/-- the delimiter predicates the lexer passes around, as data -/
inductive Delim
  | token    -- `is_token_delimiter_char`
  | brace    -- `|c| c == '}'`
  | dquote   -- `|c| c == '"'`
  | never    -- `|_| false` (the `FromStr` entry points)
  deriving DecidableEq, Repr

def Delim.test : Delim → Char → Bool
  | .token, c => isTokenDelimiter c
  | .brace, c => c = '}'
  | .dquote, c => c = '"'
  | .never, _ => false

/-- the `is_escapable` argument of `text_unit`: everything in a word context (`escape_all`);
    `$ " \` \\` or the delimiter in a text context (`escape_some`, and `double_quote::is_escapable`) -/
def escapable (ctx : Ctx) (d : Delim) (c : Char) : Bool :=
  match ctx with
  | .word => true
  | .text => dqEscapable.contains c || d.test c

/-- three-way outcome of the unit lexers -/
inductive Res (α : Type) where
  | ok (a : α) (rest : List Char)
  | none (rest : List Char)      -- no unit here (delimiter or end of input)
  | err                          -- syntax error, or a form the model does not cover
  deriving Repr

/-- the loop of `raw_param` / `braced_param` over name characters -/
def takeName : Nat → List Char → List Char × List Char
  | 0, cs => ([], cs)
  | fuel + 1, cs =>
    match skipLC cs with
    | [] => ([], [])
    | c :: rest =>
      if isNameChar c then
        let (n, r) := takeName fuel rest
        (c :: n, r)
      else ([], c :: rest)

/-- `single_quote` after the opening quote (raw characters up to the next `'`) -/
def takeSingleQuoted : List Char → Option (List Char × List Char)
  | [] => none
  | c :: cs =>
    if c = '\'' then some ([], cs) else
    match takeSingleQuoted cs with
    | none => none
    | some (s, rest) => some (c :: s, rest)

/-- `backquote_unit`* after the opening backquote, up to and including the closing one -/
def lexBackquoteUnits (ctx : Ctx) : Nat → List Char → Option (List BackquoteUnit × List Char)
  | 0, _ => none
  | fuel + 1, cs =>
    match skipLC cs with
    | [] => none                                           -- UnclosedBackquote
    | c0 :: rest =>
      if c0 = '\\' then
        match skipLC rest with
        | c :: rest' =>
          if c = '$' || c = '`' || c = '\\' || (c = '"' && ctx = .text) then
            (lexBackquoteUnits ctx fuel rest').map fun (us, r) => (.backslashed c :: us, r)
          else (lexBackquoteUnits ctx fuel (c :: rest')).map fun (us, r) => (.literal '\\' :: us, r)
        | [] => none
      else if c0 = '`' then some ([], rest)
      else (lexBackquoteUnits ctx fuel rest).map fun (us, r) => (.literal c0 :: us, r)

/-- `has_length_prefix` (look-ahead only) on the input after `${` -/
def hasLengthPrefix (cs : List Char) : Bool :=
  match skipLC cs with
  | [] => false
  | c0 :: r =>
    if c0 = '#' then
      match skipLC r with
      | [] => true
      | c :: r2 =>
        if c = '}' || c = '+' || c = '=' || c = ':' || c = '%' then false
        else if c = '-' || c = '?' || c = '#' then
          match skipLC r2 with
          | [] => true
          | c2 :: _ => c2 = '}'
        else true
    else false

/-- `parse_tilde` with `delimit_at_colon = false`: `(consumed units, name, followed_by_slash)` -/
def parseTildeName : List WordUnit → Option (Nat × List Char × Bool)
  | [] => some (0, [], false)
  | .unquoted (.literal c) :: us =>
    if c = '/' then some (0, [], true) else
    match parseTildeName us with
    | some (n, name, s) => some (n + 1, c :: name, s)
    | none => none
  | _ => none

/-- `Word::parse_tilde_front` -/
def parseTildeFront (w : List WordUnit) : List WordUnit :=
  match w with
  | .unquoted (.literal '~') :: us =>
    match parseTildeName us with
    | some (n, name, s) => .tilde name s :: us.drop n
    | none => w
  | _ => w

/-- `type_of_id(..).is_some()` for an identifier made of name characters -/
def validId (id : List Char) : Bool :=
  match id with
  | c :: _ => if isAsciiDigit c then id.all isAsciiDigit else true
  | [] => false

/-- the parameter of `braced_param`: a run of name characters (checked by `type_of_id`) or one special
    parameter character -/
def lexParamId (fuel : Nat) (cs : List Char) : Option (List Char × List Char) :=
  match skipLC cs with
  | [] => none                                             -- EmptyParam
  | c :: r =>
    if isNameChar c then
      if validId (c :: (takeName fuel r).1) then some (c :: (takeName fuel r).1, (takeName fuel r).2)
      else none                                            -- InvalidParam
    else if isSpecialParamChar c then some ([c], r)
    else none                                              -- EmptyParam

/-- `skip_if(|c| c == ':')` at the start of `suffix_modifier` -/
def skipColon (cs : List Char) : Bool × List Char :=
  match skipLC cs with
  | [] => (false, [])
  | c :: r => if c = ':' then (true, r) else (false, c :: r)

/-- `switch`: the action named by the symbol -/
def switchAction (s : Char) : SwitchAction :=
  if s = '+' then .alter else if s = '-' then .default else if s = '=' then .assign else .error

/-- `trim`: a doubled symbol selects the longest match -/
def trimLength (s : Char) (cs : List Char) : Bool × List Char :=
  match skipLC cs with
  | [] => (false, [])
  | s2 :: r => if s2 = s then (true, r) else (false, s2 :: r)

def Modifier.isNone : Modifier → Bool
  | .none => true
  | _ => false

/-- the end of `braced_param`: the closing brace and the `(has_length_prefix, suffix)` table -/
def closeBraced (hasLen : Bool) (id : List Char) (m : Modifier) (cs : List Char) : Res TextUnit :=
  match skipLC cs with
  | [] => .err                                             -- UnclosedParam
  | c :: r =>
    if c = '}' then
      if hasLen then
        if m.isNone then .ok (.bracedParam id .length) r else .err   -- MultipleModifier
      else .ok (.bracedParam id m) r
    else .err                                              -- UnclosedParam

/-- `unit == Some(TextUnit::Literal('$'))` -/
def isLitDollar : TextUnit → Bool
  | .literal c => c = '$'
  | _ => false

mutual
  /-- `WordLexer::text_unit(is_delimiter, is_escapable)` -/
  def lexTextUnit : Nat → Ctx → Delim → List Char → Res TextUnit
    | 0, _, _, _ => .err
    | fuel + 1, ctx, d, cs =>
      match skipLC cs with
      | [] => .none []
      | c0 :: rest =>
        if c0 = '\\' then
          -- `consume_raw_char_if(is_escapable)`: line continuations disabled
          match rest with
          | c :: rest' =>
            if escapable ctx d c then .ok (.backslashed c) rest' else .ok (.literal '\\') rest
          | [] => .ok (.literal '\\') []
        else if c0 = '$' then
          -- `dollar_unit`: raw_param, braced_param, arithmetic_expansion, command_substitution
          match skipLC rest with
          | c :: r =>
            if isSpecialParamChar c then .ok (.rawParam [c]) r
            else if isAsciiDigit c then .ok (.rawParam [c]) r
            else if isNameChar c then
              let (n, r') := takeName fuel r
              .ok (.rawParam (c :: n)) r'
            else if c = '{' then lexBraced fuel ctx r
            else if c = '(' then .err                    -- `$(…)`, `$((…))`: not modelled
            else if d.test '$' then .none ('$' :: c :: r) else .ok (.literal '$') (c :: r)
          | [] => if d.test '$' then .none ['$'] else .ok (.literal '$') []
        else if c0 = '`' then
          match lexBackquoteUnits ctx fuel rest with
          | some (us, r) => .ok (.backquote us) r
          | none => .err
        else if d.test c0 then .none (c0 :: rest) else .ok (.literal c0) rest

  /-- `WordLexer::braced_param` after `${` (with `length_prefix`, `suffix_modifier`, `switch`, `trim`) -/
  def lexBraced : Nat → Ctx → List Char → Res TextUnit
    | 0, _, _ => .err
    | fuel + 1, ctx, cs =>
      let hasLen := hasLengthPrefix cs
      match lexParamId fuel (if hasLen then (skipLC cs).drop 1 else cs) with
      | none => .err                                       -- EmptyParam / InvalidParam
      | some (id, r) =>
        -- `suffix_modifier`
        let colon := (skipColon r).1
        match skipLC (skipColon r).2 with
        | [] => .err                                       -- InvalidModifier / UnclosedParam
        | s :: r2 =>
          if s = '+' || s = '-' || s = '=' || s = '?' then
            match lexWordUnits fuel ctx .brace r2 with
            | some (w, r3) =>
              closeBraced hasLen id
                (.switch colon (switchAction s) (if ctx = .word then parseTildeFront w else w)) r3
            | none => .err
          else if s = '#' || s = '%' then
            if colon then .err else                        -- InvalidModifier
            match lexWordUnits fuel .word .brace (trimLength s r2).2 with
            | some (w, r4) =>
              closeBraced hasLen id
                (.trim (if s = '#' then .pfx else .sfx) (trimLength s r2).1 (parseTildeFront w)) r4
            | none => .err
          else if colon then .err                          -- InvalidModifier
          else closeBraced hasLen id .none (s :: r2)

  /-- `Lexer::text(is_delimiter, is_escapable)` in the text context (content of `"…"`) -/
  def lexTextUnits : Nat → Delim → List Char → Option (List TextUnit × List Char)
    | 0, _, _ => none
    | fuel + 1, d, cs =>
      match lexTextUnit fuel .text d cs with
      | .err => none
      | .none rest => some ([], rest)
      | .ok u rest =>
        match lexTextUnits fuel d rest with
        | none => none
        | some (us, rest) => some (u :: us, rest)

  /-- `WordLexer::word_unit(is_delimiter)` -/
  def lexWordUnit : Nat → Ctx → Delim → List Char → Res WordUnit
    | 0, _, _, _ => .err
    | fuel + 1, ctx, d, cs =>
      match skipLC cs with
      | [] => .none []
      | c :: rest =>
        if c = '\'' ∧ ctx = .word then
          match takeSingleQuoted rest with
          | some (s, r) => .ok (.singleQuote s) r
          | none => .err                                   -- UnclosedSingleQuote
        else if c = '"' then
          match lexTextUnits fuel .dquote rest with
          | some (t, r) =>
            match skipLC r with
            | '"' :: r' => .ok (.doubleQuote t) r'
            | _ => .err                                    -- UnclosedDoubleQuote
          | none => .err
        else
          match lexTextUnit fuel ctx d (c :: rest) with
          | .err => .err
          | .none r => .none r
          | .ok u r =>
            if ctx = .word ∧ isLitDollar u then
              match skipLC r with
              | '\'' :: r' =>
                match lexEscapedQuoted fuel r' with
                | some (es, r'') => .ok (.dollarSingleQuote es) r''
                | none => .err
              | _ => .ok (.unquoted u) r
            else .ok (.unquoted u) r

  /-- `WordLexer::word(is_delimiter)`: units up to the delimiter; `none` = syntax error -/
  def lexWordUnits : Nat → Ctx → Delim → List Char → Option (List WordUnit × List Char)
    | 0, _, _, _ => none
    | fuel + 1, ctx, d, cs =>
      match lexWordUnit fuel ctx d cs with
      | .err => none
      | .none rest => some ([], rest)
      | .ok u rest =>
        match lexWordUnits fuel ctx d rest with
        | none => none
        | some (us, rest) => some (u :: us, rest)
end

/-- `WordLexer::word(is_delimiter)` in a word context with enough fuel for the whole input -/
def lexWord (d : Delim) (cs : List Char) : Option (Word × List Char) :=
  lexWordUnits (cs.length + 4) .word d cs

/-! ## Word tokens of a simple command -/

/-- `Lexer::skip_blanks` -/
def skipBlanks : Nat → List Char → List Char
  | 0, cs => cs
  | fuel + 1, cs =>
    match skipLC cs with
    | [] => []
    | c :: r => if isBlank c then skipBlanks fuel r else c :: r

/-- The argument words of a simple command: the loop of `Parser::simple_command` over plain word tokens
    (`Lexer::token` = skip blanks, `word(is_token_delimiter_char)`, `parse_tilde_front`), up to the first
    position where no word starts (operator or end of input).  Assignments, redirections, keywords and
    IO numbers are not distinguished here. -/
def lexWords : Nat → List Char → Option (List Word × List Char)
  | 0, _ => none
  | fuel + 1, cs =>
    let cs' := skipBlanks cs.length cs
    match lexWord .token cs' with
    | none => none
    | some ([], r) => some ([], r)
    | some (u :: us, r) =>
      match lexWords fuel r with
      | none => none
      | some (ws, r') => some (parseTildeFront (u :: us) :: ws, r')

end YashModel.Syntax
