import YashModel.Syntax.Lemmas
namespace YashModel.Syntax

/-! ## line continuations -/

theorem skipLC_cons_ne (c : Char) (cs : List Char) (h : c ≠ '\\') : skipLC (c :: cs) = c :: cs := by
  unfold skipLC
  split
  · rename_i heq
    simp at heq
    exact absurd heq.1 h
  · rfl

theorem skipLC_bs_ne (c : Char) (cs : List Char) (h : c ≠ '\n') :
    skipLC ('\\' :: c :: cs) = '\\' :: c :: cs := by
  unfold skipLC
  split
  · rename_i heq
    simp at heq
    exact absurd heq.1 h
  · rfl

/-! ## quotes -/

theorem takeSingleQuoted_print (s rest : List Char) (h : '\'' ∉ s) :
    takeSingleQuoted (s ++ '\'' :: rest) = some (s, rest) := by
  induction s with
  | nil => simp [takeSingleQuoted]
  | cons c s ih =>
    have hc : c ≠ '\'' := by
      intro e; apply h; simp [e]
    have hs : '\'' ∉ s := by
      intro e; apply h; simp [e]
    simp [takeSingleQuoted, hc, ih hs]

theorem printEscape_head (u : EscapeUnit) (hp : u.Producible) (hq : u ≠ .literal '\'') :
    ∃ c t, printEscape u = c :: t ∧ c ≠ '\'' := by
  cases u with
  | literal c =>
    refine ⟨c, [], rfl, ?_⟩
    intro e; apply hq; rw [e]
  | control b =>
    by_cases h : b = 0x1C
    · exact ⟨'\\', ['c', '\\', '\\'], by simp [printEscape, h], by decide⟩
    · exact ⟨'\\', ['c', Char.ofNat (b ^^^ 0x40).toNat], by simp only [printEscape, h, if_false],
        by decide⟩
  | unicode c =>
    by_cases h : c.toNat ≤ 0xFFFF
    · exact ⟨'\\', 'u' :: lowerHex4 c.toNat, by simp only [printEscape, h, if_true], by decide⟩
    · exact ⟨'\\', 'U' :: upperHex8 c.toNat, by simp only [printEscape, h, if_false], by decide⟩
  | _ => exact ⟨'\\', _, rfl, by decide⟩

theorem printEscaped_length (es : List EscapeUnit) (h : ∀ u ∈ es, u.Producible ∧ u ≠ .literal '\'') :
    es.length ≤ (printEscaped es).length := by
  induction es with
  | nil => simp [printEscaped]
  | cons u us ih =>
    obtain ⟨c, t, e, _⟩ := printEscape_head u (h u (by simp)).1 (h u (by simp)).2
    have := ih (fun v hv => h v (by simp [hv]))
    simp only [printEscaped, List.length_append, List.length_cons, e]
    omega

theorem lexEscapedQuoted_print (es : List EscapeUnit) (rest : List Char)
    (h : ∀ u ∈ es, u.Producible ∧ u ≠ .literal '\'') :
    ∀ fuel, es.length + 1 ≤ fuel →
      lexEscapedQuoted fuel (printEscaped es ++ '\'' :: rest) = some (es, rest) := by
  induction es with
  | nil =>
    intro fuel hf
    obtain ⟨n, rfl⟩ : ∃ n, fuel = n + 1 := ⟨fuel - 1, by omega⟩
    simp [printEscaped, lexEscapedQuoted]
  | cons u us ih =>
    intro fuel hf
    obtain ⟨n, rfl⟩ : ∃ n, fuel = n + 1 := ⟨fuel - 1, by omega⟩
    have hu := h u (by simp)
    obtain ⟨c, t, e, hc⟩ := printEscape_head u hu.1 hu.2
    have hr := escape_unit_roundtrip_aux u hu.1 (printEscaped us ++ '\'' :: rest)
    have ih' := ih (fun v hv => h v (by simp [hv])) n (by simp at hf; omega)
    simp only [printEscaped, List.append_assoc]
    rw [e] at hr ⊢
    simp only [List.cons_append] at hr ⊢
    simp only [lexEscapedQuoted, hc, if_false, hr, ih']

end YashModel.Syntax
