/-
  C06 — helper lemmas for words: line continuations, quotes, the flat word fragment.
-/
import YashModel.Syntax.Lemmas
namespace YashModel.Syntax

/-! ## line continuations -/

theorem skipLC_cons_ne (c : Char) (cs : List Char) (h : c ≠ '\\') : skipLC (c :: cs) = c :: cs := by
  unfold skipLC
  split
  · rename_i heq
    simp at heq
    exact absurd heq.1 h
  · rfl

theorem skipLC_bs_ne (c : Char) (cs : List Char) (h : c ≠ '\n') :
    skipLC ('\\' :: c :: cs) = '\\' :: c :: cs := by
  unfold skipLC
  split
  · rename_i heq
    simp at heq
    exact absurd heq.1 h
  · rfl

/-! ## quotes -/

theorem takeSingleQuoted_print (s rest : List Char) (h : '\'' ∉ s) :
    takeSingleQuoted (s ++ '\'' :: rest) = some (s, rest) := by
  induction s with
  | nil => simp [takeSingleQuoted]
  | cons c s ih =>
    have hc : c ≠ '\'' := by
      intro e; apply h; simp [e]
    have hs : '\'' ∉ s := by
      intro e; apply h; simp [e]
    simp [takeSingleQuoted, hc, ih hs]

theorem printEscape_head (u : EscapeUnit) (hp : u.Producible) (hq : u ≠ .literal '\'') :
    ∃ c t, printEscape u = c :: t ∧ c ≠ '\'' := by
  cases u with
  | literal c =>
    refine ⟨c, [], rfl, ?_⟩
    intro e; apply hq; rw [e]
  | control b =>
    by_cases h : b = 0x1C
    · exact ⟨'\\', ['c', '\\', '\\'], by simp [printEscape, h], by decide⟩
    · exact ⟨'\\', ['c', Char.ofNat (b ^^^ 0x40).toNat], by simp only [printEscape, h, if_false],
        by decide⟩
  | unicode c =>
    by_cases h : c.toNat ≤ 0xFFFF
    · exact ⟨'\\', 'u' :: lowerHex4 c.toNat, by simp only [printEscape, h, if_true], by decide⟩
    · exact ⟨'\\', 'U' :: upperHex8 c.toNat, by simp only [printEscape, h, if_false], by decide⟩
  | _ => exact ⟨'\\', _, rfl, by decide⟩

theorem printEscaped_length (es : List EscapeUnit) (h : ∀ u ∈ es, u.Producible ∧ u ≠ .literal '\'') :
    es.length ≤ (printEscaped es).length := by
  induction es with
  | nil => simp [printEscaped]
  | cons u us ih =>
    obtain ⟨c, t, e, _⟩ := printEscape_head u (h u (by simp)).1 (h u (by simp)).2
    have := ih (fun v hv => h v (by simp [hv]))
    simp only [printEscaped, List.length_append, List.length_cons, e]
    omega

theorem lexEscapedQuoted_print (es : List EscapeUnit) (rest : List Char)
    (h : ∀ u ∈ es, u.Producible ∧ u ≠ .literal '\'') :
    ∀ fuel, es.length + 1 ≤ fuel →
      lexEscapedQuoted fuel (printEscaped es ++ '\'' :: rest) = some (es, rest) := by
  induction es with
  | nil =>
    intro fuel hf
    obtain ⟨n, rfl⟩ : ∃ n, fuel = n + 1 := ⟨fuel - 1, by omega⟩
    simp [printEscaped, lexEscapedQuoted]
  | cons u us ih =>
    intro fuel hf
    obtain ⟨n, rfl⟩ : ∃ n, fuel = n + 1 := ⟨fuel - 1, by omega⟩
    have hu := h u (by simp)
    obtain ⟨c, t, e, hc⟩ := printEscape_head u hu.1 hu.2
    have hr := escape_unit_roundtrip_aux u hu.1 (printEscaped us ++ '\'' :: rest)
    have ih' := ih (fun v hv => h v (by simp [hv])) n (by simp at hf; omega)
    simp only [printEscaped, List.append_assoc]
    rw [e] at hr ⊢
    simp only [List.cons_append] at hr ⊢
    simp only [lexEscapedQuoted, hc, if_false, hr, ih']

/-! ## the flat word fragment -/


/-- characters that start something other than a literal inside a word -/
def isWordSpecial (c : Char) : Bool := c = '\\' || c = '\'' || c = '"' || c = '$' || c = '`'

/-- the word units of the proved fragment, relative to the delimiter predicate in force -/
def WordUnit.Flat (d : Delim) : WordUnit → Prop
  | .unquoted (.literal c) => isWordSpecial c = false ∧ d.test c = false
  | .unquoted (.backslashed c) => c ≠ '\n'
  | .singleQuote s => '\'' ∉ s
  | .dollarSingleQuote es => ∀ u ∈ es, u.Producible ∧ u ≠ .literal '\''
  | _ => False

theorem printWordUnit_length_pos (d : Delim) (u : WordUnit) (h : u.Flat d) :
    1 ≤ (printWordUnit u).length := by
  cases u with
  | unquoted t => cases t <;> simp [printWordUnit, printTextUnit]
  | _ => simp [printWordUnit]

theorem lexWordUnit_flat (d : Delim) (hd : d.test '$' = false) (u : WordUnit) (h : u.Flat d)
    (rest : List Char) :
    ∀ fuel, (printWordUnit u).length + 2 ≤ fuel →
      lexWordUnit fuel .word d (printWordUnit u ++ rest) = .ok u rest := by
  intro fuel hf
  obtain ⟨n, rfl⟩ : ∃ n, fuel = n + 2 := ⟨fuel - 2, by omega⟩
  cases u with
  | unquoted t =>
    cases t with
    | literal c =>
      obtain ⟨hs, hdc⟩ := h
      simp [isWordSpecial] at hs
      obtain ⟨⟨⟨⟨h1, h2⟩, h3⟩, h4⟩, h5⟩ := hs
      simp [printWordUnit, printTextUnit, lexWordUnit, lexTextUnit, skipLC_cons_ne c _ h1, h1, h2, h3,
        h4, h5, hdc, isLitDollar]
    | backslashed c =>
      have hc : c ≠ '\n' := h
      simp [printWordUnit, printTextUnit, lexWordUnit, lexTextUnit, skipLC_bs_ne c _ hc, escapable,
        isLitDollar]
    | _ => exact absurd h (by simp [WordUnit.Flat])
  | singleQuote s =>
    have hs : '\'' ∉ s := h
    simp [printWordUnit, lexWordUnit, skipLC_cons_ne, takeSingleQuoted_print s rest hs]
  | dollarSingleQuote es =>
    have hes : ∀ u ∈ es, u.Producible ∧ u ≠ .literal '\'' := h
    have hl := printEscaped_length es hes
    have hq := lexEscapedQuoted_print es rest hes (n + 1) (by
      simp [printWordUnit] at hf; omega)
    simp [printWordUnit, lexWordUnit, lexTextUnit, skipLC_cons_ne, hd, isSpecialParamChar,
      YashModel.Generated.QuoteTables.specialParamChars, isAsciiDigit, isNameChar, isLitDollar, hq]
  | _ => exact absurd h (by simp [WordUnit.Flat])


theorem printWord_cons (u : WordUnit) (us : List WordUnit) :
    printWord (u :: us) = printWordUnit u ++ printWord us := by
  simp [printWord]

/-- conditions on the character that ends the word -/
def Delim.Ends (d : Delim) (c : Char) : Prop := d.test c = true ∧ isWordSpecial c = false

theorem lexWordUnit_at_delim (d : Delim) (c : Char) (hc : d.Ends c) (rest : List Char) :
    ∀ fuel, 2 ≤ fuel → lexWordUnit fuel .word d (c :: rest) = .none (c :: rest) := by
  intro fuel hf
  obtain ⟨n, rfl⟩ : ∃ n, fuel = n + 2 := ⟨fuel - 2, by omega⟩
  obtain ⟨ht, hs⟩ := hc
  simp [isWordSpecial] at hs
  obtain ⟨⟨⟨⟨h1, h2⟩, h3⟩, h4⟩, h5⟩ := hs
  simp [lexWordUnit, lexTextUnit, skipLC_cons_ne c _ h1, h1, h2, h3, h4, h5, ht]

theorem lexWordUnits_flat (d : Delim) (hd : d.test '$' = false) (w : List WordUnit)
    (h : ∀ u ∈ w, u.Flat d) (c : Char) (hc : d.Ends c) (rest : List Char) :
    ∀ fuel, (printWord w).length + 3 ≤ fuel →
      lexWordUnits fuel .word d (printWord w ++ c :: rest) = some (w, c :: rest) := by
  induction w with
  | nil =>
    intro fuel hf
    obtain ⟨n, rfl⟩ : ∃ n, fuel = n + 1 := ⟨fuel - 1, by omega⟩
    simp [printWord, lexWordUnits, lexWordUnit_at_delim d c hc rest n (by simp [printWord] at hf; omega)]
  | cons u us ih =>
    intro fuel hf
    obtain ⟨n, rfl⟩ : ∃ n, fuel = n + 1 := ⟨fuel - 1, by omega⟩
    have hu := h u (by simp)
    have hpos := printWordUnit_length_pos d u hu
    rw [printWord_cons] at hf ⊢
    simp only [List.length_append] at hf
    have h1 := lexWordUnit_flat d hd u hu (printWord us ++ c :: rest) n (by omega)
    have h2 := ih (fun v hv => h v (by simp [hv])) n (by omega)
    simp only [List.append_assoc]
    simp only [lexWordUnits, h1, h2]


end YashModel.Syntax
