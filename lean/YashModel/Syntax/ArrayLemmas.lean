/-
  C06 — simple commands with array assignments in the closed fragment (`SimpleOk` producer for arbitrary
  assignments; lemmas for `simple_command_with_arrays_roundtrip`).
-/
import YashModel.Syntax.Closed
namespace YashModel.Syntax

/-- the assignment pieces of arbitrary assignments (scalar or array) -/
def assignPiecesV (as : List Assign) : List Piece :=
  as.map fun a => match a.value with
    | .scalar v => .assign a.name v
    | .array ws => .arrayAssign a.name ws

/-- a simple command with at least one assignment (scalar or array), words and normal redirections -/
def mkSimpleV (as : List Assign) (ws : List Word) (rs : List (Option Nat × RedirOp × Word)) : SimpleCommand :=
  ⟨as, ws, rs.map fun r => .normal r.1 r.2.1 r.2.2⟩

theorem foldl_assignsV (as : List Assign) (b : Builder) :
    (assignPiecesV as).foldl Builder.push b = { b with assigns := b.assigns ++ as } := by
  induction as generalizing b with
  | nil => simp [assignPiecesV]
  | cons a as ih =>
    simp only [assignPiecesV, List.map_cons, List.foldl_cons] at ih ⊢
    rw [ih]
    obtain ⟨n, v⟩ := a
    cases v <;> simp [Builder.push]

theorem printAssign_piece (a : Assign) :
    printAssign a = (match a.value with
      | .scalar v => Piece.assign a.name v
      | .array ws => Piece.arrayAssign a.name ws).print := by
  obtain ⟨n, v⟩ := a
  cases v <;> simp [printAssign, printValue, Piece.print, printArrayAssign, printArrayWords]

theorem printSimple_piecesV (as : List Assign) (ws : List Word) (rs : List (Option Nat × RedirOp × Word))
    (hne : as ≠ []) :
    printSimple (mkSimpleV as ws rs) = printPieces (assignPiecesV as ++ wordPieces ws ++ redirPieces rs) := by
  have he : as.isEmpty = false := by cases as <;> simp_all
  unfold printSimple printPieces
  simp only [mkSimpleV, he, Bool.not_false, Bool.true_or, if_true]
  congr 1
  simp only [assignPiecesV, wordPieces, redirPieces, List.map_append, List.map_map]
  congr 1
  · congr 1
    · apply List.map_congr_left
      intro a _
      simpa using printAssign_piece a

/-- commands with assignments of both kinds are in the fragment when their pieces are -/
theorem simpleOk_assigns (as : List Assign) (ws : List Word) (rs : List (Option Nat × RedirOp × Word))
    (tail : List Char) (hne : as ≠ [])
    (hok : PiecesOk ⟨[], [], []⟩ (assignPiecesV as ++ wordPieces ws ++ redirPieces rs) tail) :
    SimpleOk (mkSimpleV as ws rs) tail := by
  refine ⟨_, ?_, printSimple_piecesV as ws rs hne, ?_, hok⟩
  · cases as with
    | nil => exact absurd rfl hne
    | cons a as => simp [assignPiecesV]
  · simp [List.foldl_append, foldl_assignsV, foldl_words, foldl_redirs, mkSimpleV]

end YashModel.Syntax
