/-
  C06 — the tables of the lexer / parser re-extracted from /repo on every run
  (`tools/tables/syntax.py` → `YashModel/Generated/SyntaxTables.lean`) and their connection to the hand-written
  model: a generic walk of the generated `OPERATORS` trie (`trieOperator`, transcription of
  `Lexer::operator_tail` over the trie as data), the helper lemmas, and the proofs (namespace `Tbl`) of the
  statements listed in `Theorems.lean`.
-/
import YashModel.Generated.SyntaxTables
import YashModel.Syntax.Structure
namespace YashModel.Syntax
open YashModel.Generated

/-! ## The generated tables and the hand-written model -/

/-- the constructors of the model's `Op` in the declaration order of `enum Operator` -/
def Op.all : List Op :=
  [.newline, .and, .andAnd, .openParen, .closeParen, .semicolon, .semicolonAnd, .semicolonSemicolon,
   .semicolonSemicolonAnd, .semicolonBar, .less, .lessAnd, .lessOpenParen, .lessLess, .lessLessDash,
   .lessLessLess, .lessGreater, .greater, .greaterAnd, .greaterOpenParen, .greaterGreater,
   .greaterGreaterBar, .greaterBar, .bar, .barBar]

/-- the Rust name of the variant -/
def Op.name : Op → String
  | .newline => "Newline" | .and => "And" | .andAnd => "AndAnd" | .openParen => "OpenParen"
  | .closeParen => "CloseParen" | .semicolon => "Semicolon" | .semicolonAnd => "SemicolonAnd"
  | .semicolonSemicolon => "SemicolonSemicolon" | .semicolonSemicolonAnd => "SemicolonSemicolonAnd"
  | .semicolonBar => "SemicolonBar" | .less => "Less" | .lessAnd => "LessAnd"
  | .lessOpenParen => "LessOpenParen" | .lessLess => "LessLess" | .lessLessDash => "LessLessDash"
  | .lessLessLess => "LessLessLess" | .lessGreater => "LessGreater" | .greater => "Greater"
  | .greaterAnd => "GreaterAnd" | .greaterOpenParen => "GreaterOpenParen"
  | .greaterGreater => "GreaterGreater" | .greaterGreaterBar => "GreaterGreaterBar"
  | .greaterBar => "GreaterBar" | .bar => "Bar" | .barBar => "BarBar"

def Op.ofIdx (i : Nat) : Option Op := Op.all[i]?

/-- `Operator::as_str` read from the generated table -/
def Op.str (o : Op) : List Char := ((SyntaxTables.operatorAsStr.lookup o.name).getD "").toList

/-- `Lexer::operator_tail` over the generated trie: `(operator found, rest after the characters peeked)`.
    `Trie::edge` is a binary search, which is `find?` on a list sorted by key (`trie_sorted`). -/
def trieTail (nodes : List (List (Char × Option Nat × Nat))) : Nat → Nat → List Char → Option Op × List Char
  | 0, _, cs => (none, cs)
  | fuel + 1, node, cs =>
    let edges := nodes.getD node []
    if edges.isEmpty then (none, cs) else
    match skipLC cs with
    | [] => (none, [])
    | c :: r =>
      match edges.find? (fun e => e.1 == c) with
      | none => (none, c :: r)
      | some e =>
        match trieTail nodes fuel e.2.2 r with
        | (some o, r') => (some o, r')
        | (none, r') =>
          match e.2.1.bind Op.ofIdx with
          | some o => (some o, r')
          | none => (none, cs)                         -- `rewind`

/-- `Lexer::operator` over the generated trie -/
def trieOperator (cs : List Char) : Option (Op × List Char) :=
  match trieTail SyntaxTables.operatorTrie 4 0 cs with
  | (some o, r) => some (o, r)
  | (none, _) => none


theorem Tbl.op_names : Op.all.map Op.name = SyntaxTables.operatorVariants := by decide

theorem Tbl.op_all_complete (o : Op) : o ∈ Op.all := by cases o <;> decide

example : trieOperator ";;&x".toList = some (.semicolonSemicolonAnd, ['x']) := by decide
example : trieOperator "<<\\\n-x".toList = some (.lessLessDash, ['x']) := by decide

theorem Tbl.trie_sorted :
    SyntaxTables.operatorTrie.all (fun edges => (edges.map (·.1.toNat)).Pairwise (· < ·)) = true := by decide


/-- one level of `trieTail` -/
theorem trieTail_succ (nodes : List (List (Char × Option Nat × Nat))) (fuel node : Nat) (cs : List Char) :
    trieTail nodes (fuel + 1) node cs =
      if (nodes.getD node []).isEmpty then (none, cs) else
      match skipLC cs with
      | [] => (none, [])
      | c :: r =>
        match (nodes.getD node []).find? (fun e => e.1 == c) with
        | none => (none, c :: r)
        | some e =>
          match trieTail nodes fuel e.2.2 r with
          | (some o, r') => (some o, r')
          | (none, r') =>
            match e.2.1.bind Op.ofIdx with
            | some o => (some o, r')
            | none => (none, cs) := by
  rw [trieTail]

theorem trieTail_leaf (fuel : Nat) (cs : List Char) : trieTail SyntaxTables.operatorTrie fuel 9 cs = (none, cs) := by
  cases fuel with
  | zero => rfl
  | succ f => rw [trieTail_succ]; rfl

/-- the edges of a trie node as `opTail` takes them -/
def edgesOf (E : List (Char × Option Nat × Nat)) : List (Char × Op) :=
  E.filterMap fun e => (e.2.1.bind Op.ofIdx).map fun o => (e.1, o)

theorem edgesOf_lookup (E : List (Char × Option Nat × Nat)) (hv : ∀ e ∈ E, (e.2.1.bind Op.ofIdx).isSome = true)
    (c : Char) :
    (E.find? (fun e => e.1 == c)).map (fun e => e.2.1.bind Op.ofIdx) = ((edgesOf E).lookup c).map some := by
  induction E with
  | nil => rfl
  | cons e E ih =>
    have he := hv e (List.mem_cons_self ..)
    have ih := ih (fun x hx => hv x (List.mem_cons_of_mem _ hx))
    cases ho : e.2.1.bind Op.ofIdx with
    | none => rw [ho] at he; cases he
    | some o =>
      have hE : edgesOf (e :: E) = (e.1, o) :: edgesOf E := by
        unfold edgesOf; rw [List.filterMap_cons, ho]; rfl
      rw [hE, List.find?_cons, List.lookup_cons]
      have hc : (c == e.1) = (e.1 == c) := by
        by_cases h : c = e.1
        · subst h; simp
        · have h1 : (c == e.1) = false := by simpa using h
          have h2 : (e.1 == c) = false := by simpa using fun x => h x.symm
          rw [h1, h2]
      rw [hc]
      cases hb : e.1 == c with
      | true => simp [ho]
      | false => simpa using ih

/-- a node all of whose edges lead to the empty trie is one `opTail` step -/
theorem trieTail_flat (fuel node : Nat) (r : List Char) (dflt : Op)
    (E : List (Char × Option Nat × Nat)) (hE : SyntaxTables.operatorTrie.getD node [] = E) (hne : E.isEmpty = false)
    (hleaf : ∀ e ∈ E, e.2.2 = 9) (hv : ∀ e ∈ E, (e.2.1.bind Op.ofIdx).isSome = true) :
    (match trieTail SyntaxTables.operatorTrie (fuel + 1) node r with
      | (some o, r') => (o, r')
      | (none, r') => (dflt, r')) = opTail r (edgesOf E) dflt := by
  rw [trieTail_succ, hE, hne]
  simp only [Bool.false_eq_true, if_false]
  unfold opTail
  cases skipLC r with
  | nil => rfl
  | cons c r' =>
    have h := edgesOf_lookup E hv c
    cases hf : E.find? (fun e => e.1 == c) with
    | none =>
      rw [hf] at h
      cases hl : (edgesOf E).lookup c with
      | none => simp only [hf, hl]
      | some o => rw [hl] at h; cases h
    | some e =>
      rw [hf] at h
      have hm := List.mem_of_find?_eq_some hf
      cases hl : (edgesOf E).lookup c with
      | none => rw [hl] at h; cases h
      | some o =>
        rw [hl] at h
        simp only [Option.map_some, Option.some.injEq] at h
        simp only [hf, hl, hleaf e hm, trieTail_leaf, h]

theorem wrap_tail (x : Option Op × List Char) (d : Op) :
    (match (match x with
        | (some o, r') => ((some o : Option Op), r')
        | (none, r') => (some d, r')) with
      | (some o, r) => some (o, r)
      | (none, _) => none) =
    some (match x with
      | (some o, r') => (o, r')
      | (none, r') => (d, r')) := by
  obtain ⟨a, b⟩ := x
  cases a <;> rfl

theorem opTail_nil (r : List Char) (ed : List (Char × Op)) (d : Op) (h : skipLC r = []) :
    opTail r ed d = (d, []) := by unfold opTail; rw [h]

theorem opTail_some (r : List Char) (ed : List (Char × Op)) (d : Op) (c : Char) (r' : List Char) (o : Op)
    (h : skipLC r = c :: r') (hl : ed.lookup c = some o) : opTail r ed d = (o, r') := by
  unfold opTail; rw [h]; simp only [hl]

theorem opTail_none (r : List Char) (ed : List (Char × Op)) (d : Op) (c : Char) (r' : List Char)
    (h : skipLC r = c :: r') (hl : ed.lookup c = none) : opTail r ed d = (d, c :: r') := by
  unfold opTail; rw [h]; simp only [hl]

/-- a node with one edge (the one whose operator is `X`) into a flat node, all others into the empty trie -/
theorem trieTail_mid (fuel node : Nat) (r : List Char) (d X : Op) (n2 : Nat)
    (E E2 : List (Char × Option Nat × Nat))
    (hE : SyntaxTables.operatorTrie.getD node [] = E) (hne : E.isEmpty = false)
    (hv : ∀ e ∈ E, (e.2.1.bind Op.ofIdx).isSome = true)
    (hE2 : SyntaxTables.operatorTrie.getD n2 [] = E2) (hne2 : E2.isEmpty = false)
    (hleaf2 : ∀ e ∈ E2, e.2.2 = 9) (hv2 : ∀ e ∈ E2, (e.2.1.bind Op.ofIdx).isSome = true)
    (hmid : ∀ e ∈ E, if e.2.1.bind Op.ofIdx = some X then e.2.2 = n2 else e.2.2 = 9) (hd : d ≠ X) :
    (match trieTail SyntaxTables.operatorTrie (fuel + 2) node r with
      | (some o, r') => (o, r')
      | (none, r') => (d, r')) =
      if (opTail r (edgesOf E) d).1 = X then opTail (opTail r (edgesOf E) d).2 (edgesOf E2) X
      else opTail r (edgesOf E) d := by
  rw [trieTail_succ, hE, hne]
  simp only [Bool.false_eq_true, if_false]
  cases hs : skipLC r with
  | nil => rw [opTail_nil r _ d hs]; simp only [if_neg hd]
  | cons c r' =>
    have h := edgesOf_lookup E hv c
    cases hf : E.find? (fun e => e.1 == c) with
    | none =>
      rw [hf] at h
      cases hl : (edgesOf E).lookup c with
      | none => rw [opTail_none r _ d c r' hs hl]; simp only [hf, if_neg hd]
      | some o => rw [hl] at h; cases h
    | some e =>
      rw [hf] at h
      have hm := List.mem_of_find?_eq_some hf
      cases hl : (edgesOf E).lookup c with
      | none => rw [hl] at h; cases h
      | some o =>
        rw [hl] at h
        simp only [Option.map_some, Option.some.injEq] at h
        have hmid' := hmid e hm
        rw [h] at hmid'
        rw [opTail_some r _ d c r' o hs hl]
        simp only [hf, h]
        by_cases hx : o = X
        · subst hx
          simp only [if_true] at hmid' ⊢
          rw [hmid', ← trieTail_flat fuel n2 r' o E2 hE2 hne2 hleaf2 hv2]
          cases trieTail SyntaxTables.operatorTrie (fuel + 1) n2 r' with
          | mk a b => cases a <;> rfl
        · have hx' : ¬ (some o = some X) := fun e => hx (Option.some.inj e)
          simp only [if_neg hx', if_neg hx] at hmid' ⊢
          rw [hmid', trieTail_leaf]

theorem close_tail (x : Option Op × List Char) (v : Option Nat) (d : Op) (cs : List Char)
    (hv : v.bind Op.ofIdx = some d) :
    (match (match x with
        | (some o, r') => ((some o : Option Op), r')
        | (none, r') =>
          match v.bind Op.ofIdx with
          | some o => (some o, r')
          | none => (none, cs)) with
      | (some o, r) => some (o, r)
      | (none, _) => none) =
    some (match x with
      | (some o, r') => (o, r')
      | (none, r') => (d, r')) := by
  rw [hv]; exact wrap_tail x d

theorem Tbl.lexOperator_eq_trie (cs : List Char) : lexOperator cs = trieOperator cs := by
  unfold lexOperator trieOperator
  cases h : skipLC cs with
  | nil => rw [trieTail_succ]; simp [h, SyntaxTables.operatorTrie]
  | cons c r =>
    rw [trieTail_succ]
    have hn0 : (SyntaxTables.operatorTrie.getD 0 []).isEmpty = false := rfl
    simp only [h, hn0, Bool.false_eq_true, if_false]
    by_cases h1 : c = '\n'
    · subst h1
      rw [show List.find? (fun e => e.1 == '\n') (SyntaxTables.operatorTrie.getD 0 []) = some ('\n', some 0, 9) from rfl]
      simp only [trieTail_leaf]; rfl
    by_cases h2 : c = '&'
    · subst h2
      rw [show List.find? (fun e => e.1 == '&') (SyntaxTables.operatorTrie.getD 0 []) = some ('&', some 1, 1) from rfl]
      simp only [if_neg h1, if_true]
      rw [close_tail _ _ .and _ rfl, trieTail_flat 2 1 r .and _ rfl rfl (by decide) (by decide)]
      rfl
    by_cases h3 : c = '('
    · subst h3
      rw [show List.find? (fun e => e.1 == '(') (SyntaxTables.operatorTrie.getD 0 []) = some ('(', some 3, 9) from rfl]
      simp only [trieTail_leaf]; rfl
    by_cases h4 : c = ')'
    · subst h4
      rw [show List.find? (fun e => e.1 == ')') (SyntaxTables.operatorTrie.getD 0 []) = some (')', some 4, 9) from rfl]
      simp only [trieTail_leaf]; rfl
    by_cases h5 : c = ';'
    · subst h5
      rw [show List.find? (fun e => e.1 == ';') (SyntaxTables.operatorTrie.getD 0 []) = some (';', some 5, 2) from rfl]
      simp only [if_neg h1, if_neg h2, if_neg h3, if_neg h4, if_true]
      rw [close_tail _ _ .semicolon _ rfl,
        trieTail_mid 1 2 r .semicolon .semicolonSemicolon 6 _ _ rfl rfl (by decide) rfl rfl (by decide) (by decide)
          (by decide) (by decide), apply_ite some]
      rfl
    by_cases h6 : c = '<'
    · subst h6
      rw [show List.find? (fun e => e.1 == '<') (SyntaxTables.operatorTrie.getD 0 []) = some ('<', some 10, 3) from rfl]
      simp only [if_neg h1, if_neg h2, if_neg h3, if_neg h4, if_neg h5, if_true]
      rw [close_tail _ _ .less _ rfl,
        trieTail_mid 1 3 r .less .lessLess 7 _ _ rfl rfl (by decide) rfl rfl (by decide) (by decide)
          (by decide) (by decide), apply_ite some]
      rfl
    by_cases h7 : c = '>'
    · subst h7
      rw [show List.find? (fun e => e.1 == '>') (SyntaxTables.operatorTrie.getD 0 []) = some ('>', some 17, 4) from rfl]
      simp only [if_neg h1, if_neg h2, if_neg h3, if_neg h4, if_neg h5, if_neg h6, if_true]
      rw [close_tail _ _ .greater _ rfl,
        trieTail_mid 1 4 r .greater .greaterGreater 8 _ _ rfl rfl (by decide) rfl rfl (by decide) (by decide)
          (by decide) (by decide), apply_ite some]
      rfl
    by_cases h8 : c = '|'
    · subst h8
      rw [show List.find? (fun e => e.1 == '|') (SyntaxTables.operatorTrie.getD 0 []) = some ('|', some 23, 5) from rfl]
      simp only [if_neg h1, if_neg h2, if_neg h3, if_neg h4, if_neg h5, if_neg h6, if_neg h7, if_true]
      rw [close_tail _ _ .bar _ rfl, trieTail_flat 2 5 r .bar _ rfl rfl (by decide) (by decide)]
      rfl
    · have hf : List.find? (fun e => e.1 == c) (SyntaxTables.operatorTrie.getD 0 []) = none := by
        rw [List.find?_eq_none]
        intro e he
        have : e.1 = '\n' ∨ e.1 = '&' ∨ e.1 = '(' ∨ e.1 = ')' ∨ e.1 = ';' ∨ e.1 = '<' ∨ e.1 = '>' ∨ e.1 = '|' := by
          revert e; decide
        simp only [beq_iff_eq]
        rcases this with e | e | e | e | e | e | e | e <;> rw [e] <;>
          exact fun x => by first | exact h1 x.symm | exact h2 x.symm | exact h3 x.symm | exact h4 x.symm | exact h5 x.symm | exact h6 x.symm | exact h7 x.symm | exact h8 x.symm
      rw [hf]
      simp only [if_neg h1, if_neg h2, if_neg h3, if_neg h4, if_neg h5, if_neg h6, if_neg h7, if_neg h8]


/-! ### the other tables -/

def RedirOp.name : RedirOp → String
  | .fileIn => "FileIn" | .fileInOut => "FileInOut" | .fileOut => "FileOut" | .fileAppend => "FileAppend"
  | .fileClobber => "FileClobber" | .fdIn => "FdIn" | .fdOut => "FdOut" | .pipe => "Pipe" | .string => "String"

def CaseCont.name : CaseCont → String
  | .break_ => "Break" | .fallThrough => "FallThrough" | .continue_ => "Continue"

/-- `Operator::from(x).as_str()` through the generated tables -/
def strVia (conv : List (String × String)) (name : String) : List Char :=
  (((List.lookup name conv).bind fun v => List.lookup v SyntaxTables.operatorAsStr).getD "").toList

/-- every operator text (`Operator::as_str`) is read by the operator lexer as that operator -/
theorem Tbl.operator_texts_read_back : ∀ o ∈ Op.all, lexOperator o.str = some (o, []) := by decide

/-- `RedirOp::try_from(Operator)` of the model is the generated table -/
theorem Tbl.redirOpOf_eq_table (o : Op) :
    (redirOpOf o).map RedirOp.name = SyntaxTables.redirOpOfOperator.lookup o.name := by
  cases o <;> decide

/-- the text the model prints for a redirection operator is `Operator::from(op).as_str()` -/
theorem Tbl.redirOp_str_eq_table (r : RedirOp) : r.str = strVia SyntaxTables.operatorOfRedirOp r.name := by
  cases r <;> decide

/-- `CaseContinuation::try_from(Operator)` of the model is the generated table -/
theorem Tbl.caseContOf_eq_table (o : Op) :
    (caseContOf o).map CaseCont.name = SyntaxTables.caseContinuationOfOperator.lookup o.name := by
  cases o <;> decide

theorem Tbl.caseCont_str_eq_table (k : CaseCont) : k.str = strVia SyntaxTables.operatorOfCaseContinuation k.name := by
  cases k <;> decide

/-- `&&` / `||`: the two texts `printAndOrRest` writes and the two operators `parseAndOrTail` accepts -/
theorem Tbl.andOr_tables :
    strVia SyntaxTables.operatorOfAndOr "AndThen" = "&&".toList ∧
    strVia SyntaxTables.operatorOfAndOr "OrElse" = "||".toList ∧
    SyntaxTables.andOrOfOperator = [(Op.andAnd.name, "AndThen"), (Op.barBar.name, "OrElse")] := by decide

/-- the model's reserved words are the strings `Keyword::from_str` accepts -/
theorem Tbl.keywords_eq_table : keywords = SyntaxTables.keywordFromStr.map (·.1.toList) := by decide

/-- `Keyword::as_str` and `Keyword::from_str` are inverse to each other on all variants -/
theorem Tbl.keyword_as_str_from_str :
    SyntaxTables.keywordAsStr.map (·.1) = SyntaxTables.keywordVariants ∧
    (∀ p ∈ SyntaxTables.keywordAsStr, SyntaxTables.keywordFromStr.lookup p.2 = some p.1) ∧
    SyntaxTables.keywordFromStr.length = SyntaxTables.keywordAsStr.length := by decide

/-- the texts of the keywords for which `Keyword::is_clause_delimiter` holds -/
def clauseKeywordTexts : List (List Char) :=
  SyntaxTables.keywordClauseDelimiters.filterMap fun v => (SyntaxTables.keywordAsStr.lookup v).map String.toList

/-- `TokenId::is_clause_delimiter` through the generated tables -/
def isClauseDelimiterGen (t : Token) : Bool :=
  match t.id with
  | .word true => (wordLiteral t.word).any clauseKeywordTexts.contains
  | .word false => SyntaxTables.tokenIdClauseDelimiter.lookup "Token(None)" == some "true"
  | .op o => SyntaxTables.operatorClauseDelimiters.contains o.name
  | .ioNumber => SyntaxTables.tokenIdClauseDelimiter.lookup "IoNumber" == some "true"
  | .ioLocation => SyntaxTables.tokenIdClauseDelimiter.lookup "IoLocation" == some "true"
  | .endOfInput => SyntaxTables.tokenIdClauseDelimiter.lookup "EndOfInput" == some "true"

theorem Tbl.tokenId_clause_dispatch :
    SyntaxTables.tokenIdClauseDelimiter.lookup "Token(Some(_))" = some "keyword" ∧
    SyntaxTables.tokenIdClauseDelimiter.lookup "Operator(_)" = some "operator" := by decide

/-- the model's `Token.isClauseDelimiter` is `TokenId::is_clause_delimiter` read from the sources -/
theorem Tbl.isClauseDelimiter_eq_table (t : Token) : t.isClauseDelimiter = isClauseDelimiterGen t := by
  obtain ⟨w, id⟩ := t
  cases id with
  | word kw =>
    cases kw with
    | false => simp only [Token.isClauseDelimiter, isClauseDelimiterGen]; decide
    | true =>
      simp only [Token.isClauseDelimiter, isClauseDelimiterGen]
      cases wordLiteral w with
      | none => decide
      | some s =>
        have hsub : ∀ k : List Char, clauseKeywordTexts.contains k =
            (["do", "done", "elif", "else", "esac", "fi", "then", "}"].any fun x : String => k = x.toList) := by
          intro k
          have e : clauseKeywordTexts = ["}", "do", "done", "elif", "else", "esac", "fi", "then"].map String.toList := by
            decide
          rw [e]
          simp only [List.contains_eq_mem, List.map_cons, List.map_nil, List.mem_cons, List.not_mem_nil, or_false,
            List.any_cons, List.any_nil, Bool.or_false, Bool.decide_or]
          rw [Bool.eq_iff_iff]
          simp only [Bool.or_eq_true, decide_eq_true_eq]
          constructor <;> intro h <;> rcases h with h | h | h | h | h | h | h | h <;> simp [h]
        simp only [Option.any_some, hsub s, Option.some.injEq]
  | op o => cases o <;> simp only [Token.isClauseDelimiter, isClauseDelimiterGen] <;> decide
  | ioNumber => simp only [Token.isClauseDelimiter, isClauseDelimiterGen]; decide
  | ioLocation => simp only [Token.isClauseDelimiter, isClauseDelimiterGen]; decide
  | endOfInput => simp only [Token.isClauseDelimiter, isClauseDelimiterGen]; decide

/-- what may follow a command line that no newline ends: the end of input only -/
theorem Tbl.commandLine_trailing_table : SyntaxTables.commandLineAcceptedTrailing = ["EndOfInput"] := by decide

end YashModel.Syntax
