/-
  C17 — what the `alias` / `unalias` built-ins do to the table (`defineAlias`, `applyCmd` of Model.lean), stated
  declaratively as POSIX words it: "alias name=value … defines the alias", "unalias name … removes the
  definition", "unalias -a removes all alias definitions" — in terms of `Table.lookup`, the only way the
  substitution machine reads the table.  Helper lemmas for `Theorems.lean`.
-/
import YashModel.Alias.Model
namespace YashModel.Alias

theorem takeWhile_ne_append (n v : List Char) (hn : '=' ∉ n) :
    (n ++ '=' :: v).takeWhile (· != '=') = n := by
  induction n with
  | nil => simp
  | cons c t ih =>
    have hc : c ≠ '=' := fun h => hn (by rw [h]; exact List.mem_cons_self ..)
    have ht : '=' ∉ t := fun h => hn (List.mem_cons_of_mem _ h)
    simp [List.takeWhile_cons, hc, ih ht]

theorem takeWhile_ne_all (arg : List Char) (h : '=' ∉ arg) : arg.takeWhile (· != '=') = arg := by
  induction arg with
  | nil => rfl
  | cons c t ih =>
    have hc : c ≠ '=' := fun h' => h (by rw [h']; exact List.mem_cons_self ..)
    have ht : '=' ∉ t := fun h' => h (List.mem_cons_of_mem _ h')
    simp [List.takeWhile_cons, hc, ih ht]

/-- the explicit form of a definition -/
theorem defineAlias_eq (T : Table) (n v : List Char) (hn : '=' ∉ n) :
    defineAlias T (n ++ '=' :: v) =
      { name := String.ofList n, value := v, global := false } ::
        T.filter (fun a => a.name != String.ofList n) := by
  unfold defineAlias
  simp only [takeWhile_ne_append n v hn]
  have h1 : ¬ (n.length = (n ++ '=' :: v).length) := by simp
  have h2 : (n ++ '=' :: v).drop (n.length + 1) = v := by
    rw [show n ++ '=' :: v = (n ++ ['=']) ++ v by simp]
    exact List.drop_left' (by simp)
  simp [h1, h2]

theorem lookup_filter_ne (T : Table) (n m : String) (h : m ≠ n) :
    Table.lookup (T.filter (fun a => a.name != n)) m = Table.lookup T m := by
  unfold Table.lookup
  induction T with
  | nil => rfl
  | cons a t ih =>
    by_cases ha : a.name = n
    · have e1 : (a.name != n) = false := by simp [ha]
      have e2 : (a.name == m) = false := by
        rw [ha]; simpa using fun h' : n = m => h h'.symm
      rw [List.filter_cons, e1, List.find?_cons, e2]
      simpa using ih
    · have e1 : (a.name != n) = true := by simpa using ha
      rw [List.filter_cons, e1]
      simp only [↓reduceIte, List.find?_cons]
      cases a.name == m
      · exact ih
      · rfl

theorem lookup_filter_not_mem (T : Table) (names : List (List Char)) (m : String) :
    Table.lookup (T.filter (fun a => !names.contains a.name.toList)) m =
      if names.contains m.toList then none else Table.lookup T m := by
  unfold Table.lookup
  induction T with
  | nil => simp
  | cons a t ih =>
    cases ha : names.contains a.name.toList
    · rw [List.filter_cons, ha]
      simp only [Bool.not_false, ↓reduceIte, List.find?_cons]
      cases hm : a.name == m
      · exact ih
      · have : a.name = m := by simpa using hm
        rw [← this, ha]; rfl
    · rw [List.filter_cons, ha]
      simp only [Bool.not_true, Bool.false_eq_true, ↓reduceIte, List.find?_cons]
      cases hm : a.name == m
      · exact ih
      · have : a.name = m := by simpa using hm
        rw [ih, ← this, ha]; rfl

/-- a word without quoting characters is its own quote removal -/
theorem unquote_plain (w : List Char) (h : ∀ c ∈ w, c ≠ '\\' ∧ c ≠ '\'' ∧ c ≠ '"') : unquote .un w = w := by
  induction w with
  | nil => rfl
  | cons c t ih =>
    obtain ⟨h1, h2, h3⟩ := h c (List.mem_cons_self ..)
    unfold unquote
    simp [h1, h2, h3, ih (fun x hx => h x (List.mem_cons_of_mem _ hx))]

end YashModel.Alias
