/-
  C17 — what the `alias` / `unalias` built-ins do to the table (`defineAlias`, `applyCmd` of Model.lean), stated
  declaratively as POSIX words it: "alias name=value … defines the alias", "unalias name … removes the
  definition", "unalias -a removes all alias definitions" — in terms of `Table.lookup`, the only way the
  substitution machine reads the table.  Helper lemmas for `Theorems.lean`.
-/
import YashModel.Alias.Model
namespace YashModel.Alias

theorem takeWhile_ne_append (n v : List Char) (hn : '=' ∉ n) :
    (n ++ '=' :: v).takeWhile (· != '=') = n := by
  induction n with
  | nil => simp
  | cons c t ih =>
    have hc : c ≠ '=' := fun h => hn (by rw [h]; exact List.mem_cons_self ..)
    have ht : '=' ∉ t := fun h => hn (List.mem_cons_of_mem _ h)
    simp [List.takeWhile_cons, hc, ih ht]

theorem takeWhile_ne_all (arg : List Char) (h : '=' ∉ arg) : arg.takeWhile (· != '=') = arg := by
  induction arg with
  | nil => rfl
  | cons c t ih =>
    have hc : c ≠ '=' := fun h' => h (by rw [h']; exact List.mem_cons_self ..)
    have ht : '=' ∉ t := fun h' => h (List.mem_cons_of_mem _ h')
    simp [List.takeWhile_cons, hc, ih ht]

/-- the explicit form of a definition -/
theorem defineAlias_eq (T : Table) (n v : List Char) (hn : '=' ∉ n) :
    defineAlias T (n ++ '=' :: v) =
      { name := String.ofList n, value := v, global := false } ::
        T.filter (fun a => a.name != String.ofList n) := by
  unfold defineAlias
  simp only [takeWhile_ne_append n v hn]
  have h1 : ¬ (n.length = (n ++ '=' :: v).length) := by simp
  have h2 : (n ++ '=' :: v).drop (n.length + 1) = v := by
    rw [show n ++ '=' :: v = (n ++ ['=']) ++ v by simp]
    exact List.drop_left' (by simp)
  simp [h1, h2]

theorem lookup_filter_ne (T : Table) (n m : String) (h : m ≠ n) :
    Table.lookup (T.filter (fun a => a.name != n)) m = Table.lookup T m := by
  unfold Table.lookup
  induction T with
  | nil => rfl
  | cons a t ih =>
    by_cases ha : a.name = n
    · have e1 : (a.name != n) = false := by simp [ha]
      have e2 : (a.name == m) = false := by
        rw [ha]; simpa using fun h' : n = m => h h'.symm
      rw [List.filter_cons, e1, List.find?_cons, e2]
      simpa using ih
    · have e1 : (a.name != n) = true := by simpa using ha
      rw [List.filter_cons, e1]
      simp only [↓reduceIte, List.find?_cons]
      cases a.name == m
      · exact ih
      · rfl

theorem lookup_filter_not_mem (T : Table) (names : List (List Char)) (m : String) :
    Table.lookup (T.filter (fun a => !names.contains a.name.toList)) m =
      if names.contains m.toList then none else Table.lookup T m := by
  unfold Table.lookup
  induction T with
  | nil => simp
  | cons a t ih =>
    cases ha : names.contains a.name.toList
    · rw [List.filter_cons, ha]
      simp only [Bool.not_false, ↓reduceIte, List.find?_cons]
      cases hm : a.name == m
      · exact ih
      · have : a.name = m := by simpa using hm
        rw [← this, ha]; rfl
    · rw [List.filter_cons, ha]
      simp only [Bool.not_true, Bool.false_eq_true, ↓reduceIte, List.find?_cons]
      cases hm : a.name == m
      · exact ih
      · have : a.name = m := by simpa using hm
        rw [ih, ← this, ha]; rfl

/-- a word without quoting characters is its own quote removal -/
theorem unquote_plain (w : List Char) (h : ∀ c ∈ w, c ≠ '\\' ∧ c ≠ '\'' ∧ c ≠ '"') : unquote .un w = w := by
  induction w with
  | nil => rfl
  | cons c t ih =>
    obtain ⟨h1, h2, h3⟩ := h c (List.mem_cons_self ..)
    unfold unquote
    simp [h1, h2, h3, ih (fun x hx => h x (List.mem_cons_of_mem _ hx))]

/-- `parse_arguments` (C20's model) on an argument list whose first argument is not option-like: no option, every
    argument is an operand -/
theorem parse_operands_first (specs : List Args.OptionSpec) (mode : Args.Mode) (a : List Char)
    (rest : List (List Char)) (h : a.head? ≠ some '-') :
    Args.parseArguments specs mode (a :: rest) = .ok ([], a :: rest) := by
  have h1 : Args.startsWithSingleHyphen a = false := by
    cases a with
    | nil => rfl
    | cons c t =>
      have hc : c ≠ '-' := fun e => h (by simp [e])
      unfold Args.startsWithSingleHyphen
      split
      · rename_i heq; cases heq; exact absurd rfl hc
      · rfl
  have h2 : Args.startsWithDoubleHyphen a = false := by
    cases a with
    | nil => rfl
    | cons c t =>
      have hc : c ≠ '-' := fun e => h (by simp [e])
      unfold Args.startsWithDoubleHyphen
      split
      · rename_i heq; cases heq; exact absurd rfl hc
      · rfl
  have h3 : a ≠ Args.dashdash := by
    intro e; rw [e] at h; exact h rfl
  unfold Args.parseArguments Args.optLoop Args.step
  simp [h1, h2, Args.finish, Args.skipSeparator, h3]

theorem aliasOperand_T (r : CmdResult) (arg : List Char) : (aliasOperand r arg).T = defineAlias r.T arg := by
  unfold aliasOperand defineAlias
  by_cases hc : ((arg.takeWhile (· != '=')).length == arg.length) = true
  · simp only [hc, ↓reduceIte]
    split <;> rfl
  · simp only [hc, Bool.false_eq_true, ↓reduceIte]

theorem foldl_aliasOperand_T (ops : List (List Char)) (r : CmdResult) :
    (ops.foldl aliasOperand r).T = ops.foldl defineAlias r.T := by
  induction ops generalizing r with
  | nil => rfl
  | cons a t ih => simp only [List.foldl_cons]; rw [ih, aliasOperand_T]

theorem unaliasOperand_T (r : CmdResult) (arg : List Char) :
    (unaliasOperand r arg).T = r.T.filter (fun a => a.name.toList != arg) := by
  unfold unaliasOperand
  split
  · rfl
  · rename_i hno
    symm
    apply List.filter_eq_self.mpr
    intro a ha
    simp only [bne_iff_ne, ne_eq]
    intro e
    apply hno
    have : r.T.lookup (String.ofList arg) ≠ none := by
      unfold Table.lookup
      intro hn
      have := List.find?_eq_none.mp hn a ha
      apply this
      simp [← e]
    cases hl : r.T.lookup (String.ofList arg) with
    | none => exact absurd hl this
    | some _ => rfl

theorem foldl_unaliasOperand_T (ops : List (List Char)) (r : CmdResult) :
    (ops.foldl unaliasOperand r).T = r.T.filter (fun a => !ops.contains a.name.toList) := by
  induction ops generalizing r with
  | nil =>
    simp only [List.foldl_nil, List.contains_nil, Bool.not_false]
    exact (List.filter_eq_self.mpr (fun _ _ => rfl)).symm
  | cons x t ih =>
    simp only [List.foldl_cons]
    rw [ih, unaliasOperand_T, List.filter_filter]
    apply List.filter_congr
    intro a _
    simp only [List.contains_cons, Bool.not_or, bne, Bool.and_comm]

end YashModel.Alias
