/-
  C17 — the position automaton `trans` against the parser's call sites.

  `tools/tables/alias.py` lists, on every run, every call of `take_token_auto(&[kws])` / `take_token_manual(flag)` in
  yash-syntax/src/parser/*.rs (`Generated/AliasTables.substTakes`; every other token is taken with `take_token_raw`).
  `sites` is the model's reading of that list: for every call site the automaton states in which the parser is
  about to make that call, and the reserved words the caller filters out (by `peek_token`) before making it.
  `sites_are_the_code` (kernel-checked on every run) says the two lists hold the same calls, `trans_follows_sites`
  says `trans` decides "substitute or not, with which `is_command_name`" exactly as the call would.
-/
import YashModel.Alias.Model
import YashModel.Generated.AliasTables
namespace YashModel.Alias
open YashModel.Generated

/-- how the next token is taken, where alias substitution is possible at all -/
inductive Take
  | auto (kws : List String)   -- `take_token_auto(&[kws…])`
  | manual (flag : String)     -- `take_token_manual(flag)`: `"true"`, `"false"` or `"words.is_empty()"`
  deriving DecidableEq, Repr

/-- the form in which the extractor reports a call -/
def Take.key : Take → String × List String
  | .auto kws => ("auto", kws)
  | .manual f => ("manual", [f])

/-- `result.words.is_empty()` of `simple_command`: no command word yet -/
def wordsEmpty (st : PState) : Bool := st == .cmd0 || st == .pre

/-- What `Parser::take_token_auto` / `take_token_manual` (core.rs) do with a word token whose literal text is
    `lit`: `auto` returns a reserved word of its list as it is (`none` = no substitution attempted) and otherwise
    calls `substitute_alias(token, autoCommandFlag)`; `manual(f)` calls `substitute_alias(token, f)`. -/
def Take.sub (t : Take) (st : PState) (lit : Option String) : Option Bool :=
  match t with
  | .auto kws =>
    if (match lit with
        | some w => keywords.contains w && kws.contains w
        | none => false) then none
    else some AliasTables.autoCommandFlag
  | .manual f => some (if f == "true" then true else if f == "false" then false else wordsEmpty st)

/-- a call site of the parser and the automaton states that stand for "about to make this call" -/
structure Site where
  file : String
  fn : String
  take : Take
  covers : PState → Bool
  /-- reserved words the calling function recognises by `peek_token` BEFORE the call (they are taken raw or end the
      construct), per state -/
  filtered : PState → Option String → Bool := fun _ _ => false

def litIn (ws : List String) (lit : Option String) : Bool :=
  match lit with
  | some w => ws.contains w
  | none => false

/-- the call sites, in the order of the parser's files -/
def sites : List Site := [
  -- case.rs `case_command`: the subject, then `in` (possibly after newlines)
  { file := "case", fn := "case_command", take := .auto [], covers := fun st => st == .caseSubj },
  { file := "case", fn := "case_command", take := .auto ["in"], covers := fun st => st == .caseIn },
  -- case.rs `case_item`: first token of an item (`esac` is peeked first), pattern after `(`, separator, pattern after `|`
  { file := "case", fn := "case_item", take := .manual "false", covers := fun st => st == .casePat0,
    filtered := fun _ lit => litIn ["esac"] lit },
  { file := "case", fn := "case_item", take := .auto ["esac"], covers := fun st => st == .casePat1 },
  { file := "case", fn := "case_item", take := .auto [], covers := fun st => st == .caseSep },
  { file := "case", fn := "case_item", take := .auto [], covers := fun st => st == .casePatN },
  -- for_loop.rs
  { file := "for_loop", fn := "for_loop_name", take := .auto [], covers := fun st => st == .forName },
  { file := "for_loop", fn := "for_loop_values", take := .manual "false",
    covers := fun st => match st with | .forIn _ => true | _ => false,
    filtered := fun _ lit => litIn ["do", "in"] lit },
  { file := "for_loop", fn := "for_loop_values", take := .auto [], covers := fun st => st == .forWords },
  { file := "for_loop", fn := "for_loop_body", take := .manual "false", covers := fun st => st == .forBody,
    filtered := fun _ lit => litIn ["do"] lit },
  -- function.rs `short_function_definition`: the `)`, then the body (`full_compound_command` is tried first)
  { file := "function", fn := "short_function_definition", take := .auto [], covers := fun st => st == .fnClose },
  { file := "function", fn := "short_function_definition", take := .manual "false", covers := fun st => st == .fnBody,
    filtered := fun _ lit => litIn ["{", "if", "while", "until", "for", "case"] lit },
  -- redir.rs `redirection_operand`: operand of every redirection, delimiter of a here-document
  { file := "redir", fn := "redirection_operand", take := .auto [],
    covers := fun st => match st with | .redir _ => true | .redirH _ _ => true | _ => false },
  -- simple_command.rs
  { file := "simple_command", fn := "array_values", take := .auto [], covers := fun st => st == .arr },
  { file := "simple_command", fn := "simple_command", take := .manual "words.is_empty()",
    covers := fun st => st == .cmd0 || st == .pre || st == .one || st == .args,
    -- `Token(Some(_keyword)) if result.is_empty() => break`
    filtered := fun st lit => st == .cmd0 && isKeyword lit }
]

/-- the model's call sites are exactly the calls found in the parser's sources (same calls, same arguments) -/
theorem sites_generated :
    (sites.map fun s => s.take.key).isPerm (AliasTables.substTakes.map fun x => (x.2.2.1, x.2.2.2)) = true := by
  decide +kernel

/-- `take_token_auto` passes `is_command_name = false` -/
theorem autoFlag_generated : AliasTables.autoCommandFlag = false := by decide +kernel

/-- every state is covered by at most one site -/
theorem sites_disjoint (st : PState) : ((sites.filter fun s => s.covers st).length ≤ 1) := by
  cases st <;> simp [sites] <;> decide

/-- in a state covered by a site, a word the caller does not filter out is taken by that site's call -/
theorem trans_sub_of_site (st : PState) (lit : Option String) (asg : Bool) :
    ∀ s ∈ sites, s.covers st = true → s.filtered st lit = false →
      (trans st (.word lit asg)).sub = s.take.sub st lit := by
  intro s hs
  simp only [sites, List.mem_cons, List.not_mem_nil, or_false] at hs
  rcases hs with rfl | rfl | rfl | rfl | rfl | rfl | rfl | rfl | rfl | rfl | rfl | rfl | rfl | rfl | rfl
  all_goals
    intro hc hf
    cases st <;> simp at hc <;> cases lit <;>
      simp_all [trans, transCore, Take.sub, wordsEmpty, litIn, autoFlag_generated, isKeyword] <;>
      (split <;> simp_all [keywords])

/-- … and a reserved word the caller filters out is not substituted (it is taken raw or ends the construct) -/
theorem trans_sub_filtered (st : PState) (lit : Option String) (asg : Bool) :
    ∀ s ∈ sites, s.covers st = true → s.filtered st lit = true → (trans st (.word lit asg)).sub = none := by
  intro s hs
  simp only [sites, List.mem_cons, List.not_mem_nil, or_false] at hs
  rcases hs with rfl | rfl | rfl | rfl | rfl | rfl | rfl | rfl | rfl | rfl | rfl | rfl | rfl | rfl | rfl
  all_goals
    intro hc hf
    cases st <;> simp at hc <;> cases lit <;>
      simp_all [trans, transCore, litIn, isKeyword] <;>
      (repeat' split) <;> simp_all

/-- in a state no call site covers (after a compound command, before the `(` of an array assignment, after a
    syntax error) a word is taken with `take_token_raw`: never substituted -/
theorem trans_sub_uncovered (st : PState) (lit : Option String) (asg : Bool)
    (h : ∀ s ∈ sites, s.covers st = false) : (trans st (.word lit asg)).sub = none := by
  cases st <;> simp [sites] at h <;> simp [trans, transCore] <;> (repeat' split) <;> rfl

/-! ### the ORDER of the token-taking calls in every parser function

  `AliasTables.takeFlows` is, for every function of yash-syntax/src/parser/*.rs that takes a token itself, the order
  and nesting of its `take_token_raw` (`r`) / `take_token_auto(&[kws])` (`a[kws]`) / `take_token_manual(flag)`
  (`m(flag)`) calls and of its calls of other token-taking parser functions (`@`), in source order: `*( )` loop body,
  `?( )` conditional block, `{x|y}` match arms (sorted).  `modelFlows` is what the automaton `trans` was transcribed
  from; beside every entry: the transitions of `trans` that stand for it (proved in `trans_successors`). -/
def modelFlows : List (String × String) := [
  -- `A (&&|'||' newline* A)*`: after the operator (and newlines) a command starts: `&&`/`||`/newline → cmd0
  ("and_or_list", "@*(r*(@@))"),
  -- `(` raw: arrOpen → arr; then auto in a loop: word → arr, newline → arr, `)` → pre
  ("array_values", "r*(a[])"),
  -- `case` raw → caseSubj; subject auto[] → caseIn; (newline* auto[in])* : newline → caseIn, `in` → casePat0; items; `esac` raw → afterComp
  ("case_command", "ra[]*(@a[in])@r"),
  -- first token manual(false) in a loop [casePat0: word → caseSep, `(` → casePat1]; after `(`: auto[esac] [casePat1 → caseSep];
  -- loop: separator auto[] [caseSep: `)` → cmd0, `|` → casePatN], pattern auto[] [casePatN → caseSep]; body; `;;` raw → casePat0
  ("case_item", "*(@m(false)){-|a[esac]}*(a[]{-|a[]})@?(r)"),
  -- `do` raw → cmd0; list; `done` raw → afterComp
  ("do_clause", "r@r"),
  -- `elif` raw → cmd0; `then` raw → cmd0
  ("elif_then_clause", "r@r@?(r)"),
  -- `for` raw → forName; name; values; body
  ("for_loop", "r@@@"),
  -- newline* then `do` clause, else manual(false): forBody: newline → forBody, `do` → cmd0, other word → err
  ("for_loop_body", "*(@@m(false))"),
  -- forName: word → forIn true
  ("for_loop_name", "a[]"),
  -- forIn: `;` (first line) raw → forBody, `do` → (not taken), newline → forIn false, `in` raw → forWords, other manual(false) → err;
  -- then auto[] in a loop: forWords: word → forWords, `;`/newline → forBody
  ("for_loop_values", "*({-|@|m(false)|r})*(a[])"),
  -- `{` raw → cmd0 … `}` raw → afterComp
  ("grouping", "r@r"),
  -- `<<` / `<<-` raw → redirH; operand
  ("here_doc_redirection_body", "r@"),
  -- `if` → cmd0, `then` → cmd0, `elif`…, `else` → cmd0, `fi` → afterComp
  ("if_command", "r@r@?(r)@?(r@?(r))r"),
  -- `;` / `&` raw → cmd0
  ("list", "@*(r*(@))"),
  -- newline raw (reads the pending here-document bodies)
  ("newline_and_here_doc_contents", "r"),
  -- redirection operator raw → redir; operand
  ("normal_redirection_body", "r@"),
  -- `!` raw → cmd0; `|` raw (newline*) → cmd0
  ("pipeline", "@{-|r*(@{-|r})}*(r*(@@{-|r}))"),
  -- IO_NUMBER raw: stays in the simple command (cmd0 → pre, one → args); then the body
  ("redirection", "{-|r}@"),
  -- redir r / redirH r d: word → retState r
  ("redirection_operand", "a[]"),
  -- `(` raw: one → fnClose; `)` auto[]: fnClose → fnBody; loop: newline*, compound command, else manual(false): fnBody
  ("short_function_definition", "ra[]*(@@{-|m(false)})"),
  -- loop: redirection, then manual(words.is_empty()): cmd0/pre/one/args, then array values
  ("simple_command", "*(@m(words.is_empty())@)"),
  -- `(` raw → cmd0 … `)` raw → afterComp
  ("subshell", "r@r"),
  ("until_loop", "r@?(r)@{-|r}"),
  ("while_loop", "r@?(r)@{-|r}")
]

theorem flows_generated : (modelFlows.map (·.2)).isPerm AliasTables.takeFlows = true := by decide +kernel

end YashModel.Alias
