/-
  C17 — the position automaton `trans` against the parser's call sites.

  `tools/tables/alias.py` lists, on every run, every call of `take_token_auto(&[kws])` / `take_token_manual(flag)` in
  yash-syntax/src/parser/*.rs (`Generated/AliasTables.substTakes`; every other token is taken with `take_token_raw`).
  `sites` is the model's reading of that list: for every call site the automaton states in which the parser is
  about to make that call, and the reserved words the caller filters out (by `peek_token`) before making it.
  `sites_are_the_code` (kernel-checked on every run) says the two lists hold the same calls, `trans_follows_sites`
  says `trans` decides "substitute or not, with which `is_command_name`" exactly as the call would.
-/
import YashModel.Alias.Model
import YashModel.Generated.AliasTables
namespace YashModel.Alias
open YashModel.Generated

/-- how the next token is taken, where alias substitution is possible at all -/
inductive Take
  | auto (kws : List String)   -- `take_token_auto(&[kws…])`
  | manual (flag : String)     -- `take_token_manual(flag)`: `"true"`, `"false"` or `"words.is_empty()"`
  deriving DecidableEq, Repr

/-- the form in which the extractor reports a call -/
def Take.key : Take → String × List String
  | .auto kws => ("auto", kws)
  | .manual f => ("manual", [f])

/-- `result.words.is_empty()` of `simple_command`: no command word yet -/
def wordsEmpty (st : PState) : Bool := st == .cmd0 || st == .pre

/-- What `Parser::take_token_auto` / `take_token_manual` (core.rs) do with a word token whose literal text is
    `lit`: `auto` returns a reserved word of its list as it is (`none` = no substitution attempted) and otherwise
    calls `substitute_alias(token, autoCommandFlag)`; `manual(f)` calls `substitute_alias(token, f)`. -/
def Take.sub (t : Take) (st : PState) (lit : Option String) : Option Bool :=
  match t with
  | .auto kws =>
    if (match lit with
        | some w => keywords.contains w && kws.contains w
        | none => false) then none
    else some AliasTables.autoCommandFlag
  | .manual f => some (if f == "true" then true else if f == "false" then false else wordsEmpty st)

/-- a call site of the parser and the automaton states that stand for "about to make this call" -/
structure Site where
  file : String
  fn : String
  take : Take
  covers : PState → Bool
  /-- reserved words the calling function recognises by `peek_token` BEFORE the call (they are taken raw or end the
      construct), per state -/
  filtered : PState → Option String → Bool := fun _ _ => false

def litIn (ws : List String) (lit : Option String) : Bool :=
  match lit with
  | some w => ws.contains w
  | none => false

/-- the call sites, in the order of the parser's files -/
def sites : List Site := [
  -- case.rs `case_command`: the subject, then `in` (possibly after newlines)
  { file := "case", fn := "case_command", take := .auto [], covers := fun st => st == .caseSubj },
  { file := "case", fn := "case_command", take := .auto ["in"], covers := fun st => st == .caseIn },
  -- case.rs `case_item`: first token of an item (`esac` is peeked first), pattern after `(`, separator, pattern after `|`
  { file := "case", fn := "case_item", take := .manual "false", covers := fun st => st == .casePat0,
    filtered := fun _ lit => litIn ["esac"] lit },
  { file := "case", fn := "case_item", take := .auto ["esac"], covers := fun st => st == .casePat1 },
  { file := "case", fn := "case_item", take := .auto [], covers := fun st => st == .caseSep },
  { file := "case", fn := "case_item", take := .auto [], covers := fun st => st == .casePatN },
  -- for_loop.rs
  { file := "for_loop", fn := "for_loop_name", take := .auto [], covers := fun st => st == .forName },
  { file := "for_loop", fn := "for_loop_values", take := .manual "false",
    covers := fun st => match st with | .forIn _ => true | _ => false,
    filtered := fun _ lit => litIn ["do", "in"] lit },
  { file := "for_loop", fn := "for_loop_values", take := .auto [], covers := fun st => st == .forWords },
  { file := "for_loop", fn := "for_loop_body", take := .manual "false", covers := fun st => st == .forBody,
    filtered := fun _ lit => litIn ["do"] lit },
  -- function.rs `short_function_definition`: the `)`, then the body (`full_compound_command` is tried first)
  { file := "function", fn := "short_function_definition", take := .auto [], covers := fun st => st == .fnClose },
  { file := "function", fn := "short_function_definition", take := .manual "false", covers := fun st => st == .fnBody,
    filtered := fun _ lit => litIn ["{", "if", "while", "until", "for", "case"] lit },
  -- redir.rs `redirection_operand`: operand of every redirection, delimiter of a here-document
  { file := "redir", fn := "redirection_operand", take := .auto [],
    covers := fun st => match st with | .redir _ => true | .redirH _ _ => true | _ => false },
  -- simple_command.rs
  { file := "simple_command", fn := "array_values", take := .auto [], covers := fun st => st == .arr },
  { file := "simple_command", fn := "simple_command", take := .manual "words.is_empty()",
    covers := fun st => st == .cmd0 || st == .pre || st == .one || st == .args,
    -- `Token(Some(_keyword)) if result.is_empty() => break`
    filtered := fun st lit => st == .cmd0 && isKeyword lit }
]

/-- the model's call sites are exactly the calls found in the parser's sources (same calls, same arguments) -/
theorem sites_generated :
    (sites.map fun s => s.take.key).isPerm (AliasTables.substTakes.map fun x => (x.2.2.1, x.2.2.2)) = true := by
  decide +kernel

/-- `take_token_auto` passes `is_command_name = false` -/
theorem autoFlag_generated : AliasTables.autoCommandFlag = false := by decide +kernel

/-- every state is covered by at most one site -/
theorem sites_disjoint (st : PState) : ((sites.filter fun s => s.covers st).length ≤ 1) := by
  cases st <;> simp [sites] <;> decide

/-- in a state covered by a site, a word the caller does not filter out is taken by that site's call -/
theorem trans_sub_of_site (st : PState) (lit : Option String) (asg : Bool) :
    ∀ s ∈ sites, s.covers st = true → s.filtered st lit = false →
      (trans st (.word lit asg)).sub = s.take.sub st lit := by
  intro s hs
  simp only [sites, List.mem_cons, List.not_mem_nil, or_false] at hs
  rcases hs with rfl | rfl | rfl | rfl | rfl | rfl | rfl | rfl | rfl | rfl | rfl | rfl | rfl | rfl | rfl
  all_goals
    intro hc hf
    cases st <;> simp at hc <;> cases lit <;>
      simp_all [trans, transCore, Take.sub, wordsEmpty, litIn, autoFlag_generated, isKeyword] <;>
      (split <;> simp_all [keywords])

/-- … and a reserved word the caller filters out is not substituted (it is taken raw or ends the construct) -/
theorem trans_sub_filtered (st : PState) (lit : Option String) (asg : Bool) :
    ∀ s ∈ sites, s.covers st = true → s.filtered st lit = true → (trans st (.word lit asg)).sub = none := by
  intro s hs
  simp only [sites, List.mem_cons, List.not_mem_nil, or_false] at hs
  rcases hs with rfl | rfl | rfl | rfl | rfl | rfl | rfl | rfl | rfl | rfl | rfl | rfl | rfl | rfl | rfl
  all_goals
    intro hc hf
    cases st <;> simp at hc <;> cases lit <;>
      simp_all [trans, transCore, litIn, isKeyword] <;>
      (repeat' split) <;> simp_all

/-- in a state no call site covers (after a compound command, before the `(` of an array assignment, after a
    syntax error) a word is taken with `take_token_raw`: never substituted -/
theorem trans_sub_uncovered (st : PState) (lit : Option String) (asg : Bool)
    (h : ∀ s ∈ sites, s.covers st = false) : (trans st (.word lit asg)).sub = none := by
  cases st <;> simp [sites] at h <;> simp [trans, transCore] <;> (repeat' split) <;> rfl

/-! ### the ORDER of the token-taking calls in every parser function

  `AliasTables.takeFlows` is, for every function of yash-syntax/src/parser/*.rs that takes a token itself, the order
  and nesting of its `take_token_raw` (`r`) / `take_token_auto(&[kws])` (`a[kws]`) / `take_token_manual(flag)`
  (`m(flag)`) calls and of its calls of other token-taking parser functions (`@`), in source order: `*( )` loop body,
  `?( )` conditional block, `{x|y}` match arms (sorted).  `modelFlows` is what the automaton `trans` was transcribed
  from; beside every entry: the transitions of `trans` that stand for it (proved in `trans_successors`). -/
def modelFlows : List (String × String) := [
  -- `A (&&|'||' newline* A)*`: after the operator (and newlines) a command starts: `&&`/`||`/newline → cmd0
  ("and_or_list", "@*(r*(@@))"),
  -- `(` raw: arrOpen → arr; then auto in a loop: word → arr, newline → arr, `)` → pre
  ("array_values", "r*(a[])"),
  -- `case` raw → caseSubj; subject auto[] → caseIn; (newline* auto[in])* : newline → caseIn, `in` → casePat0; items; `esac` raw → afterComp
  ("case_command", "ra[]*(@a[in])@r"),
  -- first token manual(false) in a loop [casePat0: word → caseSep, `(` → casePat1]; after `(`: auto[esac] [casePat1 → caseSep];
  -- loop: separator auto[] [caseSep: `)` → cmd0, `|` → casePatN], pattern auto[] [casePatN → caseSep]; body; `;;` raw → casePat0
  ("case_item", "*(@m(false)){-|a[esac]}*(a[]{-|a[]})@?(r)"),
  -- `do` raw → cmd0; list; `done` raw → afterComp
  ("do_clause", "r@r"),
  -- `elif` raw → cmd0; `then` raw → cmd0
  ("elif_then_clause", "r@r@?(r)"),
  -- `for` raw → forName; name; values; body
  ("for_loop", "r@@@"),
  -- newline* then `do` clause, else manual(false): forBody: newline → forBody, `do` → cmd0, other word → err
  ("for_loop_body", "*(@@m(false))"),
  -- forName: word → forIn true
  ("for_loop_name", "a[]"),
  -- forIn: `;` (first line) raw → forBody, `do` → (not taken), newline → forIn false, `in` raw → forWords, other manual(false) → err;
  -- then auto[] in a loop: forWords: word → forWords, `;`/newline → forBody
  ("for_loop_values", "*({-|@|m(false)|r})*(a[])"),
  -- `{` raw → cmd0 … `}` raw → afterComp
  ("grouping", "r@r"),
  -- `<<` / `<<-` raw → redirH; operand
  ("here_doc_redirection_body", "r@"),
  -- `if` → cmd0, `then` → cmd0, `elif`…, `else` → cmd0, `fi` → afterComp
  ("if_command", "r@r@?(r)@?(r@?(r))r"),
  -- `;` / `&` raw → cmd0
  ("list", "@*(r*(@))"),
  -- newline raw (reads the pending here-document bodies)
  ("newline_and_here_doc_contents", "r"),
  -- redirection operator raw → redir; operand
  ("normal_redirection_body", "r@"),
  -- `!` raw → cmd0; `|` raw (newline*) → cmd0
  ("pipeline", "@{-|r*(@{-|r})}*(r*(@@{-|r}))"),
  -- IO_NUMBER raw: stays in the simple command (cmd0 → pre, one → args); then the body
  ("redirection", "{-|r}@"),
  -- redir r / redirH r d: word → retState r
  ("redirection_operand", "a[]"),
  -- `(` raw: one → fnClose; `)` auto[]: fnClose → fnBody; loop: newline*, compound command, else manual(false): fnBody
  ("short_function_definition", "ra[]*(@@{-|m(false)})"),
  -- loop: redirection, then manual(words.is_empty()): cmd0/pre/one/args, then array values
  ("simple_command", "*(@m(words.is_empty())@)"),
  -- `(` raw → cmd0 … `)` raw → afterComp
  ("subshell", "r@r"),
  ("until_loop", "r@?(r)@{-|r}"),
  ("while_loop", "r@?(r)@{-|r}")
]

theorem flows_generated : (modelFlows.map (·.2)).isPerm AliasTables.takeFlows = true := by decide +kernel

/-- MACHINE-READABLE pairing, read by `tools/tables/alias.py` on every run: per parser function, for every
    take_token_* call of its extracted flow (in the order of the canonical form, `@` calls skipped), the automaton states
    in which the parser makes that call.  The extractor zips it with the flows it finds (`Generated/AliasTables.flowPairs`)
    and fails loudly if a function or a call has no partner; `pairs_checked` ties it to `sites` and to the state space. -/
def pairing : List (String × List (List String)) := [
  ("and_or_list", [["pre", "one", "args", "afterComp"]]),
  ("array_values", [["arrOpen"], ["arr"]]),
  ("case_command", [["cmd0", "fnBody"], ["caseSubj"], ["caseIn"], ["casePat0", "cmd0"]]),
  ("case_item", [["casePat0"], ["casePat1"], ["caseSep"], ["casePatN"], ["cmd0", "pre", "one", "args", "afterComp"]]),
  ("do_clause", [["cmd0", "forIn", "forBody", "afterComp"], ["cmd0", "afterComp"]]),
  ("elif_then_clause", [["cmd0", "afterComp"], ["cmd0", "afterComp"], ["cmd0"]]),
  ("for_loop", [["cmd0", "fnBody"]]),
  ("for_loop_body", [["forBody"]]),
  ("for_loop_name", [["forName"]]),
  ("for_loop_values", [["forIn"], ["forIn"], ["forWords"]]),
  ("grouping", [["cmd0", "fnBody"], ["cmd0", "afterComp"]]),
  ("here_doc_redirection_body", [["cmd0", "pre", "one", "args", "afterComp"]]),
  ("if_command", [["cmd0", "fnBody"], ["cmd0", "afterComp"], ["cmd0"], ["cmd0", "afterComp"], ["cmd0"], ["cmd0", "afterComp"]]),
  ("list", [["pre", "one", "args", "afterComp"]]),
  ("newline_and_here_doc_contents",
    [["cmd0", "pre", "one", "args", "afterComp", "fnBody", "forIn", "forBody", "caseIn", "casePat0"]]),
  ("normal_redirection_body", [["cmd0", "pre", "one", "args", "afterComp"]]),
  ("pipeline", [["cmd0"], ["cmd0"], ["pre", "one", "args", "afterComp"], ["cmd0"]]),
  ("redirection", [["cmd0", "pre", "one", "args", "afterComp"]]),
  ("redirection_operand", [["redir", "redirH"]]),
  ("short_function_definition", [["one"], ["fnClose"], ["fnBody"]]),
  ("simple_command", [["cmd0", "pre", "one", "args"]]),
  ("subshell", [["cmd0", "fnBody"], ["pre", "one", "args", "afterComp"]]),
  ("until_loop", [["cmd0", "fnBody"], ["cmd0"], ["cmd0", "afterComp"]]),
  ("while_loop", [["cmd0", "fnBody"], ["cmd0"], ["cmd0", "afterComp"]])
]

/-- a representative of every automaton state, by name -/
def repStates : List (String × PState) := [
  ("cmd0", .cmd0), ("pre", .pre), ("one", .one), ("args", .args), ("redirH", .redirH 1 false), ("redir", .redir 1),
  ("afterComp", .afterComp), ("arrOpen", .arrOpen), ("arr", .arr), ("fnClose", .fnClose), ("fnBody", .fnBody),
  ("forName", .forName), ("forIn", .forIn true), ("forWords", .forWords), ("forBody", .forBody),
  ("caseSubj", .caseSubj), ("caseIn", .caseIn), ("casePat0", .casePat0), ("casePat1", .casePat1),
  ("caseSep", .caseSep), ("casePatN", .casePatN), ("err", .err)]

/-- the extractor's spelling of a substituting call -/
def Take.item : Take → String
  | .auto kws => "a[" ++ ",".intercalate kws ++ "]"
  | .manual f => "m(" ++ f ++ ")"

/-- the pairs of the extractor (function, call, states) against `sites` and the state space:
    (1) a substituting call (`a[..]` / `m(..)`) of a function is paired with exactly the states that the sites of that
    function with that call cover; (2) every state but `err` is paired with some call; (3) every paired state name is a
    state; (4) as many pairs as there are take_token_* calls in the extracted flows -/
def pairsChecked : Bool :=
  (AliasTables.flowPairs.all fun (fn, item, _) =>
    item == "r" ||
    repStates.all fun (nm, st) =>
      (AliasTables.flowPairs.any fun (fn', item', sts) => fn' == fn && item' == item && sts.contains nm) ==
      (sites.any fun s => s.fn == fn && s.take.item == item && s.covers st)) &&
  (repStates.all fun (nm, _) => nm == "err" || AliasTables.flowPairs.any fun (_, _, sts) => sts.contains nm) &&
  (AliasTables.flowPairs.all fun (_, _, sts) => sts.all fun nm => repStates.any fun (n, _) => n == nm) &&
  AliasTables.flowPairs.length == AliasTables.takeItemCount &&
  -- every site of `sites` is the partner of some pair
  (sites.all fun s => AliasTables.flowPairs.any fun (fn, item, _) => fn == s.fn && item == s.take.item)

theorem pairs_checked : pairsChecked = true := by decide +kernel

end YashModel.Alias
