/-
  C17 — Impl model of alias substitution as the yash-rs lexer/parser performs it.

  Rust sources mirrored (all under /repo):
  * yash-syntax/src/parser/lex/core.rs   `LexerCore::{substitute_alias, is_after_blank_ending_alias}`,
                                          `SourceCharEx` (character + origin + line-continuation flag)
  * yash-env/src/source.rs               `Source::is_alias_for` (walks the whole origin chain)
  * yash-syntax/src/parser/core.rs       `Parser::{substitute_alias, take_token_manual, take_token_auto}`
  * yash-syntax/src/parser/{simple_command,command,pipeline,and_or,list,compound_command,grouping,if,
    while_loop,for_loop,case,function,redir}.rs — *which* of raw / manual(is_command_name) / auto(keywords)
    is used for the next token: the position automaton `trans`.
  * yash-syntax/src/parser/lex/{token,op,word,misc,keyword}.rs — the tokeniser `lexTok`.

  Data layout: the lexer's `source: Vec<SourceCharEx>` is the pair (`pre` = consumed characters, most
  recent first; `rest` = characters from `index` on).  Every character carries its origin chain: the names
  of the aliases whose replacement produced it, innermost first (`Source::Alias{original, alias}` nesting).
  Imports only other areas' import-free models (C20 `Args.parseArguments` for the option parsing of the built-ins, C07
  `Quote.quote` for the printed form of an alias); total, executable.
-/
import YashModel.Args.Model
import YashModel.Quote.Model
namespace YashModel.Alias

/-- `yash_env::alias::Alias` (name, replacement, global). -/
structure Alias where
  name : String
  value : List Char
  global : Bool := false
  deriving Repr, DecidableEq

/-- `AliasSet` (a hash set keyed by name): the first entry of a name is the definition. -/
abbrev Table := List Alias

def Table.lookup (T : Table) (n : String) : Option Alias := T.find? (fun a => a.name == n)

def Table.names (T : Table) : List String := T.map (·.name)

/-- `is_blank` (lex/core.rs): `c != '\n' && c.is_whitespace()`.  `char::is_whitespace` is the Unicode
    `White_Space` property: U+0009–U+000D, U+0020, U+0085, U+00A0, U+1680, U+2000–U+200A, U+2028, U+2029,
    U+202F, U+205F, U+3000 (the table is re-read by `tools/tables/alias.py` into
    `Generated/AliasTables.whiteSpace`; `TableLemmas.isBlank_generated` ties this definition to it). -/
def isBlank (c : Char) : Bool :=
  c == ' ' || c == '\t' || c == '\r' || c == '\x0b' || c == '\x0c' ||
  c == '\u0085' || c == '\u00a0' || c == '\u1680' || (0x2000 ≤ c.val && c.val ≤ 0x200a) ||
  c == '\u2028' || c == '\u2029' || c == '\u202f' || c == '\u205f' || c == '\u3000'

/-- `is_operator_char`: first characters of `OPERATORS`. -/
def isOpChar (c : Char) : Bool :=
  c == '\n' || c == '&' || c == '(' || c == ')' || c == ';' || c == '<' || c == '>' || c == '|'

/-- `is_token_delimiter_char` -/
def isDelim (c : Char) : Bool := isOpChar c || isBlank c

def endsBlank (v : List Char) : Bool :=
  match v.getLast? with
  | some c => isBlank c
  | none => false

/-- `SourceCharEx`: value, origin chain (innermost alias first), `is_line_continuation`; `eb` caches
    "the replacement of the innermost alias ends with a blank" (`ends_with_blank(&alias.replacement)`). -/
structure SChar where
  c : Char
  chain : List String := []
  lc : Bool := false
  eb : Bool := false
  deriving Repr, DecidableEq

def plain (cs : List Char) : List SChar := cs.map fun c => { c := c }

/-! ### Tokeniser -/

/-- Operators (`OPERATORS` trie; every prefix of an operator is an operator). -/
def operators : List (List Char) :=
  ["\n", "&", "&&", "(", ")", ";", ";&", ";;", ";;&", ";|", "<", "<&", "<(", "<<", "<<-", "<<<", "<>",
   ">", ">&", ">(", ">>", ">>|", ">|", "|", "||"].map String.toList

def isOperator (s : List Char) : Bool := operators.contains s

/-- Keywords (`Keyword::from_str`). -/
def keywords : List String :=
  ["!", "[[", "]]", "case", "do", "done", "elif", "else", "esac", "fi", "for", "function", "if", "in",
   "namespace", "select", "then", "until", "while", "{", "}"]

/-- Skips line continuations (`Lexer::peek_char`) and returns the next character, the number of
    characters up to and including it, and what follows. -/
def peel : List Char → Option (Char × Nat × List Char)
  | [] => none
  | [a] => some (a, 1, [])
  | a :: b :: t =>
    if a == '\\' && b == '\n' then
      match peel t with
      | some (c, n, r) => some (c, n + 2, r)
      | none => none
    else some (a, 1, b :: t)

/-- `Lexer::operator`: longest operator at the head (at most three characters), with its length in
    buffer characters (line continuations inside count). -/
def lexOp (l : List Char) : Option (List Char × Nat) :=
  match peel l with
  | none => none
  | some (c1, n1, r1) =>
    if !isOpChar c1 then none else
    match peel r1 with
    | none => some ([c1], n1)
    | some (c2, n2, r2) =>
      if !isOperator [c1, c2] then some ([c1], n1) else
      match peel r2 with
      | none => some ([c1, c2], n1 + n2)
      | some (c3, n3, _) =>
        if isOperator [c1, c2, c3] then some ([c1, c2, c3], n1 + n2 + n3) else some ([c1, c2], n1 + n2)

/-- lexical mode inside a word: unquoted, single / double quotes, inside `$( … )` at paren depth `d` (begun
    in double quotes or not; with its own single / double quotes), inside backquotes -/
inductive QMode
  | un | sq | dq
  | cs (d : Nat) (dq : Bool) | csq (d : Nat) (dq : Bool) | csd (d : Nat) (dq : Bool)
  | bq (dq : Bool)
  deriving DecidableEq

/-- Length of the word at the head (`WordLexer::word` with `is_token_delimiter_char`): unquoted text,
    backslash escapes, single and double quotes, line continuations. -/
def wordLen : QMode → List Char → Nat
  | _, [] => 0
  | .un, a :: t =>
    if a == '\\' then
      match t with
      | [] => 1
      | _ :: t' => 2 + wordLen .un t'
    else if isDelim a then 0
    else if a == '\'' then 1 + wordLen .sq t
    else if a == '"' then 1 + wordLen .dq t
    else if a == '`' then 1 + wordLen (.bq false) t
    else if a == '$' then
      match t with
      | b :: t' => if b == '(' then 2 + wordLen (.cs 1 false) t' else 1 + wordLen .un (b :: t')
      | [] => 1
    else 1 + wordLen .un t
  | .sq, a :: t => if a == '\'' then 1 + wordLen .un t else 1 + wordLen .sq t
  | .dq, a :: t =>
    if a == '"' then 1 + wordLen .un t
    else if a == '\\' then
      match t with
      | [] => 1
      | _ :: t' => 2 + wordLen .dq t'
    else if a == '`' then 1 + wordLen (.bq true) t
    else if a == '$' then
      match t with
      | b :: t' => if b == '(' then 2 + wordLen (.cs 1 true) t' else 1 + wordLen .dq (b :: t')
      | [] => 1
    else 1 + wordLen .dq t
  -- `$( … )`: the lexer parses a whole program up to the matching `)`; no alias is substituted inside
  | .cs d q, a :: t =>
    if a == '\\' then
      match t with
      | [] => 1
      | _ :: t' => 2 + wordLen (.cs d q) t'
    else if a == '\'' then 1 + wordLen (.csq d q) t
    else if a == '"' then 1 + wordLen (.csd d q) t
    else if a == '(' then 1 + wordLen (.cs (d + 1) q) t
    else if a == ')' then
      (if d ≤ 1 then 1 + wordLen (if q then .dq else .un) t else 1 + wordLen (.cs (d - 1) q) t)
    else 1 + wordLen (.cs d q) t
  | .csq d q, a :: t => if a == '\'' then 1 + wordLen (.cs d q) t else 1 + wordLen (.csq d q) t
  | .csd d q, a :: t =>
    if a == '"' then 1 + wordLen (.cs d q) t
    else if a == '\\' then
      match t with
      | [] => 1
      | _ :: t' => 2 + wordLen (.csd d q) t'
    else 1 + wordLen (.csd d q) t
  | .bq q, a :: t =>
    if a == '`' then 1 + wordLen (if q then .dq else .un) t
    else if a == '\\' then
      match t with
      | [] => 1
      | _ :: t' => 2 + wordLen (.bq q) t'
    else 1 + wordLen (.bq q) t

/-- Is the word closed (no unterminated quote)?  An unterminated quote is a lexer error. -/
def wordClosed : QMode → List Char → Bool
  | m, [] => m == .un
  | .un, a :: t =>
    if a == '\\' then
      match t with
      | [] => true
      | _ :: t' => wordClosed .un t'
    else if isDelim a then true
    else if a == '\'' then wordClosed .sq t
    else if a == '"' then wordClosed .dq t
    else if a == '`' then wordClosed (.bq false) t
    else if a == '$' then
      match t with
      | b :: t' => if b == '(' then wordClosed (.cs 1 false) t' else wordClosed .un (b :: t')
      | [] => true
    else wordClosed .un t
  | .sq, a :: t => if a == '\'' then wordClosed .un t else wordClosed .sq t
  | .dq, a :: t =>
    if a == '"' then wordClosed .un t
    else if a == '\\' then
      match t with
      | [] => false
      | _ :: t' => wordClosed .dq t'
    else if a == '`' then wordClosed (.bq true) t
    else if a == '$' then
      match t with
      | b :: t' => if b == '(' then wordClosed (.cs 1 true) t' else wordClosed .dq (b :: t')
      | [] => false
    else wordClosed .dq t
  | .cs d q, a :: t =>
    if a == '\\' then
      match t with
      | [] => false
      | _ :: t' => wordClosed (.cs d q) t'
    else if a == '\'' then wordClosed (.csq d q) t
    else if a == '"' then wordClosed (.csd d q) t
    else if a == '(' then wordClosed (.cs (d + 1) q) t
    else if a == ')' then
      (if d ≤ 1 then wordClosed (if q then .dq else .un) t else wordClosed (.cs (d - 1) q) t)
    else wordClosed (.cs d q) t
  | .csq d q, a :: t => if a == '\'' then wordClosed (.cs d q) t else wordClosed (.csq d q) t
  | .csd d q, a :: t =>
    if a == '"' then wordClosed (.cs d q) t
    else if a == '\\' then
      match t with
      | [] => false
      | _ :: t' => wordClosed (.csd d q) t'
    else wordClosed (.csd d q) t
  | .bq q, a :: t =>
    if a == '`' then wordClosed (if q then .dq else .un) t
    else if a == '\\' then
      match t with
      | [] => false
      | _ :: t' => wordClosed (.bq q) t'
    else wordClosed (.bq q) t

/-- Characters that make `$` start an expansion (so that the word is not a literal). -/
def dollarStarts (c : Char) : Bool :=
  c.isAlphanum || c == '_' || c == '@' || c == '*' || c == '#' || c == '?' || c == '$' || c == '!' ||
  c == '-' || c == '{' || c == '(' || c == '\''

/-- `Word::to_string_if_literal` on the word at the head: `some s` iff every unit is an unquoted literal
    character (line continuations vanish). -/
def wordLit : List Char → Option (List Char)
  | [] => some []
  | a :: t =>
    if a == '\\' then
      match t with
      | [] => some ['\\']
      | b :: t' => if b == '\n' then wordLit t' else none
    else if isDelim a then some []
    else if a == '\'' || a == '"' || a == '`' then none
    else if a == '$' then
      match t with
      | [] => some ['$']
      | b :: _ => if dollarStarts b then none else (wordLit t).map ('$' :: ·)
    else (wordLit t).map (a :: ·)

/-- `Assign::try_from`: a non-empty literal prefix followed by an unquoted `=`. -/
def isAssignAux : Bool → List Char → Bool
  | _, [] => false
  | seen, a :: t =>
    if a == '\\' then
      match t with
      | [] => false
      | b :: t' => if b == '\n' then isAssignAux seen t' else false
    else if isDelim a then false
    else if a == '=' then seen
    else if a == '\'' || a == '"' || a == '`' then false
    else if a == '$' then
      match t with
      | [] => false
      | b :: _ => if dollarStarts b then false else isAssignAux true t
    else isAssignAux true t

/-- `name=` with an empty value: the first unquoted `=` ends the word -/
def isAssignEmptyAux : Bool → List Char → Bool
  | _, [] => false
  | seen, a :: t =>
    if isDelim a then false
    else if a == '=' then
      seen && (match t with
        | [] => true
        | b :: _ => isDelim b)
    else if a == '\\' || a == '\'' || a == '"' || a == '`' || a == '$' then false
    else isAssignEmptyAux true t

def isAssign (l : List Char) : Bool :=
  match l with
  | a :: _ => if a == '~' then false else isAssignAux false l
  | [] => false

inductive Kind
  | eof
  | op (s : String)
  | io                       -- IO_NUMBER
  | word (lit : Option String) (assign : Bool)
  | assignArr                -- `name=` immediately followed by `(`: start of an array assignment
  | bad                      -- unterminated quote
  deriving Repr, DecidableEq

structure Tok where
  kind : Kind
  len : Nat
  deriving Repr

/-- `Lexer::token` at the head of `l` (blanks and comments already skipped), on plain characters. -/
def lexTokC (l : List Char) : Tok :=
  match l with
  | [] => { kind := .eof, len := 0 }
  | _ =>
    match lexOp l with
    | some (s, n) => { kind := .op (String.ofList s), len := n }
    | none =>
      let n := wordLen .un l
      if !wordClosed .un l then { kind := .bad, len := n } else
      -- `parse_tilde_front`: a leading `~` makes a tilde expansion, not a literal
      let lit := match l with
        | a :: _ => if a == '~' then none else wordLit l
        | [] => none
      match lit with
      | some s =>
        let next := (peel (l.drop n)).map (·.1)
        if !s.isEmpty && s.all Char.isDigit && (next == some '<' || next == some '>') then
          { kind := .io, len := n }
        else if isAssign l && isAssignEmptyAux false l && next == some '(' then { kind := .assignArr, len := n }
        else { kind := .word (some (String.ofList s)) (isAssign l), len := n }
      | none => { kind := .word none (isAssign l), len := n }

/-- Marks `\`+newline pairs (`mark_line_continuation`); used on the blanks skipped before a token. -/
def markLc : List SChar → List SChar
  | a :: b :: t =>
    if a.c == '\\' && b.c == '\n' then { a with lc := true } :: { b with lc := true } :: markLc t
    else a :: markLc (b :: t)
  | l => l

/-- Length of a comment body (up to, not including, the newline). -/
def commentLen : List Char → Nat
  | [] => 0
  | a :: t => if a == '\n' then 0 else 1 + commentLen t

/-- `skip_blanks_and_comment`: number of characters skipped (blanks, line continuations, then a comment). -/
def skipLenC : List Char → Nat
  | [] => 0
  | [a] => if isBlank a then 1 else if a == '#' then 1 else 0
  | a :: b :: t =>
    if isBlank a then 1 + skipLenC (b :: t)
    else if a == '\\' && b == '\n' then 2 + skipLenC t
    else if a == '#' then 1 + commentLen (b :: t)
    else 0

/-- the characters of a buffer segment (origins dropped) -/
def chars (l : List SChar) : List Char := l.map (·.c)

/-- `Lexer::token` on buffer characters: tokenisation looks at the character values only. -/
def lexTok (l : List SChar) : Tok := lexTokC (chars l)

/-- `skip_blanks_and_comment` on buffer characters. -/
def skipLen (l : List SChar) : Nat := skipLenC (chars l)

/-- quote removal for the words of an `alias` command (no expansions are generated) -/
def unquote : QMode → List Char → List Char
  | _, [] => []
  | .un, c :: t =>
    if c == '\\' then
      match t with
      | [] => ['\\']
      | d :: t' => if d == '\n' then unquote .un t' else d :: unquote .un t'
    else if c == '\'' then unquote .sq t
    else if c == '"' then unquote .dq t
    else c :: unquote .un t
  | .sq, c :: t => if c == '\'' then unquote .un t else c :: unquote .sq t
  | .dq, c :: t =>
    if c == '"' then unquote .un t
    else if c == '\\' then
      match t with
      | [] => ['\\']
      | d :: t' =>
        if d == '\n' then unquote .dq t'
        else if d == '$' || d == '`' || d == '"' || d == '\\' then d :: unquote .dq t'
        else c :: d :: unquote .dq t'
    else c :: unquote .dq t
  | _, l => l

/-! ### Here-documents: the delimiter is a redirection operand (alias substitution applies to it), the body
    is read raw when the next newline token is consumed -/

/-- pending here-documents: delimiter after quote removal, and whether the operator was `<<-` -/
abbrev Pending := List (List Char × Bool)

def stripTabs : List Char → List Char
  | c :: t => if c == '\t' then stripTabs t else c :: t
  | [] => []

/-- `Lexer::here_doc_content` for one delimiter: number of characters up to and including the delimiter
    line (which must end with a newline); `none` = `UnclosedHereDocContent`. -/
def hereLen1 : Nat → List Char → Bool → List Char → Option Nat
  | 0, _, _, _ => none
  | f + 1, d, dash, l =>
    let line := l.takeWhile (· != '\n')
    match l.drop line.length with
    | [] => none
    | _ :: rest =>
      if (if dash then stripTabs line else line) == d then some (line.length + 1)
      else (hereLen1 f d dash rest).map (· + (line.length + 1))

def hereLen : Pending → List Char → Option Nat
  | [], _ => some 0
  | (d, dash) :: ps, l =>
    match hereLen1 (l.length + 1) d dash l with
    | none => none
    | some n => (hereLen ps (l.drop n)).map (· + n)

/-! ### Position automaton: which `take_token_*` the parser uses next -/

inductive PState
  | cmd0                 -- `simple_command` with an empty builder / start of a command
  | pre                  -- assignments or redirections seen, no word yet (`words.is_empty()`)
  | one                  -- exactly one word, nothing else (`is_one_word`: function definition possible)
  | args                 -- words present
  | redirH (ret : Nat) (dash : Bool)  -- delimiter of a here-document (`<<`, `<<-`): `take_token_auto(&[])` too
  | redir (ret : Nat)    -- operand of a redirection (`take_token_auto(&[])`); 0 → pre, 1 → args, 2 → afterComp
  | afterComp            -- after `}` `fi` `done` `esac` `)`: redirections, then a separator
  | arrOpen | arr        -- `name=(` … `)`: array values are taken with `take_token_auto(&[])`
  | fnClose              -- after `name (`: `take_token_auto(&[])` must give `)`
  | fnBody               -- function body: a compound command, else `take_token_manual(false)`
  | forName | forIn (firstLine : Bool) | forWords | forBody
  | caseSubj | caseIn | casePat0 | casePat1 | caseSep | casePatN
  | err                  -- the parser has reported a syntax error: nothing is substituted any more
  deriving Repr, DecidableEq

/-- Decision for the next token. `sub = none`: taken raw (no substitution). `sub = some cmd`:
    `Parser::substitute_alias(token, is_command_name = cmd)` is attempted. -/
structure Dec where
  sub : Option Bool := none
  onSub : PState := .err
  onTake : PState := .err
  deriving Repr

def retState : Nat → PState
  | 0 => .pre
  | 1 => .args
  | _ => .afterComp

def isRedirOp (s : String) : Bool :=
  s == "<" || s == "<>" || s == ">" || s == ">>" || s == ">|" || s == "<&" || s == ">&" || s == ">>|" ||
  s == "<<<"

def isHereOp (s : String) : Bool := s == "<<" || s == "<<-"

/-- Separators and closers after a complete command (list.rs, and_or.rs, pipeline.rs, case.rs). -/
def afterCommandOp (s : String) : PState :=
  if s == ";" || s == "&" || s == "\n" || s == "|" || s == "&&" || s == "||" then .cmd0
  else if s == ")" then .afterComp
  else if s == ";;" || s == ";&" || s == ";;&" || s == ";|" then .casePat0
  else .err

/-- A keyword met where a command may start (`Token(Some(_keyword)) if result.is_empty() => break` in
    simple_command.rs; then compound_command.rs / pipeline.rs / the enclosing clause take it raw). -/
def keywordAtStart (k : String) : PState :=
  if k == "{" || k == "if" || k == "while" || k == "until" || k == "!" ||
     k == "then" || k == "else" || k == "elif" || k == "do" then .cmd0
  else if k == "}" || k == "fi" || k == "done" || k == "esac" then .afterComp
  else if k == "for" then .forName
  else if k == "case" then .caseSubj
  else .err

def isKeyword (lit : Option String) : Bool :=
  match lit with
  | some s => keywords.contains s
  | none => false

def transCore (st : PState) (k : Kind) : Dec :=
  match st, k with
  | .err, _ => {}
  | _, .bad => {}
  | _, .eof => {}
  -- array assignment (simple_command.rs `array_values`)
  | .cmd0, .assignArr => { onTake := .arrOpen }
  | .pre, .assignArr => { onTake := .arrOpen }
  | _, .assignArr => {}
  | .arrOpen, .op s => if s == "(" then { onTake := .arr } else {}
  | .arrOpen, _ => {}
  | .arr, .word _ _ => { sub := some false, onSub := .arr, onTake := .arr }
  | .arr, .op s => if s == "\n" then { onTake := .arr } else if s == ")" then { onTake := .pre } else {}
  | .arr, .io => {}
  -- start of a command
  | .cmd0, .io => { onTake := .pre }
  | .cmd0, .op s =>
    if isRedirOp s then { onTake := .redir 0 }
    else if isHereOp s then { onTake := .redirH 0 (s == "<<-") }
    else if s == "(" then { onTake := .cmd0 }
    else { onTake := afterCommandOp s }
  | .cmd0, .word lit asg =>
    if isKeyword lit then { onTake := keywordAtStart (lit.getD "") }
    else { sub := some true,
           onSub := .cmd0,
           onTake := if asg then .pre else .one }
  -- simple command under construction
  | .pre, .io => { onTake := .pre }
  | .pre, .op s => if isRedirOp s then { onTake := .redir 0 } else if isHereOp s then { onTake := .redirH 0 (s == "<<-") } else if s == "(" then {} else { onTake := afterCommandOp s }
  | .pre, .word _ asg => { sub := some true, onSub := .pre, onTake := if asg then .pre else .args }
  | .one, .io => { onTake := .args }
  | .one, .op s =>
    if isRedirOp s then { onTake := .redir 1 } else if isHereOp s then { onTake := .redirH 1 (s == "<<-") }
    else if s == "(" then { onTake := .fnClose }
    else { onTake := afterCommandOp s }
  | .one, .word _ _ => { sub := some false, onSub := .one, onTake := .args }
  | .args, .io => { onTake := .args }
  | .args, .op s => if isRedirOp s then { onTake := .redir 1 } else if isHereOp s then { onTake := .redirH 1 (s == "<<-") } else if s == "(" then {} else { onTake := afterCommandOp s }
  | .args, .word _ _ => { sub := some false, onSub := .args, onTake := .args }
  -- redirection operand: take_token_auto(&[])
  | .redir r, .word _ _ => { sub := some false, onSub := .redir r, onTake := retState r }
  | .redir r, .io => { onTake := retState r }
  | .redir _, .op _ => {}
  | .redirH r d, .word _ _ => { sub := some false, onSub := .redirH r d, onTake := retState r }
  | .redirH r _, .io => { onTake := retState r }
  | .redirH _ _, .op _ => {}
  -- after a compound command
  | .afterComp, .io => { onTake := .afterComp }
  | .afterComp, .op s => if isRedirOp s then { onTake := .redir 2 } else if isHereOp s then { onTake := .redirH 2 (s == "<<-") } else if s == "(" then {} else { onTake := afterCommandOp s }
  | .afterComp, .word lit _ =>
    match lit with
    | some k =>
      if k == "then" || k == "else" || k == "elif" || k == "do" then { onTake := .cmd0 }
      else if k == "}" || k == "fi" || k == "done" || k == "esac" then { onTake := .afterComp }
      else {}
    | none => {}
  -- function definition
  | .fnClose, .word _ _ => { sub := some false, onSub := .fnClose, onTake := .err }
  | .fnClose, .op s => if s == ")" then { onTake := .fnBody } else {}
  | .fnClose, .io => {}
  | .fnBody, .op s => if s == "\n" then { onTake := .fnBody } else if s == "(" then { onTake := .cmd0 } else {}
  | .fnBody, .word lit _ =>
    match lit with
    | some k =>
      if k == "{" || k == "if" || k == "while" || k == "until" then { onTake := .cmd0 }
      else if k == "for" then { onTake := .forName }
      else if k == "case" then { onTake := .caseSubj }
      else { sub := some false, onSub := .fnBody, onTake := .err }
    | none => { sub := some false, onSub := .fnBody, onTake := .err }
  | .fnBody, .io => {}
  -- for loop
  | .forName, .word _ _ => { sub := some false, onSub := .forName, onTake := .forIn true }
  | .forName, .io => { onTake := .forIn true }
  | .forName, .op _ => {}
  | .forIn fl, .op s =>
    if s == ";" && fl then { onTake := .forBody }
    else if s == "\n" then { onTake := .forIn false }
    else { sub := some false, onSub := .forIn fl, onTake := .err }
  | .forIn fl, .word lit _ =>
    if lit == some "do" then { onTake := .cmd0 }
    else if lit == some "in" then { onTake := .forWords }
    else { sub := some false, onSub := .forIn fl, onTake := .err }
  | .forIn _, .io => {}
  | .forWords, .word _ _ => { sub := some false, onSub := .forWords, onTake := .forWords }
  | .forWords, .io => { onTake := .forWords }
  | .forWords, .op s => if s == ";" || s == "\n" then { onTake := .forBody } else {}
  | .forBody, .op s => if s == "\n" then { onTake := .forBody } else {}
  | .forBody, .word lit _ =>
    if lit == some "do" then { onTake := .cmd0 }
    else { sub := some false, onSub := .forBody, onTake := .err }
  | .forBody, .io => {}
  -- case
  | .caseSubj, .word _ _ => { sub := some false, onSub := .caseSubj, onTake := .caseIn }
  | .caseSubj, _ => {}
  | .caseIn, .op s => if s == "\n" then { onTake := .caseIn } else {}
  | .caseIn, .word lit _ =>
    if lit == some "in" then { onTake := .casePat0 }
    else { sub := some false, onSub := .caseIn, onTake := .err }
  | .caseIn, .io => {}
  | .casePat0, .op s => if s == "\n" then { onTake := .casePat0 } else if s == "(" then { onTake := .casePat1 } else {}
  | .casePat0, .word lit _ =>
    if lit == some "esac" then { onTake := .afterComp }
    else { sub := some false, onSub := .casePat0, onTake := .caseSep }
  | .casePat0, .io => {}
  | .casePat1, .word lit _ =>
    if lit == some "esac" then { onTake := .caseSep }
    else { sub := some false, onSub := .casePat1, onTake := .caseSep }
  | .casePat1, _ => {}
  | .caseSep, .word _ _ => { sub := some false, onSub := .caseSep, onTake := .err }
  | .caseSep, .op s => if s == ")" then { onTake := .cmd0 } else if s == "|" then { onTake := .casePatN } else {}
  | .caseSep, .io => {}
  | .casePatN, .word _ _ => { sub := some false, onSub := .casePatN, onTake := .caseSep }
  | .casePatN, _ => {}

/-- Which `take_token_*` comes next.  Outside the two places where an array assignment can start, a word
    of the shape `name=` followed by `(` is an ordinary (assignment-shaped) word. -/
def trans (st : PState) (k : Kind) : Dec :=
  match k with
  | .assignArr => if st == .cmd0 || st == .pre then transCore st k else transCore st (.word none true)
  | _ => transCore st k

/-! ### Eligibility and the substitution step -/

/-- `Source::is_alias_for(name)` on a character: the name is anywhere on its origin chain. -/
def SChar.isAliasFor (sc : SChar) (n : String) : Bool := sc.chain.contains n

/-- `is_same_alias(alias, sc)` for the alias that is innermost on `p`'s chain. -/
def sameAlias (p : SChar) (nxt : Option SChar) : Bool :=
  match p.chain, nxt with
  | n :: _, some x => x.isAliasFor n
  | _, _ => false

/-- `LexerCore::is_after_blank_ending_alias(index)`: `before` are the characters before `index`, nearest
    first; `nxt` is the character at `index` (the one after the character being looked at). -/
def afterBlank : List SChar → Option SChar → Bool
  | [], _ => false
  | p :: ps, nxt =>
    if !p.lc && !isBlank p.c then false
    else if !p.chain.isEmpty && p.eb && !sameAlias p nxt then true
    else afterBlank ps (some p)

/-- `Parser::substitute_alias`: the alias to substitute for the token, if any.
    `lit` = `to_string_if_literal` of a `Token(_)`; `c0` = first character of the token (its code's source
    is `token.word.location.code.source`); `before` = buffer before the token. -/
def eligible (T : Table) (before : List SChar) (c0 : SChar) (k : Kind) (sub : Option Bool) : Option Alias :=
  match sub, k with
  | some cmd, .word (some name) _ =>
    if c0.isAliasFor name then none else
    match T.lookup name with
    | some a => if cmd || a.global || afterBlank before (some c0) then some a else none
    | none => none
  | _, _ => none

/-- `LexerCore::substitute_alias`: the replacement characters, all with origin `alias` inside the origin
    of the token's first character. -/
def spliceChars (a : Alias) (c0 : SChar) : List SChar :=
  a.value.map fun ch => { c := ch, chain := a.name :: c0.chain, lc := false, eb := endsBlank a.value }

structure MState where
  pre : List SChar := []      -- consumed characters, most recent first
  rest : List SChar           -- characters from the lexer's `index` on
  st : PState := .cmd0
  subs : Nat := 0             -- number of substitutions performed (observation only)
  toks : List Kind := []      -- tokens consumed, most recent first (observation only)
  hd : Pending := []          -- here-documents whose body has not been read yet
  deriving Repr

/-- Does a newline taken in this state read the pending here-document bodies
    (`newline_and_here_doc_contents`)?  Not inside array values / `for` words (`take_token_auto`). -/
def readsBody (st : PState) : Bool := st != .arr && st != .forWords

/-- Number of characters consumed AFTER the first one when the token at the head of `r` is taken in state `st`:
    the rest of the token, plus the bodies of the pending here-documents if it is a newline. -/
def spanLenC (hd : Pending) (st : PState) (r : List Char) : Nat :=
  let tok := lexTokC r
  tok.len - 1 +
    (if tok.kind == .op "\n" && readsBody st then (hereLen hd (r.drop tok.len)).getD (r.length - tok.len) else 0)

/-- tokens reported for it (a here-document without its delimiter line is a syntax error) -/
def tokOutC (hd : Pending) (st : PState) (r : List Char) : List Kind :=
  let tok := lexTokC r
  if tok.kind == .op "\n" && readsBody st && (hereLen hd (r.drop tok.len)).isNone then [.bad, tok.kind]
  else [tok.kind]

/-- pending here-documents after the token was taken -/
def hdNextC (hd : Pending) (st : PState) (r : List Char) : Pending :=
  let tok := lexTokC r
  match st, tok.kind with
  | .redirH _ dash, .word _ _ => hd ++ [(unquote .un (r.take tok.len), dash)]
  | .redirH _ dash, .io => hd ++ [(r.take tok.len, dash)]
  | _, .op s => if s == "\n" && readsBody st then [] else hd
  | _, _ => hd

def spanLen (s : MState) (c0 : SChar) (tl : List SChar) : Nat := spanLenC s.hd s.st (chars (c0 :: tl))

/-- One `require_token` + `take_token_*`: skip blanks/comment, lex a token, substitute or consume. -/
def step (T : Table) (s : MState) : Option MState :=
  let k := skipLen s.rest
  let before := (markLc (s.rest.take k)).reverse ++ s.pre
  match s.rest.drop k with
  | [] => none
  | c0 :: tl =>
    let tok := lexTok (c0 :: tl)
    let d := trans s.st tok.kind
    match eligible T before c0 tok.kind d.sub with
    | some a =>
      some { pre := before, rest := spliceChars a c0 ++ tl.drop (tok.len - 1), st := d.onSub,
             subs := s.subs + 1, toks := s.toks, hd := s.hd }
    | none =>
      some { pre := (tl.take (spanLen s c0 tl)).reverse ++ c0 :: before, rest := tl.drop (spanLen s c0 tl),
             st := d.onTake, subs := s.subs, toks := tokOutC s.hd s.st (chars (c0 :: tl)) ++ s.toks,
             hd := hdNextC s.hd s.st (chars (c0 :: tl)) }

/-- Runs `step` until the end of input; the flag is `true` iff the end was reached within the fuel. -/
def run (T : Table) : Nat → MState → MState × Bool
  | 0, s => (s, false)
  | f + 1, s =>
    match step T s with
    | none => (s, true)
    | some s' => run T f s'

def maxValueLen : Table → Nat
  | [] => 0
  | a :: t => max a.value.length (maxValueLen t)

/-- Weight of a character: `(L+1)^(N - chain length)`. -/
def weight (T : Table) (sc : SChar) : Nat := (maxValueLen T + 1) ^ (T.length - sc.chain.length)

def mu (T : Table) : List SChar → Nat
  | [] => 0
  | a :: t => weight T a + mu T t

def init (line : List Char) : MState := { rest := plain line }

/-- Fuel that is always enough (theorem `subst_terminates`). -/
def fuelFor (T : Table) (line : List Char) : Nat := mu T (plain line) + 1

def MState.text (s : MState) : List Char := (s.pre.reverse ++ s.rest).map (·.c)

/-- The origin chain of every character of the buffer (`sc.value.location.code.source` followed through
    `Source::Alias{original, alias}`, innermost alias first), in buffer order.  The harness reads the same list
    from the real lexer with `Lexer::location_range(i..i+1)`. -/
def MState.origins (s : MState) : List (List String) := (s.pre.reverse ++ s.rest).map (·.chain)

/-- The model's result: final state for a table and a line. -/
def substState (T : Table) (line : List Char) : MState := (run T (fuelFor T line) (init line)).1

/-- The substituted text. -/
def substText (T : Table) (line : List Char) : List Char := (substState T line).text

/-! ### Line-by-line machine: the alias table changes while a replacement is still being read

  `yash_semantics::read_eval_loop` parses ONE command line (`Parser::command_line`), executes it, and only then
  parses the next one — also when the next line is the rest of a multi-line alias value.  The `alias` / `unalias`
  built-ins executed in between change the table; the characters still waiting in the buffer keep their
  origin chains.  `Track` follows the token stream to know when a command line is complete and which of its
  items are bare `alias …` / `unalias …` simple commands (the harness executes exactly those with the real
  built-ins). -/

structure Track where
  depth : Nat := 0                          -- open compound commands
  cont : Bool := false                      -- the last token was `|` `&&` `||` (a newline does not end the line)
  plain : Bool := true                      -- the current item is so far a bare simple command
  words : List (List Char) := []            -- its words (raw text), most recent first
  pending : List (List (List Char)) := []   -- `alias`/`unalias` commands of this line, most recent first
  deriving Repr

/-- `alias name=value` (`alias/semantics.rs` `define`): split at the FIRST `=` (`value.find('=')`); an operand
    without `=` defines nothing (it is printed); the name may be empty (`alias =x` defines the alias `""`,
    which no word can ever name); then `AliasSet::replace`. -/
def defineAlias (T : Table) (arg : List Char) : Table :=
  let name := arg.takeWhile (· != '=')
  if name.length == arg.length then T
  else
    let n := String.ofList name
    { name := n, value := arg.drop (name.length + 1), global := false } :: T.filter (fun a => a.name != n)

/-- leading option of a built-in's argument list (`parse_arguments`: options end at the first operand):
    `none` = no option, operands as given; `some (opt, rest)`.  (Kept for the lemmas of the earlier rounds; the
    built-ins below use C20's model of `parse_arguments`.) -/
def leadingOption (args : List (List Char)) : Option (List Char × List (List Char)) :=
  match args with
  | a :: rest => if a.head? == some '-' && a.length > 1 then some (a, rest) else none
  | [] => none

/-- what one `alias` / `unalias` command does: the table afterwards, the exit status (`ExitStatus::SUCCESS` 0,
    `FAILURE` 1, `ERROR` 2), what it writes to standard output -/
structure CmdResult where
  T : Table
  status : Nat := 0
  out : List Char := []
  deriving Repr

/-- `print` (alias/semantics.rs): `quoted(name)=quoted(replacement)` and a newline; `yash_quote::quoted` is C07's
    `Quote.quote` -/
def printAliasLine (a : Alias) : List Char :=
  Quote.quote a.name.toList ++ '=' :: (Quote.quote a.value ++ ['\n'])

def insertByName (a : Alias) : List Alias → List Alias
  | [] => [a]
  | b :: t => if a.name < b.name then a :: b :: t else b :: insertByName a t

/-- the definitions in force (first entry of a name), sorted by name (`sort_unstable_by_key(name)`) -/
def Table.sortedUnique (T : Table) : List Alias :=
  (T.foldl (fun (acc : List Alias) a => if acc.any (·.name == a.name) then acc else acc ++ [a]) []).foldr insertByName []

/-- one operand of `alias` (`Command::execute`): `name=value` defines; an operand without `=` prints the
    definition of that name, or is an error (`NonExistentAlias`: the other operands are still processed) -/
def aliasOperand (r : CmdResult) (arg : List Char) : CmdResult :=
  if (arg.takeWhile (· != '=')).length == arg.length then
    match r.T.lookup (String.ofList arg) with
    | some a => { r with out := r.out ++ printAliasLine a }
    | none => { r with status := 1 }
  else { r with T := defineAlias r.T arg }

/-- `alias::main`: `parse_arguments(&[], Mode::with_env(env), args)` (no option at all: every `-x` / `--x` before the
    first operand is an error, exit status 2, nothing defined), no operand = print every definition -/
def runAlias (T : Table) (args : List (List Char)) : CmdResult :=
  match Args.parseArguments [] Args.Mode.withExtensions args with
  | .error _ => { T := T, status := 2 }
  | .ok (_, operands) =>
    if operands.isEmpty then { T := T, out := (T.sortedUnique.map printAliasLine).flatten }
    else operands.foldl aliasOperand { T := T }

/-- one operand of `unalias` (`Command::Remove`): remove the definition, an undefined name is an error -/
def unaliasOperand (r : CmdResult) (arg : List Char) : CmdResult :=
  if (r.T.lookup (String.ofList arg)).isSome then { r with T := r.T.filter (fun a => a.name.toList != arg) }
  else { r with status := 1 }

/-- `unalias::main` / `syntax::parse`: option `-a` (any number of times, also grouped), `-a` with operands and no
    argument at all are errors (exit status 2, nothing removed) -/
def runUnalias (T : Table) (args : List (List Char)) : CmdResult :=
  match Args.parseArguments [{ short := some 'a' }] Args.Mode.withExtensions args with
  | .error _ => { T := T, status := 2 }
  | .ok (opts, operands) =>
    if opts.isEmpty then
      (if operands.isEmpty then { T := T, status := 2 } else operands.foldl unaliasOperand { T := T })
    else if operands.isEmpty then { T := [] }
    else { T := T, status := 2 }

/-- `is_portable_alias_name` (yash-env alias.rs; what `define` tests when the `portable` option is on): a non-empty
    string of ASCII letters, digits and `! % , - @ _` -/
def isPortableAliasName (s : List Char) : Bool :=
  !s.isEmpty && s.all fun c => c.isAlphanum || c == '!' || c == '%' || c == ',' || c == '-' || c == '@' || c == '_'

/-- one `alias …` / `unalias …` command (words as written: quote removal first) -/
def runCmd (T : Table) (ws : List (List Char)) : CmdResult :=
  match ws.map (unquote .un) with
  | cmd :: args =>
    if cmd == "alias".toList then runAlias T args
    else if cmd == "unalias".toList then runUnalias T args
    else { T := T }
  | [] => { T := T }

/-- the effect of one `alias …` / `unalias …` command on the table -/
def applyCmd (T : Table) (ws : List (List Char)) : Table := (runCmd T ws).T

def isOpener (w : String) : Bool :=
  w == "{" || w == "if" || w == "while" || w == "until" || w == "for" || w == "case"

def isCloser (w : String) : Bool := w == "}" || w == "fi" || w == "done" || w == "esac"

/-- a bare `alias`/`unalias` command whose words need quote removal only (the harness executes exactly these):
    the command word is a LITERAL (`to_string_if_literal`, so a line continuation inside `al\<newline>ias` vanishes
    and a quoted `'alias'` does not count) equal to `alias` / `unalias` -/
def isAliasCmd (ws : List (List Char)) : Bool :=
  (match ws.getLast? with
   | some w => wordLit w == some "alias".toList || wordLit w == some "unalias".toList
   | none => false) &&
  ws.all (fun w => !w.any (fun c => c == '$' || c == '`' || c == '~' || c == '*' || c == '?' || c == '['))

/-- end of an item (`;`, newline, end of input) at depth 0 -/
def endItem (st : PState) (tr : Track) : Track :=
  let keep := tr.plain && (st == .one || st == .args) && tr.depth == 0 && isAliasCmd tr.words
  { tr with plain := true, words := [], cont := false,
            pending := if keep then tr.words.reverse :: tr.pending else tr.pending }

def lineEndState (st : PState) : Bool :=
  st == .cmd0 || st == .pre || st == .one || st == .args || st == .afterComp

/-- Follows one consumed token (`st` = state before it, `sub` = `(trans st k).sub`, `raw` = its text).
    Returns the new tracking state and the commands to execute now (a command line was completed). -/
def trackTok (st : PState) (k : Kind) (sub : Option Bool) (raw : List Char) (tr : Track) :
    Track × List (List (List Char)) :=
  match k with
  | .word lit asg =>
    if sub.isNone then
      match lit with
      | some w =>
        if isOpener w then ({ tr with depth := tr.depth + 1, plain := false, cont := false }, [])
        else if isCloser w then ({ tr with depth := tr.depth - 1, plain := false, cont := false }, [])
        else ({ tr with plain := false, cont := false }, [])
      | none => ({ tr with plain := false, cont := false }, [])
    else if st == .cmd0 && !asg then ({ tr with words := [raw], cont := false }, [])
    else if st == .one || st == .args then ({ tr with words := raw :: tr.words, cont := false }, [])
    else ({ tr with plain := false, cont := false }, [])
  | .io => ({ tr with plain := false, cont := false }, [])
  | .op s =>
    if s == "\n" then
      if tr.depth == 0 && !tr.cont && lineEndState st then
        let tr' := endItem st tr
        ({ tr' with pending := [] }, tr'.pending.reverse)
      else (tr, [])
    else if s == ";" then
      if tr.depth == 0 && lineEndState st then (endItem st tr, [])
      else ({ tr with plain := false, cont := false }, [])
    else if s == "&" then
      if tr.depth == 0 then ({ tr with plain := true, words := [], cont := false }, [])
      else ({ tr with cont := false }, [])
    else if s == "|" || s == "&&" || s == "||" then ({ tr with plain := false, cont := true }, [])
    else if s == "(" then
      if st == .cmd0 || st == .fnBody then ({ tr with depth := tr.depth + 1, plain := false, cont := false }, [])
      else ({ tr with plain := false, cont := false }, [])
    else if s == ")" then
      if st == .caseSep then ({ tr with plain := false, cont := false }, [])
      else ({ tr with depth := tr.depth - 1, plain := false, cont := false }, [])
    else ({ tr with plain := false, cont := false }, [])
  | _ => ({ tr with plain := false, cont := false }, [])

structure LState where
  T : Table
  m : MState
  tr : Track := {}

/-- One step of the line machine: `step` with the current table; a consumed token may complete a command
    line, whose `alias`/`unalias` commands then update the table. -/
def lstep (l : LState) : Option LState :=
  match step l.T l.m with
  | none => none
  | some m' =>
    if m'.subs != l.m.subs then some { l with m := m' } else
    let r := l.m.rest.drop (skipLen l.m.rest)
    let tok := lexTok r
    let (tr', cmds) := trackTok l.m.st tok.kind (trans l.m.st tok.kind).sub (chars (r.take tok.len)) l.tr
    some { T := cmds.foldl applyCmd l.T, m := m', tr := tr' }

def lrun : Nat → LState → LState × Bool
  | 0, l => (l, false)
  | f + 1, l =>
    match lstep l with
    | none => (l, true)
    | some l' => lrun f l'

/-- the table after the last command line (which may end without a newline) has been executed -/
def LState.finalTable (l : LState) : Table :=
  if l.tr.depth == 0 && !l.tr.cont && lineEndState l.m.st then
    (endItem l.m.st l.tr).pending.reverse.foldl applyCmd l.T
  else l.T

end YashModel.Alias
