/-
  C17 — lexical lemmas about the tokeniser of `Model.lean` used by the Model = Spec proof (`Blank.lean`):
  a word ends at a delimiter, the token after the skipped blanks starts with a non-delimiter, a literal word
  contains no blank.
-/
import YashModel.Alias.Model
namespace YashModel.Alias

theorem get_cons_1 {α} (a : α) (t : List α) (n : Nat) : (a :: t)[1 + n]? = t[n]? := by
  rw [Nat.add_comm]; rfl
theorem get_cons_2 {α} (a b : α) (t : List α) (n : Nat) : (a :: b :: t)[2 + n]? = t[n]? := by
  rw [Nat.add_comm]; rfl

/-- L1: a closed word ends at a delimiter or at the end of the text -/
theorem wordLen_stop (m : QMode) (l : List Char) (hc : wordClosed m l = true) :
    ∀ d, l[wordLen m l]? = some d → isDelim d = true := by
  fun_induction wordLen m l <;> (try unfold wordClosed at hc) <;> simp_all +decide [get_cons_1, get_cons_2]
  split at hc
  · omega
  · simp_all


theorem take_1_add {α} (a : α) (t : List α) (n : Nat) : (a :: t).take (1 + n) = a :: t.take n := by
  rw [Nat.add_comm]; rfl
theorem take_2_add {α} (a b : α) (t : List α) (n : Nat) : (a :: b :: t).take (2 + n) = a :: b :: t.take n := by
  rw [Nat.add_comm]; rfl

theorem commentLen_stop (l : List Char) : ∀ c, l[commentLen l]? = some c → c = '\n' := by
  fun_induction commentLen l <;> simp_all [get_cons_1]

/-- L3: what follows the skipped blanks is not a blank and not a line continuation -/
theorem skip_head (l : List Char) : ∀ c, l[skipLenC l]? = some c →
    isBlank c = false ∧ ¬ (c = '\\' ∧ l[skipLenC l + 1]? = some '\n') := by
  fun_induction skipLenC l
  · simp
  · rename_i a h; simp_all
  · rename_i a h1 h2; simp_all
  · rename_i a h1 h2
    intro c hc
    simp only [List.getElem?_cons_zero, Option.some.injEq] at hc
    subst hc
    simp_all
  · rename_i a b t h ih
    intro c hc
    rw [get_cons_1] at hc
    have := ih c hc
    refine ⟨this.1, ?_⟩
    rw [show 1 + skipLenC (b :: t) + 1 = 1 + (skipLenC (b :: t) + 1) by omega, get_cons_1]
    exact this.2
  · rename_i a b t h1 h2 ih
    intro c hc
    rw [get_cons_2] at hc
    have := ih c hc
    refine ⟨this.1, ?_⟩
    rw [show 2 + skipLenC t + 1 = 2 + (skipLenC t + 1) by omega, get_cons_2]
    exact this.2
  · rename_i a b t h1 h2 h3
    intro c hc
    rw [get_cons_1] at hc
    have := commentLen_stop _ c hc
    subst this
    simp +decide
  · rename_i a b t h1 h2 h3
    intro c hc
    simp only [List.getElem?_cons_zero, Option.some.injEq] at hc
    subst hc
    simp_all


/-- L5: a literal word contains no blank -/
theorem wordLit_noblank (l : List Char) : ∀ s, wordLit l = some s →
    ∀ x ∈ l.take (wordLen .un l), isBlank x = false := by
  fun_induction wordLit l
  all_goals intro s hs x hx
  all_goals unfold wordLen at hx
  case case2 => clear hs; simp_all +decide
  case case7 => clear hs; simp_all +decide [isDelim]
  case case3 ih =>
    simp_all +decide [take_2_add]
    rcases hx with rfl | rfl | h
    · decide
    · decide
    · exact ih x h
  case case9 =>
    rename_i a h1 h2 h3 h4 b t hds ih
    have ha : a = '$' := by simpa using h4
    subst ha
    have hb : ¬ b = '(' := by intro h; subst h; simp +decide at hds
    simp only [Option.map_eq_some_iff] at hs
    obtain ⟨s', hs', _⟩ := hs
    simp +decide [hb, take_1_add] at hx
    rcases hx with rfl | h
    · decide
    · exact ih s' hs' x h
  case case10 a t h1 h2 h3 h4 ih =>
    simp only [Option.map_eq_some_iff] at hs
    obtain ⟨s', hs', _⟩ := hs
    simp_all +decide [take_1_add, isDelim]
    rcases hx with rfl | h
    · exact h2.2
    · exact ih x h
  all_goals simp_all +decide [isDelim]


/-- what `lexTokC` has established when it reports a word -/
theorem lexTok_word {r : List Char} {lit : Option String} {asg : Bool}
    (h : (lexTokC r).kind = .word lit asg) :
    lexOp r = none ∧ wordClosed .un r = true ∧ (lexTokC r).len = wordLen .un r ∧
    (∀ name, lit = some name → ∃ s, wordLit r = some s) := by
  unfold lexTokC at h ⊢
  split at h
  · simp at h
  · split at h
    · simp at h
    · rename_i hop
      simp only [hop]
      by_cases hc : wordClosed .un r = true
      · simp only [hc, Bool.not_true, Bool.false_eq_true, ↓reduceIte] at h ⊢
        refine ⟨trivial, trivial, ?_, ?_⟩
        · split <;> (try split) <;> (try split) <;> rfl
        · intro name hn
          subst hn
          split at h
          · rename_i s hs
            split at hs
            · split at hs
              · cases hs
              · exact ⟨s, hs⟩
            · cases hs
          · simp at h
      · simp [hc] at h


/-- L4: no operator at a head that is not a line continuation means the head is no operator character -/
theorem lexOp_none_head {c : Char} {t : List Char} (h : lexOp (c :: t) = none)
    (hlc : ¬ (c = '\\' ∧ t.head? = some '\n')) : isOpChar c = false := by
  unfold lexOp at h
  cases t with
  | nil =>
    simp only [peel] at h
    by_cases ho : isOpChar c = true
    · simp [ho] at h
    · simpa using ho
  | cons b t' =>
    have hp : peel (c :: b :: t') = some (c, 1, b :: t') := by
      unfold peel
      have : ¬ (c == '\\' && b == '\n') = true := by
        intro hh
        simp only [Bool.and_eq_true, beq_iff_eq] at hh
        exact hlc ⟨hh.1, by simp [hh.2]⟩
      simp [this]
    rw [hp] at h
    simp only at h
    by_cases ho : isOpChar c = true
    · simp only [ho, Bool.not_true, Bool.false_eq_true, ↓reduceIte] at h
      split at h <;> (try split at h) <;> (try split at h) <;> (try split at h) <;> simp at h
    · simpa using ho

/-- the facts about a word token found after the skipped blanks -/
theorem word_token_facts {l : List Char} {c : Char} {t : List Char} {lit : Option String} {asg : Bool}
    (hd : l.drop (skipLenC l) = c :: t) (hk : (lexTokC (c :: t)).kind = .word lit asg) :
    isDelim c = false ∧
    (∀ d, (c :: t)[(lexTokC (c :: t)).len]? = some d → isDelim d = true) ∧
    (∀ name, lit = some name → ∀ x ∈ (c :: t).take (lexTokC (c :: t)).len, isBlank x = false) := by
  obtain ⟨hop, hcl, hlen, hlit⟩ := lexTok_word hk
  have h0 : l[skipLenC l]? = some c := by
    have := congrArg (fun x => x[0]?) hd
    simpa [List.getElem?_drop] using this
  have h1 : l[skipLenC l + 1]? = t.head? := by
    have := congrArg (fun x => x[1]?) hd
    simp only [List.getElem?_drop] at this
    rw [this]
    cases t <;> rfl
  obtain ⟨hb, hlc⟩ := skip_head l c h0
  rw [h1] at hlc
  have hoc := lexOp_none_head hop hlc
  refine ⟨by simp [isDelim, hoc, hb], ?_, ?_⟩
  · rw [hlen]; exact wordLen_stop .un _ hcl
  · intro name hn x hx
    obtain ⟨s, hs⟩ := hlit name hn
    rw [hlen] at hx
    exact wordLit_noblank _ s hs x hx

end YashModel.Alias
