/-
  C17 — the blank rule of the model (backward walk `is_after_blank_ending_alias` over the consumed buffer) and of
  the by-hand Spec (forward flag `tb`) agree at every step of a lock-step run: `blank_agree`, invariant
  `BlankInv`, preserved by `blankinv_step`.  Ingredients: the walk as a forward fold (`afterBlank_fwd`), adjacency
  invariants of the unconsumed text (`ModelInv`: a blank-ending value ends on a blank, a delimiter follows the end
  of a replacement, `eb` flags come from the table), lexical facts (`Lex.lean`), the Spec-side correspondence of
  `eb` flags and distinct region names (`CorrE`, `NodupNames`), and stability of the answer when the token is
  replaced (`blank_stable`).
-/
import YashModel.Alias.Guard
import YashModel.Alias.Lex
namespace YashModel.Alias

/-! ### the backward walk of `afterBlank` as a forward fold -/

/-- the per-character test of `is_after_blank_ending_alias` -/
def bcond (p : SChar) (nx : Option SChar) : Bool := !p.chain.isEmpty && p.eb && !sameAlias p nx

/-- characters the walk passes over -/
def bskip (p : SChar) : Bool := p.lc || isBlank p.c

def headOr (l : List SChar) (nxt : Option SChar) : Option SChar :=
  match l with
  | [] => nxt
  | q :: _ => some q

/-- reading `l` forwards: the flag after every character -/
def fwd : Bool → List SChar → Option SChar → Bool
  | b, [], _ => b
  | b, p :: t, nxt => fwd (bskip p && (bcond p (headOr t nxt) || b)) t nxt

theorem afterBlank_cons (p : SChar) (ps : List SChar) (nxt : Option SChar) :
    afterBlank (p :: ps) nxt = (bskip p && (bcond p nxt || afterBlank ps (some p))) := by
  rw [afterBlank]
  unfold bskip bcond
  cases h1 : p.lc <;> cases h2 : isBlank p.c <;>
    cases h3 : (!p.chain.isEmpty && p.eb && !sameAlias p nxt) <;> simp [h3]

/-- backward walk = forward fold -/
theorem afterBlank_fwd (l pre : List SChar) (nxt : Option SChar) :
    afterBlank (l.reverse ++ pre) nxt = fwd (afterBlank pre (headOr l nxt)) l nxt := by
  induction l generalizing pre with
  | nil => rfl
  | cons p t ih =>
    simp only [List.reverse_cons, List.append_assoc, List.singleton_append, fwd]
    rw [ih (p :: pre), afterBlank_cons]
    rfl


/-! ### adjacency invariants over the unconsumed text -/

/-- `R c next` for every character of `l` and the character after it (`nxt` after the last one) -/
def AdjN (R : SChar → Option SChar → Prop) : List SChar → Option SChar → Prop
  | [], _ => True
  | c :: t, nxt => R c (headOr t nxt) ∧ AdjN R t nxt

theorem headOr_append (l1 l2 : List SChar) (nxt : Option SChar) :
    headOr (l1 ++ l2) nxt = headOr l1 (headOr l2 nxt) := by
  cases l1 <;> rfl

theorem adjN_append {R : SChar → Option SChar → Prop} (l1 l2 : List SChar) (nxt : Option SChar) :
    AdjN R (l1 ++ l2) nxt ↔ AdjN R l1 (headOr l2 nxt) ∧ AdjN R l2 nxt := by
  induction l1 with
  | nil => simp [AdjN]
  | cons c t ih =>
    simp only [List.cons_append, AdjN, ih, headOr_append]
    exact ⟨fun ⟨a, b, c⟩ => ⟨⟨a, b⟩, c⟩, fun ⟨⟨a, b⟩, c⟩ => ⟨a, b, c⟩⟩

theorem adjN_drop {R : SChar → Option SChar → Prop} {l : List SChar} {nxt : Option SChar} (k : Nat)
    (h : AdjN R l nxt) : AdjN R (l.drop k) nxt := by
  have := (adjN_append (R := R) (l.take k) (l.drop k) nxt).mp (by rw [List.take_append_drop]; exact h)
  exact this.2

/-- the last character of a prefix and the first of the rest are adjacent -/
theorem adjN_boundary {R : SChar → Option SChar → Prop} : ∀ (l1 l2 : List SChar) (nxt : Option SChar) (u : SChar),
    AdjN R l1 (headOr l2 nxt) → l1.getLast? = some u → R u (headOr l2 nxt)
  | [], _, _, _, _, h => by simp at h
  | [c], l2, nxt, u, h, hl => by
    simp only [List.getLast?_singleton, Option.some.injEq] at hl
    subst hl
    exact h.1
  | c :: d :: t, l2, nxt, u, h, hl => by
    rw [List.getLast?_cons_cons] at hl
    exact adjN_boundary (d :: t) l2 nxt u h.2 hl

def ebOf (T : Table) (m : String) : Bool :=
  match T.lookup m with
  | some a => endsBlank a.value
  | none => false

/-- where a blank-ending value ends (the next character is no longer from it) there is a blank -/
def RLB (T : Table) (c : SChar) (nx : Option SChar) : Prop :=
  ∀ m ∈ c.chain, (∀ x, nx = some x → m ∉ x.chain) → ebOf T m = true → isBlank c.c = true

/-- after the end of a replacement comes a token delimiter -/
def RED (c : SChar) (nx : Option SChar) : Prop :=
  ∀ x, nx = some x → (∃ m ∈ c.chain, m ∉ x.chain) → isDelim x.c = true

/-- the `eb` flag is the one of the table entry of the innermost alias -/
def EbTable (T : Table) (l : List SChar) : Prop :=
  ∀ c ∈ l, ∀ m tl, c.chain = m :: tl → c.eb = ebOf T m

structure ModelInv (T : Table) (s : MState) : Prop where
  lb : AdjN (RLB T) s.rest none
  ed : AdjN RED s.rest none
  edb : ∀ p, s.pre.head? = some p → RED p s.rest.head?
  ebt : EbTable T (s.pre ++ s.rest)
  nolc : ∀ c ∈ s.rest, c.lc = false

/-- if a name is on the chain at the start of a segment and gone right after it, a blank-ending value ends
    inside the segment — on a blank -/
theorem ends_within {T : Table} {m : String} : ∀ (seg rest2 : List SChar),
    AdjN (RLB T) (seg ++ rest2) none → (∃ u, seg.head? = some u ∧ m ∈ u.chain) →
    (∀ x, rest2.head? = some x → m ∉ x.chain) → ebOf T m = true → ∃ u ∈ seg, isBlank u.c = true
  | [], _, _, h, _, _ => by simp at h
  | [u], rest2, h, hu, hr, he => by
    obtain ⟨u', hu', hm⟩ := hu
    simp only [List.head?_cons, Option.some.injEq] at hu'
    rw [← hu'] at hm
    refine ⟨u, List.mem_singleton.mpr rfl, ?_⟩
    have := h.1
    apply this m hm _ he
    intro x hx
    apply hr x
    cases rest2 with
    | nil => simp [headOr] at hx
    | cons y t => simpa [headOr] using hx
  | u :: v :: seg', rest2, h, hu, hr, he => by
    obtain ⟨u', hu', hm⟩ := hu
    simp only [List.head?_cons, Option.some.injEq] at hu'
    rw [← hu'] at hm
    by_cases hv : m ∈ v.chain
    · obtain ⟨w, hw, hb⟩ := ends_within (v :: seg') rest2 h.2 ⟨v, rfl, hv⟩ hr he
      exact ⟨w, List.mem_cons_of_mem _ hw, hb⟩
    · refine ⟨u, List.mem_cons_self .., ?_⟩
      apply h.1 m hm _ he
      intro x hx
      have : x = v := by
        have h2 : headOr ((v :: seg').append rest2) none = some v := rfl
        rw [h2] at hx
        exact (Option.some.inj hx).symm
      rw [this]
      exact hv


/-! ### token facts at the level of the buffer -/

theorem chars_getElem? (l : List SChar) (n : Nat) : (chars l)[n]? = l[n]?.map (·.c) := by
  simp [chars]

theorem model_token_facts {s : MState} {c0 : SChar} {tl : List SChar} {name : String} {asg : Bool}
    (hdrop : s.rest.drop (skipLen s.rest) = c0 :: tl)
    (hk : (lexTok (c0 :: tl)).kind = .word (some name) asg) :
    isDelim c0.c = false ∧
    (∀ d, (tl.drop ((lexTok (c0 :: tl)).len - 1)).head? = some d → isDelim d.c = true) ∧
    (∀ x ∈ c0 :: tl.take ((lexTok (c0 :: tl)).len - 1), isBlank x.c = false) := by
  have hd : (chars s.rest).drop (skipLenC (chars s.rest)) = c0.c :: chars tl := by
    have := congrArg chars hdrop
    rw [chars_drop] at this
    exact this
  obtain ⟨h1, h2, h3⟩ := word_token_facts (l := chars s.rest) hd hk
  have hlen : 1 ≤ (lexTokC (c0.c :: chars tl)).len := by
    cases hl : (lexTokC (c0.c :: chars tl)).len with
    | zero =>
      have := h2 c0.c (by rw [hl]; rfl)
      rw [h1] at this; cases this
    | succ n => omega
  have hlt : (lexTok (c0 :: tl)).len = (lexTokC (c0.c :: chars tl)).len := rfl
  refine ⟨h1, ?_, ?_⟩
  · intro d hd'
    apply h2 d.c
    obtain ⟨n, hn⟩ : ∃ n, (lexTokC (c0.c :: chars tl)).len = n + 1 := ⟨_, (Nat.sub_add_cancel hlen).symm⟩
    rw [hlt, hn] at hd'
    rw [hn]
    simp only [Nat.add_sub_cancel, List.head?_drop] at hd'
    simp only [List.getElem?_cons_succ, chars_getElem?, hd', Option.map_some]
  · intro x hx
    have := h3 name rfl x.c
    apply this
    obtain ⟨n, hn⟩ : ∃ n, (lexTokC (c0.c :: chars tl)).len = n + 1 := ⟨_, (Nat.sub_add_cancel hlen).symm⟩
    rw [hlt, hn] at hx
    rw [hn]
    simp only [Nat.add_sub_cancel] at hx
    simp only [List.take_succ_cons, List.mem_cons] at hx ⊢
    rcases hx with rfl | hx
    · exact Or.inl rfl
    · right
      have : x.c ∈ chars (tl.take n) := List.mem_map.mpr ⟨x, hx, rfl⟩
      rwa [chars_take] at this


/-! ### the model invariant is preserved by `step` -/

theorem adjN_same {R : SChar → Option SChar → Prop}
    (hR : ∀ u v : SChar, u.chain = v.chain → R u (some v)) :
    ∀ (l : List SChar) (ch : List String) (nx : Option SChar), (∀ c ∈ l, c.chain = ch) →
      (∀ u, l.getLast? = some u → R u nx) → AdjN R l nx
  | [], _, _, _, _ => trivial
  | [c], _, nx, _, hl => ⟨hl c rfl, trivial⟩
  | c :: d :: t, ch, nx, hc, hl =>
    ⟨hR c d ((hc c (List.mem_cons_self ..)).trans (hc d (List.mem_cons_of_mem _ (List.mem_cons_self ..))).symm),
     adjN_same hR (d :: t) ch nx (fun x hx => hc x (List.mem_cons_of_mem _ hx))
       (fun u hu => hl u (by rw [List.getLast?_cons_cons]; exact hu))⟩

theorem rlb_same (T : Table) (u v : SChar) (h : u.chain = v.chain) : RLB T u (some v) := by
  intro m hm hn _
  exact absurd (h ▸ hm) (hn v rfl)

theorem red_same (u v : SChar) (h : u.chain = v.chain) : RED u (some v) := by
  intro x hx ⟨m, hm, hn⟩
  cases hx
  exact absurd (h ▸ hm) hn

theorem markLc_ce (l : List SChar) :
    (markLc l).map (fun c => (c.chain, c.eb)) = l.map (fun c => (c.chain, c.eb)) := by
  fun_induction markLc l <;> simp_all

theorem markLc_mem_ce {l : List SChar} {c : SChar} (hc : c ∈ markLc l) :
    ∃ c' ∈ l, c'.chain = c.chain ∧ c'.eb = c.eb := by
  have : (c.chain, c.eb) ∈ (markLc l).map (fun c => (c.chain, c.eb)) := List.mem_map.mpr ⟨c, hc, rfl⟩
  rw [markLc_ce] at this
  obtain ⟨c', hc', he⟩ := List.mem_map.mp this
  exact ⟨c', hc', (Prod.mk.inj he).1, (Prod.mk.inj he).2⟩

theorem markLc_last_chain (l : List SChar) :
    (markLc l).getLast?.map (·.chain) = l.getLast?.map (·.chain) := by
  rw [← List.getLast?_map, ← List.getLast?_map, markLc_chains]

/-- `RED` looks at the first character only through its chain -/
theorem red_congr {p q : SChar} (h : p.chain = q.chain) {nx : Option SChar} (hr : RED q nx) : RED p nx := by
  intro x hx ⟨m, hm, hn⟩
  exact hr x hx ⟨m, h ▸ hm, hn⟩

/-- the character right before the token (last skipped blank, or last consumed character) satisfies `RED`
    with the token's first character -/
theorem before_head_red {T : Table} {s : MState} (hi : ModelInv T s) {c0 : SChar} {tl : List SChar}
    (hdrop : s.rest.drop (skipLen s.rest) = c0 :: tl) {p : SChar}
    (hp : ((markLc (s.rest.take (skipLen s.rest))).reverse ++ s.pre).head? = some p) :
    RED p (some c0) := by
  cases hsk : (markLc (s.rest.take (skipLen s.rest))).reverse with
  | nil =>
    rw [hsk] at hp
    simp only [List.nil_append] at hp
    have hnil : s.rest.take (skipLen s.rest) = [] := by
      have : (markLc (s.rest.take (skipLen s.rest))) = [] := by simpa using hsk
      have h2 := congrArg List.length (markLc_chains (s.rest.take (skipLen s.rest)))
      simp only [List.length_map, this, List.length_nil] at h2
      exact List.eq_nil_of_length_eq_zero h2.symm
    have hrest : s.rest = c0 :: tl := by
      have := List.take_append_drop (skipLen s.rest) s.rest
      rw [hnil, hdrop] at this
      exact this.symm
    have := hi.edb p hp
    rw [hrest] at this
    exact this
  | cons q qs =>
    rw [hsk] at hp
    simp only [List.cons_append, List.head?_cons, Option.some.injEq] at hp
    subst hp
    have hq : (markLc (s.rest.take (skipLen s.rest))).getLast? = some q := by
      rw [← List.head?_reverse, hsk]; rfl
    have hc := markLc_last_chain (s.rest.take (skipLen s.rest))
    rw [hq] at hc
    cases hu : (s.rest.take (skipLen s.rest)).getLast? with
    | none => rw [hu] at hc; simp at hc
    | some u =>
      rw [hu] at hc
      simp only [Option.map_some, Option.some.injEq] at hc
      have hadj : AdjN RED (s.rest.take (skipLen s.rest) ++ s.rest.drop (skipLen s.rest)) none := by
        rw [List.take_append_drop]; exact hi.ed
      have h1 := ((adjN_append _ _ _).mp hadj).1
      have h2 := adjN_boundary _ _ _ u h1 hu
      rw [hdrop] at h2
      exact red_congr hc h2


theorem splice_last_blank (a : Alias) (c0 : SChar) (h : endsBlank a.value = true) :
    ∃ front b, spliceChars a c0 = front ++ [b] ∧ isBlank b.c = true := by
  unfold endsBlank at h
  split at h
  · rename_i c hc
    obtain ⟨front, hv⟩ : ∃ front, a.value = front ++ [c] := List.getLast?_eq_some_iff.mp hc
    refine ⟨front.map (fun ch => { c := ch, chain := a.name :: c0.chain, lc := false, eb := endsBlank a.value }),
      { c := c, chain := a.name :: c0.chain, lc := false, eb := endsBlank a.value }, ?_, h⟩
    simp [spliceChars, hv]
  · cases h

theorem ebOf_lookup {T : Table} {name : String} {a : Alias} (h : T.lookup name = some a) :
    ebOf T a.name = endsBlank a.value := by
  unfold ebOf
  rw [(lookup_spec h).2, h]

theorem before_ebt {T : Table} {s : MState} (hi : ModelInv T s) :
    EbTable T ((markLc (s.rest.take (skipLen s.rest))).reverse ++ s.pre) := by
  intro c hc m tl hm
  rcases List.mem_append.mp hc with h1 | h2
  · obtain ⟨c', hc', h3, h4⟩ := markLc_mem_ce (List.mem_reverse.mp h1)
    rw [← h4]
    exact hi.ebt c' (List.mem_append_right _ (List.mem_of_mem_take hc')) m tl (h3.trans hm)
  · exact hi.ebt c (List.mem_append_left _ h2) m tl hm

theorem modelinv_step {T : Table} {s s' : MState} (hi : ModelInv T s) (h : step T s = some s') :
    ModelInv T s' := by
  cases step_rel h with
  | subst c0 tl a cmd name asg hdrop hkind hsub hnot hlook hwhy hpre hrest =>
    obtain ⟨hc0, htl⟩ := mem_rest_of_drop hdrop
    obtain ⟨hnd, hdel, hnb⟩ := model_token_facts hdrop hkind
    -- old adjacency facts on the token and what follows
    have hlb0 : AdjN (RLB T) (c0 :: tl) none := by rw [← hdrop]; exact adjN_drop _ hi.lb
    have hed0 : AdjN RED (c0 :: tl) none := by rw [← hdrop]; exact adjN_drop _ hi.ed
    have hsplit : c0 :: tl = (c0 :: tl.take ((lexTok (c0 :: tl)).len - 1)) ++ tl.drop ((lexTok (c0 :: tl)).len - 1) := by
      simp [List.take_append_drop]
    have hchain : ∀ c ∈ spliceChars a c0, c.chain = a.name :: c0.chain := by
      intro c hc
      simp only [spliceChars, List.mem_map] at hc
      obtain ⟨_, _, rfl⟩ := hc
      rfl
    have hafterLB : AdjN (RLB T) (tl.drop ((lexTok (c0 :: tl)).len - 1)) none := adjN_drop _ hlb0.2
    have hafterED : AdjN RED (tl.drop ((lexTok (c0 :: tl)).len - 1)) none := adjN_drop _ hed0.2
    refine ⟨?_, ?_, ?_, ?_, ?_⟩
    · -- RLB
      rw [hrest, adjN_append]
      refine ⟨adjN_same (rlb_same T) _ _ _ hchain ?_, hafterLB⟩
      intro w hw m hm hn he
      rw [hchain w (List.mem_of_mem_getLast? hw)] at hm
      rcases List.mem_cons.mp hm with rfl | hm'
      · -- the replacement itself ends here: its last character is a blank
        rw [ebOf_lookup hlook] at he
        obtain ⟨front, b, hs, hbl⟩ := splice_last_blank a c0 he
        rw [hs, List.getLast?_concat] at hw
        simp only [Option.some.injEq] at hw
        rw [← hw]; exact hbl
      · -- an enclosing value would end inside the (blank-free) token: impossible
        exfalso
        have hh : ∀ x, (tl.drop ((lexTok (c0 :: tl)).len - 1)).head? = some x → m ∉ x.chain := by
          intro x hx
          apply hn x
          cases hd : tl.drop ((lexTok (c0 :: tl)).len - 1) with
          | nil => rw [hd] at hx; simp at hx
          | cons y t => rw [hd] at hx; simpa [headOr] using hx
        obtain ⟨u, hu, hb⟩ := ends_within (T := T) (m := m) _ _ (hsplit ▸ hlb0) ⟨c0, rfl, hm'⟩ hh he
        rw [hnb u hu] at hb; cases hb
    · -- RED
      rw [hrest, adjN_append]
      refine ⟨adjN_same red_same _ _ _ hchain ?_, hafterED⟩
      intro w _ x hx _
      apply hdel x
      cases hd : tl.drop ((lexTok (c0 :: tl)).len - 1) with
      | nil => rw [hd] at hx; simp [headOr] at hx
      | cons y t => rw [hd] at hx; simpa [headOr] using hx
    · -- boundary
      intro p hp x hx hex
      rw [hpre] at hp
      have hred := before_head_red hi hdrop hp
      rw [hrest] at hx
      cases hsp : spliceChars a c0 with
      | nil =>
        rw [hsp] at hx
        simp only [List.nil_append] at hx
        exact hdel x hx
      | cons y ys =>
        rw [hsp] at hx
        simp only [List.cons_append, List.head?_cons, Option.some.injEq] at hx
        subst hx
        exfalso
        have hy : y.chain = a.name :: c0.chain := hchain y (by rw [hsp]; exact List.mem_cons_self ..)
        obtain ⟨m, hm, hn⟩ := hex
        have : isDelim c0.c = true := hred c0 rfl ⟨m, hm, fun hcm => hn (by rw [hy]; exact List.mem_cons_of_mem _ hcm)⟩
        rw [hnd] at this; cases this
    · -- eb flags
      intro c hc m tl' hm
      rw [hpre, hrest] at hc
      rcases List.mem_append.mp hc with h1 | h2
      · exact before_ebt hi c h1 m tl' hm
      · rcases List.mem_append.mp h2 with h3 | h4
        · have hch := hchain c h3
          simp only [spliceChars, List.mem_map] at h3
          obtain ⟨_, _, rfl⟩ := h3
          rw [hch] at hm
          obtain ⟨rfl, _⟩ := List.cons.inj hm
          exact (ebOf_lookup hlook).symm
        · exact hi.ebt c (List.mem_append_right _ (htl c (List.mem_of_mem_drop h4))) m tl' hm
    · intro c hc
      rw [hrest] at hc
      rcases List.mem_append.mp hc with h3 | h4
      · simp only [spliceChars, List.mem_map] at h3
        obtain ⟨_, _, rfl⟩ := h3
        rfl
      · exact hi.nolc c (htl c (List.mem_of_mem_drop h4))
  | take c0 tl hdrop hel hpre hrest =>
    obtain ⟨hc0, htl⟩ := mem_rest_of_drop hdrop
    have hlb0 : AdjN (RLB T) (c0 :: tl) none := by rw [← hdrop]; exact adjN_drop _ hi.lb
    have hed0 : AdjN RED (c0 :: tl) none := by rw [← hdrop]; exact adjN_drop _ hi.ed
    refine ⟨?_, ?_, ?_, ?_, ?_⟩
    · rw [hrest]; exact adjN_drop _ hlb0.2
    · rw [hrest]; exact adjN_drop _ hed0.2
    · intro p hp
      rw [hpre] at hp
      rw [hrest]
      have hsplit : c0 :: tl = (c0 :: tl.take (spanLen s c0 tl)) ++ tl.drop (spanLen s c0 tl) := by
        simp [List.take_append_drop]
      have hadj : AdjN RED ((c0 :: tl.take (spanLen s c0 tl)) ++ tl.drop (spanLen s c0 tl)) none := by
        rw [← hsplit]; exact hed0
      have h1 := ((adjN_append _ _ _).mp hadj).1
      have hlast : (c0 :: tl.take (spanLen s c0 tl)).getLast? = some p := by
        rw [← List.head?_reverse]
        simpa using hp
      have := adjN_boundary _ _ _ p h1 hlast
      cases hd : tl.drop (spanLen s c0 tl) with
      | nil => intro x hx; simp at hx
      | cons y t => rw [hd] at this; simpa [headOr] using this
    · intro c hc m tl' hm
      rw [hpre, hrest] at hc
      rcases List.mem_append.mp hc with h1 | h2
      · rcases List.mem_append.mp h1 with h3 | h4
        · exact hi.ebt c (List.mem_append_right _ (htl c (List.mem_of_mem_take (List.mem_reverse.mp h3)))) m tl' hm
        · rcases List.mem_cons.mp h4 with rfl | h5
          · exact hi.ebt _ (List.mem_append_right _ hc0) m tl' hm
          · exact before_ebt hi c h5 m tl' hm
      · exact hi.ebt c (List.mem_append_right _ (htl c (List.mem_of_mem_drop h2))) m tl' hm
    · intro c hc
      rw [hrest] at hc
      exact hi.nolc c (htl c (List.mem_of_mem_drop hc))


/-! ### replacing the token does not change the answer of the walk for the token put in its place -/

theorem afterBlank_nil (nxt : Option SChar) : afterBlank [] nxt = false := rfl

theorem sameAlias_cons {p : SChar} {m : String} {tlp : List String} (hp : p.chain = m :: tlp)
    (nx : Option SChar) :
    sameAlias p nx = (match nx with | some x => x.chain.contains m | none => false) := by
  unfold sameAlias
  rw [hp]
  cases nx <;> rfl

theorem blank_stable {T : Table} {s : MState} (hi : ModelInv T s) {c0 : SChar} {tl : List SChar}
    {a : Alias} {name : String} {asg : Bool}
    (hdrop : s.rest.drop (skipLen s.rest) = c0 :: tl)
    (hkind : (lexTok (c0 :: tl)).kind = .word (some name) asg) :
    afterBlank ((markLc (s.rest.take (skipLen s.rest))).reverse ++ s.pre) (some c0) =
    afterBlank ((markLc (s.rest.take (skipLen s.rest))).reverse ++ s.pre)
      (spliceChars a c0 ++ tl.drop ((lexTok (c0 :: tl)).len - 1)).head? := by
  obtain ⟨hnd, hdel, hnb⟩ := model_token_facts hdrop hkind
  cases hb : (markLc (s.rest.take (skipLen s.rest))).reverse ++ s.pre with
  | nil => rfl
  | cons p ps =>
    rw [afterBlank_cons, afterBlank_cons]
    congr 2
    -- only the test on the nearest character could change
    unfold bcond
    cases hpc : p.chain with
    | nil => rfl
    | cons m tlp =>
      cases hpe : p.eb with
      | false => simp
      | true =>
        have hpmem : p ∈ (markLc (s.rest.take (skipLen s.rest))).reverse ++ s.pre := by
          rw [hb]; exact List.mem_cons_self ..
        have heb : ebOf T m = true := by
          rw [← before_ebt hi p hpmem m tlp hpc]; exact hpe
        have hred : RED p (some c0) := before_head_red hi hdrop (by rw [hb]; rfl)
        have hlb0 : AdjN (RLB T) (c0 :: tl) none := by rw [← hdrop]; exact adjN_drop _ hi.lb
        have hsplit : c0 :: tl = (c0 :: tl.take ((lexTok (c0 :: tl)).len - 1)) ++
            tl.drop ((lexTok (c0 :: tl)).len - 1) := by simp [List.take_append_drop]
        by_cases hc : m ∈ c0.chain
        · -- the token is inside the value the nearest character belongs to
          have h1 : sameAlias p (some c0) = true := by
            rw [sameAlias_cons hpc]; simpa using hc
          have h2 : sameAlias p (spliceChars a c0 ++ tl.drop ((lexTok (c0 :: tl)).len - 1)).head? = true := by
            rw [sameAlias_cons hpc]
            cases hsp : spliceChars a c0 with
            | cons y ys =>
              have hy : y.chain = a.name :: c0.chain := by
                have : y ∈ spliceChars a c0 := by rw [hsp]; exact List.mem_cons_self ..
                simp only [spliceChars, List.mem_map] at this
                obtain ⟨_, _, rfl⟩ := this
                rfl
              simp only [List.cons_append, List.head?_cons, hy, List.contains_cons]
              simp [hc]
            | nil =>
              simp only [List.nil_append]
              cases hd : (tl.drop ((lexTok (c0 :: tl)).len - 1)).head? with
              | some d =>
                by_cases hdm : m ∈ d.chain
                · simpa using hdm
                · exfalso
                  obtain ⟨u, hu, hbu⟩ := ends_within (T := T) (m := m) _ _ (hsplit ▸ hlb0) ⟨c0, rfl, hc⟩
                    (by intro x hx; rw [hd] at hx; cases hx; exact hdm) heb
                  rw [hnb u hu] at hbu; cases hbu
              | none =>
                exfalso
                obtain ⟨u, hu, hbu⟩ := ends_within (T := T) (m := m) _ _ (hsplit ▸ hlb0) ⟨c0, rfl, hc⟩
                  (by intro x hx; rw [hd] at hx; cases hx) heb
                rw [hnb u hu] at hbu; cases hbu
          rw [h1, h2]
        · -- the value ended right before the token: then the token would start with a delimiter
          exfalso
          have : isDelim c0.c = true := hred c0 rfl ⟨m, by rw [hpc]; exact List.mem_cons_self .., hc⟩
          rw [hnd] at this; cases this


/-! ### Spec side: the `eb` flag of the innermost region, distinct region names -/

def ebAt (rs : List Region) (rem : Nat) : Bool :=
  match activeAt rs rem with
  | r :: _ => r.eb
  | [] => false

/-- the `eb` flag of every unconsumed character is the one of the innermost region containing it -/
def CorrE (rs : List Region) : List SChar → Prop
  | [] => True
  | c :: t => c.eb = ebAt rs (t.length + 1) ∧ CorrE rs t

theorem correE_drop {rs : List Region} : ∀ (l : List SChar) (k : Nat), CorrE rs l → CorrE rs (l.drop k)
  | l, 0, h => by simpa using h
  | [], _ + 1, _ => by simp [CorrE]
  | _ :: t, k + 1, h => by simpa using correE_drop t k h.2

theorem correE_congr {rs rs' : List Region} : ∀ (l : List SChar),
    (∀ rem, 0 < rem → rem ≤ l.length → ebAt rs' rem = ebAt rs rem) → CorrE rs l → CorrE rs' l
  | [], _, _ => trivial
  | _ :: t, hn, h =>
    ⟨by rw [h.1, hn (t.length + 1) (by omega) (by simp)],
     correE_congr t (fun rem h1 h2 => hn rem h1 (by simp only [List.length_cons]; omega)) h.2⟩

theorem correE_append_const {rs' : List Region} {e : Bool} : ∀ (l1 l2 : List SChar),
    (∀ c ∈ l1, c.eb = e) →
    (∀ rem, l2.length < rem → rem ≤ l2.length + l1.length → ebAt rs' rem = e) →
    CorrE rs' l2 → CorrE rs' (l1 ++ l2)
  | [], _, _, _, h => by simpa using h
  | c :: t, l2, hc, hn, h => by
    refine ⟨?_, correE_append_const t l2 (fun x hx => hc x (List.mem_cons_of_mem _ hx))
      (fun rem h1 h2 => hn rem h1 (by simp only [List.length_cons]; omega)) h⟩
    rw [hc c (List.mem_cons_self ..)]
    symm
    apply hn
    · simp only [List.append_eq, List.length_append]; omega
    · simp only [List.append_eq, List.length_append, List.length_cons]; omega

theorem activeAt_activeAt (rs : List Region) (m rem : Nat) (h : rem ≤ m) :
    activeAt (activeAt rs m) rem = activeAt rs rem := by
  unfold activeAt
  rw [List.filter_filter]
  apply List.filter_congr
  intro r _
  by_cases h1 : r.endRem < rem
  · have : r.endRem < m := by omega
    simp [h1, this]
  · simp [h1]

theorem activeAt_clamp_le (l : List Region) (L rem : Nat) (h : rem ≤ L) :
    activeAt (l.map (clamp L)) rem = (activeAt l rem).map (clamp L) := by
  induction l with
  | nil => rfl
  | cons x t ih =>
    unfold activeAt at *
    simp only [List.map_cons, List.filter_cons, clamp]
    by_cases h1 : x.endRem < rem
    · have : min x.endRem L < rem := by omega
      simp [h1, this, ih, clamp]
    · have : ¬ min x.endRem L < rem := by omega
      simp [h1, this, ih]

theorem activeAt_clamp_gt (l : List Region) (L rem : Nat) (h : L < rem) :
    activeAt (l.map (clamp L)) rem = l.map (clamp L) := by
  induction l with
  | nil => rfl
  | cons x t ih =>
    unfold activeAt at *
    simp only [List.map_cons, List.filter_cons, clamp]
    have : min x.endRem L < rem := by omega
    simp [this, ih, clamp]

theorem activeAt_cons (r : Region) (l : List Region) (rem : Nat) :
    activeAt (r :: l) rem = if r.endRem < rem then r :: activeAt l rem else activeAt l rem := by
  unfold activeAt
  simp only [List.filter_cons]
  split <;> simp_all

theorem ebAt_of_map_clamp (l : List Region) (L : Nat) :
    (match l.map (clamp L) with | r :: _ => r.eb | [] => false) = (match l with | r :: _ => r.eb | [] => false) := by
  cases l <;> rfl


/-- region names on the Spec's stack are pairwise distinct -/
def NodupNames (h : HState) : Prop := (h.active.map (·.name)).Nodup

theorem activeAt_sublist (rs : List Region) (rem : Nat) : (activeAt rs rem).Sublist rs :=
  List.filter_sublist

/-- `CorrE` and `NodupNames` are preserved by a lock step -/
theorem spec_step {T : Table} {s s' : MState} {h h' : HState}
    (hs : Sim s h) (hco : Corr h.active s.rest) (hce : CorrE h.active s.rest) (hnn : NodupNames h)
    (hc : mcand T s = hcand T h)
    (h1 : step T s = some s') (h2 : hstep T h = some h') : CorrE h'.active s'.rest ∧ NodupNames h' := by
  obtain ⟨hr, _, hst, _, hhd⟩ := hs
  have hk : skipLenC h.rest = skipLen s.rest := by rw [hr]; rfl
  unfold mcand at hc
  cases hdrop : s.rest.drop (skipLen s.rest) with
  | nil => unfold step at h1; simp only [hdrop] at h1; cases h1
  | cons c0 tl =>
    rw [hdrop] at hc
    simp only at hc
    have hd : h.rest.drop (skipLenC h.rest) = c0.c :: chars tl := by
      rw [hk, hr, ← chars_drop, hdrop]; rfl
    have htok : lexTokC (c0.c :: chars tl) = lexTok (c0 :: tl) := rfl
    have hco' : Corr h.active (c0 :: tl) := by rw [← hdrop]; exact corr_drop _ _ hco
    have hce' : CorrE h.active (c0 :: tl) := by rw [← hdrop]; exact correE_drop _ _ hce
    cases hel : eligible T ((markLc (s.rest.take (skipLen s.rest))).reverse ++ s.pre) c0
        (lexTok (c0 :: tl)).kind (trans s.st (lexTok (c0 :: tl)).kind).sub with
    | some a =>
      rw [hel] at hc
      rw [step_subst hdrop hel] at h1
      rw [hstep_subst hd hc.symm] at h2
      cases h1; cases h2
      obtain ⟨_, name, _, _, _, hnot, hlook, _⟩ := eligible_spec hel
      simp only [htok, chars_length]
      have hlen : ((chars tl).drop ((lexTok (c0 :: tl)).len - 1)).length
          = (tl.drop ((lexTok (c0 :: tl)).len - 1)).length := by
        rw [← chars_drop, chars_length]
      rw [hlen]
      have hLle : (tl.drop ((lexTok (c0 :: tl)).len - 1)).length ≤ tl.length := by
        simp only [List.length_drop]; omega
      refine ⟨?_, ?_⟩
      · apply correE_append_const (e := endsBlank a.value)
        · intro c hc'
          simp only [spliceChars, List.mem_map] at hc'
          obtain ⟨_, _, rfl⟩ := hc'
          rfl
        · intro rem hr1 _
          unfold ebAt
          rw [activeAt_cons]
          simp only [hr1, ↓reduceIte]
        · apply correE_congr _ _ (correE_drop _ _ hce'.2)
          intro rem _ hr2
          unfold ebAt
          rw [activeAt_cons]
          have : ¬ (tl.drop ((lexTok (c0 :: tl)).len - 1)).length < rem := by omega
          simp only [this, ↓reduceIte]
          rw [activeAt_clamp_le _ _ _ hr2, activeAt_activeAt _ _ _ (by omega), ebAt_of_map_clamp]
      · -- names stay distinct: the new name is not on the chain of the token's first character
        unfold NodupNames
        simp only [List.map_cons, List.map_map, List.nodup_cons]
        have hnames : (List.map ((fun x => x.name) ∘ clamp (tl.drop ((lexTok (c0 :: tl)).len - 1)).length)
            (activeAt h.active (tl.length + 1))) = namesAt h.active (tl.length + 1) := by
          unfold namesAt; apply List.map_congr_left; intro x _; rfl
        rw [hnames]
        refine ⟨?_, ?_⟩
        · rw [← hco'.1, (lookup_spec hlook).2]
          simpa [SChar.isAliasFor] using hnot
        · exact List.Nodup.sublist ((activeAt_sublist _ _).map _) hnn
    | none =>
      rw [hel] at hc
      rw [step_take hdrop hel] at h1
      rw [hstep_take hd hc.symm] at h2
      cases h1; cases h2
      have hsp : spanLenC h.hd h.st (c0.c :: chars tl) = spanLen s c0 tl := by
        unfold spanLen; rw [hhd, hst]; rfl
      simp only [hsp]
      have hlen : ((chars tl).drop (spanLen s c0 tl)).length = (tl.drop (spanLen s c0 tl)).length := by
        rw [← chars_drop, chars_length]
      rw [hlen]
      refine ⟨?_, ?_⟩
      · apply correE_congr _ _ (correE_drop _ _ hce'.2)
        intro rem _ hr2
        unfold ebAt
        rw [activeAt_activeAt _ _ _ hr2]
      · exact List.Nodup.sublist ((activeAt_sublist _ _).map _) hnn


/-! ### the per-character tests agree -/

theorem mem_activeAt {rs : List Region} {rem : Nat} {r : Region} :
    r ∈ activeAt rs rem ↔ r ∈ rs ∧ r.endRem < rem := by
  unfold activeAt; simp

theorem eq_of_name_eq {rs : List Region} (hn : (rs.map (·.name)).Nodup) {r r' : Region}
    (h1 : r ∈ rs) (h2 : r' ∈ rs) (h : r.name = r'.name) : r = r' := by
  induction rs with
  | nil => cases h1
  | cons x t ih =>
    simp only [List.map_cons, List.nodup_cons, List.mem_map, not_exists, not_and] at hn
    rcases List.mem_cons.mp h1 with rfl | h1' <;> rcases List.mem_cons.mp h2 with rfl | h2'
    · rfl
    · exact absurd h.symm (hn.1 r' h2')
    · exact absurd h (hn.1 r h1')
    · exact ih hn.2 h1' h2'

/-- the model's test on a character (origin chain, `eb`, chain of the next character) = the Spec's test
    (the innermost region ends here and its value ends with a blank) -/
theorem bcond_endsValue {rs : List Region} (hn : (rs.map (·.name)).Nodup) {c : SChar} {t : List SChar}
    (hco : Corr rs (c :: t)) (hce : CorrE rs (c :: t)) :
    bcond c (headOr t none) = endsValue rs (t.length + 1) := by
  unfold bcond endsValue
  have hch := hco.1
  have heb := hce.1
  unfold namesAt at hch
  unfold ebAt at heb
  cases hA : activeAt rs (t.length + 1) with
  | nil =>
    rw [hA] at hch
    simp [hch]
  | cons r A =>
    rw [hA] at hch heb
    simp only [List.map_cons] at hch
    have hr : r ∈ activeAt rs (t.length + 1) := by rw [hA]; exact List.mem_cons_self ..
    obtain ⟨hrm, hrl⟩ := mem_activeAt.mp hr
    have heb' : c.eb = r.eb := heb
    rw [heb']
    cases hre : r.eb with
    | false => simp [hre]
    | true =>
      have hne : c.chain.isEmpty = false := by rw [hch]; rfl
      rw [hne, sameAlias_cons hch]
      cases t with
      | nil =>
        simp only [List.length_nil, Nat.zero_add] at hrl
        have : r.endRem = 0 := by omega
        simp [headOr, this, hre]
      | cons x t' =>
        have hx := hco.2.1
        have hsa : x.chain.contains r.name = decide (r.endRem < t'.length + 1) := by
          rw [hx]
          unfold namesAt
          by_cases hin : r.endRem < t'.length + 1
          · have : r ∈ activeAt rs (t'.length + 1) := mem_activeAt.mpr ⟨hrm, hin⟩
            have h1 : (List.map (·.name) (activeAt rs (t'.length + 1))).contains r.name = true := by
              rw [List.contains_iff_mem]
              exact List.mem_map.mpr ⟨r, this, rfl⟩
            rw [h1]; simp [hin]
          · have h1 : (List.map (·.name) (activeAt rs (t'.length + 1))).contains r.name = false := by
              rw [Bool.eq_false_iff]
              intro hcon
              rw [List.contains_iff_mem] at hcon
              obtain ⟨r', hr', hnm⟩ := List.mem_map.mp hcon
              obtain ⟨hr'm, hr'l⟩ := mem_activeAt.mp hr'
              have := eq_of_name_eq hn hr'm hrm hnm
              subst this
              exact hin hr'l
            rw [h1]; simp [hin]
        simp only [headOr, hre, hsa]
        simp only [List.length_cons] at hrl ⊢
        by_cases hin : r.endRem < t'.length + 1
        · have h2 : ¬ (r.endRem = t'.length + 1) := by omega
          simp [hin, h2]
        · have h2 : r.endRem = t'.length + 1 := by omega
          simp [hin, h2]

/-- where the model's test fires there is a blank -/
theorem bcond_blank {T : Table} {c : SChar} {nx : Option SChar} (hr : RLB T c nx)
    (he : ∀ m tl, c.chain = m :: tl → c.eb = ebOf T m) (hb : bcond c nx = true) : isBlank c.c = true := by
  unfold bcond at hb
  simp only [Bool.and_eq_true, Bool.not_eq_true', List.isEmpty_eq_false_iff] at hb
  obtain ⟨⟨hne, heb⟩, hsa⟩ := hb
  cases hch : c.chain with
  | nil => exact absurd hch hne
  | cons m tl =>
    apply hr m (by rw [hch]; exact List.mem_cons_self ..) _ (by rw [← he m tl hch]; exact heb)
    intro x hx
    rw [sameAlias_cons hch, hx] at hsa
    simpa using hsa


/-! ### forward fold of the model = flag run of the Spec -/

/-- per-character facts of the unconsumed text -/
def PC (rs : List Region) : List SChar → Prop
  | [] => True
  | c :: t => (bcond c (headOr t none) = endsValue rs (t.length + 1) ∧
      (bcond c (headOr t none) = true → isBlank c.c = true) ∧ c.lc = false) ∧ PC rs t

theorem pc_of_inv {T : Table} {rs : List Region} (hn : (rs.map (·.name)).Nodup) : ∀ (l : List SChar),
    Corr rs l → CorrE rs l → AdjN (RLB T) l none → EbTable T l → (∀ c ∈ l, c.lc = false) → PC rs l
  | [], _, _, _, _, _ => trivial
  | c :: t, hco, hce, hlb, heb, hlc =>
    ⟨⟨bcond_endsValue hn hco hce,
      fun hb => bcond_blank hlb.1 (fun m tl hm => heb c (List.mem_cons_self ..) m tl hm) hb,
      hlc c (List.mem_cons_self ..)⟩,
     pc_of_inv hn t hco.2 hce.2 hlb.2 (fun x hx => heb x (List.mem_cons_of_mem _ hx))
       (fun x hx => hlc x (List.mem_cons_of_mem _ hx))⟩

theorem pc_drop {rs : List Region} : ∀ (l : List SChar) (k : Nat), PC rs l → PC rs (l.drop k)
  | l, 0, h => by simpa using h
  | [], _ + 1, _ => by simp [PC]
  | _ :: t, k + 1, h => by simpa using pc_drop t k h.2

theorem bcond_congr {c c' : SChar} {nx nx' : Option SChar} (h1 : c.chain = c'.chain) (h2 : c.eb = c'.eb)
    (h3 : nx.map (·.chain) = nx'.map (·.chain)) : bcond c nx = bcond c' nx' := by
  unfold bcond sameAlias
  rw [h1, h2]
  cases c'.chain with
  | nil => rfl
  | cons n tl =>
    cases nx <;> cases nx' <;> simp_all [SChar.isAliasFor]

theorem headOr_map_chain (l : List SChar) (nxt : Option SChar) :
    (headOr l nxt).map (·.chain) = ((l.map (·.chain)).head?).or (nxt.map (·.chain)) := by
  cases l <;> simp [headOr]

theorem headOr_markLc (l : List SChar) (nxt : Option SChar) :
    (headOr (markLc l) nxt).map (·.chain) = (headOr l nxt).map (·.chain) := by
  rw [headOr_map_chain, headOr_map_chain, markLc_chains]

theorem headOr_append_none (l1 l2 : List SChar) : headOr l1 l2.head? = headOr (l1 ++ l2) none := by
  cases l1 <;> cases l2 <;> rfl

/-- token characters (no line-continuation marks) -/
theorem fwd_flagGo_plain {rs : List Region} : ∀ (seg rest2 : List SChar) (b : Bool), PC rs (seg ++ rest2) →
    fwd b seg rest2.head? = flagGo rs b ((chars seg).map (·, false)) (seg ++ rest2).length
  | [], _, _, _ => rfl
  | c :: t, rest2, b, h => by
    obtain ⟨⟨h1, h2, h3⟩, h4⟩ := h
    have e : chars (c :: t) = c.c :: chars t := rfl
    rw [e]
    simp only [fwd, List.map_cons, flagGo, List.cons_append, List.length_cons, Nat.add_sub_cancel]
    rw [headOr_append_none, ← fwd_flagGo_plain t rest2 _ h4]
    congr 1
    unfold bskip
    rw [h3]
    cases hb : isBlank c.c with
    | true =>
      have h1' : bcond c (headOr (t ++ rest2) none) = endsValue rs ((t ++ rest2).length + 1) := h1
      rw [h1']; simp [Bool.or_comm]
    | false => simp


theorem bcond_false_of_nonblank {c : SChar} {nx : Option SChar} (h : bcond c nx = true → isBlank c.c = true)
    (hc : isBlank c.c = false) : bcond c nx = false := by
  cases hb : bcond c nx with
  | false => rfl
  | true => rw [h hb] at hc; cases hc

/-- skipped characters (line continuations marked) -/
theorem fwd_flagGo_marked {rs : List Region} (seg : List SChar) : ∀ (rest2 : List SChar) (b : Bool),
    PC rs (seg ++ rest2) →
    fwd b (markLc seg) rest2.head? = flagGo rs b (markC (chars seg)) (seg ++ rest2).length := by
  fun_induction markLc seg with
  | case1 a b' t hcond ih =>
    intro rest2 b h
    obtain ⟨⟨_, ha2, _⟩, ⟨_, hb2, _⟩, h4⟩ := h
    simp only [Bool.and_eq_true, beq_iff_eq] at hcond
    have e : chars (a :: b' :: t) = a.c :: b'.c :: chars t := rfl
    have hm : markC (a.c :: b'.c :: chars t) = (a.c, true) :: (b'.c, true) :: markC (chars t) := by
      simp [markC, hcond.1, hcond.2]
    rw [e, hm]
    simp only [fwd, flagGo, ↓reduceIte, List.cons_append, List.length_cons, Nat.add_sub_cancel, bskip,
      Bool.true_or, Bool.true_and]
    have h1 : bcond { a with lc := true } (headOr ({ b' with lc := true } :: markLc t) rest2.head?) = false := by
      have : bcond { a with lc := true } (headOr ({ b' with lc := true } :: markLc t) rest2.head?)
          = bcond a (headOr ((b' :: t).append rest2) none) := bcond_congr rfl rfl rfl
      rw [this]
      exact bcond_false_of_nonblank ha2 (by rw [hcond.1]; decide)
    have h2 : bcond { b' with lc := true } (headOr (markLc t) rest2.head?) = false := by
      have : bcond { b' with lc := true } (headOr (markLc t) rest2.head?)
          = bcond b' (headOr (t.append rest2) none) := by
        apply bcond_congr rfl rfl
        rw [headOr_markLc, headOr_append_none]; rfl
      rw [this]
      exact bcond_false_of_nonblank hb2 (by rw [hcond.2]; decide)
    rw [h1, h2]
    simp only [Bool.false_or]
    exact ih rest2 b h4
  | case2 a b' t hcond ih =>
    intro rest2 b h
    obtain ⟨⟨h1, _, h3⟩, h4⟩ := h
    have e : chars (a :: b' :: t) = a.c :: chars (b' :: t) := rfl
    have hm : markC (a.c :: chars (b' :: t)) = (a.c, false) :: markC (chars (b' :: t)) := by
      have : chars (b' :: t) = b'.c :: chars t := rfl
      rw [this]
      have hc : ¬ (a.c == '\\' && b'.c == '\n') = true := hcond
      simp [markC, hc]
    rw [e, hm]
    simp only [fwd, flagGo, List.cons_append, List.length_cons, Nat.add_sub_cancel]
    rw [show ((t ++ rest2).length + 1) = (b' :: t ++ rest2).length from rfl, ← ih rest2 _ h4]
    congr 1
    have hb : bcond a (headOr (markLc (b' :: t)) rest2.head?) = bcond a (headOr ((b' :: t).append rest2) none) := by
      apply bcond_congr rfl rfl
      rw [headOr_markLc, headOr_append_none]; rfl
    rw [hb, h1]
    unfold bskip
    rw [h3]
    cases isBlank a.c <;> simp [Bool.or_comm]
  | case3 l hl =>
    intro rest2 b h
    have hm : markC (chars l) = (chars l).map (·, false) := by
      match l, hl with
      | [], _ => rfl
      | [x], _ => rfl
      | x :: y :: t, hl => exact absurd rfl (hl x y t)
    rw [hm]
    exact fwd_flagGo_plain l rest2 b h


/-! ### the two formulations of the blank rule agree at every step -/

theorem afterBlank_congr (l : List SChar) {nxt nxt' : Option SChar}
    (h : nxt.map (·.chain) = nxt'.map (·.chain)) : afterBlank l nxt = afterBlank l nxt' := by
  cases l with
  | nil => rfl
  | cons p ps => rw [afterBlank_cons, afterBlank_cons, bcond_congr rfl rfl h]

structure BlankInv (T : Table) (s : MState) (h : HState) : Prop where
  mi : ModelInv T s
  ce : CorrE h.active s.rest
  nn : NodupNames h
  j : afterBlank s.pre s.rest.head? = h.tb

theorem pc_rest {T : Table} {s : MState} {h : HState} (hco : Corr h.active s.rest) (hb : BlankInv T s h) :
    PC h.active s.rest :=
  pc_of_inv hb.nn s.rest hco hb.ce hb.mi.lb
    (fun c hc => hb.mi.ebt c (List.mem_append_right _ hc)) hb.mi.nolc

/-- the model's backward walk and the Spec's forward flag give the same answer for the next token -/
theorem blank_agree {T : Table} {s : MState} {h : HState} (hs : Sim s h) (hco : Corr h.active s.rest)
    (hb : BlankInv T s h) : mblank s = hblank h := by
  obtain ⟨hr, _, _, _, _⟩ := hs
  have hk : skipLenC h.rest = skipLen s.rest := by rw [hr]; rfl
  unfold mblank hblank flagRun
  rw [afterBlank_fwd]
  have hpc : PC h.active (s.rest.take (skipLen s.rest) ++ s.rest.drop (skipLen s.rest)) := by
    rw [List.take_append_drop]; exact pc_rest hco hb
  rw [fwd_flagGo_marked _ _ _ hpc, List.take_append_drop]
  simp only [hk, ↓reduceIte, hr, ← chars_take, chars_length]
  congr 1
  rw [← hb.j]
  apply afterBlank_congr
  rw [headOr_markLc, headOr_append_none, List.take_append_drop]
  cases s.rest <;> rfl


theorem blankinv_step {T : Table} {s s' : MState} {h h' : HState}
    (hs : Sim s h) (hco : Corr h.active s.rest) (hb : BlankInv T s h) (hc : mcand T s = hcand T h)
    (h1 : step T s = some s') (h2 : hstep T h = some h') : BlankInv T s' h' := by
  obtain ⟨hce', hnn'⟩ := spec_step hs hco hb.ce hb.nn hc h1 h2
  refine ⟨modelinv_step hb.mi h1, hce', hnn', ?_⟩
  have hagree := blank_agree hs hco hb
  obtain ⟨hr, _, hst, _, hhd⟩ := hs
  have hk : skipLenC h.rest = skipLen s.rest := by rw [hr]; rfl
  unfold mcand at hc
  cases hdrop : s.rest.drop (skipLen s.rest) with
  | nil => unfold step at h1; simp only [hdrop] at h1; cases h1
  | cons c0 tl =>
    rw [hdrop] at hc
    simp only at hc
    have hd : h.rest.drop (skipLenC h.rest) = c0.c :: chars tl := by
      rw [hk, hr, ← chars_drop, hdrop]; rfl
    have hm : mblank s = afterBlank ((markLc (s.rest.take (skipLen s.rest))).reverse ++ s.pre) (some c0) := by
      unfold mblank; rw [hdrop]; rfl
    cases hel : eligible T ((markLc (s.rest.take (skipLen s.rest))).reverse ++ s.pre) c0
        (lexTok (c0 :: tl)).kind (trans s.st (lexTok (c0 :: tl)).kind).sub with
    | some a =>
      rw [hel] at hc
      rw [step_subst hdrop hel] at h1
      rw [hstep_subst hd hc.symm] at h2
      cases h1; cases h2
      obtain ⟨_, name, asg, _, hkind, _, _, _⟩ := eligible_spec hel
      show afterBlank _ (spliceChars a c0 ++ tl.drop ((lexTok (c0 :: tl)).len - 1)).head? = hblank h
      rw [← blank_stable hb.mi hdrop hkind, ← hm, hagree]
    | none =>
      rw [hel] at hc
      rw [step_take hdrop hel] at h1
      rw [hstep_take hd hc.symm] at h2
      cases h1; cases h2
      have hsp : spanLenC h.hd h.st (c0.c :: chars tl) = spanLen s c0 tl := by
        unfold spanLen; rw [hhd, hst]; rfl
      simp only [hsp]
      -- the consumed segment: the token (and here-document bodies)
      have hpre : (tl.take (spanLen s c0 tl)).reverse ++ c0 ::
            ((markLc (s.rest.take (skipLen s.rest))).reverse ++ s.pre)
          = (c0 :: tl.take (spanLen s c0 tl)).reverse ++
            ((markLc (s.rest.take (skipLen s.rest))).reverse ++ s.pre) := by simp
      rw [hpre, afterBlank_fwd]
      have hpc : PC h.active ((c0 :: tl.take (spanLen s c0 tl)) ++ tl.drop (spanLen s c0 tl)) := by
        have : (c0 :: tl.take (spanLen s c0 tl)) ++ tl.drop (spanLen s c0 tl) = c0 :: tl := by
          simp [List.take_append_drop]
        rw [this, ← hdrop]
        exact pc_drop _ _ (pc_rest hco hb)
      rw [fwd_flagGo_plain _ _ _ hpc]
      unfold flagRun
      have hlen : ((c0 :: tl.take (spanLen s c0 tl)) ++ tl.drop (spanLen s c0 tl)).length
          = (c0.c :: chars tl).length := by
        simp [List.take_append_drop, chars]
      have hch : chars (c0 :: tl.take (spanLen s c0 tl)) = (c0.c :: chars tl).take (spanLen s c0 tl + 1) := by
        simp [chars, List.map_take]
      rw [hlen, hch]
      simp only [Bool.false_eq_true, ↓reduceIte]
      congr 1
      show afterBlank _ (some c0) = flagRun h.active true (skipLenC h.rest) h.tb h.rest
      rw [← hm, hagree]; rfl


/-! ### initial state and the final lock-step statement -/

theorem adjN_plain {R : SChar → Option SChar → Prop} (hR : ∀ (c : SChar) nx, c.chain = [] → R c nx) :
    ∀ (cs : List Char), AdjN R (plain cs) none
  | [] => trivial
  | _ :: t => ⟨hR _ _ rfl, adjN_plain hR t⟩

theorem correE_plain : ∀ (cs : List Char), CorrE [] (plain cs)
  | [] => trivial
  | _ :: t => ⟨rfl, correE_plain t⟩

theorem blankinv_init (T : Table) (line : List Char) :
    BlankInv T (init line) ({ rest := line } : HState) := by
  refine ⟨⟨?_, ?_, ?_, ?_, ?_⟩, correE_plain line, List.nodup_nil, rfl⟩
  · exact adjN_plain (fun c nx hc m hm => by rw [hc] at hm; cases hm) line
  · exact adjN_plain (fun c nx hc x _ ⟨m, hm, _⟩ => by rw [hc] at hm; cases hm) line
  · intro p hp; cases hp
  · intro c hc m tl hm
    simp only [init, List.nil_append, plain, List.mem_map] at hc
    obtain ⟨_, _, rfl⟩ := hc
    cases hm
  · intro c hc
    simp only [init, plain, List.mem_map] at hc
    obtain ⟨_, _, rfl⟩ := hc
    rfl

/-- model and Spec choose the same alias at every step, for every table and line -/
theorem agree_always (T : Table) (line : List Char) (f : Nat) :
    Agree T f (init line) ({ rest := line } : HState) := by
  have hs : Sim (init line) ({ rest := line } : HState) := by
    refine ⟨?_, rfl, rfl, rfl, rfl⟩
    simp only [init, plain, chars, List.map_map]
    exact (List.map_id' _).symm
  have hco : ∀ (l : List Char), Corr [] (plain l) := by
    intro l
    induction l with
    | nil => trivial
    | cons c t ih => exact ⟨rfl, ih⟩
  have hco := hco line
  exact agree_of_blank_inv (T := T) (BlankInv T)
    (fun s h hs hco hp => blank_agree hs hco hp)
    (fun s h s' h' hs hco hp hc e1 e2 => blankinv_step hs hco hp hc e1 e2)
    f hs hco (blankinv_init T line)

end YashModel.Alias
