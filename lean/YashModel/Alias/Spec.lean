/-
  C17 — Spec: alias substitution "by hand", the way POSIX XCU 2.3.1 words it and traditional shells
  implement it — NOT the way yash-rs stores it.

  * The text is plain characters (no per-character origins).
  * An alias is "being processed" from the moment its value is put in front of the remaining text until that
    value has been read completely: a stack of regions `(name, endRem)`, `endRem` = number of characters of
    the remaining text that lie behind the region.  A word is not replaced by an alias that is being
    processed (innermost or enclosing).
  * "If the value of the alias replacing the word ends in a blank, the shell shall check the next command
    word for alias substitution": among the blanks skipped before a word there is the final blank of a value
    that ends in a blank.
    The word put in place of a replaced word inherits that status (`bp`).
  * A word is a candidate only where the grammar reads a command name (`trans … = some true`), or the alias
    is global, or by the blank rule.  Which grammar position the next token is in is the same automaton
    `trans` as the model uses (it transcribes the parser, not the alias mechanism).
  * The parser then reads the TOKENS that come out (`toks`), i.e. a replaced word is always a token
    boundary.

  `substLine T line` is the substituted text.  The driver prints `=ok <text>` / `=syntax-error` from it; the
  implementation must agree (checked on every run).
-/
import YashModel.Alias.Model
namespace YashModel.Alias

structure Region where
  name : String
  endRem : Nat
  eb : Bool
  deriving Repr

structure HState where
  out : List Char := []        -- text already read, most recent first
  rest : List Char
  active : List Region := []   -- aliases being processed, innermost first
  st : PState := .cmd0
  toks : List Kind := []
  bp : Bool := false           -- the blank rule already applied to the word that was just replaced here
  deriving Repr

/-- regions that contain the character which has `rem` characters (itself included) up to the end -/
def activeAt (rs : List Region) (rem : Nat) : List Region := rs.filter (fun r => r.endRem < rem)

/-- Is one of the first `k` characters (the skipped blanks) the final blank of a blank-ending value? -/
def blankRule (rs : List Region) : Nat → List Char → Bool
  | 0, _ => false
  | _, [] => false
  | k + 1, c :: t =>
    (isBlank c &&
      (match activeAt rs (t.length + 1) with
       | r :: _ => r.eb && r.endRem == t.length
       | [] => false))
    || blankRule rs k t

def hstep (T : Table) (s : HState) : Option HState :=
  let k := skipLen (plain s.rest)
  let skipped := s.rest.take k
  match s.rest.drop k with
  | [] => none
  | r@(_ :: _) =>
    let tok := lexTok (plain r)
    let n := max tok.len 1
    let after := r.drop n
    let d := trans s.st tok.kind
    let here := activeAt s.active r.length
    let blank := s.bp || blankRule s.active k s.rest
    let cand : Option Alias :=
      match d.sub, tok.kind with
      | some cmd, .word (some name) _ =>
        if here.any (fun x => x.name == name) then none else
        match T.lookup name with
        | some a => if cmd || a.global || blank then some a else none
        | none => none
      | _, _ => none
    match cand with
    | some a =>
      let enclosing := here.map fun x => { x with endRem := min x.endRem after.length }
      some { out := skipped.reverse ++ s.out, rest := a.value ++ after,
             active := { name := a.name, endRem := after.length, eb := endsBlank a.value } :: enclosing,
             st := d.onSub, toks := s.toks, bp := blank }
    | none =>
      some { out := (r.take n).reverse ++ skipped.reverse ++ s.out, rest := after,
             active := activeAt s.active after.length, st := d.onTake, toks := tok.kind :: s.toks }

def hrun (T : Table) : Nat → HState → HState
  | 0, s => s
  | f + 1, s =>
    match hstep T s with
    | none => s
    | some s' => hrun T f s'

def substHand (T : Table) (line : List Char) : HState := hrun T (fuelFor T line) { rest := line }

/-- Textual substitution by hand. -/
def substLine (T : Table) (line : List Char) : List Char :=
  let s := substHand T line
  s.out.reverse ++ s.rest

end YashModel.Alias
