/-
  C17 — Spec: alias substitution "by hand", the way POSIX XCU 2.3.1 words it and traditional shells
  implement it — NOT the way yash-rs stores it.

  * The text is plain characters (no per-character origins).
  * An alias is "being processed" from the moment its value is put in front of the remaining text until that
    value has been read completely: a stack of regions `(name, endRem)`, `endRem` = number of characters of
    the remaining text that lie behind the region.  A word is not replaced by an alias that is being
    processed (innermost or enclosing).
  * "If the value of the alias replacing the word ends in a blank, the shell shall check the next command
    word for alias substitution": the run of blank characters (and line continuations between tokens) that
    immediately precedes the word contains the final blank of a value that ends in a blank.  This is one
    flag (`tb`), updated character by character as text is read; replacing a word reads nothing, so the word
    put in its place inherits the flag.
  * A word is a candidate only where the grammar reads a command name (`trans … = some true`), or the alias
    is global, or by the blank rule.  Which grammar position the next token is in is the same automaton
    `trans` as the model uses (it transcribes the parser, not the alias mechanism).
  * The parser then reads the TOKENS that come out (`toks`), i.e. a replaced word is always a token
    boundary.

  `substLine T line` is the substituted text.  The driver prints `=ok <text>` / `=syntax-error` from it; the
  implementation must agree (checked on every run).
-/
import YashModel.Alias.Model
namespace YashModel.Alias

structure Region where
  name : String
  endRem : Nat
  eb : Bool
  deriving Repr

structure HState where
  out : List Char := []        -- text already read, most recent first
  rest : List Char
  active : List Region := []   -- aliases being processed, innermost first
  st : PState := .cmd0
  toks : List Kind := []
  hd : Pending := []
  tb : Bool := false           -- the trailing run of blanks read so far holds the end of a blank-ending value
  deriving Repr

/-- regions that contain the character which has `rem` characters (itself included) up to the end -/
def activeAt (rs : List Region) (rem : Nat) : List Region := rs.filter (fun r => r.endRem < rem)

/-- Is the character with `rem` characters (itself included) up to the end the last character of the
    innermost value it belongs to, and does that value end with a blank? -/
def endsValue (rs : List Region) (rem : Nat) : Bool :=
  match activeAt rs rem with
  | r :: _ => r.eb && r.endRem + 1 == rem
  | [] => false

/-- `\`+newline pairs (line continuations between tokens) in a stretch of text -/
def markC : List Char → List (Char × Bool)
  | a :: b :: t => if a == '\\' && b == '\n' then (a, true) :: (b, true) :: markC t else (a, false) :: markC (b :: t)
  | l => l.map (·, false)

/-- Reads characters (with their line-continuation mark; `rem` = characters up to the end of the text,
    the first one included) and updates the flag: a line continuation keeps it, a blank keeps it and sets it
    when it ends a blank-ending value, anything else clears it. -/
def flagGo (rs : List Region) : Bool → List (Char × Bool) → Nat → Bool
  | b, [], _ => b
  | b, (c, lc) :: t, rem =>
    flagGo rs (if lc then b else if isBlank c then b || endsValue rs rem else false) t (rem - 1)

/-- Reads the first `k` characters of the remaining text `l` and updates the flag; line continuations are
    recognised only between tokens (`lcOk`). -/
def flagRun (rs : List Region) (lcOk : Bool) (k : Nat) (b : Bool) (l : List Char) : Bool :=
  flagGo rs b (if lcOk then markC (l.take k) else (l.take k).map (·, false)) l.length

/-- The alias (if any) that replaces the next word. -/
def hcand (T : Table) (s : HState) : Option Alias :=
  let k := skipLenC s.rest
  let r := s.rest.drop k
  let tok := lexTokC r
  let here := activeAt s.active r.length
  let blank := flagRun s.active true k s.tb s.rest
  match (trans s.st tok.kind).sub, tok.kind with
  | some cmd, .word (some name) _ =>
    if here.any (fun x => x.name == name) then none else
    match T.lookup name with
    | some a => if cmd || a.global || blank then some a else none
    | none => none
  | _, _ => none

def hstep (T : Table) (s : HState) : Option HState :=
  let k := skipLenC s.rest
  let skipped := s.rest.take k
  match s.rest.drop k with
  | [] => none
  | c0 :: tl =>
    let tok := lexTokC (c0 :: tl)
    let n := tok.len - 1
    let d := trans s.st tok.kind
    let blank := flagRun s.active true k s.tb s.rest
    match hcand T s with
    | some a =>
      let after := tl.drop n
      let here := activeAt s.active (tl.length + 1)
      let enclosing := here.map fun x => { x with endRem := min x.endRem after.length }
      some { out := skipped.reverse ++ s.out, rest := a.value ++ after,
             active := { name := a.name, endRem := after.length, eb := endsBlank a.value } :: enclosing,
             st := d.onSub, toks := s.toks, hd := s.hd, tb := blank }
    | none =>
      let m := spanLenC s.hd s.st (c0 :: tl)
      let after := tl.drop m
      some { out := (tl.take m).reverse ++ c0 :: (skipped.reverse ++ s.out), rest := after,
             active := activeAt s.active after.length, st := d.onTake,
             toks := tokOutC s.hd s.st (c0 :: tl) ++ s.toks, hd := hdNextC s.hd s.st (c0 :: tl),
             tb := flagRun s.active false (m + 1) blank (c0 :: tl) }

def hrun (T : Table) : Nat → HState → HState
  | 0, s => s
  | f + 1, s =>
    match hstep T s with
    | none => s
    | some s' => hrun T f s'

def substHand (T : Table) (line : List Char) : HState := hrun T (fuelFor T line) { rest := line }

/-- Textual substitution by hand. -/
def substLine (T : Table) (line : List Char) : List Char :=
  let s := substHand T line
  s.out.reverse ++ s.rest

/-! ### by hand, line by line: the table is updated after every complete command line -/

structure HLState where
  T : Table
  h : HState
  tr : Track := {}

def hlstep (l : HLState) : Option HLState :=
  match hstep l.T l.h with
  | none => none
  | some h' =>
    if h'.toks.length == l.h.toks.length then some { l with h := h' } else
    let r := l.h.rest.drop (skipLenC l.h.rest)
    let tok := lexTokC r
    let (tr', cmds) := trackTok l.h.st tok.kind (trans l.h.st tok.kind).sub (r.take tok.len) l.tr
    some { T := cmds.foldl applyCmd l.T, h := h', tr := tr' }

def hlrun : Nat → HLState → HLState
  | 0, l => l
  | f + 1, l =>
    match hlstep l with
    | none => l
    | some l' => hlrun f l'

def HLState.finalTable (l : HLState) : Table :=
  if l.tr.depth == 0 && !l.tr.cont && lineEndState l.h.st then
    (endItem l.h.st l.tr).pending.reverse.foldl applyCmd l.T
  else l.T

/-! ### where every character comes from, by hand

  The implementation tags every character with its origin (`Source::Alias{original, alias}` nesting).  By hand
  the same information is "which aliases were being processed where this character stands": the names of the
  regions that contain it, innermost first.  A character keeps that list once it has been read.  The log is an
  observer: it does not influence `hstep` (`hrunC_h`, `hlrunC_l` in Origins.lean). -/

/-- for every character of the remaining text `l`: names of the aliases being processed at it, innermost first -/
def regionNames (rs : List Region) : List Char → List (List String)
  | [] => []
  | _ :: t => (activeAt rs (t.length + 1)).map (·.name) :: regionNames rs t

/-- the characters read by the step `h → h'` are filed (most recent first) under the aliases that were being
    processed when they were read -/
def hlog (h h' : HState) (log : List (List String)) : List (List String) :=
  ((regionNames h.active h.rest).take (h'.out.length - h.out.length)).reverse ++ log

/-- by-hand state + origin log (constant table) -/
structure HCState where
  h : HState
  log : List (List String) := []

def hstepC (T : Table) (c : HCState) : Option HCState :=
  match hstep T c.h with
  | none => none
  | some h' => some { h := h', log := hlog c.h h' c.log }

def hrunC (T : Table) : Nat → HCState → HCState
  | 0, c => c
  | f + 1, c =>
    match hstepC T c with
    | none => c
    | some c' => hrunC T f c'

/-- origins of all characters of the text (read ones first, then the remaining ones) -/
def HCState.origins (c : HCState) : List (List String) := c.log.reverse ++ regionNames c.h.active c.h.rest

/-- by-hand line machine + origin log -/
structure HLCState where
  l : HLState
  log : List (List String) := []

def hlstepC (c : HLCState) : Option HLCState :=
  match hlstep c.l with
  | none => none
  | some l' => some { l := l', log := hlog c.l.h l'.h c.log }

def hlrunC : Nat → HLCState → HLCState
  | 0, c => c
  | f + 1, c =>
    match hlstepC c with
    | none => c
    | some c' => hlrunC f c'

def HLCState.origins (c : HLCState) : List (List String) :=
  c.log.reverse ++ regionNames c.l.h.active c.l.h.rest

/-! ### the blank-rule flag at every character, by hand

  `Lexer::is_after_blank_ending_alias(i)` can be asked at every index `i` of the buffer, not only where the parser
  asks.  By hand the answer is the flag `tb` BEFORE character `i` is read.  An observer like the origin log: it does
  not influence `hstep`. -/

/-- the flag before each of the characters read -/
def flagsBefore (rs : List Region) : Bool → List (Char × Bool) → Nat → List Bool
  | _, [], _ => []
  | b, (c, lc) :: t, rem =>
    b :: flagsBefore rs (if lc then b else if isBlank c then b || endsValue rs rem else false) t (rem - 1)

/-- flags before the characters that the step `hstep T s` reads (skipped blanks, then the token if it is taken) -/
def hstepBits (T : Table) (s : HState) : List Bool :=
  let k := skipLenC s.rest
  let sk := flagsBefore s.active s.tb (markC (s.rest.take k)) s.rest.length
  match s.rest.drop k with
  | [] => sk
  | c0 :: tl =>
    match hcand T s with
    | some _ => sk
    | none =>
      let blank := flagRun s.active true k s.tb s.rest
      let m := spanLenC s.hd s.st (c0 :: tl)
      sk ++ flagsBefore s.active blank (((c0 :: tl).take (m + 1)).map (·, false)) (c0 :: tl).length

/-- the by-hand line machine with the flag log; at the end of input the remaining blanks / comment are read too -/
def hlrunB : Nat → HLState → List Bool → List Bool
  | 0, _, acc => acc
  | f + 1, l, acc =>
    match hlstep l with
    | none => acc ++ hstepBits l.T l.h
    | some l' => hlrunB f l' (acc ++ hstepBits l.T l.h)

/-! ### command position, as XCU 2.3.1 / 2.9.1 define it -/

/-- XCU 2.3.1 / 2.9.1, written out: after which ACCEPTED token the next word is looked at as a command name.
    Reserved words and operators that begin a (compound-)list, separators and pipeline / and-or operators: -/
def Spec.startsCommandWord : List String := ["!", "{", "if", "then", "elif", "else", "while", "until", "do"]
def Spec.startsCommandOp : List String := [";", "&", "&&", "||", "|", "\n", "("]
/-- … and NOT after: `for` (a name follows), `case` (the subject), `in` (words / patterns), the name of a function
    definition (`(` follows), a redirection operator (its operand follows), a command name or an argument. -/
def Spec.noCommandAfter : List String := ["for", "case", "in"]

/-- the states in which the next word is tested as a command name (`is_command_name = true`) -/
def cmdPos (st : PState) : Bool := st == .cmd0 || st == .pre

end YashModel.Alias
