/-
  C17 — Spec: alias substitution "by hand" (placeholder, completed below).
-/
import YashModel.Alias.Model
namespace YashModel.Alias
end YashModel.Alias
