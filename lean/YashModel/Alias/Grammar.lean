/-
  C17 — recogniser for the token grammar accepted by yash-syntax's parser (`Parser::command_line` repeated
  to the end of input), used ONLY to turn a substituted text into the observation `ok` / `syntax-error`.
  It is not part of any theorem.  Mirrors list.rs, and_or.rs, pipeline.rs, command.rs, simple_command.rs,
  function.rs, compound_command.rs, grouping.rs, if.rs, while_loop.rs, for_loop.rs, case.rs, redir.rs
  (non-portable mode; no here-documents, command substitutions or array assignments — the generator of
  harness/src/bin/c17.rs produces none).
-/
import YashModel.Alias.Model
namespace YashModel.Alias

abbrev Toks := List Kind

/-- The token sequence of a text (`skip_blanks_and_comment` + `Lexer::token` repeatedly). -/
def tokenize : Nat → List SChar → Toks
  | 0, _ => []
  | f + 1, l =>
    match l.drop (skipLen l) with
    | [] => []
    | r =>
      let t := lexTok r
      t.kind :: tokenize f (r.drop (max t.len 1))

def isWordTok : Kind → Bool
  | .word _ _ => true
  | .assignArr => true
  | _ => false

def isOperand : Kind → Bool
  | .word _ _ => true
  | .assignArr => true
  | .io => true
  | _ => false

def isKw (k : Kind) (s : String) : Bool :=
  match k with
  | .word (some t) _ => t == s
  | _ => false

def headIsKw (ts : Toks) (s : String) : Bool :=
  match ts with
  | k :: _ => isKw k s
  | [] => false

def headIsOp (ts : Toks) (s : String) : Bool :=
  match ts with
  | .op t :: _ => t == s
  | _ => false

def skipNl : Toks → Toks
  | .op s :: t => if s == "\n" then skipNl t else .op s :: t
  | ts => ts

/-- redirection operators that take a word (here-documents included; the body is not a token) -/
def isRedirOrHere (s : String) : Bool := isRedirOp s || isHereOp s

def isCaseCont (s : String) : Bool := s == ";;" || s == ";&" || s == ";;&" || s == ";|"

/-- `TokenId::is_clause_delimiter` (end of input counts). -/
def isClauseDelim : Toks → Bool
  | [] => true
  | .op s :: _ => s == ")" || isCaseCont s
  | .word (some k) _ :: _ =>
    k == "do" || k == "done" || k == "elif" || k == "else" || k == "esac" || k == "fi" || k == "then" || k == "}"
  | _ => false

/-- `Parser::redirections` -/
def gRedirs : Toks → Option Toks
  | .io :: .op s :: o :: t => if isRedirOrHere s && isOperand o then gRedirs t else none
  | .io :: _ => none
  | .op s :: t =>
    if isRedirOrHere s then
      match t with
      | o :: t' => if isOperand o then gRedirs t' else none
      | [] => none
    else if s == "<(" || s == ">(" then none
    else some (.op s :: t)
  | ts => some ts

/-- `Parser::simple_command`: returns ((assignments or redirections seen, number of words), rest).
    `inArr`: inside the parentheses of an array assignment (`Parser::array_values`). -/
def gSimple : Bool → Bool → Nat → Toks → Option ((Bool × Nat) × Toks)
  | true, _, _, [] => none
  | true, ar, w, .word _ _ :: t => gSimple true ar w t
  | true, ar, w, .assignArr :: t => gSimple true ar w t
  | true, ar, w, .op s :: t =>
    if s == "\n" then gSimple true ar w t else if s == ")" then gSimple false ar w t else none
  | true, _, _, _ :: _ => none
  | false, ar, w, [] => some ((ar, w), [])
  | false, _, w, .io :: t =>
    match t with
    | .op s :: o :: t' => if isRedirOrHere s && isOperand o then gSimple false true w t' else none
    | _ => none
  | false, ar, w, .op s :: t =>
    if isRedirOrHere s then
      match t with
      | o :: t' => if isOperand o then gSimple false true w t' else none
      | [] => none
    else if s == "<(" || s == ">(" then none
    else some ((ar, w), .op s :: t)
  | false, ar, w, .word lit asg :: t =>
    if !ar && w == 0 && isKeyword lit then some ((ar, w), .word lit asg :: t)
    else if w == 0 && asg then gSimple false true w t
    else gSimple false ar (w + 1) t
  | false, ar, w, .assignArr :: .op s :: t' =>
    if w == 0 then (if s == "(" then gSimple true true w t' else gSimple false true w (.op s :: t'))
    else gSimple false ar (w + 1) (.op s :: t')
  | false, ar, w, .assignArr :: t =>
    if w == 0 then gSimple false true w t else gSimple false ar (w + 1) t
  | false, _, _, .bad :: _ => none
  | false, ar, w, .eof :: t => some ((ar, w), .eof :: t)

/-- `for_loop_values` after `in` -/
def gForWords : Toks → Option Toks
  | [] => some []
  | .word _ _ :: t => gForWords t
  | .io :: t => gForWords t
  | .op s :: t => if s == ";" || s == "\n" then some t else none
  | _ => none

/-- `for_loop_values` -/
def gForValues : Bool → Toks → Option Toks
  | fl, .op s :: t =>
    if s == ";" then (if fl then some t else none)
    else if s == "\n" then gForValues false t
    else none
  | _, .word lit asg :: t =>
    if lit == some "do" then some (.word lit asg :: t)
    else if lit == some "in" then gForWords t
    else none
  | _, _ => none

/-- pattern list of a case item after its first pattern -/
def gPatRest : Toks → Option Toks
  | .op s :: t =>
    if s == ")" then some t
    else if s == "|" then
      match t with
      | .word _ _ :: t' => gPatRest t'
      | _ => none
    else none
  | _ => none

mutual

/-- `Parser::list`: (number of items, rest) -/
def gList : Nat → Toks → Option (Nat × Toks)
  | 0, _ => none
  | f + 1, ts =>
    match gAndOr f ts with
    | none => none
    | some (false, r) => some (0, r)
    | some (true, r) =>
      if headIsOp r ";" || headIsOp r "&" then
        match gList f (r.drop 1) with
        | none => none
        | some (n, r') => some (n + 1, r')
      else some (1, r)

def gAndOr : Nat → Toks → Option (Bool × Toks)
  | 0, _ => none
  | f + 1, ts =>
    match gPipeline f ts with
    | none => none
    | some (false, r) => some (false, r)
    | some (true, r) => (gAndOrRest f r).map fun r' => (true, r')

def gAndOrRest : Nat → Toks → Option Toks
  | 0, _ => none
  | f + 1, r =>
    if headIsOp r "&&" || headIsOp r "||" then
      match gPipeline f (skipNl (r.drop 1)) with
      | some (true, r') => gAndOrRest f r'
      | _ => none
    else some r

def gPipeline : Nat → Toks → Option (Bool × Toks)
  | 0, _ => none
  | f + 1, ts =>
    match gCommand f ts with
    | none => none
    | some (true, r) => (gPipeRest f r).map fun r' => (true, r')
    | some (false, r) =>
      if headIsKw r "!" then
        match gCommand f (r.drop 1) with
        | some (true, r') => (gPipeRest f r').map fun r'' => (true, r'')
        | _ => none
      else some (false, r)

def gPipeRest : Nat → Toks → Option Toks
  | 0, _ => none
  | f + 1, r =>
    if headIsOp r "|" then
      match gCommand f (skipNl (r.drop 1)) with
      | some (true, r') => gPipeRest f r'
      | _ => none
    else some r

/-- `Parser::command` (+ `short_function_definition`) -/
def gCommand : Nat → Toks → Option (Bool × Toks)
  | 0, _ => none
  | f + 1, ts =>
    match gSimple false false 0 ts with
    | none => none
    | some ((ar, w), r) =>
      if ar || w > 0 then
        if !ar && w == 1 && headIsOp r "(" then
          match r.drop 1 with
          | .op s :: r2 =>
            if s == ")" then
              match gCompound f (skipNl r2) with
              | some (true, r3) => some (true, r3)
              | _ => none
            else none
          | _ => none
        else some (true, r)
      else
        match gCompound f ts with
        | none => none
        | some (true, r') => some (true, r')
        | some (false, r') =>
          if headIsKw r' "function" || headIsKw r' "[[" || headIsKw r' "namespace" || headIsKw r' "select"
          then none else some (false, r')

/-- `Parser::maybe_compound_list`: (number of items, rest); fails unless a clause delimiter follows. -/
def gMcl : Nat → Toks → Option (Nat × Toks)
  | 0, _ => none
  | f + 1, ts =>
    match gList f ts with
    | none => none
    | some (n, r) =>
      if headIsOp r "\n" then
        match gMcl f (r.drop 1) with
        | none => none
        | some (m, r') => some (n + m, r')
      else if isClauseDelim r then some (n, r) else none

/-- a non-empty compound list followed by the keyword `kw` -/
def gBlock : Nat → String → Toks → Option Toks
  | 0, _, _ => none
  | f + 1, kw, ts =>
    match gMcl f ts with
    | some (n, r) => if n > 0 && headIsKw r kw then some (r.drop 1) else none
    | none => none

def gIfRest : Nat → Toks → Option Toks
  | 0, _ => none
  | f + 1, r =>
    if headIsKw r "elif" then
      match gBlock f "then" (r.drop 1) with
      | none => none
      | some r1 =>
        match gMcl f r1 with
        | some (n, r2) => if n > 0 then gIfRest f r2 else none
        | none => none
    else if headIsKw r "else" then gBlock f "fi" (r.drop 1)
    else if headIsKw r "fi" then some (r.drop 1)
    else none

def gCaseItems : Nat → Toks → Option Toks
  | 0, _ => none
  | f + 1, ts0 =>
    let ts := skipNl ts0
    if headIsKw ts "esac" then some ts else
    let afterFirst : Option Toks :=
      match ts with
      | .word _ _ :: t => some t
      | .op s :: .word _ _ :: t => if s == "(" then some t else none
      | _ => none
    match afterFirst.bind gPatRest with
    | none => none
    | some body =>
      match gMcl f body with
      | none => none
      | some (_, r) =>
        match r with
        | .op s :: r' => if isCaseCont s then gCaseItems f r' else some r
        | _ => some r

/-- `Parser::full_compound_command` -/
def gCompound : Nat → Toks → Option (Bool × Toks)
  | 0, _ => none
  | f + 1, ts =>
    match ts with
    | .op s :: t =>
      if s == "(" then
        match gMcl f t with
        | some (n, r) => if n > 0 && headIsOp r ")" then (gRedirs (r.drop 1)).map fun x => (true, x) else none
        | none => none
      else some (false, ts)
    | .word (some k) _ :: t =>
      if k == "{" then (gBlock f "}" t).bind fun r => (gRedirs r).map fun x => (true, x)
      else if k == "while" || k == "until" then
        match gMcl f t with
        | some (n, r) =>
          if n > 0 && headIsKw r "do" then
            (gBlock f "done" (r.drop 1)).bind fun r' => (gRedirs r').map fun x => (true, x)
          else none
        | none => none
      else if k == "if" then
        match gBlock f "then" t with
        | none => none
        | some r1 =>
          match gMcl f r1 with
          | some (n, r2) =>
            if n > 0 then (gIfRest f r2).bind fun r' => (gRedirs r').map fun x => (true, x) else none
          | none => none
      else if k == "for" then
        match t with
        | name :: t' =>
          if isOperand name then
            match gForValues true t' with
            | none => none
            | some r =>
              let r := skipNl r
              if headIsKw r "do" then
                (gBlock f "done" (r.drop 1)).bind fun r' => (gRedirs r').map fun x => (true, x)
              else none
          else none
        | [] => none
      else if k == "case" then
        match t with
        | .word _ _ :: t' =>
          let r := skipNl t'
          if headIsKw r "in" then
            match gCaseItems f (r.drop 1) with
            | some r' =>
              if headIsKw r' "esac" then (gRedirs (r'.drop 1)).map fun x => (true, x) else none
            | none => none
          else none
        | _ => none
      else some (false, ts)
    | _ => some (false, ts)

end

/-- `Parser::command_line` repeated to the end of input. -/
def gProgram : Nat → Toks → Bool
  | 0, _ => false
  | f + 1, ts =>
    match ts with
    | [] => true
    | _ =>
      match gList f ts with
      | none => false
      | some (_, r) =>
        match r with
        | [] => true
        | .op s :: r' => if s == "\n" then gProgram f r' else false
        | _ => false

/-- Is the token sequence accepted by the parser? -/
def validToks (ts : Toks) : Bool :=
  !ts.contains .bad && gProgram (12 * ts.length + 40) ts

/-- Is the text accepted by the parser (without aliases)? -/
def validText (cs : List Char) : Bool := validToks (tokenize (cs.length + 1) (plain cs))

end YashModel.Alias
