/-
  C17 — property theorems (and non-vacuity examples) ONLY.  Helper lemmas: `Lemmas.lean`.

  Property text: "For every set of alias definitions, including self- and mutually recursive ones, and
  every command line, alias substitution terminates and yields the token sequence POSIX specifies: only an
  unquoted literal word in command position (or following an alias value that ends with a blank, or naming
  a global alias) is replaced, a name is not substituted again within its own replacement, and reserved
  words, operators and redirections that emerge from replacement text are recognised as such."

  The model (`Model.lean`) is the lexer's character buffer with per-character origin chains, the parser's
  `substitute_alias` eligibility test, `is_after_blank_ending_alias`, and the position automaton `trans`.
  All theorems hold for every table (any number of aliases, any values, any cycles) and every line.
-/
import YashModel.Alias.Lemmas
import YashModel.Alias.Refine
import YashModel.Alias.Guard
import YashModel.Alias.Blank
import YashModel.Alias.Origins
import YashModel.Alias.Builtins
import YashModel.Alias.TableLemmas
import YashModel.Alias.Sites
import YashModel.Alias.BlankL
import YashModel.Alias.TermL
import YashModel.Quote.Listing
namespace YashModel.Alias

/-! ## ★ subst_terminates -/

/-- ★ The measure behind termination: every step (substitution or token consumption) strictly decreases
    `mu` = Σ over the unconsumed characters of `(L+1)^(N - chain length)` (`N` = number of aliases, `L` =
    longest replacement), on every state whose origin chains are sane. -/
theorem subst_measure_decreases (T : Table) (s s' : MState) (hi : Inv T s) (h : step T s = some s') :
    mu T s'.rest < mu T s.rest :=
  mu_step hi h

/-- ★ `subst_terminates`: for every table and every line the fuel `fuelFor T line` is never exhausted — the
    substitution reaches the end of the input. -/
theorem subst_terminates (T : Table) (line : List Char) :
    (run T (fuelFor T line) (init line)).2 = true :=
  run_done _ (inv_init T line) (by simp [fuelFor, init])

/-- The result does not depend on the fuel once it is at least `fuelFor`. -/
theorem subst_fuel_irrelevant (T : Table) (line : List Char) (g : Nat) (hg : fuelFor T line ≤ g) :
    run T g (init line) = run T (fuelFor T line) (init line) :=
  run_fuel_irrelevant _ _ (subst_terminates T line) hg

/-- non-vacuity: a three-cycle `a → b → c → a`, each value ending in a blank, terminates; so does the
    self-referential `a='a a '`. -/
example : substText [⟨"a", "b ".toList, false⟩, ⟨"b", "c ".toList, false⟩, ⟨"c", "a ".toList, false⟩]
    "a a x".toList = "a    a    x".toList := by decide +kernel
example : substText [⟨"a", "a a ".toList, false⟩] "a".toList = "a a ".toList := by decide +kernel

/-! ## ★ no_self_resubstitution, ★ chain_bound -/

/-- ★ `no_self_resubstitution`: at every point of the run (any fuel) no character's origin chain contains
    an alias name twice — a name is never substituted again within its own replacement, for cycles of
    any length. -/
theorem no_self_resubstitution (T : Table) (line : List Char) (f : Nat) :
    ∀ c ∈ (run T f (init line)).1.pre ++ (run T f (init line)).1.rest, c.chain.Nodup := by
  intro c hc
  have hi := inv_run f (inv_init T line)
  rcases List.mem_append.mp hc with h | h
  · exact (hi.1 c h).1
  · exact (hi.2 c h).1

/-- The eligibility test itself: a substituted word's name is not on the chain of its first character. -/
theorem no_self_eligible (T : Table) (before : List SChar) (c0 : SChar) (name : String) (asg : Bool)
    (sub : Option Bool) (h : c0.isAliasFor name = true) :
    eligible T before c0 (.word (some name) asg) sub = none := by
  unfold eligible
  cases sub <;> simp [h]

/-- ★ `chain_bound`: every origin chain is at most as long as the table. -/
theorem chain_bound (T : Table) (line : List Char) (f : Nat) :
    ∀ c ∈ (run T f (init line)).1.pre ++ (run T f (init line)).1.rest, c.chain.length ≤ T.length := by
  intro c hc
  have hi := inv_run f (inv_init T line)
  rcases List.mem_append.mp hc with h | h
  · exact good_chain_le (hi.1 c h)
  · exact good_chain_le (hi.2 c h)

/-- Every name on a chain is the name of an alias of the table. -/
theorem chain_names (T : Table) (line : List Char) (f : Nat) :
    ∀ c ∈ (run T f (init line)).1.pre ++ (run T f (init line)).1.rest, ∀ n ∈ c.chain, n ∈ T.names := by
  intro c hc
  have hi := inv_run f (inv_init T line)
  rcases List.mem_append.mp hc with h | h
  · exact (hi.1 c h).2
  · exact (hi.2 c h).2

/-- non-vacuity: with the cycle `a → b → a` the innermost character really carries the chain `[b, a]`
    (innermost first) and is not substituted a third time. -/
example : ((substState [⟨"a", "b".toList, false⟩, ⟨"b", "a".toList, false⟩] "a".toList).pre.map (·.chain))
    = [["b", "a"]] := by decide +kernel

/-! ## ★ blank_chain -/

/-- ★ `blank_chain` (the rule): walking back from a token over blanks and line continuations (`gap`,
    nearest first) one reaches a character `b` that is the last character of a replacement ending in a
    blank (`b.eb`, innermost alias `n`), i.e. the character after `b` does not come from `n`.  Then
    `is_after_blank_ending_alias` answers true — whatever lies further back, however long the gap, and
    whatever chains the gap characters carry (so also through replacements nested inside or outside). -/
theorem blank_chain_rule (gap : List SChar) (b : SChar) (older : List SChar) (nxt : SChar)
    (n : String) (ch : List String)
    (hgap : ∀ g ∈ gap, g.lc = true ∨ isBlank g.c = true)
    (hb : b.lc = true ∨ isBlank b.c = true)
    (hchain : b.chain = n :: ch) (heb : b.eb = true)
    (hnext : ((gap.getLast?).getD nxt).isAliasFor n = false) :
    afterBlank (gap ++ b :: older) (some nxt) = true := by
  induction gap generalizing nxt with
  | nil =>
    simp only [List.nil_append, afterBlank]
    have h1 : (!b.lc && !isBlank b.c) = false := by rcases hb with h | h <;> simp [h]
    simp only [List.getLast?_nil, Option.getD_none] at hnext
    simp [h1, hchain, heb, sameAlias, hnext]
  | cons g gs ih =>
    simp only [List.cons_append, afterBlank]
    have hg := hgap g (List.mem_cons_self ..)
    have h1 : (!g.lc && !isBlank g.c) = false := by rcases hg with h | h <;> simp [h]
    simp only [h1, Bool.false_eq_true, ↓reduceIte]
    split
    · rfl
    · apply ih g (fun x hx => hgap x (List.mem_cons_of_mem _ hx))
      cases gs with
      | nil => simpa using hnext
      | cons g' gs' =>
        have hx := List.getLast?_eq_some_getLast (l := g' :: gs') (List.cons_ne_nil _ _)
        rw [List.getLast?_cons_cons, hx] at hnext
        rw [hx]
        simpa using hnext

/-- The characters spliced in for an alias whose value ends with a blank end with such a character `b`. -/
theorem splice_ends_blank (a : Alias) (c0 : SChar) (h : endsBlank a.value = true) :
    ∃ front b, spliceChars a c0 = front ++ [b] ∧ isBlank b.c = true ∧ b.chain = a.name :: c0.chain ∧
      b.eb = true ∧ b.lc = false := by
  unfold endsBlank at h
  split at h
  · rename_i c hc
    obtain ⟨front, hv⟩ : ∃ front, a.value = front ++ [c] := by
      have := List.getLast?_eq_some_iff.mp hc
      exact this
    refine ⟨front.map (fun ch => { c := ch, chain := a.name :: c0.chain, lc := false, eb := endsBlank a.value }),
      { c := c, chain := a.name :: c0.chain, lc := false, eb := endsBlank a.value }, ?_, h, rfl, ?_, rfl⟩
    · simp [spliceChars, hv]
    · simp only [endsBlank, hc, h]
  · cases h

/-- ★ `blank_chain` (transitivity through the buffer): once the replacement of an alias `a` whose value
    ends with a blank has been consumed (it sits, reversed, just before the gap), the next token is "after
    a blank-ending alias" — across any number of further blanks and line continuations — provided the
    character after the replacement is not itself from `a`. -/
theorem blank_chain_after_splice (a : Alias) (c0 : SChar) (gap older : List SChar) (nxt : SChar)
    (hv : endsBlank a.value = true)
    (hgap : ∀ g ∈ gap, g.lc = true ∨ isBlank g.c = true)
    (hnext : ((gap.getLast?).getD nxt).isAliasFor a.name = false) :
    afterBlank (gap ++ (spliceChars a c0).reverse ++ older) (some nxt) = true := by
  obtain ⟨front, b, hs, hbl, hch, heb, _⟩ := splice_ends_blank a c0 hv
  rw [hs]
  simp only [List.reverse_append, List.reverse_cons, List.reverse_nil, List.nil_append,
    List.append_assoc, List.cons_append]
  exact blank_chain_rule gap b _ nxt a.name c0.chain hgap (Or.inr hbl) hch heb hnext

/-- ★ `blank_chain` (the step): a literal word that names an alias, is not on its own origin chain and
    stands after a blank-ending replacement IS substituted, wherever the parser is (argument, redirection
    operand, `for` word, `case` pattern …) as long as the token is taken with `take_token_manual/auto`
    (`sub ≠ none`), and the result is the splice of the replacement. -/
theorem blank_chain (T : Table) (s : MState) (c0 : SChar) (tl : List SChar) (name : String) (asg cmd : Bool)
    (a : Alias)
    (hdrop : s.rest.drop (skipLen s.rest) = c0 :: tl)
    (hkind : (lexTok (c0 :: tl)).kind = .word (some name) asg)
    (hsub : (trans s.st (.word (some name) asg)).sub = some cmd)
    (hnot : c0.isAliasFor name = false)
    (hlook : T.lookup name = some a)
    (hafter : afterBlank ((markLc (s.rest.take (skipLen s.rest))).reverse ++ s.pre) (some c0) = true) :
    ∃ s', step T s = some s' ∧
      s'.rest = spliceChars a c0 ++ tl.drop ((lexTok (c0 :: tl)).len - 1) ∧
      s'.pre = (markLc (s.rest.take (skipLen s.rest))).reverse ++ s.pre := by
  have hel : eligible T ((markLc (s.rest.take (skipLen s.rest))).reverse ++ s.pre) c0
      (.word (some name) asg) (some cmd) = some a := by
    simp [eligible, hnot, hlook, hafter]
  refine ⟨{ pre := (markLc (s.rest.take (skipLen s.rest))).reverse ++ s.pre,
            rest := spliceChars a c0 ++ tl.drop ((lexTok (c0 :: tl)).len - 1),
            st := (trans s.st (.word (some name) asg)).onSub,
            subs := s.subs + 1, toks := s.toks, hd := s.hd }, ?_, rfl, rfl⟩
  unfold step
  simp only [hdrop, hkind, hsub, hel]

/-- non-vacuity: `b` and `c` are arguments, yet both are substituted because each follows a value ending
    in a blank — transitively (`a` → `b` → `c`) and through a line continuation. -/
example : substText [⟨"a", "x ".toList, false⟩, ⟨"b", "y ".toList, false⟩, ⟨"c", "z".toList, false⟩]
    "a \\\n b c c".toList = "x  \\\n y  z c".toList := by decide +kernel
/-- … and without the trailing blank nothing after the command name is touched. -/
example : substText [⟨"a", "x".toList, false⟩, ⟨"b", "y ".toList, false⟩] "a b".toList = "x b".toList := by
  decide +kernel

/-! ## ★ only_eligible -/

/-- ★ `only_eligible`: a step either leaves the text of the buffer unchanged (the token is consumed as it
    is) or replaces a token for which ALL of the following hold: it is an unquoted literal word `name`
    (`to_string_if_literal`), the parser takes it with alias substitution enabled (`sub = some cmd`, never
    for a token taken raw: operators, reserved words where they are recognised, `in`, `esac`), `name` is not
    on the origin chain of its first character, the table defines `name`, and it stands in command
    position (`cmd`) or the alias is global or it follows a replacement ending in a blank. -/
theorem only_eligible (T : Table) (s s' : MState) (h : step T s = some s') :
    s'.text = s.text ∨
    ∃ (c0 : SChar) (tl : List SChar) (a : Alias) (cmd : Bool) (name : String) (asg : Bool),
      s.rest.drop (skipLen s.rest) = c0 :: tl ∧
      (lexTok (c0 :: tl)).kind = .word (some name) asg ∧
      (trans s.st (lexTok (c0 :: tl)).kind).sub = some cmd ∧
      c0.isAliasFor name = false ∧
      T.lookup name = some a ∧
      (cmd = true ∨ a.global = true ∨
        afterBlank ((markLc (s.rest.take (skipLen s.rest))).reverse ++ s.pre) (some c0) = true) ∧
      s'.rest = spliceChars a c0 ++ tl.drop ((lexTok (c0 :: tl)).len - 1) := by
  cases step_rel h with
  | subst c0 tl a cmd name asg hdrop hkind hsub hnot hlook hwhy hpre hrest =>
    exact Or.inr ⟨c0, tl, a, cmd, name, asg, hdrop, hkind, hsub, hnot, hlook, hwhy, hrest⟩
  | take c0 tl hdrop hel hpre hrest =>
    left
    unfold MState.text
    rw [hpre, hrest]
    have h1 : s.rest = s.rest.take (skipLen s.rest) ++ (c0 :: tl) := by rw [← hdrop, List.take_append_drop]
    have h2 : tl = tl.take (spanLen s c0 tl) ++ tl.drop (spanLen s c0 tl) :=
      (List.take_append_drop ..).symm
    conv => rhs; rw [h1]
    simp only [List.reverse_append, List.reverse_cons, List.reverse_reverse, List.map_append,
      List.map_cons, List.append_assoc, markLc_chars,
      List.cons_append, List.nil_append, List.map_reverse]
    conv => rhs; rw [h2]
    simp

/-- A quoted or otherwise non-literal word, an operator, an IO_NUMBER: the text is unchanged. -/
theorem nonliteral_unchanged (T : Table) (s s' : MState) (h : step T s = some s')
    (hk : ∀ c0 tl name asg, s.rest.drop (skipLen s.rest) = c0 :: tl →
      (lexTok (c0 :: tl)).kind ≠ .word (some name) asg) :
    s'.text = s.text := by
  rcases only_eligible T s s' h with h | ⟨c0, tl, a, cmd, name, asg, hdrop, hkind, _⟩
  · exact h
  · exact absurd hkind (hk c0 tl name asg hdrop)

/-- A token the parser takes raw (`take_token_raw`: operators, reserved words where they are recognised,
    anything after a syntax error) is never substituted. -/
theorem raw_unchanged (T : Table) (s s' : MState) (h : step T s = some s')
    (hk : ∀ c0 tl, s.rest.drop (skipLen s.rest) = c0 :: tl →
      (trans s.st (lexTok (c0 :: tl)).kind).sub = none) :
    s'.text = s.text := by
  rcases only_eligible T s s' h with h | ⟨c0, tl, a, cmd, name, asg, hdrop, _, hsub, _⟩
  · exact h
  · rw [hk c0 tl hdrop] at hsub; cases hsub

/-- A word that is not in command position is left alone unless its alias is global or it follows a
    blank-ending replacement. -/
theorem noncommand_unchanged (T : Table) (s s' : MState) (h : step T s = some s')
    (hpos : ∀ c0 tl, s.rest.drop (skipLen s.rest) = c0 :: tl →
      (trans s.st (lexTok (c0 :: tl)).kind).sub ≠ some true)
    (hglobal : ∀ a ∈ T, a.global = false)
    (hblank : ∀ c0, afterBlank ((markLc (s.rest.take (skipLen s.rest))).reverse ++ s.pre) (some c0) = false) :
    s'.text = s.text := by
  rcases only_eligible T s s' h with h | ⟨c0, tl, a, cmd, name, asg, hdrop, _, hsub, _, hlook, hwhy, _⟩
  · exact h
  · exfalso
    rcases hwhy with h1 | h2 | h3
    · subst h1; exact hpos c0 tl hdrop hsub
    · rw [hglobal a (lookup_spec hlook).1] at h2; cases h2
    · rw [hblank c0] at h3; cases h3

/-- After the parser has reported a syntax error nothing is substituted any more. -/
theorem err_unchanged (T : Table) (s s' : MState) (h : step T s = some s') (he : s.st = .err) :
    s'.text = s.text := by
  apply raw_unchanged T s s' h
  intro c0 tl _
  rw [he]
  cases (lexTok (c0 :: tl)).kind <;> simp [trans, transCore]

/-- With an empty table the whole run is the identity on the text. -/
theorem subst_nil (line : List Char) : substText [] line = line := by
  have key : ∀ f (s : MState), (run [] f s).1.text = s.text := by
    intro f
    induction f with
    | zero => intro s; rfl
    | succ f ih =>
      intro s
      unfold run
      split
      · rfl
      · rename_i s' hs
        rw [ih s']
        rcases only_eligible [] s s' hs with h | ⟨_, _, a, _, name, _, _, _, _, _, hlook, _⟩
        · exact h
        · simp [Table.lookup] at hlook
  unfold substText substState
  rw [key]
  simp only [MState.text, init, plain, List.reverse_nil, List.nil_append, List.map_map]
  exact List.map_id' _

/-- non-vacuity: quoted, escaped, expansion and assignment words are untouched while the literal word in
    command position is replaced; a reserved word coming out of a replacement is recognised (the word after
    `if`/`then` is in command position again) and a reserved word in command position is never replaced. -/
example : substText [⟨"a", "x".toList, false⟩] "a 'a' \\a \"a\" $a v=a; a=1 a".toList
    = "x 'a' \\a \"a\" $a v=a; a=1 x".toList := by decide +kernel
example : substText [⟨"i", "if".toList, false⟩, ⟨"a", "x".toList, false⟩, ⟨"if", "y".toList, false⟩]
    "i a; then a; fi; if a; then a a; fi".toList = "if x; then x; fi; if x; then x a; fi".toList := by
  decide +kernel
/-- non-vacuity: global aliases are replaced in any position, including a redirection operand. -/
example : substText [⟨"g", "z".toList, true⟩, ⟨"a", "x".toList, false⟩] "a g a > g".toList
    = "x z a > z".toList := by decide +kernel

/-! ## argument words: only global aliases (or the blank rule), for every utility class -/

/-- Whatever the command word is (a declaration utility such as `export`/`readonly`/`typeset`, the neutral
    `command`, or any other word — the automaton does not even look at it), after it the parser is in argument
    position … -/
theorem after_command_word (lit : Option String) (h : isKeyword lit = false) :
    (trans .cmd0 (.word lit false)).onTake = .one := by
  simp [trans, transCore, h]

/-- … and stays there for every further word (options, `--`, assignment-shaped words, names). -/
theorem after_argument_word (lit : Option String) (asg : Bool) :
    (trans .one (.word lit asg)).onTake = .args ∧ (trans .args (.word lit asg)).onTake = .args ∧
    (trans .one (.word lit asg)).sub = some false ∧ (trans .args (.word lit asg)).sub = some false := by
  simp [trans, transCore]

/-- ★ `argument_words_only_global`: in argument position (after ANY command word, of any utility class, also
    after `command command`, `command export`, options and `--`) a step either leaves the text unchanged or
    replaces a word whose alias is GLOBAL or which follows a blank-ending replacement — a non-global alias
    name there is never replaced otherwise. -/
theorem argument_words_only_global (T : Table) (s s' : MState) (h : step T s = some s')
    (hst : s.st = .one ∨ s.st = .args) :
    s'.text = s.text ∨
    ∃ (c0 : SChar) (tl : List SChar) (a : Alias) (name : String) (asg : Bool),
      s.rest.drop (skipLen s.rest) = c0 :: tl ∧
      (lexTok (c0 :: tl)).kind = .word (some name) asg ∧
      T.lookup name = some a ∧
      (a.global = true ∨
        afterBlank ((markLc (s.rest.take (skipLen s.rest))).reverse ++ s.pre) (some c0) = true) := by
  rcases only_eligible T s s' h with h1 | ⟨c0, tl, a, cmd, name, asg, hdrop, hkind, hsub, _, hlook, hwhy, _⟩
  · exact Or.inl h1
  · right
    refine ⟨c0, tl, a, name, asg, hdrop, hkind, hlook, ?_⟩
    have hcmd : cmd = false := by
      rw [hkind] at hsub
      rcases hst with h2 | h2 <;> rw [h2] at hsub <;> simp [trans, transCore] at hsub <;> exact hsub
    rcases hwhy with h3 | h3 | h3
    · rw [hcmd] at h3; cases h3
    · exact Or.inl h3
    · exact Or.inr h3

/-- non-vacuity: after `command` (neutral), `export` (declaration utility) and `x` the non-global alias `a` is
    left alone in every argument position, the global alias `g` is replaced. -/
example : substText [⟨"a", "A".toList, false⟩, ⟨"g", "G".toList, true⟩]
    "command a g; command command a; export a=1 a g; x -o a -- a g".toList
    = "command a G; command command a; export a=1 a G; x -o a -- a G".toList := by decide +kernel

/-! ## the guard is about NAMES: alias table changing while a replacement is being read -/

/-- ★ `guard_by_name`: a word whose first character's origin chain contains the name `n` is never replaced
    by alias `n` — whatever the current table holds for `n` (same definition, a redefinition under the same
    name, a different `global` flag, or nothing). -/
theorem guard_by_name (T : Table) (before : List SChar) (c0 : SChar) (n : String) (asg : Bool)
    (sub : Option Bool) (h : c0.isAliasFor n = true) :
    eligible T before c0 (.word (some n) asg) sub = none :=
  no_self_eligible T before c0 n asg sub h

/-- Consequently the decision is the same for any two tables. -/
theorem guard_table_independent (T₁ T₂ : Table) (before : List SChar) (c0 : SChar) (n : String) (asg : Bool)
    (sub : Option Bool) (h : c0.isAliasFor n = true) :
    eligible T₁ before c0 (.word (some n) asg) sub = eligible T₂ before c0 (.word (some n) asg) sub := by
  rw [guard_by_name T₁ _ _ _ _ _ h, guard_by_name T₂ _ _ _ _ _ h]

/-- ★ `no_self_resubstitution_lines`: in the line-by-line machine (the table is updated by `alias`/`unalias`
    after every complete command line, the buffer keeps its origin chains) no chain ever contains a name
    twice, for every initial table, every line and every number of steps. -/
theorem no_self_resubstitution_lines (T : Table) (line : List Char) (f : Nat) :
    ∀ c ∈ (lrun f { T := T, m := init line }).1.m.pre ++ (lrun f { T := T, m := init line }).1.m.rest,
      c.chain.Nodup := by
  apply nodup_lrun
  intro c hc
  simp only [init, List.nil_append, plain, List.mem_map] at hc
  obtain ⟨_, _, rfl⟩ := hc
  exact List.nodup_nil

/-- non-vacuity: `a` redefines itself on the first line of its own replacement; the `a` on the second line is
    left alone although the table now holds a different `a` (the seeded `Rc::ptr_eq` guard substitutes it). -/
example : ((lrun 1000 { T := [⟨"a", "alias a=REDEF\na second".toList, false⟩], m := init "a".toList }).1.m.text)
    = "alias a=REDEF\na second".toList := by decide +kernel
example : ((lrun 1000 { T := [⟨"a", "alias a=REDEF\na second".toList, false⟩], m := init "a".toList }).1.T.map
    (fun a => (a.name, String.ofList a.value))) = [("a", "REDEF")] := by decide +kernel

/-! ## ☆ Model = Spec (partial) -/

/- The full statement is `model_eq_spec` at the end of this section.  It is assembled from the lock-step
   simulation (`model_eq_spec_partial`: same alias chosen at every step ⇒ same text), the agreement of the
   recursion guards (`Guard.lean`: origin chains = names of the regions containing a character) and the agreement
   of the two formulations of the blank rule (`Blank.lean`: `is_after_blank_ending_alias` walking back over the
   consumed buffer = the Spec's forward flag).  The `_partial` theorems are kept: they are the steps. -/

/-- ☆ (partial) If model and Spec choose the same alias at every step, the substituted texts are equal. -/
theorem model_eq_spec_partial (T : Table) (line : List Char)
    (hA : Agree T (fuelFor T line) (init line) { rest := line }) :
    substText T line = substLine T line := by
  have hs : Sim (init line) ({ rest := line } : HState) := by
    refine ⟨?_, rfl, rfl, rfl, rfl⟩
    simp only [init, plain, chars, List.map_map]
    exact (List.map_id' _).symm
  obtain ⟨hr, ho, _, _⟩ := sim_run (fuelFor T line) hs hA
  unfold substText substState substLine substHand MState.text
  simp only [hr, ho, chars, List.map_append, List.map_reverse]

/-- ☆ (partial) Per-instance certificate: the executable lock-step check `agreeB` suffices. -/
theorem model_eq_spec_checked (T : Table) (line : List Char)
    (hb : agreeB T (fuelFor T line) (init line) { rest := line } = true) :
    substText T line = substLine T line :=
  model_eq_spec_partial T line (agree_of_agreeB _ hb)

theorem sim_init (line : List Char) : Sim (init line) ({ rest := line } : HState) := by
  refine ⟨?_, rfl, rfl, rfl, rfl⟩
  simp only [init, plain, chars, List.map_map]
  exact (List.map_id' _).symm

theorem corr_init (line : List Char) : Corr [] (plain line) := by
  induction line with
  | nil => trivial
  | cons c t ih => exact ⟨rfl, ih⟩

/-- ☆ (partial, stronger than `model_eq_spec_partial`) The recursion guards never disagree (invariant `Corr`:
    the origin chain of every unconsumed character is the list of names of the regions that contain it),
    so it is enough that the two formulations of the BLANK RULE give the same answer at every step
    (`AgreeBlank`: `is_after_blank_ending_alias` walking back over the consumed buffer = the Spec's forward
    flag).  Missing for the full theorem: `AgreeBlank` always holds. -/
theorem model_eq_spec_blank_partial (T : Table) (line : List Char)
    (hB : AgreeBlank T (fuelFor T line) (init line) { rest := line }) :
    substText T line = substLine T line :=
  model_eq_spec_partial T line (agree_of_agreeBlank _ (sim_init line) (corr_init line) hB)

/-- ☆ (partial: the full `model_eq_spec` restricted to tables in which no value ends with a blank)
    For EVERY such table — any number of aliases, recursive and mutually recursive bodies, global aliases,
    reserved words / operators / quoting in values — and EVERY line, the implementation model's substituted
    text equals the by-hand Spec's: no hypothesis about the run remains. -/
theorem model_eq_spec_noblank_partial (T : Table) (hT : ∀ a ∈ T, endsBlank a.value = false)
    (line : List Char) : substText T line = substLine T line := by
  apply model_eq_spec_partial
  apply agree_of_blank_inv (T := T) NoEb
  · intro s h _ _ hp; exact noeb_blank hp
  · intro s h s' h' hs _ hp hc e1 e2; exact noeb_step hT hs hp hc e1 e2
  · exact sim_init line
  · exact corr_init line
  · refine ⟨(by intro c hc; cases hc), ?_, rfl, (by intro r hr; cases hr)⟩
    intro c hc
    simp only [init, plain, List.mem_map] at hc
    obtain ⟨_, _, rfl⟩ := hc
    rfl

/-- non-vacuity of `model_eq_spec_noblank_partial`: a table with a cycle, a self-reference, a global alias
    and a reserved word, none ending in a blank. -/
example : ∀ a ∈ ([⟨"a", "b x".toList, false⟩, ⟨"b", "a".toList, false⟩, ⟨"c", "c c".toList, false⟩,
    ⟨"g", "if".toList, true⟩] : Table), endsBlank a.value = false := by decide +kernel

/-- ★ `model_eq_spec`: for EVERY alias table and EVERY line the text produced by the implementation model (origin-
    chain buffer, `substitute_alias` eligibility, `is_after_blank_ending_alias`) equals the text produced by
    substitution by hand (`substLine`: plain text, stack of aliases being processed, forward blank flag) — no
    hypothesis about the run. -/
theorem model_eq_spec (T : Table) (line : List Char) : substText T line = substLine T line :=
  model_eq_spec_partial T line (agree_always T line _)

/-- the two formulations of the blank rule agree on every reachable pair of states (the former missing piece) -/
theorem blank_rules_agree (T : Table) (line : List Char) (f : Nat) :
    AgreeBlank T f (init line) ({ rest := line } : HState) := by
  have key : ∀ (f : Nat) (s : MState) (h : HState), Sim s h → Corr h.active s.rest → BlankInv T s h →
      AgreeBlank T f s h := by
    intro f
    induction f with
    | zero => intro _ _ _ _ _; trivial
    | succ f ih =>
      intro s h hs hco hb
      have hbl := blank_agree hs hco hb
      have hc := cand_agree (T := T) hs hco hbl
      refine ⟨hbl, ?_⟩
      intro s' h' e1 e2
      have hs' : Sim s' h' := by
        rcases sim_step hs hc with ⟨e, _⟩ | ⟨s'', h'', e1', e2', hsim⟩
        · rw [e] at e1; cases e1
        · rw [e1'] at e1; rw [e2'] at e2; cases e1; cases e2; exact hsim
      exact ih s' h' hs' (corr_step hs hco hc e1 e2) (blankinv_step hs hco hb hc e1 e2)
  exact key f _ _ (sim_init line) (corr_init line) (blankinv_init T line)

/-- non-vacuity: the hypothesis holds on a table with a cycle, blank-ending values, a quoted final blank and
    a non-ASCII value (byte length ≠ character length). -/
example : agreeB [⟨"a", "b ".toList, false⟩, ⟨"b", "c é ".toList, false⟩, ⟨"c", "a x\\ ".toList, false⟩,
      ⟨"g", "z".toList, true⟩]
    (fuelFor [⟨"a", "b ".toList, false⟩, ⟨"b", "c é ".toList, false⟩, ⟨"c", "a x\\ ".toList, false⟩,
      ⟨"g", "z".toList, true⟩] "a b \\\n c g; x a".toList)
    (init "a b \\\n c g; x a".toList) { rest := "a b \\\n c g; x a".toList } = true := by decide +kernel

/-! ## where every character comes from: origin chains = aliases being processed (extension round) -/

/-- ★ `model_origins_eq_spec`: for EVERY table and EVERY line, the origin chain the model's buffer records for
    every character (what the real lexer stores as `Source::Alias{original, alias}` nesting; printed by the harness
    from `Lexer::location_range`) is the list of aliases that were being processed, by hand, where that
    character stands (`regionNames` of the Spec's region stack; read characters keep the list they were read
    under) — no hypothesis about the run.  Together with `model_eq_spec` the whole origin-tagged buffer, not only
    its text, is predicted by the by-hand Spec. -/
theorem model_origins_eq_spec (T : Table) (line : List Char) :
    (substState T line).origins = (hrunC T (fuelFor T line) { h := { rest := line } }).origins := by
  obtain ⟨hs, hco, hl⟩ := origins_run (T := T) (fuelFor T line) (c := { h := { rest := line } })
    (sim_init line) (corr_init line) rfl (agree_always T line _)
  exact origins_final hs hco hl

/-- the origin log is an observer: the by-hand run with the log IS the by-hand run (`substHand`) -/
theorem origin_log_is_observer (T : Table) (line : List Char) :
    (hrunC T (fuelFor T line) { h := { rest := line } }).h = substHand T line :=
  hrunC_h T _ _

/-- every character has an origin: the list of origins is as long as the text -/
theorem origins_length (s : MState) : s.origins.length = s.text.length := by
  simp [MState.origins, MState.text]

/-- typed characters have no origin; the characters put in place of a word carry the alias' name in front of
    the origin of the word's first character (`LexerCore::substitute_alias`: `original =
    location_range(begin..end)`, whose code is the one of the first character) -/
theorem origins_of_splice (a : Alias) (c0 : SChar) (line : List Char) :
    (∀ c ∈ plain line, c.chain = []) ∧ ∀ c ∈ spliceChars a c0, c.chain = a.name :: c0.chain := by
  refine ⟨?_, ?_⟩
  · intro c hc
    simp only [plain, List.mem_map] at hc
    obtain ⟨_, _, rfl⟩ := hc
    rfl
  · intro c hc
    simp only [spliceChars, List.mem_map] at hc
    obtain ⟨_, _, rfl⟩ := hc
    rfl

/-- non-vacuity: the cycle `a → b → a` with a blank-ending value; the origins of the final buffer `a  x`
    (`a` out of `b` out of `a`; one blank out of `a`'s value, the typed blank and `x`). -/
example : (substState [⟨"a", "b ".toList, false⟩, ⟨"b", "a".toList, false⟩] "a x".toList).origins
    = [["b", "a"], ["a"], [], []] := by decide +kernel
example : (hrunC [⟨"a", "b ".toList, false⟩, ⟨"b", "a".toList, false⟩]
      (fuelFor [⟨"a", "b ".toList, false⟩, ⟨"b", "a".toList, false⟩] "a x".toList)
      { h := { rest := "a x".toList } }).origins
    = [["b", "a"], ["a"], [], []] := by decide +kernel

/-! ## end to end: what the driver runs (`lrun`, the line-by-line machine) -/

/-- Every step of the driver's machine IS a `step` of the model with the table current at that moment: all
    step theorems (`only_eligible`, `guard_by_name`, `argument_words_only_global`, `blank_chain`,
    `subst_measure_decreases`, …) speak about what the driver computes. -/
theorem lstep_step {l l' : LState} (h : lstep l = some l') : step l.T l.m = some l'.m := by
  unfold lstep at h
  split at h
  · cases h
  · rename_i m' hm
    rw [hm]
    split at h <;> (cases h; rfl)

/-- ★ end-to-end `only_eligible` for the driver: a step of the line machine leaves the text unchanged or
    replaces an unquoted literal word, taken with substitution enabled, whose name is not on the origin chain of
    its first character, which the CURRENT table defines, and which is in command position or global or after
    a blank-ending replacement. -/
theorem line_only_eligible {l l' : LState} (h : lstep l = some l') :
    l'.m.text = l.m.text ∨
    ∃ (c0 : SChar) (tl : List SChar) (a : Alias) (cmd : Bool) (name : String) (asg : Bool),
      l.m.rest.drop (skipLen l.m.rest) = c0 :: tl ∧
      (lexTok (c0 :: tl)).kind = .word (some name) asg ∧
      (trans l.m.st (lexTok (c0 :: tl)).kind).sub = some cmd ∧
      c0.isAliasFor name = false ∧
      l.T.lookup name = some a ∧
      (cmd = true ∨ a.global = true ∨
        afterBlank ((markLc (l.m.rest.take (skipLen l.m.rest))).reverse ++ l.m.pre) (some c0) = true) ∧
      l'.m.rest = spliceChars a c0 ++ tl.drop ((lexTok (c0 :: tl)).len - 1) :=
  only_eligible l.T l.m l'.m (lstep_step h)

/-- end-to-end: in argument position the line machine replaces only global aliases (or by the blank rule) -/
theorem line_argument_words_only_global {l l' : LState} (h : lstep l = some l')
    (hst : l.m.st = .one ∨ l.m.st = .args) :
    l'.m.text = l.m.text ∨
    ∃ (c0 : SChar) (tl : List SChar) (a : Alias) (name : String) (asg : Bool),
      l.m.rest.drop (skipLen l.m.rest) = c0 :: tl ∧
      (lexTok (c0 :: tl)).kind = .word (some name) asg ∧
      l.T.lookup name = some a ∧
      (a.global = true ∨
        afterBlank ((markLc (l.m.rest.take (skipLen l.m.rest))).reverse ++ l.m.pre) (some c0) = true) :=
  argument_words_only_global l.T l.m l'.m (lstep_step h) hst

/-- the table changes only when a substitution did NOT happen in that step (a token was consumed) -/
theorem line_table_fixed_on_substitution {l l' : LState} (h : lstep l = some l')
    (hs : l'.m.subs ≠ l.m.subs) : l'.T = l.T := by
  unfold lstep at h
  split at h
  · cases h
  · rename_i m' hm
    split at h
    · cases h; rfl
    · rename_i hne
      cases h
      simp only [bne_iff_ne, ne_eq, Decidable.not_not] at hne
      exact absurd hne hs

/-! ## reserved words, operators and redirections emerging from replacement text -/

/-- Tokenisation looks at character values only, never at origins: text that came out of a replacement is
    tokenised exactly like typed text. -/
theorem lexing_ignores_origins (l l' : List SChar) (h : chars l = chars l') :
    lexTok l = lexTok l' ∧ skipLen l = skipLen l' := by
  unfold lexTok skipLen
  rw [h]
  exact ⟨rfl, rfl⟩

/-- ★ After a substitution the lexer rescans from the start of the replacement: the unconsumed text is
    `value ++ remaining text` as plain characters, so the next token — reserved word, operator, redirection,
    IO_NUMBER, assignment or word — is whatever that text starts with, and the position automaton `trans` sees
    only its kind. -/
theorem rescan_after_substitution (T : Table) (s s' : MState) (h : step T s = some s')
    (hsub : s'.subs ≠ s.subs) :
    ∃ (c0 : SChar) (tl : List SChar) (a : Alias),
      s.rest.drop (skipLen s.rest) = c0 :: tl ∧
      chars s'.rest = a.value ++ chars (tl.drop ((lexTok (c0 :: tl)).len - 1)) ∧
      lexTok (s'.rest.drop (skipLen s'.rest)) =
        lexTokC ((a.value ++ chars (tl.drop ((lexTok (c0 :: tl)).len - 1))).drop
          (skipLenC (a.value ++ chars (tl.drop ((lexTok (c0 :: tl)).len - 1))))) := by
  unfold step at h
  simp only at h
  split at h
  · cases h
  · rename_i c0 tl hdrop
    split at h
    · rename_i a hel
      cases h
      refine ⟨c0, tl, a, hdrop, ?_, ?_⟩
      · simp only [chars_append, chars_splice]
      · unfold lexTok skipLen
        simp only [chars_drop, chars_append, chars_splice]
    · cases h
      exact absurd rfl hsub

/-- A reserved word where a command may start is taken raw — never replaced, even if an alias of that name
    exists; likewise the `in` of `case`/`for`, the `do` of `for`, and `esac` after `(`. -/
theorem reserved_word_never_replaced (lit : Option String) (asg : Bool) :
    (isKeyword lit = true → (trans .cmd0 (.word lit asg)).sub = none) ∧
    (lit = some "in" → (trans .caseIn (.word lit asg)).sub = none ∧ ∀ fl, (trans (.forIn fl) (.word lit asg)).sub = none) ∧
    (lit = some "do" → (∀ fl, (trans (.forIn fl) (.word lit asg)).sub = none) ∧ (trans .forBody (.word lit asg)).sub = none) ∧
    (lit = some "esac" → (trans .casePat0 (.word lit asg)).sub = none ∧ (trans .casePat1 (.word lit asg)).sub = none) := by
  refine ⟨?_, ?_, ?_, ?_⟩
  · intro h; simp [trans, transCore, h]
  · intro h; subst h; simp [trans, transCore]
  · intro h; subst h; simp [trans, transCore]
  · intro h; subst h; simp [trans, transCore]

/-- operators and IO_NUMBERs are never replaced, in any state -/
theorem operators_never_replaced (T : Table) (before : List SChar) (c0 : SChar) (sub : Option Bool) (s : String) :
    eligible T before c0 (.op s) sub = none ∧ eligible T before c0 .io sub = none := by
  cases sub <;> exact ⟨rfl, rfl⟩

/-- non-vacuity: `if` from a replacement is recognised (the next word is in command position again), the `>` of a
    replacement makes the next word a redirection operand (not replaced), the `;` of a replacement puts the next
    word in command position, and an alias named `then` does not touch the reserved word. -/
example : substText [⟨"i", "if".toList, false⟩, ⟨"r", "x >".toList, false⟩, ⟨"s", "y; a".toList, false⟩,
      ⟨"a", "A".toList, false⟩, ⟨"then", "X".toList, false⟩] "i a; then r a; s; fi".toList
      = "if A; then x > a; y; A; fi".toList := by decide +kernel

/-- non-vacuity for the blank rule with a value whose byte length differs from its character length: the
    word after the blank-ending, non-ASCII value IS substituted (seeded change "byte vs char"). -/
example : substText [⟨"e", "echo é ".toList, false⟩, ⟨"b", "B".toList, false⟩] "e b".toList
    = "echo é  B".toList := by decide +kernel
example : substText [⟨"c", "あ ".toList, false⟩] "c c".toList = "あ  あ ".toList := by decide +kernel

/-! ## the Spec is characterised too -/

/-- text of a by-hand state -/
def HState.text (h : HState) : List Char := h.out.reverse ++ h.rest

/-- ★ the by-hand Spec meets its declarative description: a step leaves the text unchanged, or replaces the
    next word `name` by the value of the alias the table defines for it, where `name` is an unquoted literal
    word read where substitution is enabled, no alias of that name is being processed at the word's first
    character, and the word is in command position, or the alias is global, or the blank flag is set. -/
theorem spec_only_eligible (T : Table) (h h' : HState) (hs : hstep T h = some h') :
    h'.text = h.text ∨
    ∃ (a : Alias) (name : String) (asg cmd : Bool) (c : Char) (t : List Char),
      h.rest.drop (skipLenC h.rest) = c :: t ∧
      (lexTokC (c :: t)).kind = .word (some name) asg ∧
      (trans h.st (.word (some name) asg)).sub = some cmd ∧
      (activeAt h.active (c :: t).length).any (fun x => x.name == name) = false ∧
      T.lookup name = some a ∧
      (cmd = true ∨ a.global = true ∨ flagRun h.active true (skipLenC h.rest) h.tb h.rest = true) ∧
      h'.rest = a.value ++ t.drop ((lexTokC (c :: t)).len - 1) := by
  cases hd : h.rest.drop (skipLenC h.rest) with
  | nil => unfold hstep at hs; simp only [hd] at hs; cases hs
  | cons c t =>
    cases hc : hcand T h with
    | none =>
      left
      rw [hstep_take hd hc] at hs
      cases hs
      unfold HState.text
      have h1 : h.rest = h.rest.take (skipLenC h.rest) ++ (c :: t) := by rw [← hd, List.take_append_drop]
      have h2 : t = t.take (spanLenC h.hd h.st (c :: t)) ++ t.drop (spanLenC h.hd h.st (c :: t)) :=
        (List.take_append_drop ..).symm
      conv => rhs; rw [h1]
      simp only [List.reverse_append, List.reverse_cons, List.reverse_reverse, List.append_assoc,
        List.cons_append, List.nil_append]
      conv => rhs; rw [h2]
    | some a =>
      right
      have hs' := hs
      rw [hstep_subst hd hc] at hs'
      cases hs'
      unfold hcand at hc
      simp only [hd] at hc
      split at hc
      · rename_i cmd name asg hsub hkind
        split at hc
        · cases hc
        · rename_i hany
          split at hc
          · rename_i a' hl
            split at hc
            · rename_i hwhy
              cases hc
              refine ⟨a, name, asg, cmd, c, t, rfl, hkind, by rw [← hkind]; exact hsub, by simpa using hany, hl, ?_, rfl⟩
              simp only [Bool.or_eq_true] at hwhy
              rcases hwhy with (h1 | h2) | h3
              · exact Or.inl h1
              · exact Or.inr (Or.inl h2)
              · exact Or.inr (Or.inr h3)
            · cases hc
          · cases hc
      · cases hc



/-! ## the driver's two columns: line machine of the model vs line machine of the Spec -/

/-- the two line machines are in step: same table, same line tracking, same text/position/tokens -/
def LSim (l : LState) (g : HLState) : Prop := g.T = l.T ∧ g.tr = l.tr ∧ Sim l.m g.h

/-- both line machines choose the same alias at every step of a lock-step run of `f` steps -/
def LAgree : Nat → LState → HLState → Prop
  | 0, _, _ => True
  | f + 1, l, g =>
    mcand l.T l.m = hcand g.T g.h ∧ ∀ l' g', lstep l = some l' → hlstep g = some g' → LAgree f l' g'

theorem tokOutC_ne_nil (hd : Pending) (st : PState) (r : List Char) : tokOutC hd st r ≠ [] := by
  unfold tokOutC
  simp only
  split <;> simp

/-- one lock step of the line machines -/
theorem lsim_step {l : LState} {g : HLState} (hs : LSim l g) (hc : mcand l.T l.m = hcand g.T g.h) :
    (lstep l = none ∧ hlstep g = none) ∨
    ∃ l' g', lstep l = some l' ∧ hlstep g = some g' ∧ LSim l' g' := by
  obtain ⟨hT, htr, hsim⟩ := hs
  rw [hT] at hc
  have hsim' := hsim
  obtain ⟨hr, ho, hst, htk, hhd⟩ := hsim
  have hk : skipLenC g.h.rest = skipLen l.m.rest := by rw [hr]; rfl
  unfold mcand at hc
  cases hdrop : l.m.rest.drop (skipLen l.m.rest) with
  | nil =>
    left
    have hd : g.h.rest.drop (skipLenC g.h.rest) = [] := by rw [hk, hr, ← chars_drop, hdrop]; rfl
    refine ⟨?_, ?_⟩
    · unfold lstep step; simp only [hdrop]
    · unfold hlstep hstep; simp only [hd]
  | cons c0 tl =>
    right
    rw [hdrop] at hc
    simp only at hc
    have hd : g.h.rest.drop (skipLenC g.h.rest) = c0.c :: chars tl := by
      rw [hk, hr, ← chars_drop, hdrop]; rfl
    have htok : lexTokC (c0.c :: chars tl) = lexTok (c0 :: tl) := rfl
    cases hel : eligible l.T ((markLc (l.m.rest.take (skipLen l.m.rest))).reverse ++ l.m.pre) c0
        (lexTok (c0 :: tl)).kind (trans l.m.st (lexTok (c0 :: tl)).kind).sub with
    | some a =>
      rw [hel] at hc
      have e1 := step_subst hdrop hel
      have e2 := hstep_subst (T := l.T) hd hc.symm
      rcases sim_step hsim' (T := l.T) (by unfold mcand; rw [hdrop]; simp only; rw [hel]; exact hc) with
        ⟨e, _⟩ | ⟨s'', h'', e1', e2', hsim2⟩
      · rw [e1] at e; cases e
      · rw [e1] at e1'; rw [e2] at e2'
        cases e1'; cases e2'
        refine ⟨{ l with m :=
              { pre := (markLc (l.m.rest.take (skipLen l.m.rest))).reverse ++ l.m.pre,
                rest := spliceChars a c0 ++ tl.drop ((lexTok (c0 :: tl)).len - 1),
                st := (trans l.m.st (lexTok (c0 :: tl)).kind).onSub, subs := l.m.subs + 1, toks := l.m.toks,
                hd := l.m.hd } },
          { g with h :=
              { out := (g.h.rest.take (skipLenC g.h.rest)).reverse ++ g.h.out,
                rest := a.value ++ (chars tl).drop ((lexTokC (c0.c :: chars tl)).len - 1),
                active := { name := a.name,
                            endRem := ((chars tl).drop ((lexTokC (c0.c :: chars tl)).len - 1)).length,
                            eb := endsBlank a.value } ::
                  (activeAt g.h.active ((chars tl).length + 1)).map
                    (clamp ((chars tl).drop ((lexTokC (c0.c :: chars tl)).len - 1)).length),
                st := (trans g.h.st (lexTokC (c0.c :: chars tl)).kind).onSub, toks := g.h.toks, hd := g.h.hd,
                tb := flagRun g.h.active true (skipLenC g.h.rest) g.h.tb g.h.rest } }, ?_, ?_, hT, htr, hsim2⟩
        · unfold lstep; rw [e1]; simp
        · unfold hlstep; rw [hT, e2]; simp
    | none =>
      rw [hel] at hc
      have e1 := step_take hdrop hel
      have e2 := hstep_take (T := l.T) hd hc.symm
      rcases sim_step hsim' (T := l.T) (by unfold mcand; rw [hdrop]; simp only; rw [hel]; exact hc) with
        ⟨e, _⟩ | ⟨s'', h'', e1', e2', hsim2⟩
      · rw [e1] at e; cases e
      · rw [e1] at e1'; rw [e2] at e2'
        cases e1'; cases e2'
        have hraw : chars ((c0 :: tl).take (lexTok (c0 :: tl)).len) = (c0.c :: chars tl).take (lexTokC (c0.c :: chars tl)).len := by
          rw [chars_take]; rfl
        rcases htt : trackTok l.m.st (lexTok (c0 :: tl)).kind (trans l.m.st (lexTok (c0 :: tl)).kind).sub
            (chars ((c0 :: tl).take (lexTok (c0 :: tl)).len)) l.tr with ⟨tr', cmds⟩
        have hsp : spanLenC g.h.hd g.h.st (c0.c :: chars tl) = spanLen l.m c0 tl := by
          unfold spanLen; rw [hhd, hst]; rfl
        refine ⟨{ T := cmds.foldl applyCmd l.T,
                  m := { pre := (tl.take (spanLen l.m c0 tl)).reverse ++ c0 ::
                           ((markLc (l.m.rest.take (skipLen l.m.rest))).reverse ++ l.m.pre),
                         rest := tl.drop (spanLen l.m c0 tl),
                         st := (trans l.m.st (lexTok (c0 :: tl)).kind).onTake, subs := l.m.subs,
                         toks := tokOutC l.m.hd l.m.st (chars (c0 :: tl)) ++ l.m.toks,
                         hd := hdNextC l.m.hd l.m.st (chars (c0 :: tl)) },
                  tr := tr' },
          { T := cmds.foldl applyCmd l.T,
            h := { out := ((chars tl).take (spanLenC g.h.hd g.h.st (c0.c :: chars tl))).reverse ++ c0.c ::
                     ((g.h.rest.take (skipLenC g.h.rest)).reverse ++ g.h.out),
                   rest := (chars tl).drop (spanLenC g.h.hd g.h.st (c0.c :: chars tl)),
                   active := activeAt g.h.active ((chars tl).drop (spanLenC g.h.hd g.h.st (c0.c :: chars tl))).length,
                   st := (trans g.h.st (lexTokC (c0.c :: chars tl)).kind).onTake,
                   toks := tokOutC g.h.hd g.h.st (c0.c :: chars tl) ++ g.h.toks,
                   hd := hdNextC g.h.hd g.h.st (c0.c :: chars tl),
                   tb := flagRun g.h.active false (spanLenC g.h.hd g.h.st (c0.c :: chars tl) + 1)
                     (flagRun g.h.active true (skipLenC g.h.rest) g.h.tb g.h.rest) (c0.c :: chars tl) },
            tr := tr' }, ?_, ?_, rfl, rfl, hsim2⟩
        · unfold lstep; rw [e1]
          simp only [bne_self_eq_false, Bool.false_eq_true, ↓reduceIte, hdrop, htt]
        · unfold hlstep; rw [hT, e2]
          have hlen : ¬ ((tokOutC g.h.hd g.h.st (c0.c :: chars tl) ++ g.h.toks).length = g.h.toks.length) := by
            have := tokOutC_ne_nil g.h.hd g.h.st (c0.c :: chars tl)
            have h2 : 0 < (tokOutC g.h.hd g.h.st (c0.c :: chars tl)).length := List.length_pos_iff.mpr this
            simp only [List.length_append]; omega
          simp only [beq_iff_eq, hlen, ↓reduceIte, hd]
          have htt' : trackTok g.h.st (lexTokC (c0.c :: chars tl)).kind (trans g.h.st (lexTokC (c0.c :: chars tl)).kind).sub
              ((c0.c :: chars tl).take (lexTokC (c0.c :: chars tl)).len) g.tr = (tr', cmds) := by
            rw [hst, htr, ← hraw]; exact htt
          simp only [htt']


theorem lsim_run (f : Nat) {l : LState} {g : HLState} (hs : LSim l g) (ha : LAgree f l g) :
    LSim (lrun f l).1 (hlrun f g) := by
  induction f generalizing l g with
  | zero => simpa [lrun, hlrun] using hs
  | succ f ih =>
    obtain ⟨hc, hnext⟩ := ha
    rcases lsim_step hs hc with ⟨h1, h2⟩ | ⟨l', g', h1, h2, h3⟩
    · unfold lrun hlrun; simp only [h1, h2]; exact hs
    · unfold lrun hlrun; simp only [h1, h2]
      exact ih h3 (hnext l' g' h1 h2)

/-- ☆ (partial) The driver's two columns: if the line machine of the model and the line machine of the Spec
    (alias table updated by `alias`/`unalias` after every command line) choose the same alias at every step,
    they end with the same text, the same tokens, the same pending here-documents and the same final table —
    i.e. the model observation and the Spec observation printed by the driver are the same string.
    MISSING for the unconditional statement: `LAgree` always holds.  The recursion guards agree for any sequence
    of tables (`Corr` does not mention the table); the proof of the blank rule (`BlankInv`) uses `ebOf T`, the
    table entry of a name on a chain, which a redefinition invalidates — it has to be restated with the `eb`
    recorded when the value was spliced. -/
theorem line_model_eq_spec_partial (T : Table) (line : List Char) (f : Nat)
    (hA : LAgree f { T := T, m := init line } { T := T, h := { rest := line } }) :
    let l := (lrun f { T := T, m := init line }).1
    let g := hlrun f { T := T, h := { rest := line } }
    l.m.text = g.h.out.reverse ++ g.h.rest ∧ l.m.toks = g.h.toks ∧ l.m.hd = g.h.hd ∧
      l.finalTable = g.finalTable := by
  intro l g
  have hs : LSim { T := T, m := init line } ({ T := T, h := { rest := line } } : HLState) :=
    ⟨rfl, rfl, sim_init line⟩
  obtain ⟨hT, htr, hr, ho, hst, htk, hhd⟩ := lsim_run f hs hA
  refine ⟨?_, htk.symm, hhd.symm, ?_⟩
  · show (l.m.pre.reverse ++ l.m.rest).map (·.c) = g.h.out.reverse ++ g.h.rest
    rw [hr, ho]; simp [chars]; rfl
  · unfold LState.finalTable HLState.finalTable
    rw [hT, htr, hst]

theorem hlstep_hstep {g g' : HLState} (h : hlstep g = some g') : hstep g.T g.h = some g'.h := by
  unfold hlstep at h
  split at h
  · cases h
  · rename_i h' hh
    rw [hh]
    split at h <;> (cases h; rfl)

/-- lock-step run of the two line machines with the origin log -/
theorem lorigins_run (f : Nat) {l : LState} {c : HLCState}
    (hs : LSim l c.l) (hco : Corr c.l.h.active l.m.rest) (hl : c.log = l.m.pre.map (·.chain))
    (ha : LAgree f l c.l) :
    LSim (lrun f l).1 (hlrunC f c).l ∧ Corr (hlrunC f c).l.h.active (lrun f l).1.m.rest ∧
      (hlrunC f c).log = (lrun f l).1.m.pre.map (·.chain) := by
  induction f generalizing l c with
  | zero => exact ⟨hs, hco, hl⟩
  | succ f ih =>
    obtain ⟨hc, hnext⟩ := ha
    rcases lsim_step hs hc with ⟨e1, e2⟩ | ⟨l', g', e1, e2, hsim⟩
    · unfold lrun hlrunC hlstepC; simp only [e1, e2]; exact ⟨hs, hco, hl⟩
    · unfold lrun hlrunC hlstepC; simp only [e1, e2]
      have m1 := lstep_step e1
      have m2 := hlstep_hstep e2
      rw [hs.1] at m2 hc
      apply ih (c := { l := g', log := hlog c.l.h g'.h c.log }) hsim
        (corr_step hs.2.2 hco hc m1 m2)
      · rw [hl]; exact origins_step hs.2.2 hsim.2.2 hco m1
      · exact hnext l' g' e1 e2

/-- ☆ (partial, same missing piece as `line_model_eq_spec_partial`: `LAgree` always holds) The driver's origin
    column: if the two line machines choose the same alias at every step, the origin chains of the model's
    buffer are the by-hand "aliases being processed" lists — for alias tables changing between command lines
    (neither side of the equation looks at the table: chains and regions record NAMES at replacement time). -/
theorem line_origins_eq_spec_partial (T : Table) (line : List Char) (f : Nat)
    (hA : LAgree f { T := T, m := init line } { T := T, h := { rest := line } }) :
    (lrun f { T := T, m := init line }).1.m.origins
      = (hlrunC f { l := { T := T, h := { rest := line } } }).origins := by
  obtain ⟨hs, hco, hl⟩ := lorigins_run f (l := { T := T, m := init line })
    (c := { l := { T := T, h := { rest := line } } }) ⟨rfl, rfl, sim_init line⟩ (corr_init line) rfl hA
  exact origins_final hs.2.2 hco hl

theorem lagree_of_lagreeB (f : Nat) {l : LState} {g : HLState} (hb : lagreeB f l g = true) : LAgree f l g := by
  induction f generalizing l g with
  | zero => trivial
  | succ f ih =>
    unfold lagreeB at hb
    simp only [Bool.and_eq_true, decide_eq_true_eq] at hb
    refine ⟨hb.1, ?_⟩
    intro l' g' h1 h2
    have := hb.2
    simp only [h1, h2] at this
    exact ih this

/-- non-vacuity: the redefinition script of the seeded change (the alias redefines itself on the first line of
    its own replacement, the `a` on the second line is left alone): model and Spec agree at every step. -/
example : lagreeB 200
    ({ T := [⟨"a", "alias a=REDEF\na second ".toList, false⟩, ⟨"b", "x".toList, false⟩],
       m := init "a b\na".toList } : LState)
    ({ T := [⟨"a", "alias a=REDEF\na second ".toList, false⟩, ⟨"b", "x".toList, false⟩],
       h := ({ rest := "a b\na".toList } : HState) } : HLState) = true := by decide +kernel



/-- What the driver evaluates on EVERY generated case (`Main.lean` prints `=LAGREE-FAILED` in the Spec column if the
    certificate is false): when `lagreeB` holds, text, tokens, pending here-documents, final table and the origin of
    every character agree between the model's line machine and the by-hand line machine — by theorem, for that table
    and script, with the table changing between command lines. -/
theorem line_model_eq_spec_checked (T : Table) (line : List Char) (f : Nat)
    (hb : lagreeB f { T := T, m := init line } { T := T, h := { rest := line } } = true) :
    let l := (lrun f { T := T, m := init line }).1
    let g := hlrun f { T := T, h := { rest := line } }
    (l.m.text = g.h.out.reverse ++ g.h.rest ∧ l.m.toks = g.h.toks ∧ l.m.hd = g.h.hd ∧
      l.finalTable = g.finalTable) ∧
    l.m.origins = (hlrunC f { l := { T := T, h := { rest := line } } }).origins :=
  ⟨line_model_eq_spec_partial T line f (lagree_of_lagreeB f hb),
   line_origins_eq_spec_partial T line f (lagree_of_lagreeB f hb)⟩

/-- the driver's Spec column runs `hlrunC`; its by-hand state is that of `hlrun` (the log only observes), so
    `line_model_eq_spec_partial` and `spec_only_eligible` speak about what the driver prints -/
theorem line_origin_log_is_observer (f : Nat) (c : HLCState) : (hlrunC f c).l = hlrun f c.l := hlrunC_l f c

/-- non-vacuity of `line_origins_eq_spec_partial`: the redefinition script (the table changes while `a`'s value
    is being read) — `LAgree` holds (certificate `lagreeB`), and the origins are those of the OLD `a`. -/
example : ((lrun 200 { T := [⟨"a", "alias a=R\na x ".toList, false⟩], m := init "a a".toList }).1.m.origins)
    = [["a"], ["a"], ["a"], ["a"], ["a"], ["a"], ["a"], ["a"], ["a"], ["a"], ["a"], ["a"], ["a"], ["a"],
       [], ["a"]] := by decide +kernel
example : ((hlrunC 200 { l := { T := [⟨"a", "alias a=R\na x ".toList, false⟩], h := { rest := "a a".toList } } }).origins)
    = [["a"], ["a"], ["a"], ["a"], ["a"], ["a"], ["a"], ["a"], ["a"], ["a"], ["a"], ["a"], ["a"], ["a"],
       [], ["a"]] := by decide +kernel

/-! ## non-vacuity of the step theorems: concrete states that meet their hypotheses (audit of this round) -/

/-- `subst_measure_decreases`: the self-referential `a='a a '` — `Inv` holds initially (`inv_init`), a step exists,
    and it decreases the measure. -/
example : (step [⟨"a", "a a ".toList, false⟩] (init "a".toList)).isSome = true := by decide +kernel
example : ∀ s', step [⟨"a", "a a ".toList, false⟩] (init "a".toList) = some s' →
    mu [⟨"a", "a a ".toList, false⟩] s'.rest < mu [⟨"a", "a a ".toList, false⟩] (init "a".toList).rest :=
  fun s' h => subst_measure_decreases _ _ s' (inv_init _ _) h

/-- `blank_chain_rule`: one typed blank (`gap`), then the final blank `b` of a blank-ending value of `a`; the next
    token's first character is not from `a`. -/
example : afterBlank ([({ c := ' ' } : SChar)] ++ ({ c := ' ', chain := ["a"], eb := true } : SChar) :: [])
    (some { c := 'b' }) = true :=
  blank_chain_rule [{ c := ' ' }] { c := ' ', chain := ["a"], eb := true } [] { c := 'b' } "a" []
    (by decide) (by decide) rfl rfl (by decide)

/-- `blank_chain` (the step): after `a` → `x ` was read, the ARGUMENT `b` meets every hypothesis (taken with
    substitution enabled but not in command position, not on its own chain, defined, after a blank-ending value) -/
example :
    ((run [⟨"a", "x ".toList, false⟩, ⟨"b", "y".toList, false⟩] 2 (init "a b".toList)).1.rest.drop
      (skipLen (run [⟨"a", "x ".toList, false⟩, ⟨"b", "y".toList, false⟩] 2 (init "a b".toList)).1.rest)
        = [({ c := 'b' } : SChar)]) ∧
    (lexTok [({ c := 'b' } : SChar)]).kind = .word (some "b") false ∧
    (trans (run [⟨"a", "x ".toList, false⟩, ⟨"b", "y".toList, false⟩] 2 (init "a b".toList)).1.st
      (.word (some "b") false)).sub = some false ∧
    afterBlank ((markLc ((run [⟨"a", "x ".toList, false⟩, ⟨"b", "y".toList, false⟩] 2 (init "a b".toList)).1.rest.take
        (skipLen (run [⟨"a", "x ".toList, false⟩, ⟨"b", "y".toList, false⟩] 2 (init "a b".toList)).1.rest))).reverse ++
      (run [⟨"a", "x ".toList, false⟩, ⟨"b", "y".toList, false⟩] 2 (init "a b".toList)).1.pre)
      (some { c := 'b' }) = true := by decide +kernel

/-- `err_unchanged`, `raw_unchanged`: a state after a syntax error still steps (and consumes the alias name raw) -/
example : (step [⟨"a", "x".toList, false⟩] { rest := plain "a".toList, st := .err }).isSome = true ∧
    (trans .err (lexTok (plain "a".toList)).kind).sub = none := by decide +kernel

/-- `argument_words_only_global`, `noncommand_unchanged`: argument position, a non-global alias, no blank-ending
    value before it: the step exists and leaves the text alone -/
example : (step [⟨"a", "x".toList, false⟩] { rest := plain " a".toList, pre := plain "c".toList, st := .one }).isSome = true ∧
    ((step [⟨"a", "x".toList, false⟩] { rest := plain " a".toList, pre := plain "c".toList, st := .one }).map (·.text))
      = some "c a".toList ∧
    (trans .one (lexTok (plain "a".toList)).kind).sub = some false ∧
    afterBlank ((markLc (plain " ".toList)).reverse ++ plain "c".toList) (some { c := 'a' }) = false := by
  decide +kernel

/-- `nonliteral_unchanged`: a quoted word is no `.word (some _)` token -/
example : (lexTok (plain "'a'".toList)).kind = .word none false := by decide +kernel

/-! ## the `alias` / `unalias` built-ins, declaratively (extension round)

  The substitution machine reads the table only through `Table.lookup`.  What POSIX says the built-ins do —
  "alias name=value defines the alias", "unalias name removes the definition", "unalias -a removes all" — is stated
  here about `lookup`, for the model functions the driver's line machine applies between command lines
  (`applyCmd`; the real built-ins run in the harness and the final table is part of the observation). -/

/-- ★ `alias name=value`: afterwards `name` is defined with exactly `value` (non-global, the built-in has no `-g`),
    every other name is looked up as before — whatever was defined before (redefinition replaces). The name is
    everything before the FIRST `=` (so the value may contain `=`, and the name may be empty). -/
theorem alias_defines (T : Table) (n v : List Char) (hn : '=' ∉ n) :
    (defineAlias T (n ++ '=' :: v)).lookup (String.ofList n)
      = some { name := String.ofList n, value := v, global := false } ∧
    ∀ m, m ≠ String.ofList n → (defineAlias T (n ++ '=' :: v)).lookup m = T.lookup m := by
  rw [defineAlias_eq T n v hn]
  refine ⟨by simp [Table.lookup], ?_⟩
  intro m hm
  have e : ((String.ofList n) == m) = false := by simpa using fun h : String.ofList n = m => hm h.symm
  show List.find? _ (_ :: _) = _
  rw [List.find?_cons]
  simp only [e]
  exact lookup_filter_ne T _ m hm

/-- an operand without `=` defines nothing (the built-in prints that alias or reports an error) -/
theorem alias_without_eq (T : Table) (arg : List Char) (h : '=' ∉ arg) : defineAlias T arg = T := by
  unfold defineAlias
  simp [takeWhile_ne_all arg h]

/-- ★ the whole `alias` command with one operand, quoting included: after quote removal the word is `name=value`
    (name not option-like); the table then answers `value` for `name` and is unchanged elsewhere. -/
theorem alias_command_defines (T : Table) (w n v : List Char)
    (hw : unquote .un w = n ++ '=' :: v) (hn : '=' ∉ n) (hdash : n.head? ≠ some '-') :
    (applyCmd T ["alias".toList, w]).lookup (String.ofList n)
      = some { name := String.ofList n, value := v, global := false } ∧
    ∀ m, m ≠ String.ofList n → (applyCmd T ["alias".toList, w]).lookup m = T.lookup m := by
  have h0 : unquote .un "alias".toList = "alias".toList := by decide +kernel
  have hhead : (n ++ '=' :: v).head? ≠ some '-' := by
    cases n with
    | nil => simp
    | cons c t => simpa using hdash
  have : applyCmd T ["alias".toList, w] = defineAlias T (n ++ '=' :: v) := by
    unfold applyCmd runCmd
    simp only [List.map_cons, List.map_nil, h0, hw, beq_self_eq_true, ↓reduceIte]
    unfold runAlias
    rw [parse_operands_first _ _ _ _ hhead]
    simp only [List.isEmpty_cons, Bool.false_eq_true, ↓reduceIte]
    rw [foldl_aliasOperand_T]
    rfl
  rw [this]
  exact alias_defines T n v hn

/-- ★ `unalias name…` (operands only, the first one not option-like): exactly the named aliases are gone,
    every other name is looked up as before; naming an alias twice or naming an undefined one changes nothing
    else. -/
theorem unalias_command_removes (T : Table) (ws : List (List Char))
    (hfirst : ∀ a, (ws.map (unquote .un)).head? = some a → a.head? ≠ some '-') (m : String) :
    (applyCmd T ("unalias".toList :: ws)).lookup m
      = if (ws.map (unquote .un)).contains m.toList then none else T.lookup m := by
  have h0 : unquote .un "unalias".toList = "unalias".toList := by decide +kernel
  have hne : ("unalias".toList == "alias".toList) = false := by decide +kernel
  unfold applyCmd runCmd
  simp only [List.map_cons, h0, hne, Bool.false_eq_true, ↓reduceIte, beq_self_eq_true]
  unfold runUnalias
  cases h : ws.map (unquote .un) with
  | nil =>
    have : Args.parseArguments [{ short := some 'a' }] Args.Mode.withExtensions [] = .ok ([], []) := rfl
    rw [this]
    simp
  | cons a rest =>
    have hh := hfirst a (by rw [h]; rfl)
    rw [parse_operands_first _ _ _ _ hh]
    simp only [List.isEmpty_nil, ↓reduceIte, List.isEmpty_cons, Bool.false_eq_true]
    rw [foldl_unaliasOperand_T]
    exact lookup_filter_not_mem T _ m

/-- `unalias -a` removes every definition -/
theorem unalias_all (T : Table) : applyCmd T ["unalias".toList, "-a".toList] = [] := by
  have h1 : ["unalias".toList, "-a".toList].map (unquote .un) = ["unalias".toList, "-a".toList] := by decide +kernel
  have hne : ("unalias".toList == "alias".toList) = false := by decide +kernel
  have hp : Args.parseArguments [{ short := some 'a' }] Args.Mode.withExtensions ["-a".toList]
      = .ok ([⟨{ short := some 'a' }, .short 1, none⟩], []) := by rfl
  unfold applyCmd runCmd
  rw [h1]
  simp only [hne, Bool.false_eq_true, ↓reduceIte, beq_self_eq_true]
  unfold runUnalias
  rw [hp]
  rfl

/-- non-vacuity: quoting in the operand (`alias 'a b'=\"x y\"` is not generated, but `alias a='x y '` is):
    the hypotheses of `alias_command_defines` hold for a quoted value with a final blank, and the result is
    what the blank rule then reads. -/
example : unquote .un "a='x y '".toList = "a".toList ++ '=' :: "x y ".toList := by decide +kernel
example : ((applyCmd [⟨"a", "old".toList, true⟩] ["alias".toList, "a='x y '".toList]).lookup "a")
    = some ⟨"a", "x y ".toList, false⟩ := by decide +kernel
example : ((applyCmd [⟨"a", "A".toList, false⟩, ⟨"b", "B".toList, true⟩] ["unalias".toList, "a".toList, "zz".toList]).map
    (·.name)) = ["b"] := by decide +kernel
/-- the name is everything before the first `=`: `alias a==b` defines `a` as `=b`; `alias =x` defines the empty
    name (found by this round: the model used to ignore it) -/
example : ((applyCmd [] ["alias".toList, "a==b".toList]).map fun a => (a.name, a.value)) = [("a", "=b".toList)] := by
  decide +kernel
example : ((applyCmd [] ["alias".toList, "=x".toList]).map fun a => (a.name, a.value)) = [("", "x".toList)] := by
  decide +kernel

/-! ## the constants of the model are the code's tables (re-extracted from /repo on every run) -/

/-- the operator table: `operators` is the set of key paths of the `OPERATORS` trie (op.rs); every operator has at
    most three characters and each of its proper prefixes is an operator (what the staged `lexOp` relies on);
    `isOpChar` is membership in the root node's keys, which are the operators' first characters. -/
theorem operators_are_the_code_table :
    operators = YashModel.Generated.AliasTables.operators.map String.toList ∧
    (∀ s ∈ YashModel.Generated.AliasTables.operators, s.toList.length ≤ 3 ∧
      ∀ k, k < s.toList.length → 0 < k → isOperator (s.toList.take k) = true) ∧
    (∀ c, isOpChar c = YashModel.Generated.AliasTables.operatorFirstChars.contains c) ∧
    (∀ c, c ∈ YashModel.Generated.AliasTables.operatorFirstChars ↔
      ∃ s ∈ YashModel.Generated.AliasTables.operators, s.toList.head? = some c) :=
  ⟨operators_generated, operators_prefix_closed, isOpChar_generated, operatorFirstChars_generated⟩

/-- the reserved words are the texts `Keyword::from_str` accepts (keyword.rs) -/
theorem keywords_are_the_code_table : keywords = YashModel.Generated.AliasTables.keywords := keywords_generated

/-- which operators start a redirection whose operand is taken with `take_token_auto` (`TryFrom<Operator> for
    RedirOp`), which start a here-document, and the `remove_tabs` flag of `<<-` (redir.rs) -/
theorem redirection_operators_are_the_code_table :
    ∀ s ∈ YashModel.Generated.AliasTables.operators,
      isRedirOp s = YashModel.Generated.AliasTables.redirOps.contains s ∧
      isHereOp s = (YashModel.Generated.AliasTables.hereDocOps.map (·.1)).contains s ∧
      (isHereOp s = true → YashModel.Generated.AliasTables.hereDocOps.lookup s = some (s == "<<-")) :=
  redir_ops_generated

/-- ★ `isBlank` IS `is_blank` of lex/core.rs — `c != '\n' && c.is_whitespace()` — for every character, the Unicode
    `White_Space` characters included (so the blank rule, the token delimiters and `endsBlank` treat NBSP, EM
    SPACE, IDEOGRAPHIC SPACE … as the code does; these are generated now). -/
theorem blank_is_the_code_predicate (c : Char) : isBlank c = YashModel.Generated.AliasTables.isBlankGen c :=
  isBlank_generated c

/-- `endsBlank` = `ends_with_blank`: the LAST character of the value is a blank (so a value ending in a multi-byte
    blank, or consisting of one, is blank-ending; an empty value is not) -/
theorem endsBlank_spec (v : List Char) :
    endsBlank v = true ↔ ∃ front c, v = front ++ [c] ∧ YashModel.Generated.AliasTables.isBlankGen c = true := by
  unfold endsBlank
  constructor
  · intro h
    split at h
    · rename_i c hc
      obtain ⟨front, hv⟩ : ∃ front, v = front ++ [c] := List.getLast?_eq_some_iff.mp hc
      exact ⟨front, c, hv, by rw [← isBlank_generated]; exact h⟩
    · cases h
  · rintro ⟨front, c, rfl, hc⟩
    simp only [List.getLast?_append, List.getLast?_singleton, Option.some_or]
    rw [isBlank_generated]; exact hc

example : endsBlank "x\u3000".toList = true ∧ endsBlank "\u00a0".toList = true ∧ endsBlank "x\n".toList = false ∧
    endsBlank [] = false := by decide

/-- the option tables of the built-ins: `unalias` knows exactly `-a`, `alias` no option; `define` splits at `=` and
    defines non-global aliases -/
theorem builtin_tables_are_the_code :
    YashModel.Generated.AliasTables.unaliasShortOptions = ['a'] ∧
    YashModel.Generated.AliasTables.unaliasLongOptions = [] ∧
    YashModel.Generated.AliasTables.aliasShortOptions = [] ∧
    YashModel.Generated.AliasTables.aliasLongOptions = [] ∧
    YashModel.Generated.AliasTables.aliasSplitChar = '=' ∧
    YashModel.Generated.AliasTables.aliasDefinesGlobal = false ∧
    YashModel.Generated.AliasTables.endsWithBlankLooksAt = "last" := builtins_generated

/-! ## wave 3: "exactly the eligible words" — the converse of `only_eligible`; redirection operands; call sites -/

/-- ★ `eligible_word_is_replaced` (converse of `only_eligible`): a literal word that names an alias, is not on
    its own origin chain, is taken with substitution enabled (`sub = some cmd`: `take_token_manual(cmd)` /
    `take_token_auto`) and stands in command position (`cmd`), or names a GLOBAL alias, or follows a blank-ending
    replacement, IS replaced — in every grammar position, for every table; the result is the splice of the value
    and the parser stays in the same grammar position (`onSub`).  With `only_eligible`: a step replaces the word
    IF AND ONLY IF it is eligible. -/
theorem eligible_word_is_replaced (T : Table) (s : MState) (c0 : SChar) (tl : List SChar) (name : String)
    (asg cmd : Bool) (a : Alias)
    (hdrop : s.rest.drop (skipLen s.rest) = c0 :: tl)
    (hkind : (lexTok (c0 :: tl)).kind = .word (some name) asg)
    (hsub : (trans s.st (.word (some name) asg)).sub = some cmd)
    (hnot : c0.isAliasFor name = false)
    (hlook : T.lookup name = some a)
    (hwhy : cmd = true ∨ a.global = true ∨
      afterBlank ((markLc (s.rest.take (skipLen s.rest))).reverse ++ s.pre) (some c0) = true) :
    ∃ s', step T s = some s' ∧
      s'.rest = spliceChars a c0 ++ tl.drop ((lexTok (c0 :: tl)).len - 1) ∧
      s'.pre = (markLc (s.rest.take (skipLen s.rest))).reverse ++ s.pre ∧
      s'.st = (trans s.st (.word (some name) asg)).onSub ∧ s'.subs = s.subs + 1 := by
  have hel : eligible T ((markLc (s.rest.take (skipLen s.rest))).reverse ++ s.pre) c0
      (.word (some name) asg) (some cmd) = some a := by
    rcases hwhy with h | h | h <;> simp [eligible, hnot, hlook, h]
  refine ⟨{ pre := (markLc (s.rest.take (skipLen s.rest))).reverse ++ s.pre,
            rest := spliceChars a c0 ++ tl.drop ((lexTok (c0 :: tl)).len - 1),
            st := (trans s.st (.word (some name) asg)).onSub,
            subs := s.subs + 1, toks := s.toks, hd := s.hd }, ?_, rfl, rfl, rfl, rfl⟩
  unfold step
  simp only [hdrop, hkind, hsub, hel]

/-- states in which the parser accepts a redirection (`Parser::redirection` is tried first by `simple_command`,
    and after a compound command) -/
def acceptsRedir (st : PState) : Bool :=
  st == .cmd0 || st == .pre || st == .one || st == .args || st == .afterComp

/-- A redirection or here-document operator — typed or out of a replacement, the automaton sees only the token —
    puts the parser in operand position, from every state that accepts a redirection; there, EVERY word (reserved
    words included: `take_token_auto(&[])`) is checked with `is_command_name = false`, a replacement leaves the
    parser in operand position (the operand is what comes out in the end), and the operand returns to where the
    redirection started. -/
theorem redirection_operand_position (st : PState) (h : acceptsRedir st = true) (s : String)
    (lit : Option String) (asg : Bool) :
    (isRedirOp s = true → ∃ r, trans st (.op s) = { onTake := .redir r } ∧
        (trans (.redir r) (.word lit asg)) = { sub := some false, onSub := .redir r, onTake := retState r }) ∧
    (isRedirOp s = false → isHereOp s = true → ∃ r, trans st (.op s) = { onTake := .redirH r (s == "<<-") } ∧
        (trans (.redirH r (s == "<<-")) (.word lit asg)) =
          { sub := some false, onSub := .redirH r (s == "<<-"), onTake := retState r }) := by
  cases st <;> simp [acceptsRedir] at h <;>
    exact ⟨fun h1 => by simp [trans, transCore, h1], fun h1 h2 => by simp [trans, transCore, h1, h2]⟩

/-- ★ `redirection_operand_replaced`: the operand of a redirection (also the delimiter of a here-document) that
    names a GLOBAL alias or follows a blank-ending replacement (e.g. `a='b ' b='>' c=out`, line `a c`) is replaced
    by the value — the command redirects to the value, not to a file named after the alias — and the parser is
    still in operand position for what comes out. -/
theorem redirection_operand_replaced (T : Table) (s : MState) (c0 : SChar) (tl : List SChar) (name : String)
    (asg : Bool) (a : Alias)
    (hst : (∃ r, s.st = .redir r) ∨ (∃ r d, s.st = .redirH r d))
    (hdrop : s.rest.drop (skipLen s.rest) = c0 :: tl)
    (hkind : (lexTok (c0 :: tl)).kind = .word (some name) asg)
    (hnot : c0.isAliasFor name = false)
    (hlook : T.lookup name = some a)
    (hwhy : a.global = true ∨
      afterBlank ((markLc (s.rest.take (skipLen s.rest))).reverse ++ s.pre) (some c0) = true) :
    ∃ s', step T s = some s' ∧
      s'.rest = spliceChars a c0 ++ tl.drop ((lexTok (c0 :: tl)).len - 1) ∧ s'.st = s.st := by
  have hsub : (trans s.st (.word (some name) asg)).sub = some false ∧
      (trans s.st (.word (some name) asg)).onSub = s.st := by
    rcases hst with ⟨r, h⟩ | ⟨r, d, h⟩ <;> rw [h] <;> simp [trans, transCore]
  obtain ⟨s', h1, h2, _, h4, _⟩ :=
    eligible_word_is_replaced T s c0 tl name asg false a hdrop hkind hsub.1 hnot hlook (Or.inr hwhy)
  exact ⟨s', h1, h2, h4.trans hsub.2⟩

/-- … and a NON-global alias name that does not follow a blank-ending replacement is left alone there. -/
theorem redirection_operand_unchanged (T : Table) (s s' : MState) (h : step T s = some s')
    (hst : (∃ r, s.st = .redir r) ∨ (∃ r d, s.st = .redirH r d)) :
    s'.text = s.text ∨
    ∃ (c0 : SChar) (tl : List SChar) (a : Alias) (name : String) (asg : Bool),
      s.rest.drop (skipLen s.rest) = c0 :: tl ∧ (lexTok (c0 :: tl)).kind = .word (some name) asg ∧
      T.lookup name = some a ∧
      (a.global = true ∨
        afterBlank ((markLc (s.rest.take (skipLen s.rest))).reverse ++ s.pre) (some c0) = true) := by
  rcases only_eligible T s s' h with h1 | ⟨c0, tl, a, cmd, name, asg, hdrop, hkind, hsub, _, hlook, hwhy, _⟩
  · exact Or.inl h1
  · right
    refine ⟨c0, tl, a, name, asg, hdrop, hkind, hlook, ?_⟩
    have hcmd : cmd = false := by
      rw [hkind] at hsub
      rcases hst with ⟨r, h2⟩ | ⟨r, d, h2⟩ <;> rw [h2] at hsub <;> simp [trans, transCore] at hsub <;> exact hsub
    rcases hwhy with h3 | h3 | h3
    · rw [hcmd] at h3; cases h3
    · exact Or.inl h3
    · exact Or.inr h3

/-- non-vacuity (the inputs of seeded change 7): the operator comes out of replacement text and the operand is
    eligible through the chained blank rule; a value ending in `> `; a global alias after `<` / `>` and as a
    here-document delimiter; an ordinary alias name as operand is left alone. -/
example : substText [⟨"a", "b ".toList, false⟩, ⟨"b", ">".toList, false⟩, ⟨"c", "out".toList, false⟩] "a c".toList
    = ">  out".toList := by decide +kernel
example : substText [⟨"r", "x > ".toList, false⟩, ⟨"c", "out".toList, false⟩] "r c; x > c".toList
    = "x >  out; x > c".toList := by decide +kernel
example : substText [⟨"g", "f".toList, true⟩] "x <g >g 2>>g; { y; } >g".toList
    = "x <f >f 2>>f; { y; } >f".toList := by decide +kernel
example : substText [⟨"g", "E".toList, true⟩] "cat <<g\nx\nE\n".toList = "cat <<E\nx\nE\n".toList := by decide +kernel
/-- hypotheses of `redirection_operand_replaced` on a reachable state (after `x >` with a global alias `g`) -/
example : ∃ s', step [⟨"g", "f".toList, true⟩] { rest := plain " g".toList, pre := plain ">x".toList, st := .redir 1 } = some s'
    ∧ s'.text = "x> f".toList ∧ s'.st = .redir 1 := by decide +kernel

/-- ★ `call_sites_are_the_code`: the model's list of call sites (which automaton states stand for which
    `take_token_auto(&[…])` / `take_token_manual(flag)` call of the parser) holds exactly the calls the extractor
    finds in yash-syntax/src/parser/*.rs on this run — same number, same reserved-word lists, same flags — and
    `take_token_auto` passes `is_command_name = false`.  A call site turned into `take_token_raw`, a changed flag or
    reserved-word list, or a new call site breaks this proof. -/
theorem call_sites_are_the_code :
    (sites.map fun s => s.take.key).Perm (YashModel.Generated.AliasTables.substTakes.map fun x => (x.2.2.1, x.2.2.2)) ∧
    YashModel.Generated.AliasTables.autoCommandFlag = false :=
  ⟨List.isPerm_iff.mp sites_generated, autoFlag_generated⟩

/-- ★ `trans_follows_call_sites`: for every state and every word, the automaton's decision "substitute or not,
    with which `is_command_name`" is the one the covering call site makes (`Take.sub`: `auto` returns its reserved
    words raw and otherwise checks with `false`, `manual(f)` checks with `f`, `words.is_empty()` = no command word
    yet); reserved words the caller peeks at first are taken raw; in states no call site covers every word is
    taken raw; and no state is covered twice. -/
theorem trans_follows_call_sites (st : PState) (lit : Option String) (asg : Bool) :
    (∀ s ∈ sites, s.covers st = true → s.filtered st lit = false →
      (trans st (.word lit asg)).sub = s.take.sub st lit) ∧
    (∀ s ∈ sites, s.covers st = true → s.filtered st lit = true → (trans st (.word lit asg)).sub = none) ∧
    ((∀ s ∈ sites, s.covers st = false) → (trans st (.word lit asg)).sub = none) ∧
    (sites.filter fun s => s.covers st).length ≤ 1 :=
  ⟨trans_sub_of_site st lit asg, trans_sub_filtered st lit asg, trans_sub_uncovered st lit asg, sites_disjoint st⟩

/-- non-vacuity: the redirection operand site, the command-name flag of `simple_command`, a filtered reserved word -/
example : (sites.filter fun s => s.covers (.redir 1)).map (·.fn) = ["redirection_operand"] := by decide +kernel
example : (trans (.redir 1) (.word (some "x") false)).sub = some false ∧
    (trans .pre (.word (some "x") false)).sub = some true ∧ (trans .args (.word (some "x") false)).sub = some false ∧
    (trans .cmd0 (.word (some "if") false)).sub = none ∧ (trans .afterComp (.word (some "x") false)).sub = none := by
  decide +kernel

/-- ★ `substitution_replaces_whole_word`: a substituting step is the textual replacement `A ++ w ++ B ↦ A ++ value ++ B`
    of ONE WHOLE WORD — stated without the model's index arithmetic (`tok.len - 1`, `drop`): `A` is everything
    consumed so far plus the blanks/comment skipped, `w` is non-empty, starts with a non-delimiter, contains no blank,
    is exactly the token the lexer finds at `w ++ B` (a literal word naming the alias), and `B` is empty or starts
    with a token delimiter.  An off-by-one in the splice (a character of the word kept, or a character after it
    eaten) contradicts this statement. -/
theorem substitution_replaces_whole_word (T : Table) (s s' : MState) (h : step T s = some s')
    (hsub : s'.subs ≠ s.subs) :
    ∃ (A w B : List Char) (a : Alias) (name : String) (asg : Bool),
      s.text = A ++ w ++ B ∧ s'.text = A ++ a.value ++ B ∧
      A = chars s.pre.reverse ++ (chars s.rest).take (skipLenC (chars s.rest)) ∧
      w ≠ [] ∧ (∀ c, w.head? = some c → isDelim c = false) ∧ (∀ c ∈ w, isBlank c = false) ∧
      (∀ d, B.head? = some d → isDelim d = true) ∧
      (lexTokC (w ++ B)).kind = .word (some name) asg ∧ w = (w ++ B).take (lexTokC (w ++ B)).len ∧
      T.lookup name = some a := by
  cases step_rel h with
  | take c0 tl hdrop hel hpre hrest =>
    exfalso
    apply hsub
    unfold step at h
    simp only [hdrop, hel] at h
    cases h
    rfl
  | subst c0 tl a cmd name asg hdrop hkind hsub' hnot hlook hwhy hpre hrest =>
    obtain ⟨hnd, hdel, hnb⟩ := model_token_facts hdrop hkind
    have hlen : 1 ≤ (lexTok (c0 :: tl)).len := by
      cases hl : (lexTok (c0 :: tl)).len with
      | zero =>
        exfalso
        have hd : (chars s.rest).drop (skipLenC (chars s.rest)) = c0.c :: chars tl := by
          have := congrArg chars hdrop
          rw [chars_drop] at this
          exact this
        have := (word_token_facts (l := chars s.rest) hd hkind).2.1 c0.c (by
          have : (lexTokC (c0.c :: chars tl)).len = 0 := hl
          rw [this]; rfl)
        rw [hnd] at this; cases this
      | succ n => omega
    obtain ⟨n, hn⟩ : ∃ n, (lexTok (c0 :: tl)).len = n + 1 := ⟨_, (Nat.sub_add_cancel hlen).symm⟩
    have hn1 : (lexTok (c0 :: tl)).len - 1 = n := by omega
    rw [hn1] at hdel hnb hrest
    have hsplit : s.rest = s.rest.take (skipLen s.rest) ++ (c0 :: tl.take n ++ tl.drop n) := by
      rw [List.cons_append, List.take_append_drop, ← hdrop, List.take_append_drop]
    have hwB : chars (c0 :: tl.take n) ++ chars (tl.drop n) = chars (c0 :: tl) := by
      rw [← chars_append, List.cons_append, List.take_append_drop]
    refine ⟨chars s.pre.reverse ++ (chars s.rest).take (skipLenC (chars s.rest)), chars (c0 :: tl.take n),
      chars (tl.drop n), a, name, asg, ?_, ?_, rfl, ?_, ?_, ?_, ?_, ?_, ?_, hlook⟩
    · unfold MState.text
      conv => lhs; rw [hsplit]
      simp only [chars, List.map_append, List.map_take, List.append_assoc, List.map_reverse, List.map_cons,
        List.cons_append]
      rfl
    · unfold MState.text
      rw [hpre, hrest]
      simp only [chars, List.map_append, List.map_take, List.append_assoc, List.map_reverse, List.reverse_append,
        List.reverse_reverse, markLc_chars, spliceChars, List.map_map]
      congr 2
      have : ((fun x : SChar => x.c) ∘ fun ch => ({ c := ch, chain := a.name :: c0.chain, eb := endsBlank a.value } : SChar))
          = id := rfl
      rw [this, List.map_id]
    · simp [chars]
    · intro c hc
      simp only [chars, List.map_cons, List.head?_cons, Option.some.injEq] at hc
      rw [← hc]; exact hnd
    · intro c hc
      obtain ⟨x, hx, rfl⟩ := List.mem_map.mp hc
      exact hnb x hx
    · intro d hd
      rw [chars, List.head?_map] at hd
      cases hh : (tl.drop n).head? with
      | none => rw [hh] at hd; cases hd
      | some x =>
        rw [hh] at hd
        simp only [Option.map_some, Option.some.injEq] at hd
        rw [← hd]; exact hdel x hh
    · rw [hwB]; exact hkind
    · rw [hwB]
      have : (lexTokC (chars (c0 :: tl))).len = n + 1 := hn
      rw [this]
      simp [chars, List.map_take]

/-- non-vacuity: `x&a` with `a='& y'` — the word `a` (and only it) is replaced; it stays a token boundary on its left -/
example : substText [⟨"a", "& y".toList, true⟩] "x&a b".toList = "x&& y b".toList := by decide +kernel
example : ∃ s', step [⟨"a", "& y".toList, true⟩] { rest := plain "a b".toList, pre := plain "&x".toList, st := .cmd0 } = some s' ∧
    s'.subs ≠ 0 ∧ s'.text = "x&& y b".toList := by decide +kernel

/-! ## wave 3, second half: the line machine WITHOUT a certificate — alias tables that change between command lines -/

/-- ★ `line_agree_always`: the model's line machine and the by-hand line machine choose the same alias at EVERY step,
    whatever `alias` / `unalias` commands are executed between command lines (add, redefine, remove, `-a`: the proof
    never looks at the tables, only at the fact that both machines use the same one).  The recursion guards agree
    by `Corr` (chains = names of the regions), the blank rules by the table-free invariant `BlankInvL` of
    `BlankL.lean` (the `ends_with_blank` flag of every OPEN region, recorded when it was spliced). -/
theorem line_agree_always (f : Nat) {l : LState} {g : HLState} (hs : LSim l g)
    (hco : Corr g.h.active l.m.rest) (hb : BlankInvL l.m g.h) : LAgree f l g := by
  induction f generalizing l g with
  | zero => trivial
  | succ f ih =>
    obtain ⟨E, hE⟩ := hb
    have hc0 : mcand l.T l.m = hcand l.T g.h := cand_agree hs.2.2 hco (blank_agreeE hs.2.2 hco hE)
    have hc : mcand l.T l.m = hcand g.T g.h := by rw [hs.1]; exact hc0
    refine ⟨hc, ?_⟩
    intro l' g' e1 e2
    rcases lsim_step hs hc with ⟨n1, _⟩ | ⟨l'', g'', f1, f2, hsim⟩
    · rw [n1] at e1; cases e1
    · rw [f1] at e1; rw [f2] at e2; cases e1; cases e2
      have m1 := lstep_step f1
      have m2 := hlstep_hstep f2
      rw [hs.1] at m2
      exact ih hsim (corr_step hs.2.2 hco hc0 m1 m2) (blankinvE_step hs.2.2 hco hE hc0 m1 m2)

/-- ★ `line_model_eq_spec`: for every initial table, every script and every number of steps — with the alias table
    changing between command lines — the model's line machine and textual substitution by hand, line by line, end
    with the same text, the same tokens, the same pending here-documents and the same final table.  No hypothesis:
    this is `line_model_eq_spec_partial` with `LAgree` discharged. -/
theorem line_model_eq_spec (T : Table) (line : List Char) (f : Nat) :
    let l := (lrun f { T := T, m := init line }).1
    let g := hlrun f { T := T, h := { rest := line } }
    l.m.text = g.h.out.reverse ++ g.h.rest ∧ l.m.toks = g.h.toks ∧ l.m.hd = g.h.hd ∧
      l.finalTable = g.finalTable :=
  line_model_eq_spec_partial T line f
    (line_agree_always f ⟨rfl, rfl, sim_init line⟩ (corr_init line) (blankinvL_init line))

/-- ★ `line_origins_eq_spec`: … and the origin chain of every character of the model's buffer is the by-hand list of
    aliases being processed where it was read (no hypothesis). -/
theorem line_origins_eq_spec (T : Table) (line : List Char) (f : Nat) :
    (lrun f { T := T, m := init line }).1.m.origins
      = (hlrunC f { l := { T := T, h := { rest := line } } }).origins :=
  line_origins_eq_spec_partial T line f
    (line_agree_always f ⟨rfl, rfl, sim_init line⟩ (corr_init line) (blankinvL_init line))

theorem lagreeB_of_lagree (f : Nat) {l : LState} {g : HLState} (h : LAgree f l g) : lagreeB f l g = true := by
  induction f generalizing l g with
  | zero => rfl
  | succ f ih =>
    unfold lagreeB
    simp only [Bool.and_eq_true, decide_eq_true_eq]
    refine ⟨h.1, ?_⟩
    cases e1 : lstep l with
    | none => rfl
    | some l' =>
      cases e2 : hlstep g with
      | none => rfl
      | some g' => exact ih (h.2 l' g' e1 e2)

/-- the certificate the driver evaluates on every case (`=LAGREE-FAILED` in the Spec column otherwise) can never
    fail: it is a check of the MODEL against the Spec that is now a theorem; a failure would mean the compiled
    driver does not run the definitions the theorems are about -/
theorem line_certificate_always (T : Table) (line : List Char) (f : Nat) :
    lagreeB f { T := T, m := init line } { T := T, h := { rest := line } } = true :=
  lagreeB_of_lagree f (line_agree_always f ⟨rfl, rfl, sim_init line⟩ (corr_init line) (blankinvL_init line))

/-- non-vacuity: the table really changes while a blank-ending replacement is being read — `a` (value ending in a
    blank, two lines) redefines `a` WITHOUT the blank and defines `b`; the rest of the OLD value is still read under
    the old flag (the `b` after it is replaced through the blank rule although the table now says `a='z'`), and a
    later `a b` uses the new value (no blank rule) -/
example : ((lrun 300 { T := [⟨"a", "alias a=z b=B\nx ".toList, false⟩], m := init "a b\na b".toList }).1.m.text)
    = "alias a=z b=B\nx  B\nz b".toList := by decide +kernel
example : ((hlrun 300 { T := [⟨"a", "alias a=z b=B\nx ".toList, false⟩], h := { rest := "a b\na b".toList } }).h.out.reverse)
    = "alias a=z b=B\nx  B\nz b".toList := by decide +kernel

/-- ★ `call_order_is_the_code`: the order and nesting of the token-taking calls (`take_token_raw` / `auto` / `manual` and
    calls of other token-taking parser functions) of every parser function, as the extractor reads it from
    yash-syntax/src/parser/*.rs on this run, is the one `trans` was transcribed from (`modelFlows`, 24 functions; compared
    as a multiset of canonical forms, so renaming or moving a function is silent, while an added / removed / reordered
    token-taking call or a changed loop / branch nesting breaks this proof and forces a look at `trans`). -/
theorem call_order_is_the_code :
    (modelFlows.map (·.2)).Perm YashModel.Generated.AliasTables.takeFlows :=
  List.isPerm_iff.mp flows_generated

/-- `trans_successors`: the successor function of the automaton, transition by transition, as named beside the entries
    of `modelFlows` (which token-taking call follows which): array values, `case` (subject, `in`, patterns, `(`, `|`,
    `)`, `;;`, `esac`), `do`/`done`, groupings, `if`/`while`/`until`, `for` (name, `in`, words, body), separators,
    redirections (IO_NUMBER, operand → back to where the redirection started), function definitions, simple commands. -/
theorem trans_successors (lit : Option String) (asg : Bool) :
    -- array_values
    (trans .arrOpen (.op "(")).onTake = .arr ∧ (trans .arr (.word lit asg)).onTake = .arr ∧
    (trans .arr (.op "\n")).onTake = .arr ∧ (trans .arr (.op ")")).onTake = .pre ∧
    -- case_command
    (trans .cmd0 (.word (some "case") false)).onTake = .caseSubj ∧ (trans .caseSubj (.word lit asg)).onTake = .caseIn ∧
    (trans .caseIn (.op "\n")).onTake = .caseIn ∧ (trans .caseIn (.word (some "in") false)).onTake = .casePat0 ∧
    (trans .casePat0 (.word (some "esac") false)).onTake = .afterComp ∧
    -- case_item
    (lit ≠ some "esac" → (trans .casePat0 (.word lit asg)).onTake = .caseSep) ∧
    (trans .casePat0 (.op "(")).onTake = .casePat1 ∧ (trans .casePat1 (.word lit asg)).onTake = .caseSep ∧
    (trans .caseSep (.op ")")).onTake = .cmd0 ∧ (trans .caseSep (.op "|")).onTake = .casePatN ∧
    (trans .casePatN (.word lit asg)).onTake = .caseSep ∧ (trans .args (.op ";;")).onTake = .casePat0 ∧
    -- do_clause, grouping, subshell, if / while / until
    (trans .cmd0 (.word (some "do") false)).onTake = .cmd0 ∧ (trans .cmd0 (.word (some "done") false)).onTake = .afterComp ∧
    (trans .cmd0 (.word (some "{") false)).onTake = .cmd0 ∧ (trans .cmd0 (.word (some "}") false)).onTake = .afterComp ∧
    (trans .cmd0 (.op "(")).onTake = .cmd0 ∧ (trans .args (.op ")")).onTake = .afterComp ∧
    (trans .cmd0 (.word (some "if") false)).onTake = .cmd0 ∧ (trans .cmd0 (.word (some "then") false)).onTake = .cmd0 ∧
    (trans .cmd0 (.word (some "elif") false)).onTake = .cmd0 ∧ (trans .cmd0 (.word (some "else") false)).onTake = .cmd0 ∧
    (trans .cmd0 (.word (some "fi") false)).onTake = .afterComp ∧
    (trans .cmd0 (.word (some "while") false)).onTake = .cmd0 ∧ (trans .cmd0 (.word (some "until") false)).onTake = .cmd0 ∧
    -- for_loop, for_loop_name, for_loop_values, for_loop_body
    (trans .cmd0 (.word (some "for") false)).onTake = .forName ∧ (trans .forName (.word lit asg)).onTake = .forIn true ∧
    (trans (.forIn true) (.op ";")).onTake = .forBody ∧ (∀ fl, (trans (.forIn fl) (.op "\n")).onTake = .forIn false) ∧
    (∀ fl, (trans (.forIn fl) (.word (some "in") false)).onTake = .forWords) ∧
    (∀ fl, (trans (.forIn fl) (.word (some "do") false)).onTake = .cmd0) ∧
    (trans .forWords (.word lit asg)).onTake = .forWords ∧ (trans .forWords (.op ";")).onTake = .forBody ∧
    (trans .forWords (.op "\n")).onTake = .forBody ∧ (trans .forBody (.op "\n")).onTake = .forBody ∧
    (trans .forBody (.word (some "do") false)).onTake = .cmd0 ∧
    -- and_or_list, list, pipeline, newline
    (∀ s, s ∈ ["&&", "||", "|", ";", "&", "\n"] → (trans .args (.op s)).onTake = .cmd0 ∧ (trans .afterComp (.op s)).onTake = .cmd0) ∧
    (trans .cmd0 (.word (some "!") false)).onTake = .cmd0 ∧
    -- redirection: IO_NUMBER, operator, operand
    (trans .cmd0 .io).onTake = .pre ∧ (trans .pre .io).onTake = .pre ∧ (trans .one .io).onTake = .args ∧
    (trans .args .io).onTake = .args ∧ (trans .afterComp .io).onTake = .afterComp ∧
    (∀ r, (trans (.redir r) (.word lit asg)).onTake = retState r) ∧
    (∀ r d, (trans (.redirH r d) (.word lit asg)).onTake = retState r) ∧
    -- short_function_definition
    (trans .one (.op "(")).onTake = .fnClose ∧ (trans .fnClose (.op ")")).onTake = .fnBody ∧
    (trans .fnBody (.op "\n")).onTake = .fnBody ∧
    -- simple_command
    (isKeyword lit = false → (trans .cmd0 (.word lit asg)).onTake = (if asg then .pre else .one)) ∧
    (trans .pre (.word lit asg)).onTake = (if asg then .pre else .args) ∧
    (trans .one (.word lit asg)).onTake = .args ∧ (trans .args (.word lit asg)).onTake = .args ∧
    (trans .cmd0 .assignArr).onTake = .arrOpen ∧ (trans .pre .assignArr).onTake = .arrOpen := by
  refine ⟨by decide, by simp [trans, transCore], by decide, by decide, by decide, by simp [trans, transCore], by decide,
    by decide, by decide, ?_, by decide, ?_, by decide, by decide, by simp [trans, transCore], by decide,
    by decide, by decide, by decide, by decide, by decide, by decide, by decide, by decide, by decide, by decide,
    by decide, by decide, by decide, by decide, by simp [trans, transCore], by decide, ?_, ?_, ?_,
    by simp [trans, transCore], by decide, by decide, by decide, by decide, ?_, by decide,
    by decide, by decide, by decide, by decide, by decide, ?_, ?_, by decide, by decide, by decide,
    ?_, by simp [trans, transCore], by simp [trans, transCore], by simp [trans, transCore], by decide, by decide⟩
  · intro h; cases lit <;> simp_all [trans, transCore]
  · cases lit <;> simp [trans, transCore] <;> split <;> rfl
  · intro fl; cases fl <;> decide
  · intro fl; cases fl <;> decide
  · intro fl; cases fl <;> decide
  · intro s hs; simp only [List.mem_cons, List.not_mem_nil, or_false] at hs
    rcases hs with rfl | rfl | rfl | rfl | rfl | rfl <;> decide
  · intro r; simp [trans, transCore]
  · intro r d; simp [trans, transCore]
  · intro h; simp [trans, transCore, h]

/-! ## wave 3: the `alias` / `unalias` built-ins themselves — option parsing (C20's `parse_arguments`), exit status,
    printed form (C07's `quote`) -/

/-- the table part of `runCmd` is `applyCmd` (what the line machine uses), by definition; stated so that the theorems
    about `applyCmd` are theorems about the built-in that also yields the status and the output -/
theorem builtin_table (T : Table) (ws : List (List Char)) : (runCmd T ws).T = applyCmd T ws := rfl

/-- composition with C07: the line `alias` prints for a definition is C07's `printAlias` (the form whose re-reading
    C07 proves: `alias_line_recreates`) -/
theorem printed_form_is_C07 (a : Alias) :
    printAliasLine a = YashModel.Quote.Listing.printAlias (a.name.toList, a.value) := by
  simp [printAliasLine, YashModel.Quote.Listing.printAlias]

/-- `alias name` for a defined name (no `=`, not option-like): prints exactly that definition, exit status 0, table
    unchanged; for an undefined name: prints nothing, exit status 1, table unchanged -/
theorem alias_prints_definition (T : Table) (n : List Char) (hn : '=' ∉ n) (hd : n.head? ≠ some '-') :
    runAlias T [n] =
      match T.lookup (String.ofList n) with
      | some a => { T := T, status := 0, out := printAliasLine a }
      | none => { T := T, status := 1, out := [] } := by
  unfold runAlias
  rw [parse_operands_first _ _ _ _ hd]
  simp only [List.isEmpty_cons, Bool.false_eq_true, ↓reduceIte, List.foldl_cons, List.foldl_nil]
  unfold aliasOperand
  simp only [takeWhile_ne_all n hn, beq_self_eq_true, ↓reduceIte]
  cases T.lookup (String.ofList n) <;> simp

/-- `alias` has no option: an argument `-x…` before the first operand is an error — exit status 2, nothing printed,
    nothing defined (also `alias -g name=value`, `alias -p`) -/
theorem alias_option_is_error (T : Table) (c : Char) (t : List Char) (rest : List (List Char)) (hc : c ≠ '-') :
    runAlias T (('-' :: c :: t) :: rest) = { T := T, status := 2, out := [] } := by
  unfold runAlias
  have : Args.parseArguments [] Args.Mode.withExtensions (('-' :: c :: t) :: rest) = .error (.unknownShort c) := by
    unfold Args.parseArguments Args.optLoop Args.step
    have h1 : Args.startsWithSingleHyphen ('-' :: c :: t) = true := by simp [Args.startsWithSingleHyphen, hc]
    simp [h1, Args.shortLoop, Args.findShort, Args.Step.ofShort, Args.finish]
  rw [this]

/-- `unalias name` for an undefined name: exit status 1, table unchanged; for a defined one: status 0 and the name is gone -/
theorem unalias_status (T : Table) (n : List Char) (hd : n.head? ≠ some '-') :
    (runUnalias T [n]).status = (if (T.lookup (String.ofList n)).isSome then 0 else 1) ∧
    ((T.lookup (String.ofList n)).isNone → (runUnalias T [n]).T = T) := by
  unfold runUnalias
  rw [parse_operands_first _ _ _ _ hd]
  simp only [List.isEmpty_nil, ↓reduceIte, List.isEmpty_cons, Bool.false_eq_true, List.foldl_cons, List.foldl_nil]
  unfold unaliasOperand
  cases h : T.lookup (String.ofList n) <;> simp

/-- `unalias` without any argument and `unalias -a name`: exit status 2, nothing removed; `-a` may be repeated or
    grouped and may be followed by `--` -/
theorem unalias_argument_errors (T : Table) :
    runUnalias T [] = { T := T, status := 2 } ∧
    runUnalias T ["-a".toList, "x".toList] = { T := T, status := 2 } ∧
    runUnalias T ["-aa".toList] = { T := [] } ∧ runUnalias T ["-a".toList, "-a".toList] = { T := [] } ∧
    runUnalias T ["-a".toList, "--".toList] = { T := [] } := by
  refine ⟨rfl, rfl, rfl, rfl, rfl⟩

/-- non-vacuity / examples: mixed operands are processed in order (define, print, error), the status is 1 as soon as one
    name is unknown, the output needs C07's quoting -/
example : runCmd [⟨"a", "x y".toList, false⟩, ⟨"b", "it's".toList, true⟩] ["alias".toList, "a".toList, "b".toList, "zz".toList, "c=1".toList, "c".toList]
    |> fun r => (r.T, r.status, r.out)
    = ([⟨"c", "1".toList, false⟩, ⟨"a", "x y".toList, false⟩, ⟨"b", "it's".toList, true⟩], 1,
        "a='x y'\nb=\"it's\"\nc=1\n".toList) := by decide +kernel
example : (runCmd [⟨"b", "B".toList, false⟩, ⟨"a", "A".toList, false⟩] ["alias".toList]).out = "a=A\nb=B\n".toList := by
  decide +kernel

/-! ## third pass: command position as XCU 2.3.1 / 2.9.1 define it -/

/-- ★ `command_name_test_iff`: the automaton tests a word as a command name exactly in the command-start state (for a
    word that is not a reserved word there) and while only assignments / redirections have been seen — and this is
    the `take_token_manual(result.words.is_empty())` call site of `simple_command` in the extracted table. -/
theorem command_name_test_iff (st : PState) (lit : Option String) (asg : Bool) :
    ((trans st (.word lit asg)).sub = some true ↔ (st = .cmd0 ∧ isKeyword lit = false) ∨ st = .pre) ∧
    ((trans st (.word lit asg)).sub = some true →
      ∃ s ∈ sites, s.covers st = true ∧ s.take = .manual "words.is_empty()" ∧ wordsEmpty st = true) := by
  constructor
  · cases st <;> cases hk : isKeyword lit <;> simp [trans, transCore, hk] <;> (repeat' split) <;> simp
  · intro h
    refine ⟨_, List.getLast_mem (l := sites) (by decide), ?_⟩
    cases st <;> cases hk : isKeyword lit <;> simp_all [trans, transCore, sites, wordsEmpty] <;>
      (repeat' split at h) <;> simp_all

/-- ★ `nonglobal_substituted_iff_command_position`: a word that names a NON-global alias, is not on its own origin
    chain and does not follow a blank-ending replacement is replaced IF AND ONLY IF it stands in command position:
    at the start of a command (and is not a reserved word there) or after only assignments / redirections of a simple
    command.  Everywhere else — after `for`, `case`, `in`, a function name, a redirection operator, a command name,
    an argument, a case pattern — it is left alone. -/
theorem nonglobal_substituted_iff_command_position (T : Table) (s : MState) (c0 : SChar) (tl : List SChar)
    (name : String) (asg : Bool) (a : Alias)
    (hdrop : s.rest.drop (skipLen s.rest) = c0 :: tl)
    (hkind : (lexTok (c0 :: tl)).kind = .word (some name) asg)
    (hnot : c0.isAliasFor name = false) (hlook : T.lookup name = some a) (hng : a.global = false)
    (hnb : afterBlank ((markLc (s.rest.take (skipLen s.rest))).reverse ++ s.pre) (some c0) = false) :
    (∃ s', step T s = some s' ∧ s'.subs = s.subs + 1) ↔
      ((s.st = .cmd0 ∧ isKeyword (some name) = false) ∨ s.st = .pre) := by
  rw [← (command_name_test_iff s.st (some name) asg).1]
  have hel : eligible T ((markLc (s.rest.take (skipLen s.rest))).reverse ++ s.pre) c0 (.word (some name) asg)
      (trans s.st (.word (some name) asg)).sub
      = if (trans s.st (.word (some name) asg)).sub = some true then some a else none := by
    unfold eligible
    cases hs : (trans s.st (.word (some name) asg)).sub with
    | none => simp
    | some cmd => cases cmd <;> simp [hnot, hlook, hng, hnb]
  constructor
  · rintro ⟨s', h1, h2⟩
    unfold step at h1
    simp only [hdrop, hkind, hel] at h1
    by_cases hc : (trans s.st (.word (some name) asg)).sub = some true
    · exact hc
    · simp only [hc, ↓reduceIte] at h1
      cases h1
      simp at h2
  · intro hc
    refine ⟨{ pre := (markLc (s.rest.take (skipLen s.rest))).reverse ++ s.pre,
              rest := spliceChars a c0 ++ tl.drop ((lexTok (c0 :: tl)).len - 1),
              st := (trans s.st (.word (some name) asg)).onSub,
              subs := s.subs + 1, toks := s.toks, hd := s.hd }, ?_, rfl⟩
    rw [hc] at hel
    simp only [↓reduceIte] at hel
    unfold step
    simp only [hdrop, hkind, hc, hel]

/-- ★ `command_position_posix`: WHICH accepted tokens lead to the command-start state — exactly the POSIX list
    (`Spec.startsCommandWord` where the word is recognised as reserved, `Spec.startsCommandOp` where the operator ends or
    begins a command, the `)` that closes a case pattern list) — and after `for` / `case` / `in` / a function name's `(` /
    a redirection operator the next word is NOT in command position. -/
theorem command_position_posix :
    (∀ w ∈ Spec.startsCommandWord, (trans .cmd0 (.word (some w) false)).onTake = .cmd0) ∧
    (∀ s ∈ Spec.startsCommandOp, (trans .cmd0 (.op s)).onTake = .cmd0) ∧
    (∀ s ∈ [";", "&", "&&", "||", "|", "\n"], ∀ st ∈ [PState.pre, .one, .args, .afterComp], (trans st (.op s)).onTake = .cmd0) ∧
    (trans .caseSep (.op ")")).onTake = .cmd0 ∧
    (∀ w ∈ ["then", "else", "elif", "do"], (trans .afterComp (.word (some w) false)).onTake = .cmd0) ∧
    -- and not after:
    cmdPos (trans .cmd0 (.word (some "for") false)).onTake = false ∧
    cmdPos (trans .cmd0 (.word (some "case") false)).onTake = false ∧
    cmdPos (trans .caseIn (.word (some "in") false)).onTake = false ∧
    (∀ fl, cmdPos (trans (.forIn fl) (.word (some "in") false)).onTake = false) ∧
    cmdPos (trans .one (.op "(")).onTake = false ∧ cmdPos (trans .fnClose (.op ")")).onTake = false ∧
    (∀ s ∈ YashModel.Generated.AliasTables.redirOps ++ YashModel.Generated.AliasTables.hereDocOps.map (·.1), ∀ st ∈ [PState.cmd0, .pre, .one, .args, .afterComp],
      cmdPos (trans st (.op s)).onTake = false) ∧
    (∀ lit asg, cmdPos (trans .one (.word lit asg)).onTake = false ∧ cmdPos (trans .args (.word lit asg)).onTake = false) ∧
    -- assignments and redirections keep the command position inside a simple command
    (∀ lit, isKeyword lit = false → (trans .cmd0 (.word lit true)).onTake = .pre) ∧ (∀ lit, (trans .pre (.word lit true)).onTake = .pre) ∧
    retState 0 = .pre := by
  refine ⟨by decide, by decide, by decide, by decide, by decide, by decide, by decide, by decide, ?_, by decide,
    by decide, by decide, ?_, ?_, ?_, rfl⟩
  · intro fl; cases fl <;> decide
  · intro lit asg; simp [trans, transCore, cmdPos]
  · intro lit h; simp [trans, transCore, h]
  · intro lit; simp [trans, transCore]

/-- non-vacuity: the same non-global alias in and out of command position -/
example : substText [⟨"a", "A".toList, false⟩]
    "a; ! a | a && { a; } ; if a; then a; else a; fi; while a; do a; done; ( a ); v=1 a; >f a; for a in a; do :; done; case a in a) a;; esac; x a; a() { a; }".toList
    = "A; ! A | A && { A; } ; if A; then A; else A; fi; while A; do A; done; ( A ); v=1 A; >f A; for a in a; do :; done; case a in a) A;; esac; x a; A() { A; }".toList := by
  decide +kernel

/-- ★ `pairing_is_checked`: the flow ↔ state pairing is no longer "by comment".  `Sites.pairing` (machine-readable, in
    the Lean source) is read by the extractor on every run and zipped with the take_token_* calls it finds in the parser
    (`flowPairs`; a function or call without a partner is a loud extractor failure, a renamed function is found through
    its flow).  Checked here: every substituting call (`a[..]` / `m(..)`) of a function is paired with exactly the
    states the `sites` of that function with that call cover; every site is the partner of some pair; every automaton
    state except `err` is paired with some call; every paired name is a state; there are as many pairs as calls (53). -/
theorem pairing_is_checked : pairsChecked = true := pairs_checked

/-! ## third pass: termination of the line machine, relative to a bound on nesting depth and value length -/

/-- ☆ `line_terminates_partial`: the line machine — alias table changing between command lines — reaches the end of
    the input within `muP N L + 1` steps whenever nesting depth and value length stay below `N` and `L` along the run.
    MISSING for the unconditional statement: `BoundedRun` for `N` = 1 + the number of distinct names and `L` = the
    longest text the scripts' `alias` commands can define (every name and value is, after quote removal, a subsequence
    of one initial text because a word never spans the end of a replacement; chains are duplicate-free by
    `no_self_resubstitution_lines`, hence no longer than the number of names). -/
theorem line_terminates_partial (N L : Nat) (l : LState) (hb : BoundedRun N L l) (f : Nat)
    (hf : muP N L l.m.rest < f) : (lrun f l).2 = true := by
  induction f generalizing l with
  | zero => omega
  | succ f ih =>
    unfold lrun
    cases hs : lstep l with
    | none => rfl
    | some l' =>
      simp only
      have h0 := hb 0
      simp only [lrun] at h0
      have hm := muP_step (N := N) (L := L) (lstep_step hs) h0.2 h0.1
      apply ih l' _ (by omega)
      intro k
      have := hb (k + 1)
      rw [lrun_succ_of_lstep hs k] at this
      exact this

/-- non-vacuity: a run whose table changes (redefinition inside the value being read) within explicit bounds -/
example : (lrun 2000 { T := [⟨"a", "alias a=z b=B\nx ".toList, false⟩], m := init "a b\na b".toList }).2 = true := by
  decide +kernel

end YashModel.Alias
