/-
  C17 — termination measure for ANY sequence of tables (the line machine): `muP N L` = Σ over the unconsumed characters of
  `(L+1)^(N - chain length)` for a nesting bound `N` and a value-length bound `L` that are parameters, not read off a table.
  `muP_step`: every step decreases it, whatever the table of that step is.
-/
import YashModel.Alias.Lemmas
namespace YashModel.Alias

/-- weight of a character for a nesting bound `N` and a value-length bound `L` -/
def weightP (N L : Nat) (sc : SChar) : Nat := (L + 1) ^ (N - sc.chain.length)

def muP (N L : Nat) : List SChar → Nat
  | [] => 0
  | a :: t => weightP N L a + muP N L t

theorem muP_append (N L : Nat) (l₁ l₂ : List SChar) : muP N L (l₁ ++ l₂) = muP N L l₁ + muP N L l₂ := by
  induction l₁ with
  | nil => simp [muP]
  | cons a t ih => simp [muP, ih, Nat.add_assoc]

theorem muP_take_drop (N L : Nat) (l : List SChar) (k : Nat) :
    muP N L l = muP N L (l.take k) + muP N L (l.drop k) := by
  rw [← muP_append, List.take_append_drop]

theorem muP_map_const (N L : Nat) (g : Char → SChar) (W : Nat) (h : ∀ ch, weightP N L (g ch) = W)
    (l : List Char) : muP N L (l.map g) = l.length * W := by
  induction l with
  | nil => simp [muP]
  | cons ch t ih =>
    simp only [List.map_cons, muP, ih, h, List.length_cons]
    rw [Nat.succ_mul, Nat.add_comm]

theorem muP_splice (N L : Nat) (a : Alias) (c0 : SChar) :
    muP N L (spliceChars a c0) = a.value.length * (L + 1) ^ (N - (c0.chain.length + 1)) := by
  unfold spliceChars
  exact muP_map_const N L _ _ (fun ch => by simp [weightP]) a.value

/-- ★ the measure step for ANY table: a step strictly decreases `muP N L` of the unconsumed text as soon as the token's
    chain is shorter than `N` and the value spliced is no longer than `L` — no invariant about the table -/
theorem muP_step {N L : Nat} {T : Table} {s s' : MState} (h : step T s = some s')
    (hN : ∀ c ∈ s.rest, c.chain.length < N) (hL : ∀ a ∈ T, a.value.length ≤ L) :
    muP N L s'.rest < muP N L s.rest := by
  cases step_rel h with
  | subst c0 tl a cmd name asg hdrop hkind hsub hnot hlook hwhy hpre hrest =>
    obtain ⟨hc0, _⟩ := mem_rest_of_drop hdrop
    have h1 := muP_take_drop N L s.rest (skipLen s.rest)
    rw [hdrop] at h1
    have h2 := muP_take_drop N L tl ((lexTok (c0 :: tl)).len - 1)
    have hk := hN c0 hc0
    have hv := hL a (lookup_spec hlook).1
    have h3 : muP N L (spliceChars a c0) < weightP N L c0 := by
      rw [muP_splice]
      unfold weightP
      have hsplit : N - c0.chain.length = (N - (c0.chain.length + 1)) + 1 := by omega
      rw [hsplit, Nat.pow_succ]
      have hp : 0 < (L + 1) ^ (N - (c0.chain.length + 1)) := Nat.pow_pos (Nat.succ_pos _)
      calc a.value.length * (L + 1) ^ (N - (c0.chain.length + 1))
          ≤ L * (L + 1) ^ (N - (c0.chain.length + 1)) := Nat.mul_le_mul_right _ hv
        _ < (L + 1) * (L + 1) ^ (N - (c0.chain.length + 1)) := Nat.mul_lt_mul_of_pos_right (Nat.lt_succ_self _) hp
        _ = (L + 1) ^ (N - (c0.chain.length + 1)) * (L + 1) := Nat.mul_comm ..
    rw [hrest, muP_append]
    simp only [muP] at h1
    omega
  | take c0 tl hdrop hel hpre hrest =>
    have h1 := muP_take_drop N L s.rest (skipLen s.rest)
    rw [hdrop] at h1
    have h2 := muP_take_drop N L tl (spanLen s c0 tl)
    have h3 : 0 < weightP N L c0 := Nat.pow_pos (Nat.succ_pos _)
    rw [hrest]
    simp only [muP] at h1
    omega

/-- the bounds hold along the run of the line machine: every table in force has values no longer than `L`, every
    unconsumed character is nested less than `N` deep -/
def BoundedRun (N L : Nat) (l : LState) : Prop :=
  ∀ k, (∀ a ∈ (lrun k l).1.T, a.value.length ≤ L) ∧ ∀ c ∈ (lrun k l).1.m.rest, c.chain.length < N

theorem lrun_succ_of_lstep {l l' : LState} (h : lstep l = some l') (k : Nat) :
    (lrun (k + 1) l).1 = (lrun k l').1 := by
  rw [show lrun (k + 1) l = (match lstep l with | none => (l, true) | some l' => lrun k l') from rfl]
  simp only [h]

end YashModel.Alias
