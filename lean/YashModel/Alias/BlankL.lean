/-
  C17 — the blank rule of the model and of the by-hand Spec agree at every step ALSO WHEN THE ALIAS TABLE CHANGES
  between steps (the line machine: `alias` / `unalias` executed between command lines).

  `Blank.lean` ties the `eb` flags on chains to the table (`ebOf T m`), which a redefinition invalidates.  Here the
  invariant is table-free: `E m` is the `ends_with_blank` of the value of the region named `m` that is OPEN (has
  unconsumed characters) — well defined because the chains of the unconsumed text are nested (`Mono`: the names on a
  later character's chain are on every earlier character's chain) and duplicate-free.  A substitution updates `E` at
  the new name only; a table update between steps changes nothing (the invariant does not mention the table).
-/
import YashModel.Alias.Blank
namespace YashModel.Alias

/-- where a blank-ending value ends (the next character is no longer from it) there is a blank; `E m` = the value
    of the open region `m` ends with a blank -/
def RLBE (E : String → Bool) (c : SChar) (nx : Option SChar) : Prop :=
  ∀ m ∈ c.chain, (∀ x, nx = some x → m ∉ x.chain) → E m = true → isBlank c.c = true

/-- regions are nested: a name on the next character's chain is on this character's chain -/
def Mono (c : SChar) (nx : Option SChar) : Prop := ∀ x, nx = some x → ∀ m ∈ x.chain, m ∈ c.chain

structure ModelInvE (E : String → Bool) (s : MState) : Prop where
  lb : AdjN (RLBE E) s.rest none
  ed : AdjN RED s.rest none
  edb : ∀ p, s.pre.head? = some p → RED p s.rest.head?
  mono : AdjN Mono s.rest none
  ebt : ∀ c ∈ s.rest, ∀ m tl, c.chain = m :: tl → c.eb = E m
  ebb : ∀ p, s.pre.head? = some p → ∀ x, s.rest.head? = some x → ∀ m tl, p.chain = m :: tl → m ∈ x.chain →
    p.eb = E m
  nolc : ∀ c ∈ s.rest, c.lc = false

theorem adjN_imp {R R' : SChar → Option SChar → Prop} : ∀ (l : List SChar) (nxt : Option SChar),
    (∀ c ∈ l, ∀ nx, R c nx → R' c nx) → AdjN R l nxt → AdjN R' l nxt
  | [], _, _, _ => trivial
  | c :: t, nxt, hi, h =>
    ⟨hi c (List.mem_cons_self ..) _ h.1, adjN_imp t nxt (fun x hx => hi x (List.mem_cons_of_mem _ hx)) h.2⟩

/-- every later character's names are on the first character's chain -/
theorem mono_all : ∀ (c : SChar) (t : List SChar), AdjN Mono (c :: t) none → ∀ x ∈ t, ∀ m ∈ x.chain, m ∈ c.chain
  | _, [], _, x, hx, _, _ => by cases hx
  | c, d :: t, h, x, hx, m, hm => by
    have hcd : ∀ m ∈ d.chain, m ∈ c.chain := h.1 d rfl
    rcases List.mem_cons.mp hx with rfl | hx'
    · exact hcd m hm
    · exact hcd m (mono_all d t h.2 x hx' m hm)

theorem ends_withinE {E : String → Bool} {m : String} : ∀ (seg rest2 : List SChar),
    AdjN (RLBE E) (seg ++ rest2) none → (∃ u, seg.head? = some u ∧ m ∈ u.chain) →
    (∀ x, rest2.head? = some x → m ∉ x.chain) → E m = true → ∃ u ∈ seg, isBlank u.c = true
  | [], _, _, h, _, _ => by simp at h
  | [u], rest2, h, hu, hr, he => by
    obtain ⟨u', hu', hm⟩ := hu
    simp only [List.head?_cons, Option.some.injEq] at hu'
    rw [← hu'] at hm
    refine ⟨u, List.mem_singleton.mpr rfl, ?_⟩
    have := h.1
    apply this m hm _ he
    intro x hx
    apply hr x
    cases rest2 with
    | nil => simp [headOr] at hx
    | cons y t => simpa [headOr] using hx
  | u :: v :: seg', rest2, h, hu, hr, he => by
    obtain ⟨u', hu', hm⟩ := hu
    simp only [List.head?_cons, Option.some.injEq] at hu'
    rw [← hu'] at hm
    by_cases hv : m ∈ v.chain
    · obtain ⟨w, hw, hb⟩ := ends_withinE (v :: seg') rest2 h.2 ⟨v, rfl, hv⟩ hr he
      exact ⟨w, List.mem_cons_of_mem _ hw, hb⟩
    · refine ⟨u, List.mem_cons_self .., ?_⟩
      apply h.1 m hm _ he
      intro x hx
      have : x = v := by
        have h2 : headOr ((v :: seg').append rest2) none = some v := rfl
        rw [h2] at hx
        exact (Option.some.inj hx).symm
      rw [this]
      exact hv

theorem rlbE_same (E : String → Bool) (u v : SChar) (h : u.chain = v.chain) : RLBE E u (some v) := by
  intro m hm hn _
  exact absurd (h ▸ hm) (hn v rfl)

theorem mono_same (u v : SChar) (h : u.chain = v.chain) : Mono u (some v) := by
  intro x hx m hm
  cases hx
  exact h ▸ hm

/-- the character right before the token satisfies `RED` with the token's first character -/
theorem before_head_redE {E : String → Bool} {s : MState} (hi : ModelInvE E s) {c0 : SChar} {tl : List SChar}
    (hdrop : s.rest.drop (skipLen s.rest) = c0 :: tl) {p : SChar}
    (hp : ((markLc (s.rest.take (skipLen s.rest))).reverse ++ s.pre).head? = some p) :
    RED p (some c0) := by
  cases hsk : (markLc (s.rest.take (skipLen s.rest))).reverse with
  | nil =>
    rw [hsk] at hp
    simp only [List.nil_append] at hp
    have hnil : s.rest.take (skipLen s.rest) = [] := by
      have : (markLc (s.rest.take (skipLen s.rest))) = [] := by simpa using hsk
      have h2 := congrArg List.length (markLc_chains (s.rest.take (skipLen s.rest)))
      simp only [List.length_map, this, List.length_nil] at h2
      exact List.eq_nil_of_length_eq_zero h2.symm
    have hrest : s.rest = c0 :: tl := by
      have := List.take_append_drop (skipLen s.rest) s.rest
      rw [hnil, hdrop] at this
      exact this.symm
    have := hi.edb p hp
    rw [hrest] at this
    exact this
  | cons q qs =>
    rw [hsk] at hp
    simp only [List.cons_append, List.head?_cons, Option.some.injEq] at hp
    subst hp
    have hq : (markLc (s.rest.take (skipLen s.rest))).getLast? = some q := by
      rw [← List.head?_reverse, hsk]; rfl
    have hc := markLc_last_chain (s.rest.take (skipLen s.rest))
    rw [hq] at hc
    cases hu : (s.rest.take (skipLen s.rest)).getLast? with
    | none => rw [hu] at hc; simp at hc
    | some u =>
      rw [hu] at hc
      simp only [Option.map_some, Option.some.injEq] at hc
      have hadj : AdjN RED (s.rest.take (skipLen s.rest) ++ s.rest.drop (skipLen s.rest)) none := by
        rw [List.take_append_drop]; exact hi.ed
      have h1 := ((adjN_append _ _ _).mp hadj).1
      have h2 := adjN_boundary _ _ _ u h1 hu
      rw [hdrop] at h2
      exact red_congr hc h2

/-- the `eb` flag of the character right before the token is the one of the open region, if the token is inside
    that region -/
theorem before_ebE {E : String → Bool} {s : MState} (hi : ModelInvE E s) {c0 : SChar} {tl : List SChar}
    (hdrop : s.rest.drop (skipLen s.rest) = c0 :: tl) {p : SChar}
    (hp : ((markLc (s.rest.take (skipLen s.rest))).reverse ++ s.pre).head? = some p)
    {m : String} {tlp : List String} (hm : p.chain = m :: tlp) (hc : m ∈ c0.chain) : p.eb = E m := by
  cases hsk : (markLc (s.rest.take (skipLen s.rest))).reverse with
  | nil =>
    rw [hsk] at hp
    simp only [List.nil_append] at hp
    have hnil : s.rest.take (skipLen s.rest) = [] := by
      have : (markLc (s.rest.take (skipLen s.rest))) = [] := by simpa using hsk
      have h2 := congrArg List.length (markLc_chains (s.rest.take (skipLen s.rest)))
      simp only [List.length_map, this, List.length_nil] at h2
      exact List.eq_nil_of_length_eq_zero h2.symm
    have hrest : s.rest = c0 :: tl := by
      have := List.take_append_drop (skipLen s.rest) s.rest
      rw [hnil, hdrop] at this
      exact this.symm
    exact hi.ebb p hp c0 (by rw [hrest]; rfl) m tlp hm hc
  | cons q qs =>
    rw [hsk] at hp
    simp only [List.cons_append, List.head?_cons, Option.some.injEq] at hp
    subst hp
    have hq : q ∈ markLc (s.rest.take (skipLen s.rest)) := by
      apply List.mem_reverse.mp; rw [hsk]; exact List.mem_cons_self ..
    obtain ⟨c', hc', h3, h4⟩ := markLc_mem_ce hq
    rw [← h4]
    exact hi.ebt c' (List.mem_of_mem_take hc') m tlp (h3.trans hm)

theorem modelinvE_step {E : String → Bool} {T : Table} {s s' : MState} (hi : ModelInvE E s)
    (h : step T s = some s') : ∃ E', ModelInvE E' s' := by
  cases step_rel h with
  | subst c0 tl a cmd name asg hdrop hkind hsub hnot hlook hwhy hpre hrest =>
    obtain ⟨hc0, htl⟩ := mem_rest_of_drop hdrop
    obtain ⟨hnd, hdel, hnb⟩ := model_token_facts hdrop hkind
    have hname : a.name = name := (lookup_spec hlook).2
    have hanot : a.name ∉ c0.chain := by
      rw [hname]; simpa [SChar.isAliasFor] using hnot
    have hlb0 : AdjN (RLBE E) (c0 :: tl) none := by rw [← hdrop]; exact adjN_drop _ hi.lb
    have hed0 : AdjN RED (c0 :: tl) none := by rw [← hdrop]; exact adjN_drop _ hi.ed
    have hmo0 : AdjN Mono (c0 :: tl) none := by rw [← hdrop]; exact adjN_drop _ hi.mono
    have hsub0 : ∀ x ∈ tl, ∀ m ∈ x.chain, m ∈ c0.chain := mono_all c0 tl hmo0
    have hsplit : c0 :: tl = (c0 :: tl.take ((lexTok (c0 :: tl)).len - 1)) ++ tl.drop ((lexTok (c0 :: tl)).len - 1) := by
      simp [List.take_append_drop]
    have hchain : ∀ c ∈ spliceChars a c0, c.chain = a.name :: c0.chain := by
      intro c hc
      simp only [spliceChars, List.mem_map] at hc
      obtain ⟨_, _, rfl⟩ := hc
      rfl
    let E' : String → Bool := fun m => if m = a.name then endsBlank a.value else E m
    have hE'a : E' a.name = endsBlank a.value := by simp [E']
    have hE'o : ∀ m, m ∈ c0.chain → E' m = E m := by
      intro m hm
      have : m ≠ a.name := fun e => hanot (e ▸ hm)
      simp [E', this]
    have hafterLB : AdjN (RLBE E') (tl.drop ((lexTok (c0 :: tl)).len - 1)) none := by
      apply adjN_imp _ _ _ (adjN_drop _ hlb0.2)
      intro c hc nx hr m hm hn he
      apply hr m hm hn
      rw [← hE'o m (hsub0 c (List.mem_of_mem_drop hc) m hm)]; exact he
    have hafterED : AdjN RED (tl.drop ((lexTok (c0 :: tl)).len - 1)) none := adjN_drop _ hed0.2
    have hafterMO : AdjN Mono (tl.drop ((lexTok (c0 :: tl)).len - 1)) none := adjN_drop _ hmo0.2
    refine ⟨E', ?_, ?_, ?_, ?_, ?_, ?_, ?_⟩
    · -- RLBE
      rw [hrest, adjN_append]
      refine ⟨adjN_same (rlbE_same E') _ _ _ hchain ?_, hafterLB⟩
      intro w hw m hm hn he
      rw [hchain w (List.mem_of_mem_getLast? hw)] at hm
      rcases List.mem_cons.mp hm with rfl | hm'
      · rw [hE'a] at he
        obtain ⟨front, b, hs, hbl⟩ := splice_last_blank a c0 he
        rw [hs, List.getLast?_concat] at hw
        simp only [Option.some.injEq] at hw
        rw [← hw]; exact hbl
      · exfalso
        rw [hE'o m hm'] at he
        have hh : ∀ x, (tl.drop ((lexTok (c0 :: tl)).len - 1)).head? = some x → m ∉ x.chain := by
          intro x hx
          apply hn x
          cases hd : tl.drop ((lexTok (c0 :: tl)).len - 1) with
          | nil => rw [hd] at hx; simp at hx
          | cons y t => rw [hd] at hx; simpa [headOr] using hx
        obtain ⟨u, hu, hb⟩ := ends_withinE (E := E) (m := m) _ _ (hsplit ▸ hlb0) ⟨c0, rfl, hm'⟩ hh he
        rw [hnb u hu] at hb; cases hb
    · -- RED
      rw [hrest, adjN_append]
      refine ⟨adjN_same red_same _ _ _ hchain ?_, hafterED⟩
      intro w _ x hx _
      apply hdel x
      cases hd : tl.drop ((lexTok (c0 :: tl)).len - 1) with
      | nil => rw [hd] at hx; simp [headOr] at hx
      | cons y t => rw [hd] at hx; simpa [headOr] using hx
    · -- boundary
      intro p hp x hx hex
      rw [hpre] at hp
      have hred := before_head_redE hi hdrop hp
      rw [hrest] at hx
      cases hsp : spliceChars a c0 with
      | nil =>
        rw [hsp] at hx
        simp only [List.nil_append] at hx
        exact hdel x hx
      | cons y ys =>
        rw [hsp] at hx
        simp only [List.cons_append, List.head?_cons, Option.some.injEq] at hx
        subst hx
        exfalso
        have hy : y.chain = a.name :: c0.chain := hchain y (by rw [hsp]; exact List.mem_cons_self ..)
        obtain ⟨m, hm, hn⟩ := hex
        have : isDelim c0.c = true := hred c0 rfl ⟨m, hm, fun hcm => hn (by rw [hy]; exact List.mem_cons_of_mem _ hcm)⟩
        rw [hnd] at this; cases this
    · -- nesting
      rw [hrest, adjN_append]
      refine ⟨adjN_same mono_same _ _ _ hchain ?_, hafterMO⟩
      intro w hw x hx m hm
      rw [hchain w (List.mem_of_mem_getLast? hw)]
      apply List.mem_cons_of_mem
      have hxin : x ∈ tl.drop ((lexTok (c0 :: tl)).len - 1) := by
        cases hd : tl.drop ((lexTok (c0 :: tl)).len - 1) with
        | nil => rw [hd] at hx; simp [headOr] at hx
        | cons y t =>
          rw [hd] at hx
          simp only [headOr, Option.some.injEq] at hx
          rw [← hx]; exact List.mem_cons_self ..
      exact hsub0 x (List.mem_of_mem_drop hxin) m hm
    · -- eb flags of the unconsumed text
      intro c hc m tl' hm
      rw [hrest] at hc
      rcases List.mem_append.mp hc with h3 | h4
      · have hch := hchain c h3
        simp only [spliceChars, List.mem_map] at h3
        obtain ⟨_, _, rfl⟩ := h3
        rw [hch] at hm
        obtain ⟨rfl, _⟩ := List.cons.inj hm
        exact hE'a.symm
      · have hcin : c ∈ tl := List.mem_of_mem_drop h4
        have hmc : m ∈ c0.chain := hsub0 c hcin m (by rw [hm]; exact List.mem_cons_self ..)
        rw [hE'o m hmc]
        exact hi.ebt c (htl c hcin) m tl' hm
    · -- eb flag at the boundary
      intro p hp x hx m tlp hm hmx
      rw [hpre] at hp
      rw [hrest] at hx
      have hmem : m = a.name ∨ m ∈ c0.chain := by
        cases hsp : spliceChars a c0 with
        | nil =>
          rw [hsp] at hx
          simp only [List.nil_append] at hx
          right
          have hxin : x ∈ tl.drop ((lexTok (c0 :: tl)).len - 1) := List.mem_of_mem_head? hx
          exact hsub0 x (List.mem_of_mem_drop hxin) m hmx
        | cons y ys =>
          rw [hsp] at hx
          simp only [List.cons_append, List.head?_cons, Option.some.injEq] at hx
          subst hx
          have hy : y.chain = a.name :: c0.chain := hchain y (by rw [hsp]; exact List.mem_cons_self ..)
          rw [hy] at hmx
          exact List.mem_cons.mp hmx
      rcases hmem with rfl | hmc
      · exfalso
        have hred := before_head_redE hi hdrop hp
        have : isDelim c0.c = true := hred c0 rfl ⟨a.name, by rw [hm]; exact List.mem_cons_self .., hanot⟩
        rw [hnd] at this; cases this
      · rw [hE'o m hmc]
        exact before_ebE hi hdrop hp hm hmc
    · intro c hc
      rw [hrest] at hc
      rcases List.mem_append.mp hc with h3 | h4
      · simp only [spliceChars, List.mem_map] at h3
        obtain ⟨_, _, rfl⟩ := h3
        rfl
      · exact hi.nolc c (htl c (List.mem_of_mem_drop h4))
  | take c0 tl hdrop hel hpre hrest =>
    obtain ⟨hc0, htl⟩ := mem_rest_of_drop hdrop
    have hlb0 : AdjN (RLBE E) (c0 :: tl) none := by rw [← hdrop]; exact adjN_drop _ hi.lb
    have hed0 : AdjN RED (c0 :: tl) none := by rw [← hdrop]; exact adjN_drop _ hi.ed
    have hmo0 : AdjN Mono (c0 :: tl) none := by rw [← hdrop]; exact adjN_drop _ hi.mono
    refine ⟨E, ?_, ?_, ?_, ?_, ?_, ?_, ?_⟩
    · rw [hrest]; exact adjN_drop _ hlb0.2
    · rw [hrest]; exact adjN_drop _ hed0.2
    · intro p hp
      rw [hpre] at hp
      rw [hrest]
      have hsplit : c0 :: tl = (c0 :: tl.take (spanLen s c0 tl)) ++ tl.drop (spanLen s c0 tl) := by
        simp [List.take_append_drop]
      have hadj : AdjN RED ((c0 :: tl.take (spanLen s c0 tl)) ++ tl.drop (spanLen s c0 tl)) none := by
        rw [← hsplit]; exact hed0
      have h1 := ((adjN_append _ _ _).mp hadj).1
      have hlast : (c0 :: tl.take (spanLen s c0 tl)).getLast? = some p := by
        rw [← List.head?_reverse]
        simpa using hp
      have := adjN_boundary _ _ _ p h1 hlast
      cases hd : tl.drop (spanLen s c0 tl) with
      | nil => intro x hx; simp at hx
      | cons y t => rw [hd] at this; simpa [headOr] using this
    · rw [hrest]; exact adjN_drop _ hmo0.2
    · intro c hc m tl' hm
      rw [hrest] at hc
      exact hi.ebt c (htl c (List.mem_of_mem_drop hc)) m tl' hm
    · intro p hp x _ m tlp hm _
      rw [hpre] at hp
      have hpin : p ∈ c0 :: tl.take (spanLen s c0 tl) := by
        have : ((c0 :: tl.take (spanLen s c0 tl)).reverse).head? = some p := by simpa using hp
        exact List.mem_reverse.mp (List.mem_of_mem_head? this)
      have hps : p ∈ s.rest := by
        rcases List.mem_cons.mp hpin with rfl | h5
        · exact hc0
        · exact htl p (List.mem_of_mem_take h5)
      exact hi.ebt p hps m tlp hm
    · intro c hc
      rw [hrest] at hc
      exact hi.nolc c (htl c (List.mem_of_mem_drop hc))

/-! ### replacing the token does not change the answer of the walk (table-free) -/

theorem blank_stableE {E : String → Bool} {s : MState} (hi : ModelInvE E s) {c0 : SChar} {tl : List SChar}
    {a : Alias} {name : String} {asg : Bool}
    (hdrop : s.rest.drop (skipLen s.rest) = c0 :: tl)
    (hkind : (lexTok (c0 :: tl)).kind = .word (some name) asg) :
    afterBlank ((markLc (s.rest.take (skipLen s.rest))).reverse ++ s.pre) (some c0) =
    afterBlank ((markLc (s.rest.take (skipLen s.rest))).reverse ++ s.pre)
      (spliceChars a c0 ++ tl.drop ((lexTok (c0 :: tl)).len - 1)).head? := by
  obtain ⟨hnd, hdel, hnb⟩ := model_token_facts hdrop hkind
  cases hb : (markLc (s.rest.take (skipLen s.rest))).reverse ++ s.pre with
  | nil => rfl
  | cons p ps =>
    rw [afterBlank_cons, afterBlank_cons]
    congr 2
    unfold bcond
    cases hpc : p.chain with
    | nil => rfl
    | cons m tlp =>
      cases hpe : p.eb with
      | false => simp
      | true =>
        have hphead : ((markLc (s.rest.take (skipLen s.rest))).reverse ++ s.pre).head? = some p := by
          rw [hb]; rfl
        have hred : RED p (some c0) := before_head_redE hi hdrop hphead
        have hlb0 : AdjN (RLBE E) (c0 :: tl) none := by rw [← hdrop]; exact adjN_drop _ hi.lb
        have hsplit : c0 :: tl = (c0 :: tl.take ((lexTok (c0 :: tl)).len - 1)) ++
            tl.drop ((lexTok (c0 :: tl)).len - 1) := by simp [List.take_append_drop]
        by_cases hc : m ∈ c0.chain
        · have heb : E m = true := by
            rw [← before_ebE hi hdrop hphead hpc hc]; exact hpe
          have h1 : sameAlias p (some c0) = true := by
            rw [sameAlias_cons hpc]; simpa using hc
          have h2 : sameAlias p (spliceChars a c0 ++ tl.drop ((lexTok (c0 :: tl)).len - 1)).head? = true := by
            rw [sameAlias_cons hpc]
            cases hsp : spliceChars a c0 with
            | cons y ys =>
              have hy : y.chain = a.name :: c0.chain := by
                have : y ∈ spliceChars a c0 := by rw [hsp]; exact List.mem_cons_self ..
                simp only [spliceChars, List.mem_map] at this
                obtain ⟨_, _, rfl⟩ := this
                rfl
              simp only [List.cons_append, List.head?_cons, hy, List.contains_cons]
              simp [hc]
            | nil =>
              simp only [List.nil_append]
              cases hd : (tl.drop ((lexTok (c0 :: tl)).len - 1)).head? with
              | some d =>
                by_cases hdm : m ∈ d.chain
                · simpa using hdm
                · exfalso
                  obtain ⟨u, hu, hbu⟩ := ends_withinE (E := E) (m := m) _ _ (hsplit ▸ hlb0) ⟨c0, rfl, hc⟩
                    (by intro x hx; rw [hd] at hx; cases hx; exact hdm) heb
                  rw [hnb u hu] at hbu; cases hbu
              | none =>
                exfalso
                obtain ⟨u, hu, hbu⟩ := ends_withinE (E := E) (m := m) _ _ (hsplit ▸ hlb0) ⟨c0, rfl, hc⟩
                  (by intro x hx; rw [hd] at hx; cases hx) heb
                rw [hnb u hu] at hbu; cases hbu
          rw [h1, h2]
        · exfalso
          have : isDelim c0.c = true := hred c0 rfl ⟨m, by rw [hpc]; exact List.mem_cons_self .., hc⟩
          rw [hnd] at this; cases this

theorem bcond_blankE {E : String → Bool} {c : SChar} {nx : Option SChar} (hr : RLBE E c nx)
    (he : ∀ m tl, c.chain = m :: tl → c.eb = E m) (hb : bcond c nx = true) : isBlank c.c = true := by
  unfold bcond at hb
  simp only [Bool.and_eq_true, Bool.not_eq_true', List.isEmpty_eq_false_iff] at hb
  obtain ⟨⟨hne, heb⟩, hsa⟩ := hb
  cases hch : c.chain with
  | nil => exact absurd hch hne
  | cons m tl =>
    apply hr m (by rw [hch]; exact List.mem_cons_self ..) _ (by rw [← he m tl hch]; exact heb)
    intro x hx
    rw [sameAlias_cons hch, hx] at hsa
    simpa using hsa

theorem pc_of_invE {E : String → Bool} {rs : List Region} (hn : (rs.map (·.name)).Nodup) : ∀ (l : List SChar),
    Corr rs l → CorrE rs l → AdjN (RLBE E) l none → (∀ c ∈ l, ∀ m tl, c.chain = m :: tl → c.eb = E m) →
    (∀ c ∈ l, c.lc = false) → PC rs l
  | [], _, _, _, _, _ => trivial
  | c :: t, hco, hce, hlb, heb, hlc =>
    ⟨⟨bcond_endsValue hn hco hce,
      fun hb => bcond_blankE hlb.1 (fun m tl hm => heb c (List.mem_cons_self ..) m tl hm) hb,
      hlc c (List.mem_cons_self ..)⟩,
     pc_of_invE hn t hco.2 hce.2 hlb.2 (fun x hx => heb x (List.mem_cons_of_mem _ hx))
       (fun x hx => hlc x (List.mem_cons_of_mem _ hx))⟩

/-- the table-free invariant of a lock-step pair -/
structure BlankInvE (E : String → Bool) (s : MState) (h : HState) : Prop where
  mi : ModelInvE E s
  ce : CorrE h.active s.rest
  nn : NodupNames h
  j : afterBlank s.pre s.rest.head? = h.tb

/-- … for SOME record of the open regions' flags: what a run maintains, whatever the tables were -/
def BlankInvL (s : MState) (h : HState) : Prop := ∃ E, BlankInvE E s h

theorem pc_restE {E : String → Bool} {s : MState} {h : HState} (hco : Corr h.active s.rest)
    (hb : BlankInvE E s h) : PC h.active s.rest :=
  pc_of_invE hb.nn s.rest hco hb.ce hb.mi.lb hb.mi.ebt hb.mi.nolc

theorem blank_agreeE {E : String → Bool} {s : MState} {h : HState} (hs : Sim s h)
    (hco : Corr h.active s.rest) (hb : BlankInvE E s h) : mblank s = hblank h := by
  obtain ⟨hr, _, _, _, _⟩ := hs
  have hk : skipLenC h.rest = skipLen s.rest := by rw [hr]; rfl
  unfold mblank hblank flagRun
  rw [afterBlank_fwd]
  have hpc : PC h.active (s.rest.take (skipLen s.rest) ++ s.rest.drop (skipLen s.rest)) := by
    rw [List.take_append_drop]; exact pc_restE hco hb
  rw [fwd_flagGo_marked _ _ _ hpc, List.take_append_drop]
  simp only [hk, ↓reduceIte, hr, ← chars_take, chars_length]
  congr 1
  rw [← hb.j]
  apply afterBlank_congr
  rw [headOr_markLc, headOr_append_none, List.take_append_drop]
  cases s.rest <;> rfl

theorem blankinvE_step {E : String → Bool} {T : Table} {s s' : MState} {h h' : HState}
    (hs : Sim s h) (hco : Corr h.active s.rest) (hb : BlankInvE E s h) (hc : mcand T s = hcand T h)
    (h1 : step T s = some s') (h2 : hstep T h = some h') : BlankInvL s' h' := by
  obtain ⟨hce', hnn'⟩ := spec_step hs hco hb.ce hb.nn hc h1 h2
  obtain ⟨E', hmi'⟩ := modelinvE_step hb.mi h1
  refine ⟨E', hmi', hce', hnn', ?_⟩
  have hagree := blank_agreeE hs hco hb
  obtain ⟨hr, _, hst, _, hhd⟩ := hs
  have hk : skipLenC h.rest = skipLen s.rest := by rw [hr]; rfl
  unfold mcand at hc
  cases hdrop : s.rest.drop (skipLen s.rest) with
  | nil => unfold step at h1; simp only [hdrop] at h1; cases h1
  | cons c0 tl =>
    rw [hdrop] at hc
    simp only at hc
    have hd : h.rest.drop (skipLenC h.rest) = c0.c :: chars tl := by
      rw [hk, hr, ← chars_drop, hdrop]; rfl
    have hm : mblank s = afterBlank ((markLc (s.rest.take (skipLen s.rest))).reverse ++ s.pre) (some c0) := by
      unfold mblank; rw [hdrop]; rfl
    cases hel : eligible T ((markLc (s.rest.take (skipLen s.rest))).reverse ++ s.pre) c0
        (lexTok (c0 :: tl)).kind (trans s.st (lexTok (c0 :: tl)).kind).sub with
    | some a =>
      rw [hel] at hc
      rw [step_subst hdrop hel] at h1
      rw [hstep_subst hd hc.symm] at h2
      cases h1; cases h2
      obtain ⟨_, name, asg, _, hkind, _, _, _⟩ := eligible_spec hel
      show afterBlank _ (spliceChars a c0 ++ tl.drop ((lexTok (c0 :: tl)).len - 1)).head? = hblank h
      rw [← blank_stableE hb.mi hdrop hkind, ← hm, hagree]
    | none =>
      rw [hel] at hc
      rw [step_take hdrop hel] at h1
      rw [hstep_take hd hc.symm] at h2
      cases h1; cases h2
      have hsp : spanLenC h.hd h.st (c0.c :: chars tl) = spanLen s c0 tl := by
        unfold spanLen; rw [hhd, hst]; rfl
      simp only [hsp]
      have hpre : (tl.take (spanLen s c0 tl)).reverse ++ c0 ::
            ((markLc (s.rest.take (skipLen s.rest))).reverse ++ s.pre)
          = (c0 :: tl.take (spanLen s c0 tl)).reverse ++
            ((markLc (s.rest.take (skipLen s.rest))).reverse ++ s.pre) := by simp
      rw [hpre, afterBlank_fwd]
      have hpc : PC h.active ((c0 :: tl.take (spanLen s c0 tl)) ++ tl.drop (spanLen s c0 tl)) := by
        have : (c0 :: tl.take (spanLen s c0 tl)) ++ tl.drop (spanLen s c0 tl) = c0 :: tl := by
          simp [List.take_append_drop]
        rw [this, ← hdrop]
        exact pc_drop _ _ (pc_restE hco hb)
      rw [fwd_flagGo_plain _ _ _ hpc]
      unfold flagRun
      have hlen : ((c0 :: tl.take (spanLen s c0 tl)) ++ tl.drop (spanLen s c0 tl)).length
          = (c0.c :: chars tl).length := by
        simp [List.take_append_drop, chars]
      have hch : chars (c0 :: tl.take (spanLen s c0 tl)) = (c0.c :: chars tl).take (spanLen s c0 tl + 1) := by
        simp [chars, List.map_take]
      rw [hlen, hch]
      simp only [Bool.false_eq_true, ↓reduceIte]
      congr 1
      show afterBlank _ (some c0) = flagRun h.active true (skipLenC h.rest) h.tb h.rest
      rw [← hm, hagree]; rfl

theorem adjN_mono_plain : ∀ (cs : List Char), AdjN Mono (plain cs) none
  | [] => trivial
  | [_] => ⟨fun x hx => (by cases hx), trivial⟩
  | _ :: d :: t => ⟨fun x hx m hm => (by
      have : x = ({ c := d } : SChar) := (Option.some.inj hx).symm
      rw [this] at hm; cases hm), adjN_mono_plain (d :: t)⟩

theorem blankinvL_init (line : List Char) : BlankInvL (init line) ({ rest := line } : HState) := by
  refine ⟨fun _ => false, ⟨?_, ?_, ?_, ?_, ?_, ?_, ?_⟩, correE_plain line, List.nodup_nil, rfl⟩
  · exact adjN_plain (fun c nx hc m hm => by rw [hc] at hm; cases hm) line
  · exact adjN_plain (fun c nx hc x _ ⟨m, hm, _⟩ => by rw [hc] at hm; cases hm) line
  · intro p hp; cases hp
  · exact adjN_mono_plain line
  · intro c hc m tl hm
    simp only [init, plain, List.mem_map] at hc
    obtain ⟨_, _, rfl⟩ := hc
    cases hm
  · intro p hp; cases hp
  · intro c hc
    simp only [init, plain, List.mem_map] at hc
    obtain ⟨_, _, rfl⟩ := hc
    rfl

end YashModel.Alias
