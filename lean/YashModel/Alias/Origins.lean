/-
  C17 — origins of the characters: the model's per-character origin chains (what the real lexer stores as
  `Source::Alias{original, alias}` nesting and the harness prints) equal the by-hand Spec's "aliases being
  processed where the character stands" (`regionNames`, `hlog`).  Lemmas for `Theorems.lean`.
-/
import YashModel.Alias.Blank
namespace YashModel.Alias

/-- `Corr` read as an equation between lists -/
theorem corr_regionNames {rs : List Region} : ∀ (l : List SChar), Corr rs l →
    l.map (·.chain) = regionNames rs (chars l)
  | [], _ => rfl
  | c :: t, h => by
    show c.chain :: t.map (·.chain) = (activeAt rs ((chars t).length + 1)).map (·.name) :: regionNames rs (chars t)
    rw [h.1, corr_regionNames t h.2, chars_length]; rfl

theorem chains_of_split {rest A B : List SChar} (h : rest = A ++ B) :
    (rest.map (·.chain)).take A.length = A.map (·.chain) := by
  subst h
  simp

/-- what a step of the model adds to the consumed buffer: a prefix of the unconsumed one, chains unchanged -/
theorem step_pre_chains {T : Table} {s s' : MState} (h : step T s = some s') :
    ∃ n, s'.pre.map (·.chain) = ((s.rest.map (·.chain)).take n).reverse ++ s.pre.map (·.chain) ∧
      s'.pre.length = n + s.pre.length := by
  cases step_rel h with
  | subst c0 tl a cmd name asg hdrop hkind hsub hnot hlook hwhy hpre hrest =>
    refine ⟨(s.rest.take (skipLen s.rest)).length, ?_, ?_⟩
    · rw [chains_of_split (List.take_append_drop (skipLen s.rest) s.rest).symm, hpre]
      simp only [List.map_append, List.map_reverse, markLc_chains]
    · rw [hpre]
      have := congrArg List.length (markLc_chains (s.rest.take (skipLen s.rest)))
      simp only [List.length_map] at this
      simp only [List.length_append, List.length_reverse, this]
  | take c0 tl hdrop hel hpre hrest =>
    have hsplit : s.rest = (s.rest.take (skipLen s.rest) ++ c0 :: tl.take (spanLen s c0 tl)) ++
        tl.drop (spanLen s c0 tl) := by
      conv => lhs; rw [← List.take_append_drop (skipLen s.rest) s.rest, hdrop,
        ← List.take_append_drop (spanLen s c0 tl) tl]
      simp
    refine ⟨(s.rest.take (skipLen s.rest) ++ c0 :: tl.take (spanLen s c0 tl)).length, ?_, ?_⟩
    · rw [chains_of_split hsplit, hpre]
      simp only [List.map_append, List.map_reverse, List.map_cons, markLc_chains, List.reverse_append,
        List.reverse_cons, List.append_assoc, List.cons_append, List.nil_append]
    · rw [hpre]
      have := congrArg List.length (markLc_chains (s.rest.take (skipLen s.rest)))
      simp only [List.length_map] at this
      simp only [List.length_append, List.length_reverse, List.length_cons, this]
      omega

/-- ★ one lock step: the Spec's log of "aliases being processed where the character was read" stays equal to
    the origin chains of the model's consumed characters -/
theorem origins_step {T : Table} {s s' : MState} {h h' : HState}
    (hs : Sim s h) (hs' : Sim s' h') (hco : Corr h.active s.rest) (h1 : step T s = some s') :
    hlog h h' (s.pre.map (·.chain)) = s'.pre.map (·.chain) := by
  obtain ⟨n, hn, hlen⟩ := step_pre_chains h1
  unfold hlog
  have e1 : h'.out.length - h.out.length = n := by
    rw [hs'.2.1, hs.2.1, chars_length, chars_length, hlen]; omega
  rw [e1, hs.1, ← corr_regionNames _ hco, hn]

/-- final origins from the invariant -/
theorem origins_final {s : MState} {h : HState} {log : List (List String)}
    (hs : Sim s h) (hco : Corr h.active s.rest) (hl : log = s.pre.map (·.chain)) :
    s.origins = log.reverse ++ regionNames h.active h.rest := by
  unfold MState.origins
  rw [hl, hs.1, ← corr_regionNames _ hco]
  simp

/-- the log is an observer: it does not change the by-hand run -/
theorem hrunC_h (T : Table) (f : Nat) (c : HCState) : (hrunC T f c).h = hrun T f c.h := by
  induction f generalizing c with
  | zero => rfl
  | succ f ih =>
    unfold hrunC hrun hstepC
    cases hstep T c.h with
    | none => rfl
    | some h' => exact ih _

theorem hlrunC_l (f : Nat) (c : HLCState) : (hlrunC f c).l = hlrun f c.l := by
  induction f generalizing c with
  | zero => rfl
  | succ f ih =>
    unfold hlrunC hlrun hlstepC
    cases hlstep c.l with
    | none => rfl
    | some l' => exact ih _

/-- lock-step run with the log (constant table) -/
theorem origins_run {T : Table} (f : Nat) {s : MState} {c : HCState}
    (hs : Sim s c.h) (hco : Corr c.h.active s.rest) (hl : c.log = s.pre.map (·.chain))
    (ha : Agree T f s c.h) :
    Sim (run T f s).1 (hrunC T f c).h ∧ Corr (hrunC T f c).h.active (run T f s).1.rest ∧
      (hrunC T f c).log = (run T f s).1.pre.map (·.chain) := by
  induction f generalizing s c with
  | zero => exact ⟨hs, hco, hl⟩
  | succ f ih =>
    obtain ⟨hc, hnext⟩ := ha
    rcases sim_step hs hc with ⟨e1, e2⟩ | ⟨s', h', e1, e2, hsim⟩
    · unfold run hrunC hstepC; simp only [e1, e2]; exact ⟨hs, hco, hl⟩
    · unfold run hrunC hstepC; simp only [e1, e2]
      apply ih (c := { h := h', log := hlog c.h h' c.log }) hsim (corr_step hs hco hc e1 e2)
      · rw [hl]; exact origins_step hs hsim hco e1
      · exact hnext s' h' e1 e2

end YashModel.Alias
