/-
  C17 — the hand-written constants of `Alias/Model.lean` agree with the tables `tools/tables/alias.py` re-extracts
  from /repo on every run (`Generated/AliasTables.lean`).  An edit of a Rust table changes the generated file and
  breaks one of these proofs (the proof step of the check fails) instead of leaving the model behind.
-/
import YashModel.Alias.Model
import YashModel.Generated.AliasTables
namespace YashModel.Alias
open YashModel.Generated

/-- `operators` = every key path of the `OPERATORS` trie (op.rs) -/
theorem operators_generated : operators = AliasTables.operators.map String.toList := by decide +kernel

/-- what `lexOp` relies on: it extends a match one character at a time and looks at three characters at most -/
theorem operators_prefix_closed :
    ∀ s ∈ AliasTables.operators, s.toList.length ≤ 3 ∧
      ∀ k, k < s.toList.length → 0 < k → isOperator (s.toList.take k) = true := by decide +kernel

/-- `isOpChar` = the keys of the root node of the trie (`is_operator_char` is `OPERATORS.edge(c).is_some()`) -/
theorem isOpChar_generated (c : Char) : isOpChar c = AliasTables.operatorFirstChars.contains c := by
  simp only [isOpChar, AliasTables.operatorFirstChars, List.contains_cons, List.contains_nil, Bool.or_false,
    Bool.or_assoc]

/-- … and those keys are the first characters of the operators -/
theorem operatorFirstChars_generated :
    ∀ c, c ∈ AliasTables.operatorFirstChars ↔ ∃ s ∈ AliasTables.operators, s.toList.head? = some c := by
  intro c
  constructor
  · intro h
    have : ∀ d ∈ AliasTables.operatorFirstChars, (AliasTables.operators.any fun s => s.toList.head? == some d) = true := by
      decide +kernel
    have := this c h
    simp only [List.any_eq_true, beq_iff_eq] at this
    exact this
  · rintro ⟨s, hs, hc⟩
    have : ∀ s ∈ AliasTables.operators, ∀ d, s.toList.head? = some d → d ∈ AliasTables.operatorFirstChars := by
      decide +kernel
    exact this s hs c hc

/-- `keywords` = the texts `Keyword::from_str` accepts (keyword.rs) -/
theorem keywords_generated : keywords = AliasTables.keywords := by decide +kernel

/-- `isRedirOp` / `isHereOp` on operator texts (the only arguments `trans` gives them) = `TryFrom<Operator> for
    RedirOp` (conversions.rs) / the here-document arms of redir.rs, with the `remove_tabs` flag of `<<-` -/
theorem redir_ops_generated :
    ∀ s ∈ AliasTables.operators,
      isRedirOp s = AliasTables.redirOps.contains s ∧
      isHereOp s = (AliasTables.hereDocOps.map (·.1)).contains s ∧
      (isHereOp s = true → AliasTables.hereDocOps.lookup s = some (s == "<<-")) := by decide +kernel

theorem char_eq_iff_val (c d : Char) : (c == d) = (c.val == d.val) := by
  rw [Bool.eq_iff_iff]
  simp only [beq_iff_eq]
  exact ⟨fun h => by rw [h], fun h => Char.ext h⟩

/-- `isBlank` = `is_blank` of lex/core.rs: `c != '\n' && c.is_whitespace()`, for EVERY character (Unicode
    `White_Space` included: NBSP, EM SPACE, IDEOGRAPHIC SPACE …) -/
theorem isBlank_generated (c : Char) : isBlank c = AliasTables.isBlankGen c := by
  unfold isBlank AliasTables.isBlankGen AliasTables.isWhiteSpace
  simp only [bne, char_eq_iff_val]
  rw [Bool.eq_iff_iff]
  simp only [Bool.or_eq_true, Bool.and_eq_true, beq_iff_eq, decide_eq_true_eq, Bool.not_eq_true',
    beq_eq_false_iff_ne, ne_eq, UInt32.le_iff_toNat_le, ← UInt32.toNat_inj]
  simp only [Char.reduceVal, UInt32.toNat_ofNat, UInt32.reduceToNat]
  omega

/-- the built-ins: `unalias` knows exactly `-a` (no long option), `alias` has no option at all (so `leadingOption`
    only has to recognise `--` and `-a`), `define` splits at the first `=` and never defines a global alias
    (`defineAlias`) -/
theorem builtins_generated :
    AliasTables.unaliasShortOptions = ['a'] ∧ AliasTables.unaliasLongOptions = [] ∧
    AliasTables.aliasShortOptions = [] ∧ AliasTables.aliasLongOptions = [] ∧
    AliasTables.aliasSplitChar = '=' ∧ AliasTables.aliasDefinesGlobal = false ∧
    AliasTables.endsWithBlankLooksAt = "last" := by decide +kernel

end YashModel.Alias
