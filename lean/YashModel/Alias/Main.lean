/-
  Driver for C17.  stdin: `<entries> | <hex line>` per line (entries: `name:n:<hex value>` or
  `name:g:<hex value>`); stdout: `<model observation>\t<spec>`.
  Observation: `ok <hex of the substituted text> C=<origin chains of its characters, run-length> T=<final table>`
  or `syntax-error`.
-/
import YashModel.Common.Proto
import YashModel.Alias.Model
import YashModel.Alias.Grammar
import YashModel.Alias.Spec
import YashModel.Alias.Refine
open YashModel YashModel.Alias YashModel.Proto

def parseEntry (e : String) : Option Alias :=
  match e.splitOn ":" with
  | [n, g, v] => do
    let val ← decChars v
    if g == "g" then pure { name := n, value := val, global := true }
    else if g == "n" then pure { name := n, value := val, global := false }
    else none
  | _ => none

def parseCase (line : String) : Option (Table × List Char) :=
  match line.splitOn "|" with
  | [t, l] => do
    let es ← (words t).mapM parseEntry
    let cs ← decChars l.trimAscii.toString
    pure (es, cs)
  | _ => none

def insertSorted (a : Alias) : List Alias → List Alias
  | [] => [a]
  | b :: t => if a.name < b.name then a :: b :: t else b :: insertSorted a t

def showTable (T : Table) : String :=
  let seen := T.foldl (fun (acc : List Alias) a => if acc.any (·.name == a.name) then acc else acc ++ [a]) []
  let sorted := seen.foldr insertSorted []
  if sorted.isEmpty then "-" else
  ",".intercalate (sorted.map fun a => s!"{encStr a.name}:{if a.global then "g" else "n"}:{encChars a.value}")

/-- origin chain of a character: alias names (hex), innermost first -/
def showChain (ch : List String) : String :=
  if ch.isEmpty then "-" else ">".intercalate (ch.map encStr)

/-- run-length form of the per-character origins: `<count>x<chain>` per maximal run -/
def rle : List (List String) → List (Nat × List String)
  | [] => []
  | c :: t =>
    match rle t with
    | (n, d) :: r => if c == d then (n + 1, d) :: r else (1, c) :: (n, d) :: r
    | [] => [(1, c)]

def showOrigins (o : List (List String)) : String :=
  if o.isEmpty then "-" else ",".intercalate ((rle o).map fun (n, ch) => s!"{n}x{showChain ch}")

def observe (toks : Toks) (hd : Pending) (text : List Char) (origins : List (List String)) (T : Table) : String :=
  -- a here-document whose body was never read (no newline after it) is `MissingHereDocContent`
  if !validToks toks || !hd.isEmpty then "syntax-error"
  else s!"ok {encChars text} C={showOrigins origins} T={showTable T}"

/-- step budget of the line machine (the table may change, so `fuelFor` of the initial table is no bound) -/
def lineFuel (T : Table) (cs : List Char) : Nat := fuelFor T cs + 20000

def runLine (line : String) : String :=
  match parseCase line with
  | none => "bad-case\t-"
  | some (T, cs) =>
    let (l, done) := lrun (lineFuel T cs) { T := T, m := init cs }
    if !done then "FUEL\t-" else
    -- the by-hand line machine with its origin log (`hlrunC_l`: the log does not change the run)
    let hc := hlrunC (lineFuel T cs) { l := { T := T, h := { rest := cs } } }
    let hl := hc.l
    -- the certificate of `line_model_eq_spec_checked`: model and by-hand machine choose the same alias at every step
    if !lagreeB (lineFuel T cs) { T := T, m := init cs } { T := T, h := { rest := cs } } then
      observe l.m.toks.reverse l.m.hd l.m.text l.m.origins l.finalTable ++ "\t=LAGREE-FAILED" else
    observe l.m.toks.reverse l.m.hd l.m.text l.m.origins l.finalTable ++ "\t=" ++
      observe hl.h.toks.reverse hl.h.hd (hl.h.out.reverse ++ hl.h.rest) hc.origins hl.finalTable

def main : IO Unit := YashModel.Proto.mainLoop runLine
