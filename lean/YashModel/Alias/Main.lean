/-
  Driver for C17.  stdin: `<entries> | <hex line>` per line (entries: `name:n:<hex value>` or
  `name:g:<hex value>`); stdout: `<model observation>\t<spec>`.
  Observation: `ok <hex of the substituted text>` or `syntax-error`.
-/
import YashModel.Common.Proto
import YashModel.Alias.Model
import YashModel.Alias.Grammar
import YashModel.Alias.Spec
open YashModel YashModel.Alias YashModel.Proto

def parseEntry (e : String) : Option Alias :=
  match e.splitOn ":" with
  | [n, g, v] => do
    let val ← decChars v
    if g == "g" then pure { name := n, value := val, global := true }
    else if g == "n" then pure { name := n, value := val, global := false }
    else none
  | _ => none

def parseCase (line : String) : Option (Table × List Char) :=
  match line.splitOn "|" with
  | [t, l] => do
    let es ← (words t).mapM parseEntry
    let cs ← decChars l.trimAscii.toString
    pure (es, cs)
  | _ => none

def observe (toks : Toks) (text : List Char) : String :=
  if !validToks toks then "syntax-error" else s!"ok {encChars text}"

def runLine (line : String) : String :=
  match parseCase line with
  | none => "bad-case\t-"
  | some (T, cs) =>
    let (s, done) := run T (fuelFor T cs) (init cs)
    if !done then "FUEL\t-" else
    let h := substHand T cs
    observe s.toks.reverse s.text ++ "\t=" ++ observe h.toks.reverse (substLine T cs)

def main : IO Unit := YashModel.Proto.mainLoop runLine
