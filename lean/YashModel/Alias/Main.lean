/-
  Driver for C17.  stdin: `<entries> | <hex line>` per line (entries: `name:n:<hex value>` or
  `name:g:<hex value>`); stdout: `<model observation>\t<spec>`.
  Observation: `ok <hex of the substituted text> C=<origin chains of its characters, run-length>
  B=<is_after_blank_ending_alias at every index, run-length> T=<final table>
  X=<exit status : hex of standard output, of every executed alias / unalias command>`
  or `syntax-error`.
-/
import YashModel.Common.Proto
import YashModel.Alias.Model
import YashModel.Alias.Grammar
import YashModel.Alias.Spec
import YashModel.Alias.Refine
open YashModel YashModel.Alias YashModel.Proto

def parseEntry (e : String) : Option Alias :=
  match e.splitOn ":" with
  | [n, g, v] => do
    let val ← decChars v
    if g == "g" then pure { name := n, value := val, global := true }
    else if g == "n" then pure { name := n, value := val, global := false }
    else none
  | _ => none

def parseCase (line : String) : Option (Table × List Char) :=
  match line.splitOn "|" with
  | [t, l] => do
    let es ← (words t).mapM parseEntry
    let cs ← decChars l.trimAscii.toString
    pure (es, cs)
  | _ => none

def insertSorted (a : Alias) : List Alias → List Alias
  | [] => [a]
  | b :: t => if a.name < b.name then a :: b :: t else b :: insertSorted a t

def showTable (T : Table) : String :=
  let seen := T.foldl (fun (acc : List Alias) a => if acc.any (·.name == a.name) then acc else acc ++ [a]) []
  let sorted := seen.foldr insertSorted []
  if sorted.isEmpty then "-" else
  ",".intercalate (sorted.map fun a => s!"{encStr a.name}:{if a.global then "g" else "n"}:{encChars a.value}")

/-- origin chain of a character: alias names (hex), innermost first -/
def showChain (ch : List String) : String :=
  if ch.isEmpty then "-" else ">".intercalate (ch.map encStr)

/-- run-length form of the per-character origins: `<count>x<chain>` per maximal run -/
def rle : List (List String) → List (Nat × List String)
  | [] => []
  | c :: t =>
    match rle t with
    | (n, d) :: r => if c == d then (n + 1, d) :: r else (1, c) :: (n, d) :: r
    | [] => [(1, c)]

def showOrigins (o : List (List String)) : String :=
  if o.isEmpty then "-" else ",".intercalate ((rle o).map fun (n, ch) => s!"{n}x{showChain ch}")

def rleB : List Bool → List (Nat × Bool)
  | [] => []
  | c :: t =>
    match rleB t with
    | (n, d) :: r => if c == d then (n + 1, d) :: r else (1, c) :: (n, d) :: r
    | [] => [(1, c)]

def showBits (o : List Bool) : String :=
  if o.isEmpty then "-" else ",".intercalate ((rleB o).map fun (n, b) => s!"{n}x{if b then 1 else 0}")

/-- `Lexer::is_after_blank_ending_alias(i)` for every index `i` of the final buffer: the model's walk (`afterBlank`)
    over its own buffer; the blanks / comment left at the end of input have been skipped by the lexer (marked) -/
def walkBits (s : MState) : List Bool :=
  let rec go (before : List SChar) : List SChar → List Bool
    | [] => []
    | c :: t => afterBlank before (some c) :: go (c :: before) t
  go [] (s.pre.reverse ++ markLc s.rest)

/-- the `alias` / `unalias` commands `lstep` executes at this step (the same computation as inside `lstep`) -/
def lstepCmds (l : LState) : List (List (List Char)) :=
  match step l.T l.m with
  | none => []
  | some m' =>
    if m'.subs != l.m.subs then [] else
    let r := l.m.rest.drop (skipLen l.m.rest)
    let tok := lexTok r
    (trackTok l.m.st tok.kind (trans l.m.st tok.kind).sub (chars (r.take tok.len)) l.tr).2

def hlstepCmds (l : HLState) : List (List (List Char)) :=
  match hstep l.T l.h with
  | none => []
  | some h' =>
    if h'.toks.length == l.h.toks.length then [] else
    let r := l.h.rest.drop (skipLenC l.h.rest)
    let tok := lexTokC r
    (trackTok l.h.st tok.kind (trans l.h.st tok.kind).sub (r.take tok.len) l.tr).2

/-- exit status and standard output of every command of a list, executed in order (`runCmd`) -/
def runAll (T : Table) (cmds : List (List (List Char))) : List (Nat × List Char) :=
  (cmds.foldl (fun (acc : Table × List (Nat × List Char)) ws =>
    let r := runCmd acc.1 ws
    (r.T, acc.2 ++ [(r.status, r.out)])) (T, [])).2

/-- the commands of the last command line when the input ends without a newline (`LState.finalTable`) -/
def finalCmds (tr : Track) (st : PState) : List (List (List Char)) :=
  if tr.depth == 0 && !tr.cont && lineEndState st then (endItem st tr).pending.reverse else []

def lrunX : Nat → LState → List (Nat × List Char) → List (Nat × List Char)
  | 0, _, acc => acc
  | f + 1, l, acc =>
    match lstep l with
    | none => acc ++ runAll l.T (finalCmds l.tr l.m.st)
    | some l' => lrunX f l' (acc ++ runAll l.T (lstepCmds l))

def hlrunX : Nat → HLState → List (Nat × List Char) → List (Nat × List Char)
  | 0, _, acc => acc
  | f + 1, l, acc =>
    match hlstep l with
    | none => acc ++ runAll l.T (finalCmds l.tr l.h.st)
    | some l' => hlrunX f l' (acc ++ runAll l.T (hlstepCmds l))

def showX (xs : List (Nat × List Char)) : String :=
  if xs.isEmpty then "-" else ",".intercalate (xs.map fun (st, out) => s!"{st}:{encChars out}")

def observe (toks : Toks) (hd : Pending) (text : List Char) (origins : List (List String)) (bits : List Bool)
    (T : Table) (xs : List (Nat × List Char)) : String :=
  -- a here-document whose body was never read (no newline after it) is `MissingHereDocContent`
  if !validToks toks || !hd.isEmpty then "syntax-error"
  else s!"ok {encChars text} C={showOrigins origins} B={showBits bits} T={showTable T} X={showX xs}"

/-- step budget of the line machine (the table may change, so `fuelFor` of the initial table is no bound) -/
def lineFuel (T : Table) (cs : List Char) : Nat := fuelFor T cs + 20000

/-- the code points for which `isBlank` holds, as maximal ranges `lo-hi` (hex), over ALL scalar values: compared with a
    sweep of the real `yash_syntax::parser::lex::is_blank` (so the `White_Space` table typed into the model and into
    the extractor is checked against Rust's `char::is_whitespace` itself on every run) -/
def blankRanges : String := Id.run do
  let mut out : Array String := #[]
  let mut start : Option Nat := none
  for n in [0:0x110000] do
    let b := (0xD800 ≤ n && n ≤ 0xDFFF) == false && isBlank (Char.ofNat n)
    match start, b with
    | none, true => start := some n
    | some lo, false =>
      out := out.push s!"{String.ofList (Nat.toDigits 16 lo)}-{String.ofList (Nat.toDigits 16 (n - 1))}"
      start := none
    | _, _ => pure ()
  if let some lo := start then out := out.push s!"{String.ofList (Nat.toDigits 16 lo)}-10ffff"
  return ",".intercalate out.toList

/-- `isPortableAliasName` on every one-character string below U+0300 (ranges) and on the harness's list of words -/
def portableNames : String := Id.run do
  let mut out : Array String := #[]
  let mut start : Option Nat := none
  for n in [0:0x300] do
    let b := isPortableAliasName [Char.ofNat n]
    match start, b with
    | none, true => start := some n
    | some lo, false =>
      out := out.push s!"{String.ofList (Nat.toDigits 16 lo)}-{String.ofList (Nat.toDigits 16 (n - 1))}"
      start := none
    | _, _ => pure ()
  let words := ["", "a", "ab_1", "a b", "a=b", "-x", "A!%,-@_9", "é", "a.b", "a/b", "x\ny"]
  let bits := String.ofList (words.map fun w => if isPortableAliasName w.toList then '1' else '0')
  return ",".intercalate out.toList ++ " " ++ bits

def runLine (line : String) : String :=
  if line.trimAscii.toString == "portable-names" then s!"portable {portableNames}\t-" else
  if line.trimAscii.toString == "blank-sweep" then s!"blank {blankRanges}\t-" else
  match parseCase line with
  | none => "bad-case\t-"
  | some (T, cs) =>
    let (l, done) := lrun (lineFuel T cs) { T := T, m := init cs }
    if !done then "FUEL\t-" else
    -- the by-hand line machine with its origin log (`hlrunC_l`: the log does not change the run)
    let hc := hlrunC (lineFuel T cs) { l := { T := T, h := { rest := cs } } }
    let hl := hc.l
    -- the certificate of `line_model_eq_spec_checked`: model and by-hand machine choose the same alias at every step
    if !lagreeB (lineFuel T cs) { T := T, m := init cs } { T := T, h := { rest := cs } } then
      observe l.m.toks.reverse l.m.hd l.m.text l.m.origins (walkBits l.m) l.finalTable [] ++ "\t=LAGREE-FAILED" else
    let hbits := hlrunB (lineFuel T cs) { T := T, h := { rest := cs } } []
    let xs := lrunX (lineFuel T cs) { T := T, m := init cs } []
    let hxs := hlrunX (lineFuel T cs) { T := T, h := { rest := cs } } []
    observe l.m.toks.reverse l.m.hd l.m.text l.m.origins (walkBits l.m) l.finalTable xs ++ "\t=" ++
      observe hl.h.toks.reverse hl.h.hd (hl.h.out.reverse ++ hl.h.rest) hc.origins hbits hl.finalTable hxs

def main : IO Unit := YashModel.Proto.mainLoop runLine
