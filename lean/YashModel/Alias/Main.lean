/-
  Driver for C17.  stdin: `<entries> | <hex line>` per line (entries: `name:n:<hex value>` or
  `name:g:<hex value>`); stdout: `<model observation>\t<spec>`.
  Observation: `ok <hex of the substituted text>` or `syntax-error`.
-/
import YashModel.Common.Proto
import YashModel.Alias.Model
import YashModel.Alias.Grammar
import YashModel.Alias.Spec
open YashModel YashModel.Alias YashModel.Proto

def parseEntry (e : String) : Option Alias :=
  match e.splitOn ":" with
  | [n, g, v] => do
    let val ← decChars v
    if g == "g" then pure { name := n, value := val, global := true }
    else if g == "n" then pure { name := n, value := val, global := false }
    else none
  | _ => none

def parseCase (line : String) : Option (Table × List Char) :=
  match line.splitOn "|" with
  | [t, l] => do
    let es ← (words t).mapM parseEntry
    let cs ← decChars l.trimAscii.toString
    pure (es, cs)
  | _ => none

def insertSorted (a : Alias) : List Alias → List Alias
  | [] => [a]
  | b :: t => if a.name < b.name then a :: b :: t else b :: insertSorted a t

def showTable (T : Table) : String :=
  let seen := T.foldl (fun (acc : List Alias) a => if acc.any (·.name == a.name) then acc else acc ++ [a]) []
  let sorted := seen.foldr insertSorted []
  if sorted.isEmpty then "-" else
  ",".intercalate (sorted.map fun a => s!"{encStr a.name}:{if a.global then "g" else "n"}:{encChars a.value}")

def observe (toks : Toks) (hd : Pending) (text : List Char) (T : Table) : String :=
  -- a here-document whose body was never read (no newline after it) is `MissingHereDocContent`
  if !validToks toks || !hd.isEmpty then "syntax-error" else s!"ok {encChars text} T={showTable T}"

/-- step budget of the line machine (the table may change, so `fuelFor` of the initial table is no bound) -/
def lineFuel (T : Table) (cs : List Char) : Nat := fuelFor T cs + 20000

def runLine (line : String) : String :=
  match parseCase line with
  | none => "bad-case\t-"
  | some (T, cs) =>
    let (l, done) := lrun (lineFuel T cs) { T := T, m := init cs }
    if !done then "FUEL\t-" else
    let hl := hlrun (lineFuel T cs) { T := T, h := { rest := cs } }
    observe l.m.toks.reverse l.m.hd l.m.text l.finalTable ++ "\t=" ++
      observe hl.h.toks.reverse hl.h.hd (hl.h.out.reverse ++ hl.h.rest) hl.finalTable

def main : IO Unit := YashModel.Proto.mainLoop runLine
