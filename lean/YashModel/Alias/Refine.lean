/-
  C17 — lemmas relating the Impl model (origin chains) to the by-hand Spec (region stack): the two run in
  lock step as long as they choose the same alias for every word.
-/
import YashModel.Alias.Lemmas
import YashModel.Alias.Spec
namespace YashModel.Alias

/-- The alias the model substitutes for the next token (the `eligible` call of `step`). -/
def mcand (T : Table) (s : MState) : Option Alias :=
  match s.rest.drop (skipLen s.rest) with
  | [] => none
  | c0 :: tl =>
    eligible T ((markLc (s.rest.take (skipLen s.rest))).reverse ++ s.pre) c0 (lexTok (c0 :: tl)).kind
      (trans s.st (lexTok (c0 :: tl)).kind).sub

/-- Same text, same grammar position, same tokens read, same pending here-documents. -/
def Sim (s : MState) (h : HState) : Prop :=
  h.rest = chars s.rest ∧ h.out = chars s.pre ∧ h.st = s.st ∧ h.toks = s.toks ∧ h.hd = s.hd

/-- The two sides choose the same alias at every step of a lock-step run of `f` steps. -/
def Agree (T : Table) : Nat → MState → HState → Prop
  | 0, _, _ => True
  | f + 1, s, h =>
    mcand T s = hcand T h ∧ ∀ s' h', step T s = some s' → hstep T h = some h' → Agree T f s' h'

theorem chars_splice (a : Alias) (c0 : SChar) : chars (spliceChars a c0) = a.value := by
  simp only [chars, spliceChars, List.map_map]
  exact List.map_id' _

theorem chars_append (l₁ l₂ : List SChar) : chars (l₁ ++ l₂) = chars l₁ ++ chars l₂ := by
  simp [chars]

theorem chars_reverse (l : List SChar) : chars l.reverse = (chars l).reverse := by
  simp [chars]

theorem chars_markLc (l : List SChar) : chars (markLc l) = chars l := markLc_chars l

theorem chars_take (l : List SChar) (k : Nat) : chars (l.take k) = (chars l).take k := by
  simp [chars, List.map_take]

theorem chars_drop (l : List SChar) (k : Nat) : chars (l.drop k) = (chars l).drop k := by
  simp [chars, List.map_drop]

/-- one step in lock step -/
theorem sim_step {T : Table} {s : MState} {h : HState} (hs : Sim s h) (hc : mcand T s = hcand T h) :
    (step T s = none ∧ hstep T h = none) ∨
    ∃ s' h', step T s = some s' ∧ hstep T h = some h' ∧ Sim s' h' := by
  obtain ⟨hr, ho, hst, htk, hhd⟩ := hs
  have hk : skipLenC h.rest = skipLen s.rest := by rw [hr]; rfl
  have hd : h.rest.drop (skipLen s.rest) = chars (s.rest.drop (skipLen s.rest)) := by
    rw [hr, chars_drop]
  have htake : h.rest.take (skipLen s.rest) = chars (s.rest.take (skipLen s.rest)) := by
    rw [hr, chars_take]
  unfold mcand at hc
  cases hdrop : s.rest.drop (skipLen s.rest) with
  | nil =>
    left
    rw [hdrop] at hd
    refine ⟨?_, ?_⟩
    · unfold step; simp only [hdrop]
    · unfold hstep; simp only [hk, hd, chars, List.map_nil]
  | cons c0 tl =>
    right
    rw [hdrop] at hd hc
    simp only at hc
    have hd' : h.rest.drop (skipLen s.rest) = c0.c :: chars tl := by rw [hd]; rfl
    have htok : lexTokC (c0.c :: chars tl) = lexTok (c0 :: tl) := rfl
    cases hel : eligible T ((markLc (s.rest.take (skipLen s.rest))).reverse ++ s.pre) c0
        (lexTok (c0 :: tl)).kind (trans s.st (lexTok (c0 :: tl)).kind).sub with
    | some a =>
      rw [hel] at hc
      have e1 : step T s = some
          { pre := (markLc (s.rest.take (skipLen s.rest))).reverse ++ s.pre,
            rest := spliceChars a c0 ++ tl.drop ((lexTok (c0 :: tl)).len - 1),
            st := (trans s.st (lexTok (c0 :: tl)).kind).onSub, subs := s.subs + 1, toks := s.toks,
            hd := s.hd } := by
        unfold step; simp only [hdrop, hel]
      have e2 : hstep T h = some
          { out := (h.rest.take (skipLen s.rest)).reverse ++ h.out,
            rest := a.value ++ (chars tl).drop ((lexTok (c0 :: tl)).len - 1),
            active := { name := a.name, endRem := ((chars tl).drop ((lexTok (c0 :: tl)).len - 1)).length,
                        eb := endsBlank a.value } ::
              (activeAt h.active ((chars tl).length + 1)).map fun x =>
                { x with endRem := min x.endRem ((chars tl).drop ((lexTok (c0 :: tl)).len - 1)).length },
            st := (trans h.st (lexTok (c0 :: tl)).kind).onSub, toks := h.toks, hd := h.hd,
            tb := flagRun h.active true (skipLen s.rest) h.tb h.rest } := by
        unfold hstep; simp only [hk, hd', ← hc, htok]
      refine ⟨_, _, e1, e2, ?_, ?_, ?_, ?_, ?_⟩
      · simp only [chars_append, chars_splice, chars_drop]
      · simp only [chars_append, chars_reverse, chars_markLc, htake, ho]
      · simp only [hst]
      · exact htk
      · exact hhd
    | none =>
      rw [hel] at hc
      have hsp : spanLenC h.hd h.st (c0.c :: chars tl) = spanLen s c0 tl := by
        unfold spanLen; rw [hhd, hst]; rfl
      have e1 : step T s = some
          { pre := (tl.take (spanLen s c0 tl)).reverse ++ c0 ::
                     ((markLc (s.rest.take (skipLen s.rest))).reverse ++ s.pre),
            rest := tl.drop (spanLen s c0 tl),
            st := (trans s.st (lexTok (c0 :: tl)).kind).onTake, subs := s.subs,
            toks := tokOutC s.hd s.st (chars (c0 :: tl)) ++ s.toks,
            hd := hdNextC s.hd s.st (chars (c0 :: tl)) } := by
        unfold step; simp only [hdrop, hel]
      have e2 : hstep T h = some
          { out := ((chars tl).take (spanLen s c0 tl)).reverse ++ c0.c ::
                     ((h.rest.take (skipLen s.rest)).reverse ++ h.out),
            rest := (chars tl).drop (spanLen s c0 tl),
            active := activeAt h.active ((chars tl).drop (spanLen s c0 tl)).length,
            st := (trans h.st (lexTok (c0 :: tl)).kind).onTake,
            toks := tokOutC h.hd h.st (c0.c :: chars tl) ++ h.toks,
            hd := hdNextC h.hd h.st (c0.c :: chars tl),
            tb := flagRun h.active false (spanLen s c0 tl + 1)
                    (flagRun h.active true (skipLen s.rest) h.tb h.rest) (c0.c :: chars tl) } := by
        unfold hstep; simp only [hk, hd', ← hc, htok, hsp]
      refine ⟨_, _, e1, e2, ?_, ?_, ?_, ?_, ?_⟩
      · simp only [chars_drop]
      · rw [htake, ho]
        simp [chars, markLc_chars, List.map_take]
      · simp only [hst]
      · rw [htk, hhd, hst]; rfl
      · rw [hhd, hst]; rfl

theorem sim_run {T : Table} (f : Nat) {s : MState} {h : HState} (hs : Sim s h) (ha : Agree T f s h) :
    Sim (run T f s).1 (hrun T f h) := by
  induction f generalizing s h with
  | zero => simpa [run, hrun] using hs
  | succ f ih =>
    obtain ⟨hc, hnext⟩ := ha
    rcases sim_step hs hc with ⟨h1, h2⟩ | ⟨s', h', h1, h2, h3⟩
    · unfold run hrun; simp only [h1, h2]; exact hs
    · unfold run hrun; simp only [h1, h2]
      exact ih h3 (hnext s' h' h1 h2)

/-- executable lock-step check of `Agree` (a certificate for one table and line) -/
def agreeB (T : Table) : Nat → MState → HState → Bool
  | 0, _, _ => true
  | f + 1, s, h =>
    decide (mcand T s = hcand T h) &&
      match step T s, hstep T h with
      | some s', some h' => agreeB T f s' h'
      | _, _ => true

theorem agree_of_agreeB {T : Table} (f : Nat) {s : MState} {h : HState} (hb : agreeB T f s h = true) :
    Agree T f s h := by
  induction f generalizing s h with
  | zero => trivial
  | succ f ih =>
    unfold agreeB at hb
    simp only [Bool.and_eq_true, decide_eq_true_eq] at hb
    refine ⟨hb.1, ?_⟩
    intro s' h' h1 h2
    have := hb.2
    simp only [h1, h2] at this
    exact ih this

/-- executable lock-step check of `LAgree` (a kernel-checkable certificate for one table and script) -/
def lagreeB : Nat → LState → HLState → Bool
  | 0, _, _ => true
  | f + 1, l, g =>
    decide (mcand l.T l.m = hcand g.T g.h) &&
      match lstep l, hlstep g with
      | some l', some g' => lagreeB f l' g'
      | _, _ => true

end YashModel.Alias
