/-
  C17 — the recursion guards of model and Spec agree: "the name is on the origin chain of the token's first
  character" ⇔ "a region of that name contains the token's first character".  Invariant `Corr`: the chain of
  every unconsumed character is the list of names of the regions that contain it.  With it the lock-step
  hypothesis of `Refine.lean` shrinks from "same alias chosen" to "same answer of the blank rule".
-/
import YashModel.Alias.Refine
namespace YashModel.Alias

def namesAt (rs : List Region) (rem : Nat) : List String := (activeAt rs rem).map (·.name)

/-- chain of every character = names of the regions containing it (innermost first) -/
def Corr (rs : List Region) : List SChar → Prop
  | [] => True
  | c :: t => c.chain = namesAt rs (t.length + 1) ∧ Corr rs t

theorem corr_drop {rs : List Region} : ∀ (l : List SChar) (k : Nat), Corr rs l → Corr rs (l.drop k)
  | l, 0, h => by simpa using h
  | [], _ + 1, _ => by simp [Corr]
  | _ :: t, k + 1, h => by simpa using corr_drop t k h.2

theorem corr_congr {rs rs' : List Region} : ∀ (l : List SChar),
    (∀ rem, 0 < rem → rem ≤ l.length → namesAt rs' rem = namesAt rs rem) → Corr rs l → Corr rs' l
  | [], _, _ => trivial
  | _ :: t, hn, h =>
    ⟨by rw [h.1, hn (t.length + 1) (by omega) (by simp)],
     corr_congr t (fun rem h1 h2 => hn rem h1 (by simp only [List.length_cons]; omega)) h.2⟩

theorem corr_append_const {rs' : List Region} {ch : List String} : ∀ (l1 l2 : List SChar),
    (∀ c ∈ l1, c.chain = ch) →
    (∀ rem, l2.length < rem → rem ≤ l2.length + l1.length → namesAt rs' rem = ch) →
    Corr rs' l2 → Corr rs' (l1 ++ l2)
  | [], _, _, _, h => by simpa using h
  | c :: t, l2, hc, hn, h => by
    refine ⟨?_, corr_append_const t l2 (fun x hx => hc x (List.mem_cons_of_mem _ hx))
      (fun rem h1 h2 => hn rem h1 (by simp only [List.length_cons]; omega)) h⟩
    rw [hc c (List.mem_cons_self ..)]
    symm
    apply hn
    · simp only [List.append_eq, List.length_append]; omega
    · simp only [List.append_eq, List.length_append, List.length_cons]; omega

/-! ### `namesAt` under the operations of `hstep` -/

theorem namesAt_activeAt (rs : List Region) (m rem : Nat) (h : rem ≤ m) :
    namesAt (activeAt rs m) rem = namesAt rs rem := by
  unfold namesAt activeAt
  rw [List.filter_filter]
  congr 1
  apply List.filter_congr
  intro r _
  by_cases h1 : r.endRem < rem
  · have : r.endRem < m := by omega
    simp [h1, this]
  · simp [h1]

/-- shortening the enclosing regions to the end of the new value -/
def clamp (L : Nat) (x : Region) : Region := { x with endRem := min x.endRem L }

theorem namesAt_clamp_le (l : List Region) (L rem : Nat) (h : rem ≤ L) :
    namesAt (l.map (clamp L)) rem = namesAt l rem := by
  induction l with
  | nil => rfl
  | cons x t ih =>
    unfold namesAt activeAt at *
    simp only [List.map_cons, List.filter_cons, clamp]
    by_cases h1 : x.endRem < rem
    · have : min x.endRem L < rem := by omega
      simp [h1, this, ih]
    · have : ¬ min x.endRem L < rem := by omega
      simp [h1, this, ih]

theorem namesAt_clamp_gt (l : List Region) (L rem : Nat) (h : L < rem) :
    namesAt (l.map (clamp L)) rem = l.map (·.name) := by
  induction l with
  | nil => rfl
  | cons x t ih =>
    unfold namesAt activeAt at *
    simp only [List.map_cons, List.filter_cons, clamp]
    have : min x.endRem L < rem := by omega
    simp [this, ih]

theorem namesAt_cons (r : Region) (l : List Region) (rem : Nat) :
    namesAt (r :: l) rem = if r.endRem < rem then r.name :: namesAt l rem else namesAt l rem := by
  unfold namesAt activeAt
  simp only [List.filter_cons]
  split <;> simp_all

/-! ### explicit forms of the two steps -/

theorem step_subst {T : Table} {s : MState} {c0 : SChar} {tl : List SChar} {a : Alias}
    (hdrop : s.rest.drop (skipLen s.rest) = c0 :: tl)
    (hel : eligible T ((markLc (s.rest.take (skipLen s.rest))).reverse ++ s.pre) c0
      (lexTok (c0 :: tl)).kind (trans s.st (lexTok (c0 :: tl)).kind).sub = some a) :
    step T s = some
      { pre := (markLc (s.rest.take (skipLen s.rest))).reverse ++ s.pre,
        rest := spliceChars a c0 ++ tl.drop ((lexTok (c0 :: tl)).len - 1),
        st := (trans s.st (lexTok (c0 :: tl)).kind).onSub, subs := s.subs + 1, toks := s.toks,
        hd := s.hd } := by
  unfold step; simp only [hdrop, hel]

theorem step_take {T : Table} {s : MState} {c0 : SChar} {tl : List SChar}
    (hdrop : s.rest.drop (skipLen s.rest) = c0 :: tl)
    (hel : eligible T ((markLc (s.rest.take (skipLen s.rest))).reverse ++ s.pre) c0
      (lexTok (c0 :: tl)).kind (trans s.st (lexTok (c0 :: tl)).kind).sub = none) :
    step T s = some
      { pre := (tl.take (spanLen s c0 tl)).reverse ++ c0 ::
                 ((markLc (s.rest.take (skipLen s.rest))).reverse ++ s.pre),
        rest := tl.drop (spanLen s c0 tl),
        st := (trans s.st (lexTok (c0 :: tl)).kind).onTake, subs := s.subs,
        toks := tokOutC s.hd s.st (chars (c0 :: tl)) ++ s.toks,
        hd := hdNextC s.hd s.st (chars (c0 :: tl)) } := by
  unfold step; simp only [hdrop, hel]

theorem hstep_subst {T : Table} {h : HState} {c : Char} {t : List Char} {a : Alias}
    (hd : h.rest.drop (skipLenC h.rest) = c :: t) (hc : hcand T h = some a) :
    hstep T h = some
      { out := (h.rest.take (skipLenC h.rest)).reverse ++ h.out,
        rest := a.value ++ t.drop ((lexTokC (c :: t)).len - 1),
        active := { name := a.name, endRem := (t.drop ((lexTokC (c :: t)).len - 1)).length,
                    eb := endsBlank a.value } ::
          (activeAt h.active (t.length + 1)).map (clamp (t.drop ((lexTokC (c :: t)).len - 1)).length),
        st := (trans h.st (lexTokC (c :: t)).kind).onSub, toks := h.toks, hd := h.hd,
        tb := flagRun h.active true (skipLenC h.rest) h.tb h.rest } := by
  unfold hstep; simp only [hd, hc]; rfl

theorem hstep_take {T : Table} {h : HState} {c : Char} {t : List Char}
    (hd : h.rest.drop (skipLenC h.rest) = c :: t) (hc : hcand T h = none) :
    hstep T h = some
      { out := (t.take (spanLenC h.hd h.st (c :: t))).reverse ++ c ::
                 ((h.rest.take (skipLenC h.rest)).reverse ++ h.out),
        rest := t.drop (spanLenC h.hd h.st (c :: t)),
        active := activeAt h.active (t.drop (spanLenC h.hd h.st (c :: t))).length,
        st := (trans h.st (lexTokC (c :: t)).kind).onTake,
        toks := tokOutC h.hd h.st (c :: t) ++ h.toks,
        hd := hdNextC h.hd h.st (c :: t),
        tb := flagRun h.active false (spanLenC h.hd h.st (c :: t) + 1)
                (flagRun h.active true (skipLenC h.rest) h.tb h.rest) (c :: t) } := by
  unfold hstep; simp only [hd, hc]

theorem chars_length (l : List SChar) : (chars l).length = l.length := by simp [chars]

/-- `Corr` is preserved by a lock step -/
theorem corr_step {T : Table} {s s' : MState} {h h' : HState}
    (hs : Sim s h) (hco : Corr h.active s.rest) (hc : mcand T s = hcand T h)
    (h1 : step T s = some s') (h2 : hstep T h = some h') : Corr h'.active s'.rest := by
  obtain ⟨hr, _, hst, _, hhd⟩ := hs
  have hk : skipLenC h.rest = skipLen s.rest := by rw [hr]; rfl
  unfold mcand at hc
  cases hdrop : s.rest.drop (skipLen s.rest) with
  | nil => unfold step at h1; simp only [hdrop] at h1; cases h1
  | cons c0 tl =>
    rw [hdrop] at hc
    simp only at hc
    have hd : h.rest.drop (skipLenC h.rest) = c0.c :: chars tl := by
      rw [hk, hr, ← chars_drop, hdrop]; rfl
    have htok : lexTokC (c0.c :: chars tl) = lexTok (c0 :: tl) := rfl
    have hco' : Corr h.active (c0 :: tl) := by rw [← hdrop]; exact corr_drop _ _ hco
    cases hel : eligible T ((markLc (s.rest.take (skipLen s.rest))).reverse ++ s.pre) c0
        (lexTok (c0 :: tl)).kind (trans s.st (lexTok (c0 :: tl)).kind).sub with
    | some a =>
      rw [hel] at hc
      rw [step_subst hdrop hel] at h1
      rw [hstep_subst hd hc.symm] at h2
      cases h1; cases h2
      simp only [htok, chars_length]
      have hlen : ((chars tl).drop ((lexTok (c0 :: tl)).len - 1)).length
          = (tl.drop ((lexTok (c0 :: tl)).len - 1)).length := by
        rw [← chars_drop, chars_length]
      rw [hlen]
      have hLle : (tl.drop ((lexTok (c0 :: tl)).len - 1)).length ≤ tl.length := by
        simp only [List.length_drop]; omega
      apply corr_append_const (ch := a.name :: c0.chain)
      · intro c hc'
        simp only [spliceChars, List.mem_map] at hc'
        obtain ⟨_, _, rfl⟩ := hc'
        rfl
      · intro rem hr1 _
        rw [namesAt_cons]
        simp only [hr1, ↓reduceIte]
        rw [namesAt_clamp_gt _ _ _ hr1, hco'.1]
        rfl
      · apply corr_congr _ _ (corr_drop _ _ hco'.2)
        intro rem _ hr2
        rw [namesAt_cons]
        have : ¬ (tl.drop ((lexTok (c0 :: tl)).len - 1)).length < rem := by omega
        simp only [this, ↓reduceIte]
        rw [namesAt_clamp_le _ _ _ hr2, namesAt_activeAt _ _ _ (by omega)]
    | none =>
      rw [hel] at hc
      rw [step_take hdrop hel] at h1
      rw [hstep_take hd hc.symm] at h2
      cases h1; cases h2
      have hsp : spanLenC h.hd h.st (c0.c :: chars tl) = spanLen s c0 tl := by
        unfold spanLen; rw [hhd, hst]; rfl
      simp only [hsp]
      have hlen : ((chars tl).drop (spanLen s c0 tl)).length = (tl.drop (spanLen s c0 tl)).length := by
        rw [← chars_drop, chars_length]
      rw [hlen]
      apply corr_congr _ _ (corr_drop _ _ hco'.2)
      intro rem _ hr2
      exact namesAt_activeAt _ _ _ hr2

/-! ### the candidates agree when the blank rules agree -/

/-- the model's answer to `is_after_blank_ending_alias` for the next token -/
def mblank (s : MState) : Bool :=
  afterBlank ((markLc (s.rest.take (skipLen s.rest))).reverse ++ s.pre) (s.rest.drop (skipLen s.rest)).head?

/-- the Spec's answer: the flag after the blanks before the next token have been read -/
def hblank (h : HState) : Bool := flagRun h.active true (skipLenC h.rest) h.tb h.rest

theorem contains_map_name (l : List Region) (n : String) :
    (l.map (·.name)).contains n = l.any (fun x => x.name == n) := by
  induction l with
  | nil => rfl
  | cons x t ih =>
    simp only [List.map_cons, List.contains_cons, List.any_cons, ih]
    congr 1
    exact Bool.beq_comm ..

theorem cand_agree {T : Table} {s : MState} {h : HState}
    (hs : Sim s h) (hco : Corr h.active s.rest) (hb : mblank s = hblank h) : mcand T s = hcand T h := by
  obtain ⟨hr, _, hst, _⟩ := hs
  have hk : skipLenC h.rest = skipLen s.rest := by rw [hr]; rfl
  unfold mcand hcand
  unfold mblank at hb
  cases hdrop : s.rest.drop (skipLen s.rest) with
  | nil =>
    have hd : h.rest.drop (skipLenC h.rest) = [] := by rw [hk, hr, ← chars_drop, hdrop]; rfl
    simp only [hd]
    have : (lexTokC []).kind = .eof := rfl
    simp only [this]
    cases (trans h.st Kind.eof).sub <;> rfl
  | cons c0 tl =>
    rw [hdrop] at hb
    simp only [List.head?_cons] at hb
    have hd : h.rest.drop (skipLenC h.rest) = c0.c :: chars tl := by
      rw [hk, hr, ← chars_drop, hdrop]; rfl
    have htok : lexTokC (c0.c :: chars tl) = lexTok (c0 :: tl) := rfl
    have hco' : Corr h.active (c0 :: tl) := by rw [← hdrop]; exact corr_drop _ _ hco
    have hguard : ∀ name, c0.isAliasFor name
        = (activeAt h.active (c0.c :: chars tl).length).any (fun x => x.name == name) := by
      intro name
      unfold SChar.isAliasFor
      rw [hco'.1, namesAt, contains_map_name]
      simp [chars_length]
    simp only [hd, htok, hst]
    unfold eligible
    unfold hblank at hb
    cases (trans s.st (lexTok (c0 :: tl)).kind).sub with
    | none => rfl
    | some cmd =>
      cases (lexTok (c0 :: tl)).kind with
      | word lit asg =>
        cases lit with
        | none => rfl
        | some name =>
          simp only [hguard name, hb]
          rfl
      | eof => rfl
      | op _ => rfl
      | io => rfl
      | bad => rfl
      | assignArr => rfl

/-- Lock-step run: if some property `P` of the pair of states (i) implies that the two blank rules give
    the same answer and (ii) is preserved by lock steps, then model and Spec agree for ever. -/
theorem agree_of_blank_inv {T : Table} (P : MState → HState → Prop)
    (hblank_eq : ∀ s h, Sim s h → Corr h.active s.rest → P s h → mblank s = hblank h)
    (hpres : ∀ s h s' h', Sim s h → Corr h.active s.rest → P s h → mcand T s = hcand T h →
      step T s = some s' → hstep T h = some h' → P s' h')
    (f : Nat) {s : MState} {h : HState} (hs : Sim s h) (hco : Corr h.active s.rest) (hp : P s h) :
    Agree T f s h := by
  induction f generalizing s h with
  | zero => trivial
  | succ f ih =>
    have hc := cand_agree (T := T) hs hco (hblank_eq s h hs hco hp)
    refine ⟨hc, ?_⟩
    intro s' h' h1 h2
    have hs' : Sim s' h' := by
      rcases sim_step hs hc with ⟨e1, _⟩ | ⟨s'', h'', e1, e2, hsim⟩
      · rw [e1] at h1; cases h1
      · rw [e1] at h1; rw [e2] at h2; cases h1; cases h2; exact hsim
    exact ih hs' (corr_step hs hco hc h1 h2) (hpres s h s' h' hs hco hp hc h1 h2)

/-- the two blank rules give the same answer at every step of a lock-step run of `f` steps -/
def AgreeBlank (T : Table) : Nat → MState → HState → Prop
  | 0, _, _ => True
  | f + 1, s, h =>
    mblank s = hblank h ∧ ∀ s' h', step T s = some s' → hstep T h = some h' → AgreeBlank T f s' h'

theorem agree_of_agreeBlank {T : Table} (f : Nat) {s : MState} {h : HState}
    (hs : Sim s h) (hco : Corr h.active s.rest) (hb : AgreeBlank T f s h) : Agree T f s h := by
  induction f generalizing s h with
  | zero => trivial
  | succ f ih =>
    have hc := cand_agree (T := T) hs hco hb.1
    refine ⟨hc, ?_⟩
    intro s' h' h1 h2
    have hs' : Sim s' h' := by
      rcases sim_step hs hc with ⟨e1, _⟩ | ⟨s'', h'', e1, e2, hsim⟩
      · rw [e1] at h1; cases h1
      · rw [e1] at h1; rw [e2] at h2; cases h1; cases h2; exact hsim
    exact ih hs' (corr_step hs hco hc h1 h2) (hb.2 s' h' h1 h2)

/-! ### tables without a value that ends in a blank: both blank rules are constantly false -/

/-- no character / region / flag records a blank-ending value -/
def NoEb (s : MState) (h : HState) : Prop :=
  (∀ c ∈ s.pre, c.eb = false) ∧ (∀ c ∈ s.rest, c.eb = false) ∧ h.tb = false ∧ ∀ r ∈ h.active, r.eb = false

theorem afterBlank_noeb : ∀ (l : List SChar) (nxt : Option SChar), (∀ p ∈ l, p.eb = false) →
    afterBlank l nxt = false
  | [], _, _ => rfl
  | p :: ps, nxt, h => by
    unfold afterBlank
    have hp := h p (List.mem_cons_self ..)
    simp only [hp, Bool.and_false, Bool.false_and, Bool.false_eq_true, ↓reduceIte]
    split
    · rfl
    · exact afterBlank_noeb ps _ (fun x hx => h x (List.mem_cons_of_mem _ hx))

theorem markLc_eb (l : List SChar) : (markLc l).map (·.eb) = l.map (·.eb) := by
  fun_induction markLc l <;> simp_all

theorem markLc_noeb {l : List SChar} (h : ∀ c ∈ l, c.eb = false) : ∀ c ∈ markLc l, c.eb = false := by
  intro c hc
  have : c.eb ∈ (markLc l).map (·.eb) := List.mem_map.mpr ⟨c, hc, rfl⟩
  rw [markLc_eb] at this
  obtain ⟨c', hc', he⟩ := List.mem_map.mp this
  rw [← he]; exact h c' hc'

theorem endsValue_noeb (rs : List Region) (rem : Nat) (h : ∀ r ∈ rs, r.eb = false) :
    endsValue rs rem = false := by
  unfold endsValue
  split
  · rename_i r t he
    have : r ∈ activeAt rs rem := by rw [he]; exact List.mem_cons_self ..
    have := h r ((List.mem_filter.mp this).1)
    simp [this]
  · rfl

theorem flagGo_noeb (rs : List Region) (h : ∀ r ∈ rs, r.eb = false) :
    ∀ (L : List (Char × Bool)) (rem : Nat), flagGo rs false L rem = false := by
  intro L
  induction L with
  | nil => intro _; rfl
  | cons x t ih =>
    intro rem
    obtain ⟨c, lc⟩ := x
    unfold flagGo
    cases lc <;> cases isBlank c <;> simp [endsValue_noeb rs _ h, ih]

theorem flagRun_noeb (rs : List Region) (lc : Bool) (h : ∀ r ∈ rs, r.eb = false) :
    ∀ (k : Nat) (l : List Char), flagRun rs lc k false l = false := by
  intro k l
  unfold flagRun
  exact flagGo_noeb rs h _ _

theorem noeb_blank {s : MState} {h : HState} (hp : NoEb s h) : mblank s = hblank h := by
  obtain ⟨h1, h2, h3, h4⟩ := hp
  unfold mblank hblank
  rw [h3, flagRun_noeb _ _ h4]
  apply afterBlank_noeb
  intro p hp'
  rcases List.mem_append.mp hp' with ha | hb
  · exact markLc_noeb (fun c hc => h2 c (List.mem_of_mem_take hc)) p (List.mem_reverse.mp ha)
  · exact h1 p hb

theorem noeb_step {T : Table} (hT : ∀ a ∈ T, endsBlank a.value = false) {s s' : MState} {h h' : HState}
    (hs : Sim s h) (hp : NoEb s h) (hc : mcand T s = hcand T h)
    (e1 : step T s = some s') (e2 : hstep T h = some h') : NoEb s' h' := by
  obtain ⟨h1, h2, h3, h4⟩ := hp
  obtain ⟨hr, _, _, _⟩ := hs
  have hk : skipLenC h.rest = skipLen s.rest := by rw [hr]; rfl
  have hbefore : ∀ c ∈ (markLc (s.rest.take (skipLen s.rest))).reverse ++ s.pre, c.eb = false := by
    intro p hp'
    rcases List.mem_append.mp hp' with ha | hb
    · exact markLc_noeb (fun c hc => h2 c (List.mem_of_mem_take hc)) p (List.mem_reverse.mp ha)
    · exact h1 p hb
  unfold mcand at hc
  cases hdrop : s.rest.drop (skipLen s.rest) with
  | nil => unfold step at e1; simp only [hdrop] at e1; cases e1
  | cons c0 tl =>
    rw [hdrop] at hc
    simp only at hc
    obtain ⟨hc0, htl⟩ := mem_rest_of_drop hdrop
    have hd : h.rest.drop (skipLenC h.rest) = c0.c :: chars tl := by
      rw [hk, hr, ← chars_drop, hdrop]; rfl
    cases hel : eligible T ((markLc (s.rest.take (skipLen s.rest))).reverse ++ s.pre) c0
        (lexTok (c0 :: tl)).kind (trans s.st (lexTok (c0 :: tl)).kind).sub with
    | some a =>
      rw [hel] at hc
      rw [step_subst hdrop hel] at e1
      rw [hstep_subst hd hc.symm] at e2
      cases e1; cases e2
      obtain ⟨_, _, _, _, _, _, hlook, _⟩ := eligible_spec hel
      have ha := hT a (lookup_spec hlook).1
      refine ⟨hbefore, ?_, ?_, ?_⟩
      · intro c hc'
        rcases List.mem_append.mp hc' with hx | hy
        · simp only [spliceChars, List.mem_map] at hx
          obtain ⟨_, _, rfl⟩ := hx
          exact ha
        · exact h2 c (htl c (List.mem_of_mem_drop hy))
      · show flagRun h.active true (skipLenC h.rest) h.tb h.rest = false
        rw [h3]; exact flagRun_noeb _ _ h4 _ _
      · intro r hr'
        rcases List.mem_cons.mp hr' with rfl | hr''
        · exact ha
        · obtain ⟨x, hx, rfl⟩ := List.mem_map.mp hr''
          exact h4 x ((List.mem_filter.mp hx).1)
    | none =>
      rw [hel] at hc
      rw [step_take hdrop hel] at e1
      rw [hstep_take hd hc.symm] at e2
      cases e1; cases e2
      refine ⟨?_, ?_, ?_, ?_⟩
      · intro c hc'
        rcases List.mem_append.mp hc' with hx | hy
        · exact h2 c (htl c (List.mem_of_mem_take (List.mem_reverse.mp hx)))
        · rcases List.mem_cons.mp hy with rfl | hz
          · exact h2 _ hc0
          · exact hbefore c hz
      · intro c hc'
        exact h2 c (htl c (List.mem_of_mem_drop hc'))
      · show flagRun h.active false _ (flagRun h.active true (skipLenC h.rest) h.tb h.rest) _ = false
        rw [h3, flagRun_noeb _ _ h4]; exact flagRun_noeb _ _ h4 _ _
      · intro r hr'
        exact h4 r ((List.mem_filter.mp hr').1)

end YashModel.Alias
