/-
  C17 — helper lemmas for `Theorems.lean`: the chain invariant, the weight measure, characterisation of
  `eligible` and `step`.
-/
import YashModel.Alias.Model
namespace YashModel.Alias

/-- Origin chain of a character is sane: no name twice, only names of the table. -/
def Good (T : Table) (sc : SChar) : Prop :=
  sc.chain.Nodup ∧ ∀ n ∈ sc.chain, n ∈ T.names

/-- Invariant of the buffer: every character (consumed or not) has a sane chain. -/
def Inv (T : Table) (s : MState) : Prop :=
  (∀ c ∈ s.pre, Good T c) ∧ (∀ c ∈ s.rest, Good T c)

theorem good_plain (T : Table) (cs : List Char) : ∀ c ∈ plain cs, Good T c := by
  intro c hc
  simp only [plain, List.mem_map] at hc
  obtain ⟨x, _, rfl⟩ := hc
  exact ⟨List.nodup_nil, by intro n hn; cases hn⟩

theorem inv_init (T : Table) (line : List Char) : Inv T (init line) :=
  ⟨(by intro c hc; cases hc), good_plain T line⟩

/-! ### `markLc` touches only the `lc` flag -/

theorem markLc_chains (l : List SChar) : (markLc l).map (·.chain) = l.map (·.chain) := by
  fun_induction markLc l <;> simp_all

theorem markLc_chars (l : List SChar) : (markLc l).map (·.c) = l.map (·.c) := by
  fun_induction markLc l <;> simp_all

theorem markLc_good {T : Table} {l : List SChar} (h : ∀ c ∈ l, Good T c) : ∀ c ∈ markLc l, Good T c := by
  intro c hc
  have : c.chain ∈ (markLc l).map (·.chain) := List.mem_map.mpr ⟨c, hc, rfl⟩
  rw [markLc_chains] at this
  obtain ⟨c', hc', he⟩ := List.mem_map.mp this
  have := h c' hc'
  unfold Good at *
  rw [← he]; exact this

/-! ### the table -/

theorem lookup_spec {T : Table} {n : String} {a : Alias} (h : T.lookup n = some a) : a ∈ T ∧ a.name = n := by
  unfold Table.lookup at h
  refine ⟨List.mem_of_find?_eq_some h, ?_⟩
  have := List.find?_some h
  simpa using this

theorem value_le_max {T : Table} {a : Alias} (h : a ∈ T) : a.value.length ≤ maxValueLen T := by
  induction T with
  | nil => cases h
  | cons b t ih =>
    simp only [maxValueLen]
    rcases List.mem_cons.mp h with rfl | h'
    · exact Nat.le_max_left ..
    · exact Nat.le_trans (ih h') (Nat.le_max_right ..)

theorem name_mem_names {T : Table} {a : Alias} (h : a ∈ T) : a.name ∈ T.names :=
  List.mem_map.mpr ⟨a, h, rfl⟩

/-- ★ helper: a sane chain is no longer than the table -/
theorem good_chain_le {T : Table} {sc : SChar} (h : Good T sc) : sc.chain.length ≤ T.length := by
  have := List.Nodup.length_le_of_subset h.1 (fun n hn => h.2 n hn)
  simpa [Table.names] using this

/-! ### `eligible` -/

theorem eligible_spec {T : Table} {before : List SChar} {c0 : SChar} {k : Kind} {sub : Option Bool} {a : Alias}
    (h : eligible T before c0 k sub = some a) :
    ∃ cmd name asg, sub = some cmd ∧ k = .word (some name) asg ∧ c0.isAliasFor name = false ∧
      T.lookup name = some a ∧ (cmd = true ∨ a.global = true ∨ afterBlank before (some c0) = true) := by
  unfold eligible at h
  split at h
  · rename_i cmd name asg
    split at h
    · cases h
    · rename_i hnot
      split at h
      · rename_i a' hl
        split at h
        · rename_i hc
          cases h
          refine ⟨cmd, name, asg, rfl, rfl, by simpa using hnot, hl, ?_⟩
          simp only [Bool.or_eq_true] at hc
          rcases hc with (h1 | h2) | h3
          · exact Or.inl h1
          · exact Or.inr (Or.inl h2)
          · exact Or.inr (Or.inr h3)
        · cases h
      · cases h
  · cases h

/-- the characters spliced in for `a` at a token whose first character is `c0` are sane -/
theorem splice_good {T : Table} {a : Alias} {c0 : SChar} {name : String}
    (hc0 : Good T c0) (hl : T.lookup name = some a) (hn : c0.isAliasFor name = false) :
    ∀ c ∈ spliceChars a c0, Good T c := by
  intro c hc
  simp only [spliceChars, List.mem_map] at hc
  obtain ⟨ch, _, rfl⟩ := hc
  obtain ⟨hmem, hname⟩ := lookup_spec hl
  refine ⟨?_, ?_⟩
  · simp only [List.nodup_cons]
    refine ⟨?_, hc0.1⟩
    rw [hname]
    simpa [SChar.isAliasFor] using hn
  · intro n hn'
    rcases List.mem_cons.mp hn' with rfl | h'
    · exact name_mem_names hmem
    · exact hc0.2 n h'

/-! ### the measure -/

theorem mu_append (T : Table) (l₁ l₂ : List SChar) : mu T (l₁ ++ l₂) = mu T l₁ + mu T l₂ := by
  induction l₁ with
  | nil => simp [mu]
  | cons a t ih => simp [mu, ih, Nat.add_assoc]

theorem mu_take_drop (T : Table) (l : List SChar) (k : Nat) : mu T l = mu T (l.take k) + mu T (l.drop k) := by
  rw [← mu_append, List.take_append_drop]

theorem weight_pos (T : Table) (sc : SChar) : 0 < weight T sc := by
  unfold weight
  exact Nat.pow_pos (Nat.succ_pos _)

theorem mu_map_const (T : Table) (g : Char → SChar) (W : Nat) (h : ∀ ch, weight T (g ch) = W)
    (l : List Char) : mu T (l.map g) = l.length * W := by
  induction l with
  | nil => simp [mu]
  | cons ch t ih =>
    simp only [List.map_cons, mu, ih, h, List.length_cons]
    rw [Nat.succ_mul, Nat.add_comm]

theorem mu_splice (T : Table) (a : Alias) (c0 : SChar) :
    mu T (spliceChars a c0) = a.value.length * (maxValueLen T + 1) ^ (T.length - (c0.chain.length + 1)) := by
  unfold spliceChars
  exact mu_map_const T _ _ (fun ch => by simp [weight]) a.value

/-- the replacement weighs strictly less than the first character of the replaced token -/
theorem mu_splice_lt {T : Table} {a : Alias} {c0 : SChar} {name : String}
    (hc0 : Good T c0) (hl : T.lookup name = some a) (hn : c0.isAliasFor name = false) :
    mu T (spliceChars a c0) < weight T c0 := by
  obtain ⟨hmem, hname⟩ := lookup_spec hl
  rw [mu_splice]
  -- the extended chain is sane, hence no longer than the table
  have hlen : c0.chain.length + 1 ≤ T.length := by
    have hg : Good T { c := 'x', chain := a.name :: c0.chain } := by
      refine ⟨?_, ?_⟩
      · simp only [List.nodup_cons]
        refine ⟨?_, hc0.1⟩
        rw [hname]; simpa [SChar.isAliasFor] using hn
      · intro n hn'
        rcases List.mem_cons.mp hn' with rfl | h'
        · exact name_mem_names hmem
        · exact hc0.2 n h'
    simpa using good_chain_le hg
  have hv := value_le_max hmem
  unfold weight
  have hsplit : T.length - c0.chain.length = (T.length - (c0.chain.length + 1)) + 1 := by omega
  rw [hsplit, Nat.pow_succ]
  have hp : 0 < (maxValueLen T + 1) ^ (T.length - (c0.chain.length + 1)) := Nat.pow_pos (Nat.succ_pos _)
  calc a.value.length * (maxValueLen T + 1) ^ (T.length - (c0.chain.length + 1))
      ≤ maxValueLen T * (maxValueLen T + 1) ^ (T.length - (c0.chain.length + 1)) := Nat.mul_le_mul_right _ hv
    _ < (maxValueLen T + 1) * (maxValueLen T + 1) ^ (T.length - (c0.chain.length + 1)) :=
        Nat.mul_lt_mul_of_pos_right (Nat.lt_succ_self _) hp
    _ = (maxValueLen T + 1) ^ (T.length - (c0.chain.length + 1)) * (maxValueLen T + 1) := Nat.mul_comm ..

/-! ### `step` -/

/-- Everything `step` computes, in one record-free statement: either a substitution (with all the
    eligibility facts) or the consumption of one token. -/
inductive StepRel (T : Table) (s s' : MState) : Prop
  | subst (c0 : SChar) (tl : List SChar) (a : Alias) (cmd : Bool) (name : String) (asg : Bool)
      (hdrop : s.rest.drop (skipLen s.rest) = c0 :: tl)
      (hkind : (lexTok (c0 :: tl)).kind = .word (some name) asg)
      (hsub : (trans s.st (lexTok (c0 :: tl)).kind).sub = some cmd)
      (hnot : c0.isAliasFor name = false)
      (hlook : T.lookup name = some a)
      (hwhy : cmd = true ∨ a.global = true ∨
        afterBlank ((markLc (s.rest.take (skipLen s.rest))).reverse ++ s.pre) (some c0) = true)
      (hpre : s'.pre = (markLc (s.rest.take (skipLen s.rest))).reverse ++ s.pre)
      (hrest : s'.rest = spliceChars a c0 ++ tl.drop ((lexTok (c0 :: tl)).len - 1))
  | take (c0 : SChar) (tl : List SChar)
      (hdrop : s.rest.drop (skipLen s.rest) = c0 :: tl)
      (hel : eligible T ((markLc (s.rest.take (skipLen s.rest))).reverse ++ s.pre) c0 (lexTok (c0 :: tl)).kind
              (trans s.st (lexTok (c0 :: tl)).kind).sub = none)
      (hpre : s'.pre = (tl.take (spanLen s c0 tl)).reverse ++ c0 ::
                ((markLc (s.rest.take (skipLen s.rest))).reverse ++ s.pre))
      (hrest : s'.rest = tl.drop (spanLen s c0 tl))

theorem step_rel {T : Table} {s s' : MState} (h : step T s = some s') : StepRel T s s' := by
  unfold step at h
  simp only at h
  split at h
  · cases h
  · rename_i c0 tl hdrop
    split at h
    · rename_i a hel
      cases h
      obtain ⟨cmd, name, asg, hsub, hkind, hnot, hlook, hwhy⟩ := eligible_spec hel
      exact .subst c0 tl a cmd name asg hdrop hkind hsub hnot hlook hwhy rfl rfl
    · rename_i hel
      cases h
      exact .take c0 tl hdrop hel rfl rfl

theorem mem_rest_of_drop {s : MState} {k : Nat} {c0 : SChar} {tl : List SChar}
    (hdrop : s.rest.drop k = c0 :: tl) : c0 ∈ s.rest ∧ ∀ c ∈ tl, c ∈ s.rest := by
  have h1 : c0 ∈ s.rest.drop k := by rw [hdrop]; exact List.mem_cons_self ..
  refine ⟨List.mem_of_mem_drop h1, ?_⟩
  intro c hc
  have : c ∈ s.rest.drop k := by rw [hdrop]; exact List.mem_cons_of_mem _ hc
  exact List.mem_of_mem_drop this

/-- the invariant is preserved by every step -/
theorem inv_step {T : Table} {s s' : MState} (hi : Inv T s) (h : step T s = some s') : Inv T s' := by
  obtain ⟨hp, hr⟩ := hi
  have hbefore : ∀ k, ∀ c ∈ (markLc (s.rest.take k)).reverse ++ s.pre, Good T c := by
    intro k c hc
    rcases List.mem_append.mp hc with h1 | h2
    · exact markLc_good (fun c hc => hr c (List.mem_of_mem_take hc)) c (List.mem_reverse.mp h1)
    · exact hp c h2
  cases step_rel h with
  | subst c0 tl a cmd name asg hdrop hkind hsub hnot hlook hwhy hpre hrest =>
    obtain ⟨hc0, htl⟩ := mem_rest_of_drop hdrop
    refine ⟨by rw [hpre]; exact hbefore (skipLen s.rest), ?_⟩
    rw [hrest]
    intro c hc
    rcases List.mem_append.mp hc with h1 | h2
    · exact splice_good (hr c0 hc0) hlook hnot c h1
    · exact hr c (htl c (List.mem_of_mem_drop h2))
  | take c0 tl hdrop hel hpre hrest =>
    obtain ⟨hc0, htl⟩ := mem_rest_of_drop hdrop
    refine ⟨?_, ?_⟩
    · rw [hpre]
      intro c hc
      rcases List.mem_append.mp hc with h1 | h2
      · exact hr c (htl c (List.mem_of_mem_take (List.mem_reverse.mp h1)))
      · rcases List.mem_cons.mp h2 with rfl | h3
        · exact hr _ hc0
        · exact hbefore (skipLen s.rest) c h3
    · rw [hrest]
      intro c hc
      exact hr c (htl c (List.mem_of_mem_drop hc))

/-- the measure of the unconsumed text decreases strictly with every step -/
theorem mu_step {T : Table} {s s' : MState} (hi : Inv T s) (h : step T s = some s') :
    mu T s'.rest < mu T s.rest := by
  obtain ⟨_, hr⟩ := hi
  cases step_rel h with
  | subst c0 tl a cmd name asg hdrop hkind hsub hnot hlook hwhy hpre hrest =>
    obtain ⟨hc0, _⟩ := mem_rest_of_drop hdrop
    have h1 := mu_take_drop T s.rest (skipLen s.rest)
    rw [hdrop] at h1
    have h2 := mu_take_drop T tl ((lexTok (c0 :: tl)).len - 1)
    have h3 := mu_splice_lt (hr c0 hc0) hlook hnot
    rw [hrest, mu_append]
    simp only [mu] at h1
    omega
  | take c0 tl hdrop hel hpre hrest =>
    have h1 := mu_take_drop T s.rest (skipLen s.rest)
    rw [hdrop] at h1
    have h2 := mu_take_drop T tl (spanLen s c0 tl)
    have h3 := weight_pos T c0
    rw [hrest]
    simp only [mu] at h1
    omega

/-! ### `run` -/

theorem inv_run {T : Table} (f : Nat) {s : MState} (hi : Inv T s) : Inv T (run T f s).1 := by
  induction f generalizing s with
  | zero => simpa [run] using hi
  | succ f ih =>
    unfold run
    split
    · exact hi
    · rename_i s' hs
      exact ih (inv_step hi hs)

/-- fuel above the measure is never exhausted -/
theorem run_done {T : Table} (f : Nat) {s : MState} (hi : Inv T s) (hf : mu T s.rest < f) :
    (run T f s).2 = true := by
  induction f generalizing s with
  | zero => omega
  | succ f ih =>
    unfold run
    split
    · rfl
    · rename_i s' hs
      have := mu_step hi hs
      exact ih (inv_step hi hs) (by omega)

/-- more fuel than needed does not change the result -/
theorem run_fuel_irrelevant {T : Table} (f g : Nat) {s : MState}
    (hf : (run T f s).2 = true) (hg : f ≤ g) : run T g s = run T f s := by
  induction f generalizing s g with
  | zero => simp [run] at hf
  | succ f ih =>
    obtain ⟨g', rfl⟩ : ∃ g', g = g' + 1 := ⟨g - 1, by omega⟩
    unfold run at hf ⊢
    split
    · rfl
    · rename_i s' hs
      simp only [hs] at hf
      exact ih g' hf (by omega)

/-! ### the table-independent part of the invariant: no name twice on a chain -/

/-- no origin chain contains a name twice -/
def ChainsNodup (s : MState) : Prop := ∀ c ∈ s.pre ++ s.rest, c.chain.Nodup

theorem markLc_pred {P : List String → Prop} {l : List SChar} (h : ∀ c ∈ l, P c.chain) :
    ∀ c ∈ markLc l, P c.chain := by
  intro c hc
  have : c.chain ∈ (markLc l).map (·.chain) := List.mem_map.mpr ⟨c, hc, rfl⟩
  rw [markLc_chains] at this
  obtain ⟨c', hc', he⟩ := List.mem_map.mp this
  rw [← he]; exact h c' hc'

/-- preserved by a step with ANY table (the table may differ from step to step) -/
theorem nodup_step {T : Table} {s s' : MState} (hi : ChainsNodup s) (h : step T s = some s') :
    ChainsNodup s' := by
  have hp : ∀ c ∈ s.pre, c.chain.Nodup := fun c hc => hi c (List.mem_append_left _ hc)
  have hr : ∀ c ∈ s.rest, c.chain.Nodup := fun c hc => hi c (List.mem_append_right _ hc)
  have hbefore : ∀ c ∈ (markLc (s.rest.take (skipLen s.rest))).reverse ++ s.pre, c.chain.Nodup := by
    intro c hc
    rcases List.mem_append.mp hc with h1 | h2
    · exact markLc_pred (P := List.Nodup) (fun c hc => hr c (List.mem_of_mem_take hc)) c
        (List.mem_reverse.mp h1)
    · exact hp c h2
  intro c hc
  cases step_rel h with
  | subst c0 tl a cmd name asg hdrop hkind hsub hnot hlook hwhy hpre hrest =>
    obtain ⟨hc0, htl⟩ := mem_rest_of_drop hdrop
    rw [hpre, hrest] at hc
    rcases List.mem_append.mp hc with h1 | h2
    · exact hbefore c h1
    · rcases List.mem_append.mp h2 with h3 | h4
      · simp only [spliceChars, List.mem_map] at h3
        obtain ⟨_, _, rfl⟩ := h3
        simp only [List.nodup_cons]
        refine ⟨?_, hr c0 hc0⟩
        rw [(lookup_spec hlook).2]
        simpa [SChar.isAliasFor] using hnot
      · exact hr c (htl c (List.mem_of_mem_drop h4))
  | take c0 tl hdrop hel hpre hrest =>
    obtain ⟨hc0, htl⟩ := mem_rest_of_drop hdrop
    rw [hpre, hrest] at hc
    rcases List.mem_append.mp hc with h1 | h2
    · rcases List.mem_append.mp h1 with h3 | h4
      · exact hr c (htl c (List.mem_of_mem_take (List.mem_reverse.mp h3)))
      · rcases List.mem_cons.mp h4 with rfl | h5
        · exact hr _ hc0
        · exact hbefore c h5
    · exact hr c (htl c (List.mem_of_mem_drop h2))

theorem nodup_lstep {l l' : LState} (hi : ChainsNodup l.m) (h : lstep l = some l') : ChainsNodup l'.m := by
  unfold lstep at h
  split at h
  · cases h
  · rename_i m' hm
    have := nodup_step hi hm
    split at h <;> (cases h; exact this)

theorem nodup_lrun (f : Nat) {l : LState} (hi : ChainsNodup l.m) : ChainsNodup (lrun f l).1.m := by
  induction f generalizing l with
  | zero => simpa [lrun] using hi
  | succ f ih =>
    unfold lrun
    split
    · exact hi
    · rename_i l' hl
      exact ih (nodup_lstep hi hl)

end YashModel.Alias
