/-
  C11 — helper lemmas, part 3: every `TrapSet` operation preserves `Inv`.
-/
import YashModel.Trap.Steps
namespace YashModel.Trap

/-! ### operations that only touch the `pending` flag -/

/-- everything in an entry except the `pending` flag -/
def core (g : GrandState) : Action × Origin × Option TrapState × Disp :=
  (g.current.action, g.current.origin, g.parent, g.internal)

theorem expected_of_core {e e' : Option GrandState} (h : e'.map core = e.map core) (init : Disp) :
    expected e' init = expected e init := by
  cases e <;> cases e' <;> simp_all [core, expected]

theorem isSome_of_core {e e' : Option GrandState} (h : e'.map core = e.map core) :
    e'.isSome = e.isSome := by
  cases e <;> cases e' <;> simp_all

theorem core_markAsCaught (g : GrandState) : core g.markAsCaught = core g := rfl
theorem core_handleIfCaught (g : GrandState) : core g.handleIfCaught.1 = core g := by
  unfold GrandState.handleIfCaught; split <;> rfl

theorem catchSignal_core (t : TrapMap) (k s : Nat) :
    (get (catchSignal t k) s).map core = (get t s).map core := by
  unfold catchSignal
  cases hg : get t k with
  | none => rfl
  | some g =>
    simp only [get_set]
    by_cases h : s = k
    · subst h; simp [hg, core_markAsCaught]
    · simp [h]

theorem sorted_catchSignal (t : TrapMap) (k : Nat) (h : Sorted t) : Sorted (catchSignal t k) := by
  unfold catchSignal
  cases get t k with
  | none => exact h
  | some g => exact sorted_set _ _ _ h

theorem takeIf_core (t : TrapMap) (k s : Nat) :
    (get (takeSignalIfCaught t k).1 s).map core = (get t s).map core := by
  unfold takeSignalIfCaught
  cases hg : get t k with
  | none => rfl
  | some g =>
    simp only [get_set]
    by_cases h : s = k
    · subst h; simp [hg, core_handleIfCaught]
    · simp [h]

theorem sorted_takeIf (t : TrapMap) (k : Nat) (h : Sorted t) : Sorted (takeSignalIfCaught t k).1 := by
  unfold takeSignalIfCaught
  cases get t k with
  | none => exact h
  | some g => exact sorted_set _ _ _ h

theorem takeCaught_core (t : TrapMap) (s : Nat) :
    (get (takeCaughtSignal t).1 s).map core = (get t s).map core := by
  induction t with
  | nil => rfl
  | cons kv t ih =>
    obtain ⟨k, g⟩ := kv
    simp only [takeCaughtSignal]
    split
    · simp only [get]
      by_cases h : s = k
      · simp [h, core_handleIfCaught]
      · simp [h]
    · simp only [get]
      by_cases h : s = k
      · simp [h]
      · simp [h, ih]

theorem sorted_takeCaught (t : TrapMap) (h : Sorted t) : Sorted (takeCaughtSignal t).1 := by
  induction t with
  | nil => exact h
  | cons kv t ih =>
    obtain ⟨k, g⟩ := kv
    obtain ⟨hlo, hs⟩ := h
    simp only [takeCaughtSignal]
    split
    · exact ⟨hlo, hs⟩
    · refine ⟨?_, ih hs⟩
      exact lo_of_get_eq (fun s => isSome_of_core (takeCaught_core t s)) hlo

/-- an operation that keeps the system and every entry's core keeps the invariant -/
theorem inv_of_core (init : Nat → Disp) (st : State) (t' : TrapMap) (h : Inv init st)
    (hsorted : Sorted t') (hcore : ∀ s, (get t' s).map core = (get st.traps s).map core) :
    Inv init { st with traps := t' } :=
  ⟨hsorted, fun s hs => by
    show st.sys.disp s = expected (get t' s) (init s)
    rw [expected_of_core (hcore s)]; exact h.disp s hs, h.sys⟩

/-! ### `set_action`, internal dispositions, `peek_state` -/

theorem inv_setAction (init : Nat → Disp) (hinit : ∀ s, init s ≠ .catch) (st : State)
    (c : Nat) (a : Action) (o : Nat) (ov : Bool) (h : Inv init st) :
    Inv init (setAction st c a o ov).1 := by
  unfold setAction
  split
  · exact h
  · split
    · exact h
    · simp only
      refine ⟨sorted_set _ _ _ (sorted_clearParents _ h.sorted), ?_, setActionE_sysOK _ _ _ _ _ _ h.sys⟩
      intro s hs0
      simp only [get_set]
      by_cases hs : s = c
      · subst hs
        simp only [if_true]
        apply setActionE_same _ _ _ _ _ _ (init s) hs0 (hinit s)
        rw [get_clearParents, expected_clearParent]
        exact h.disp s hs0
      · simp only [hs, if_false]
        rw [setActionE_other _ _ _ _ _ _ _ hs, get_clearParents, expected_clearParent]
        exact h.disp s hs0

theorem setInternalE_get (sys : Sys) (t : TrapMap) (k s : Nat) (d : Disp) :
    get (setOpt t k (GrandState.setInternal sys (get t k) k d).2) s
      = if s = k then (GrandState.setInternal sys (get t k) k d).2 else get t s := by
  rw [get_setOpt]
  by_cases h : s = k
  · subst h
    simp only [true_and, if_true]
    unfold GrandState.setInternal
    cases hg : get t s with
    | none => simp only; split <;> simp
    | some g => simp
  · simp [h]

theorem inv_setInternal (init : Nat → Disp) (hinit : ∀ s, init s ≠ .catch) (st : State)
    (k : Nat) (d : Disp) (h : Inv init st) : Inv init (setInternal st k d) := by
  unfold setInternal
  refine ⟨sorted_setOpt _ _ _ h.sorted, ?_, setInternalE_sysOK _ _ _ _ h.sys⟩
  intro s hs0
  simp only [setInternalE_get]
  by_cases hs : s = k
  · subst hs
    simp only [if_true]
    exact setInternalE_same _ _ _ _ (init s) (hinit s) (h.disp s hs0)
  · simp only [hs, if_false]
    rw [setInternalE_other _ _ _ _ _ hs]
    exact h.disp s hs0

theorem inv_peek (init : Nat → Disp) (hinit : ∀ s, init s ≠ .catch) (st : State) (c : Nat)
    (h : Inv init st) : Inv init (peekState st c).1 := by
  unfold peekState
  refine ⟨sorted_set _ _ _ h.sorted, ?_, h.sys⟩
  intro s hs0
  simp only [get_set]
  by_cases hs : s = c
  · subst hs
    simp only [if_true]
    have hd := h.disp s hs0
    unfold GrandState.insertFromSystemIfVacant
    cases hg : get st.traps s with
    | none =>
      rw [hg] at hd
      simp only [expected_none] at hd
      simp only [hs0, ne_eq, not_false_eq_true, if_true, expected_some, Sys.getDisposition, hd,
        Disp.max_default_left]
      exact (fromInitial_toDisp _ (hinit s)).symm
    | some g => rw [hg] at hd; exact hd
  · simp only [hs, if_false]
    exact h.disp s hs0

/-! ### `enter_subshell` -/

theorem inv_ignoreIfVacant (init : Nat → Disp) (st : State) (k : Nat) (h : Inv init st) :
    Inv init (ignoreIfVacant st k) := by
  unfold ignoreIfVacant
  cases hg : get st.traps k with
  | some g => exact h
  | none =>
    simp only
    refine ⟨sorted_set _ _ _ h.sorted, ?_, ignoreE_sysOK _ _ h.sys⟩
    intro s hs0
    simp only [get_set]
    by_cases hs : s = k
    · subst hs
      simp only [if_true, expected_some]
      exact ignoreE_same _ _
    · simp only [hs, if_false]
      rw [ignoreE_other _ _ _ hs]
      exact h.disp s hs0

theorem inv_enterAll (init : Nat → Disp) (st : State) (ii ks : Bool) (h : Inv init st) :
    Inv init { sys := (enterAll st.sys ii ks (clearParents st.traps)).1,
               traps := (enterAll st.sys ii ks (clearParents st.traps)).2 } := by
  have hsorted := sorted_clearParents _ h.sorted
  refine ⟨sorted_enterAll _ _ _ _ hsorted, ?_, enterAll_sysOK _ _ _ _ h.sys⟩
  intro s hs0
  simp only
  rw [enterAll_disp _ _ _ _ _ hsorted, get_enterAll, get_clearParents]
  have hd := h.disp s hs0
  cases hg : get st.traps s with
  | none =>
    rw [hg] at hd
    simpa using hd
  | some g =>
    rw [hg] at hd
    simp only [Option.map_some, expected_some]
    rw [← enterE_snd st.sys]
    exact enterE_same _ _ _ _ hs0 hd

theorem inv_enterSubshell (init : Nat → Disp) (st : State) (ii ks : Bool) (h : Inv init st) :
    Inv init (enterSubshell st ii ks) := by
  unfold enterSubshell
  simp only
  split
  · exact inv_ignoreIfVacant _ _ _ (inv_ignoreIfVacant _ _ _ (inv_enterAll init st ii ks h))
  · exact inv_enterAll init st ii ks h

/-! ### one step -/

theorem inv_deliver (init : Nat → Disp) (st : State) (k : Nat) (h : Inv init st) :
    Inv init (deliver st k) := by
  unfold deliver
  split
  · exact inv_of_core init st _ h (sorted_catchSignal _ _ h.sorted) (catchSignal_core _ _)
  · exact h

theorem inv_step_all (init : Nat → Disp) (hinit : ∀ s, init s ≠ .catch) (st : State) (op : Op)
    (h : Inv init st) : Inv init (step st op) := by
  have hI := fun st k d h => inv_setInternal init hinit st k d h
  cases op with
  | setAction c a o ov => exact inv_setAction init hinit st c a o ov h
  | enableChld => exact hI _ _ _ h
  | enableTerminators => exact hI _ _ _ (hI _ _ _ (hI _ _ _ h))
  | enableStoppers => exact hI _ _ _ (hI _ _ _ (hI _ _ _ h))
  | disableTerminators => exact hI _ _ _ (hI _ _ _ (hI _ _ _ h))
  | disableStoppers => exact hI _ _ _ (hI _ _ _ (hI _ _ _ h))
  | disableAll =>
    exact hI _ _ _ (hI _ _ _ (hI _ _ _ (hI _ _ _ (hI _ _ _ (hI _ _ _ (hI _ _ _ h))))))
  | enterSubshell ii ks => exact inv_enterSubshell init st ii ks h
  | peek c => exact inv_peek init hinit st c h
  | catchSignal s =>
    exact inv_of_core init st _ h (sorted_catchSignal _ _ h.sorted) (catchSignal_core _ _)
  | takeCaught => exact inv_of_core init st _ h (sorted_takeCaught _ h.sorted) (takeCaught_core _)
  | takeIfCaught s => exact inv_of_core init st _ h (sorted_takeIf _ _ h.sorted) (takeIf_core _ _)
  | deliver s => exact inv_deliver init st s h

theorem inv_init_state (init : Nat → Disp) (hinit : ∀ s, init s ≠ .catch) : Inv init (State.init init) := by
  refine ⟨trivial, fun s _ => rfl, ?_, ?_⟩
  · intro s
    have := hinit s
    show false = (init s == Disp.catch)
    cases hi : init s <;> simp_all
  · intro s; rfl

theorem inv_run (init : Nat → Disp) (hinit : ∀ s, init s ≠ .catch) (ops : List Op) (st : State)
    (h : Inv init st) : Inv init (run st ops) := by
  induction ops generalizing st with
  | nil => exact h
  | cons op ops ih => exact ih _ (inv_step_all init hinit st op h)

end YashModel.Trap
