/-
  C11 — helper lemmas (wave 3): the frame walk of `in_trap`.
-/
import YashModel.Trap.Model
import YashModel.Trap.Spec
namespace YashModel.Trap

theorem inTrap_push (stack : List Frame) (f : Frame) :
    inTrap (stack ++ [f])
      = (match f with
         | .subshell => false
         | .trap c => c != 0 || inTrap stack
         | _ => inTrap stack) := by
  unfold inTrap
  rw [List.reverse_append]
  cases f <;> simp [Frame.isSignalTrap]

/-- the walk of `in_trap`, on the stack listed innermost frame first -/
theorem inTrapFrom_iff (l : List Frame) :
    (l.takeWhile (· != Frame.subshell)).any Frame.isSignalTrap = true ↔
      ∃ inner c outer, l = inner ++ Frame.trap c :: outer ∧ c ≠ 0 ∧ Frame.subshell ∉ inner := by
  induction l with
  | nil => simp
  | cons f l ih =>
    by_cases hf : f = .subshell
    · subst hf
      simp only [List.takeWhile, bne_self_eq_false, List.any_nil, Bool.false_eq_true, false_iff]
      rintro ⟨inner, c, outer, e, _, hp⟩
      cases inner with
      | nil => simp at e
      | cons a inner => simp at e; exact hp (by simp [e.1])
    · have hne : (f != Frame.subshell) = true := by simpa using hf
      simp only [List.takeWhile, hne, List.any_cons, Bool.or_eq_true]
      constructor
      · rintro (h | h)
        · cases f <;> simp [Frame.isSignalTrap] at h
          rename_i c
          exact ⟨[], c, l, rfl, h, by simp⟩
        · obtain ⟨inner, c, outer, e, hc, hp⟩ := ih.mp h
          refine ⟨f :: inner, c, outer, by simp [e], hc, ?_⟩
          simp only [List.mem_cons, not_or]
          exact ⟨fun h => hf h.symm, hp⟩
      · rintro ⟨inner, c, outer, e, hc, hp⟩
        cases inner with
        | nil =>
          simp only [List.nil_append, List.cons.injEq] at e
          left; rw [e.1]; simpa [Frame.isSignalTrap] using hc
        | cons a inner =>
          simp only [List.cons_append, List.cons.injEq] at e
          right
          exact ih.mpr ⟨inner, c, outer, e.2, hc, fun h => hp (by simp [h])⟩

theorem inTrap_iff (stack : List Frame) :
    inTrap stack = true ↔
      ∃ outer c inner, stack = outer ++ Frame.trap c :: inner ∧ c ≠ 0 ∧ Frame.subshell ∉ inner := by
  unfold inTrap
  rw [inTrapFrom_iff]
  constructor
  · rintro ⟨inner, c, outer, e, hc, hp⟩
    refine ⟨outer.reverse, c, inner.reverse, ?_, hc, by simpa using hp⟩
    have := congrArg List.reverse e
    simpa using this
  · rintro ⟨outer, c, inner, e, hc, hp⟩
    exact ⟨inner.reverse, c, outer.reverse, by simp [e], hc, by simpa using hp⟩

theorem takeWhile_append_all {α} (p : α → Bool) (l1 l2 : List α) :
    (l1 ++ l2).takeWhile p = if l1.all p then l1 ++ l2.takeWhile p else l1.takeWhile p := by
  induction l1 with
  | nil => simp
  | cons a l1 ih =>
    simp only [List.cons_append, List.takeWhile_cons, List.all_cons]
    cases hp : p a <;> simp [ih]
    split <;> rfl

theorem inTrap_cons (f : Frame) (l : List Frame) :
    inTrap (f :: l) = if Frame.subshell ∈ l then inTrap l else (inTrap l || f.isSignalTrap) := by
  unfold inTrap
  rw [List.reverse_cons, takeWhile_append_all]
  by_cases h : Frame.subshell ∈ l
  · have : (l.reverse.all fun x => x != Frame.subshell) = false := by
      simp only [List.all_eq_false, List.mem_reverse]
      exact ⟨_, h, by simp⟩
    simp [this, h]
  · have : (l.reverse.all fun x => x != Frame.subshell) = true := by
      simp only [List.all_eq_true, List.mem_reverse, bne_iff_ne, ne_eq]
      intro x hx hxe; exact h (hxe ▸ hx)
    simp only [this, if_true, h, if_false, List.any_append]
    have htw : l.reverse.takeWhile (fun x => x != Frame.subshell) = l.reverse := by
      have h2 := takeWhile_append_all (fun x => x != Frame.subshell) l.reverse []
      rw [this] at h2
      simpa using h2
    rw [htw]
    have hl : (l.reverse.any Frame.isSignalTrap) = (l.reverse.takeWhile (fun x => x != Frame.subshell)).any Frame.isSignalTrap := by
      rw [htw]
    by_cases hf : f = Frame.subshell
    · subst hf; simp [List.takeWhile, Frame.isSignalTrap]
    · have hne : (f != Frame.subshell) = true := by simpa using hf
      simp [List.takeWhile, hne]

/-- the Spec function is the code's frame walk -/
theorem signalTrapRunning_eq (l : List Frame) (acc : Bool) :
    signalTrapRunning l acc = if Frame.subshell ∈ l then inTrap l else (acc || inTrap l) := by
  induction l generalizing acc with
  | nil => simp [signalTrapRunning, inTrap]
  | cons f l ih =>
    rw [inTrap_cons]
    cases f with
    | subshell =>
      simp only [signalTrapRunning, ih, List.mem_cons, true_or, if_true, Frame.isSignalTrap, Bool.or_false,
        Bool.false_or]
    | trap c =>
      simp only [signalTrapRunning, ih, List.mem_cons, Frame.isSignalTrap]
      by_cases h : Frame.subshell ∈ l <;> simp [h, Bool.or_assoc, Bool.or_comm]
    | loop | condition | builtin | dotScript | initFile =>
      simp only [signalTrapRunning, ih, List.mem_cons, Frame.isSignalTrap, Bool.or_false]
      by_cases h : Frame.subshell ∈ l <;> simp [h]

theorem signalTrapRunning_inTrap (l : List Frame) : signalTrapRunning l false = inTrap l := by
  rw [signalTrapRunning_eq]; simp

end YashModel.Trap
