/-
  Impl model of `yash-env/src/trap.rs` (`TrapSet`) and `yash-env/src/trap/state.rs` (`GrandState`)
  over a modelled signal system (`yash-env/src/system/concurrency/signal.rs` on top of the
  per-process dispositions / blocking mask of `yash-env/src/system/virtual/process.rs`), plus the
  command-boundary trap runner of `yash-semantics/src/trap.rs` + `trap/signal.rs`.

  Import-free and executable.  Data layout follows the Rust code:
  * `BTreeMap<Condition, GrandState>` is an association list that `set` keeps in ascending key
    order; `Condition::Exit` is key `0`, `Condition::Signal(n)` is key `n` (signal numbers are
    non-zero, and the derived `Ord` puts `Exit` first), so list order = `BTreeMap` iteration order.
  * `GrandState { current_state, parent_state, internal_disposition }`, an absent key = vacant entry.
  * the system is `disp : Signal → Disposition`, `blocked : Signal → Bool` and the `select_mask`
    of `Concurrent` (`None` until the first `set_disposition`).
  * a `&mut` becomes a returned value; `set_disposition` never fails (errno faults are outside the
    property's quantifier), so `Result<_, Errno>` is dropped and `SetActionError` keeps its three
    non-system variants.
-/
namespace YashModel.Trap

/-! ## Dispositions and trap states -/

/-- `system::Disposition`; the derived `Ord` is the declaration order `Default < Ignore < Catch`. -/
inductive Disp where
  | default | ignore | catch
  deriving DecidableEq, Repr, Inhabited

def Disp.rank : Disp → Nat
  | .default => 0
  | .ignore => 1
  | .catch => 2

/-- `Ord::max` on `Disposition` -/
def Disp.max (a b : Disp) : Disp := if a.rank ≤ b.rank then b else a

/-- `trap::Action`; the command text is represented by a number -/
inductive Action where
  | default | ignore | command (text : Nat)
  deriving DecidableEq, Repr, Inhabited

/-- `impl From<&Action> for Disposition` -/
def Action.toDisp : Action → Disp
  | .default => .default
  | .ignore => .ignore
  | .command _ => .catch

def Action.isCommand : Action → Bool
  | .command _ => true
  | _ => false

/-- `trap::Origin`; the location is represented by a number -/
inductive Origin where
  | inherited | subshell | user (loc : Nat)
  deriving DecidableEq, Repr, Inhabited

/-- `trap::TrapState` -/
structure TrapState where
  action : Action := .default
  origin : Origin := .inherited
  pending : Bool := false
  deriving DecidableEq, Repr, Inhabited

/-- `TrapState::from_initial_disposition` (`Catch` is treated as `Default`) -/
def TrapState.fromInitial (d : Disp) : TrapState :=
  { action := match d with
      | .default => .default
      | .ignore => .ignore
      | .catch => .default,
    origin := .inherited, pending := false }

/-- `trap::SetActionError` without `SystemError` -/
inductive SetActionError where
  | initiallyIgnored | sigkill | sigstop
  deriving DecidableEq, Repr

/-- `state::EnterSubshellOption` -/
inductive SubOpt where
  | keep | clear | ignore
  deriving DecidableEq, Repr

/-- `state::GrandState` -/
structure GrandState where
  current : TrapState
  parent : Option TrapState := none
  internal : Disp := .default
  deriving DecidableEq, Repr, Inhabited

/-! ## Signal numbers of the virtual system (`system/virtual/signal.rs`) -/

def SIGINT : Nat := 2
def SIGQUIT : Nat := 3
def SIGKILL : Nat := 9
def SIGTERM : Nat := 15
def SIGCHLD : Nat := 102
def SIGSTOP : Nat := 116
def SIGTSTP : Nat := 120
def SIGTTIN : Nat := 121
def SIGTTOU : Nat := 122
def SIGUSR1 : Nat := 124

/-! ## The system: dispositions, blocking mask, select mask -/

/-- function update -/
def upd {α : Type} (f : Nat → α) (k : Nat) (v : α) : Nat → α := fun s => if s = k then v else f s

structure Sys where
  /-- `Process::dispositions` (absent = `Default`) -/
  disp : Nat → Disp
  /-- `Process::blocked_signals` -/
  blocked : Nat → Bool
  /-- `Concurrent::state.select_mask` -/
  selectMask : Option (Nat → Bool) := none

/-- `Concurrent::update_sigmask_and_select_mask(op, signal)` with `op` = `Add` (`true`) or `Remove`:
    `sigmask` returns the old mask; `select_mask.get_or_insert(old_mask).remove(signal)`. -/
def Sys.updateMask (sys : Sys) (add : Bool) (sig : Nat) : Sys :=
  { sys with
    blocked := upd sys.blocked sig add,
    selectMask := some (upd (sys.selectMask.getD sys.blocked) sig false) }

/-- `impl SignalSystem for Rc<Concurrent<S>>::set_disposition`: block before installing `Catch`,
    install (returning the old disposition), unblock after installing anything else. -/
def Sys.setDisposition (sys : Sys) (sig : Nat) (d : Disp) : Disp × Sys :=
  let s1 := if d = .catch then sys.updateMask true sig else sys
  let old := s1.disp sig
  let s2 : Sys := { s1 with disp := upd s1.disp sig d }
  let s3 := if d ≠ .catch then s2.updateMask false sig else s2
  (old, s3)

/-- `get_disposition` -/
def Sys.getDisposition (sys : Sys) (sig : Nat) : Disp := sys.disp sig

/-! ## The map `BTreeMap<Condition, GrandState>` -/

abbrev TrapMap := List (Nat × GrandState)

/-- `BTreeMap::get` -/
def get : TrapMap → Nat → Option GrandState
  | [], _ => none
  | (k', v) :: t, k => if k = k' then some v else get t k

/-- `BTreeMap::insert` / writing through an `Entry` (keeps ascending key order) -/
def set : TrapMap → Nat → GrandState → TrapMap
  | [], k, v => [(k, v)]
  | (k', v') :: t, k, v =>
    if k = k' then (k, v) :: t
    else if k < k' then (k, v) :: (k', v') :: t
    else (k', v') :: set t k v

/-- writing back an entry that may still be vacant -/
def setOpt (t : TrapMap) (k : Nat) : Option GrandState → TrapMap
  | none => t
  | some v => set t k v

/-- `GrandState::clear_parent_state` -/
def GrandState.clearParent (g : GrandState) : GrandState := { g with parent := none }

/-- `TrapSet::clear_parent_states` -/
def clearParents (t : TrapMap) : TrapMap := t.map fun kv => (kv.1, kv.2.clearParent)

/-! ## `GrandState` operations (`trap/state.rs`) -/

/-- `GrandState::insert_from_system_if_vacant` -/
def GrandState.insertFromSystemIfVacant (sys : Sys) (e : Option GrandState) (cond : Nat) : GrandState :=
  match e with
  | none =>
    let d := if cond ≠ 0 then sys.getDisposition cond else .default
    { current := .fromInitial d, parent := none, internal := .default }
  | some g => g

/-- `GrandState::set_action`: returns the system, the entry afterwards and the error if any. -/
def GrandState.setAction (sys : Sys) (e : Option GrandState) (cond : Nat) (a : Action) (origin : Nat)
    (overrideIgnore : Bool) : Sys × GrandState × Option SetActionError :=
  let d := a.toDisp
  let new : TrapState := { action := a, origin := .user origin, pending := false }
  match e with
  | none =>
    if cond ≠ 0 then
      -- probe: learn the initial disposition by installing `Ignore`
      if overrideIgnore = false ∧ (sys.setDisposition cond .ignore).1 = .ignore then
        ((sys.setDisposition cond .ignore).2,
         { current := .fromInitial .ignore, parent := none, internal := .default },
         some .initiallyIgnored)
      else
        let sys1 := if overrideIgnore = false then (sys.setDisposition cond .ignore).2 else sys
        let sys2 := if overrideIgnore = true ∨ d ≠ .ignore then (sys1.setDisposition cond d).2 else sys1
        (sys2, { current := new, parent := none, internal := .default }, none)
    else
      (sys, { current := new, parent := none, internal := .default }, none)
  | some g =>
    if overrideIgnore = false ∧ g.current.action = .ignore ∧ g.current.origin = .inherited then
      (sys, g, some .initiallyIgnored)
    else
      let oldD := g.internal.max g.current.action.toDisp
      let newD := g.internal.max d
      let sys1 := if cond ≠ 0 ∧ oldD ≠ newD then (sys.setDisposition cond newD).2 else sys
      (sys1, { g with current := new }, none)

/-- `GrandState::set_internal_disposition` (the entry may stay vacant) -/
def GrandState.setInternal (sys : Sys) (e : Option GrandState) (sig : Nat) (d : Disp)
    : Sys × Option GrandState :=
  match e with
  | none =>
    if d = .default then (sys, none)
    else
      let r := sys.setDisposition sig d
      (r.2, some { current := .fromInitial r.1, parent := none, internal := d })
  | some g =>
    let setting := g.current.action.toDisp
    let oldD := g.internal.max setting
    let newD := d.max setting
    let sys1 := if oldD ≠ newD then (sys.setDisposition sig newD).2 else sys
    (sys1, some { g with internal := d })

/-- the state part of `GrandState::enter_subshell` -/
def GrandState.enterState (g : GrandState) (opt : SubOpt) : GrandState :=
  let g1 : GrandState :=
    if g.current.action.isCommand then
      { g with parent := some g.current,
               current := { action := .default, origin := .subshell, pending := false } }
    else g
  let g2 : GrandState :=
    if opt = .ignore then { g1 with current := { g1.current with action := .ignore } } else g1
  { g2 with internal := match opt with
      | .keep => g2.internal
      | .clear => .default
      | .ignore => .default }

/-- `new_disposition` of `GrandState::enter_subshell` -/
def GrandState.enterNewDisp (g : GrandState) (opt : SubOpt) : Disp :=
  let newSetting := (g.enterState opt).current.action.toDisp
  match opt with
  | .keep => g.internal.max newSetting
  | .clear => newSetting
  | .ignore => .ignore

/-- `GrandState::enter_subshell` -/
def GrandState.enterSubshell (sys : Sys) (g : GrandState) (cond : Nat) (opt : SubOpt) : Sys × GrandState :=
  let oldD := g.internal.max g.current.action.toDisp
  let newD := g.enterNewDisp opt
  let sys1 := if oldD ≠ newD ∧ cond ≠ 0 then (sys.setDisposition cond newD).2 else sys
  (sys1, g.enterState opt)

/-- `GrandState::ignore` (vacant entry) -/
def GrandState.ignore (sys : Sys) (sig : Nat) : Sys × GrandState :=
  let r := sys.setDisposition sig .ignore
  let origin : Origin := match r.1 with
    | .default => .subshell
    | .ignore => .inherited
    | .catch => .subshell
  (r.2, { current := { action := .ignore, origin := origin, pending := false },
          parent := none, internal := .default })

/-- `GrandState::mark_as_caught` -/
def GrandState.markAsCaught (g : GrandState) : GrandState :=
  { g with current := { g.current with pending := true } }

/-- `GrandState::handle_if_caught`: the state afterwards and the returned trap state -/
def GrandState.handleIfCaught (g : GrandState) : GrandState × Option TrapState :=
  if g.current.pending then
    ({ g with current := { g.current with pending := false } },
     some { g.current with pending := false })
  else (g, none)

/-! ## `TrapSet` operations (`trap.rs`) -/

structure State where
  sys : Sys
  traps : TrapMap := []

/-- `TrapSet::get_state` -/
def getState (t : TrapMap) (cond : Nat) : Option TrapState × Option TrapState :=
  match get t cond with
  | none => (none, none)
  | some g => (some g.current, g.parent)

/-- `TrapSet::peek_state` -/
def peekState (st : State) (cond : Nat) : State × TrapState :=
  let g := GrandState.insertFromSystemIfVacant st.sys (get st.traps cond) cond
  ({ st with traps := set st.traps cond g }, g.parent.getD g.current)

/-- `TrapSet::set_action` -/
def setAction (st : State) (cond : Nat) (a : Action) (origin : Nat) (overrideIgnore : Bool)
    : State × Option SetActionError :=
  if cond = SIGKILL then (st, some .sigkill)
  else if cond = SIGSTOP then (st, some .sigstop)
  else
    let t1 := clearParents st.traps
    let r := GrandState.setAction st.sys (get t1 cond) cond a origin overrideIgnore
    ({ sys := r.1, traps := set t1 cond r.2.1 }, r.2.2)

/-- the per-signal selection of the option in `TrapSet::enter_subshell` -/
def subshellOption (cond : Nat) (g : GrandState) (ignoreSigintSigquit keepStoppers : Bool) : SubOpt :=
  if cond = 0 then .clear
  else if cond = SIGCHLD then .keep
  else if ignoreSigintSigquit = true ∧ (cond = SIGINT ∨ cond = SIGQUIT) then .ignore
  else if keepStoppers = true ∧ (cond = SIGTSTP ∨ cond = SIGTTIN ∨ cond = SIGTTOU)
      ∧ g.internal ≠ .default then .ignore
  else .clear

/-- the `for (&cond, state) in &mut self.traps` loop of `TrapSet::enter_subshell` -/
def enterAll (sys : Sys) (ii ks : Bool) : TrapMap → Sys × TrapMap
  | [] => (sys, [])
  | (k, g) :: t =>
    let r := g.enterSubshell sys k (subshellOption k g ii ks)
    let r' := enterAll r.1 ii ks t
    (r'.1, (k, r.2) :: r'.2)

/-- one round of the trailing `for signal in [SIGINT, SIGQUIT]` loop -/
def ignoreIfVacant (st : State) (sig : Nat) : State :=
  match get st.traps sig with
  | none =>
    let r := GrandState.ignore st.sys sig
    { sys := r.1, traps := set st.traps sig r.2 }
  | some _ => st

/-- `TrapSet::enter_subshell` -/
def enterSubshell (st : State) (ignoreSigintSigquit keepStoppers : Bool) : State :=
  let r := enterAll st.sys ignoreSigintSigquit keepStoppers (clearParents st.traps)
  let st1 : State := { sys := r.1, traps := r.2 }
  if ignoreSigintSigquit then ignoreIfVacant (ignoreIfVacant st1 SIGINT) SIGQUIT else st1

/-- `TrapSet::catch_signal` -/
def catchSignal (t : TrapMap) (sig : Nat) : TrapMap :=
  match get t sig with
  | some g => set t sig g.markAsCaught
  | none => t

/-- `TrapSet::take_signal_if_caught` -/
def takeSignalIfCaught (t : TrapMap) (sig : Nat) : TrapMap × Option TrapState :=
  match get t sig with
  | some g => (set t sig g.handleIfCaught.1, g.handleIfCaught.2)
  | none => (t, none)

/-- `TrapSet::take_caught_signal`: `iter_mut().find_map` in key order, signals only -/
def takeCaughtSignal : TrapMap → TrapMap × Option (Nat × TrapState)
  | [] => ([], none)
  | (k, g) :: t =>
    if k ≠ 0 ∧ g.current.pending = true then
      ((k, g.handleIfCaught.1) :: t, some (k, { g.current with pending := false }))
    else
      let r := takeCaughtSignal t
      ((k, g) :: r.1, r.2)

/-- the private `TrapSet::set_internal_disposition` -/
def setInternal (st : State) (sig : Nat) (d : Disp) : State :=
  let r := GrandState.setInternal st.sys (get st.traps sig) sig d
  { sys := r.1, traps := setOpt st.traps sig r.2 }

/-- `enable_internal_disposition_for_sigchld` -/
def enableChld (st : State) : State := setInternal st SIGCHLD .catch

/-- `enable_internal_dispositions_for_terminators` -/
def enableTerminators (st : State) : State :=
  setInternal (setInternal (setInternal st SIGINT .catch) SIGTERM .ignore) SIGQUIT .ignore

/-- `enable_internal_dispositions_for_stoppers` -/
def enableStoppers (st : State) : State :=
  setInternal (setInternal (setInternal st SIGTSTP .ignore) SIGTTIN .ignore) SIGTTOU .ignore

/-- `disable_internal_dispositions_for_terminators` -/
def disableTerminators (st : State) : State :=
  setInternal (setInternal (setInternal st SIGINT .default) SIGTERM .default) SIGQUIT .default

/-- `disable_internal_dispositions_for_stoppers` -/
def disableStoppers (st : State) : State :=
  setInternal (setInternal (setInternal st SIGTSTP .default) SIGTTIN .default) SIGTTOU .default

/-- `disable_internal_dispositions` -/
def disableAll (st : State) : State :=
  disableStoppers (disableTerminators (setInternal st SIGCHLD .default))

/-- A signal sent to the shell process and collected by `Env::poll_signals`:
    `Process::raise_signal` leaves a blocked signal pending; `Concurrent::peek` runs `select` with
    the select mask, which delivers it if that mask does not contain it; a delivery under `Catch`
    lands in `caught_signals` and `poll_signals` hands it to `TrapSet::catch_signal`.  A delivery
    under `Ignore` is dropped.  (Under `Default` the process would be killed or stopped: the
    operation is defined as a no-op there and the harness does not send the signal.) -/
def deliver (st : State) (sig : Nat) : State :=
  if st.sys.disp sig = .catch ∧ (st.sys.selectMask.getD st.sys.blocked) sig = false then
    { st with traps := catchSignal st.traps sig }
  else st

/-! ## Operations of the property text, as a transition system -/

inductive Op where
  | setAction (cond : Nat) (a : Action) (origin : Nat) (overrideIgnore : Bool)
  | enableChld | enableTerminators | enableStoppers
  | disableTerminators | disableStoppers | disableAll
  | enterSubshell (ignoreSigintSigquit keepStoppers : Bool)
  | peek (cond : Nat)
  | catchSignal (sig : Nat)
  | takeCaught
  | takeIfCaught (sig : Nat)
  | deliver (sig : Nat)
  deriving Repr

def step (st : State) : Op → State
  | .setAction c a o ov => (setAction st c a o ov).1
  | .enableChld => enableChld st
  | .enableTerminators => enableTerminators st
  | .enableStoppers => enableStoppers st
  | .disableTerminators => disableTerminators st
  | .disableStoppers => disableStoppers st
  | .disableAll => disableAll st
  | .enterSubshell ii ks => enterSubshell st ii ks
  | .peek c => (peekState st c).1
  | .catchSignal s => { st with traps := catchSignal st.traps s }
  | .takeCaught => { st with traps := (takeCaughtSignal st.traps).1 }
  | .takeIfCaught s => { st with traps := (takeSignalIfCaught st.traps s).1 }
  | .deliver s => deliver st s

def run (st : State) : List Op → State
  | [] => st
  | op :: ops => run (step st op) ops

/-- the shell at start-up: empty trap set, inherited dispositions, nothing blocked -/
def State.init (init : Nat → Disp) : State :=
  { sys := { disp := init, blocked := fun _ => false, selectMask := none }, traps := [] }

/-! ## Running traps at a command boundary (`yash-semantics/src/trap.rs`, `trap/signal.rs`) -/

/-- `semantics::Divert` as far as trap bodies are concerned (`other` = `Continue`/`Break`) -/
inductive Divert where
  | ret (st : Option Int)
  | interrupt (st : Option Int)
  | exit (st : Option Int)
  | other
  /-- `Divert::Abort` (declared LAST: the most severe; wave 3 — was lumped into `other`) -/
  | abort (st : Option Int)
  deriving DecidableEq, Repr

/-- what a trap body does: the `$?` it leaves and the `Break(divert)` it ends in, if any -/
structure BodyResult where
  exit : Int
  divert : Option Divert := none

/-- a trap body: command text, `$?` on entry and the trap set on entry ↦ outcome and the trap set
    it leaves (a body may itself run `trap`) -/
abbrev Body := Nat → Int → TrapMap → BodyResult × TrapMap

/-- result of one `run_traps_for_caught_signals` -/
structure RunResult where
  traps : TrapMap
  exit : Int
  /-- `(signal, command)` of the bodies run, in order -/
  runs : List (Nat × Nat)
  /-- the `Break(divert)` the function returned with -/
  divert : Option Divert := none

/-- `run_trap`: `$?` is saved before and restored after the body unless the body ends in
    `Divert::Interrupt`: `Interrupt(Some(e))` carries the status of the error that interrupted the
    action, which becomes `$?`; with `Interrupt(None)` `$?` stays what the body left -/
def runTrap (body : Body) (cmd : Nat) (exit : Int) (t : TrapMap) : Int × Option Divert × TrapMap :=
  let r := body cmd exit t
  match r.1.divert with
  | some (.interrupt st) => (st.getD r.1.exit, some (.interrupt st), r.2)
  | d => (exit, d, r.2)

/-- the `while let Some(..) = env.traps.take_caught_signal()` loop of
    `run_traps_for_caught_signals`: ONE caught signal is taken, its action run, and a divert leaves
    the function at once (`run_trap(..).await?`) with every other caught signal still pending. -/
def drain (body : Body) : Nat → TrapMap → Int → List (Nat × Nat) → RunResult
  | 0, t, exit, runs => { traps := t, exit := exit, runs := runs }
  | fuel + 1, t, exit, runs =>
    match (takeCaughtSignal t).2 with
    | none => { traps := t, exit := exit, runs := runs }
    | some (sig, ts) =>
      let t' := (takeCaughtSignal t).1
      match ts.action with
      | .command c =>
        let r := runTrap body c exit t'
        match r.2.1 with
        | some d => { traps := r.2.2, exit := r.1, runs := runs ++ [(sig, c)], divert := some d }
        | none => drain body fuel r.2.2 r.1 (runs ++ [(sig, c)])
      | _ => drain body fuel t' exit runs

/-- `run_traps_for_caught_signals` after `poll_signals` (without the SIGINT-interrupt shortcut of
    interactive shells): nothing runs while a signal trap is running in this shell (`in_trap`). -/
def runTrapsForCaughtSignals (body : Body) (inTrap : Bool) (t : TrapMap) (exit : Int) : RunResult :=
  if inTrap then { traps := t, exit := exit, runs := [] } else drain body (t.length + 1) t exit []

/-- `Env::sigint_has_default_action` -/
def sigintHasDefaultAction (t : TrapMap) : Bool :=
  match (getState t SIGINT).1 with
  | none => true
  | some ts => ts.action = .default

/-- `run_traps_for_caught_signals` from its first line: `polled` are the signals `poll_signals`
    has just collected (already handed to `catch_signal`); a SIGINT among them with no user trap
    interrupts at once (`ExitStatus::from(SIGINT)` = 384 + 2), even inside a trap -/
def runTrapsAfterPoll (body : Body) (inTrap : Bool) (polled : List Nat) (t : TrapMap) (exit : Int)
    : RunResult :=
  let t1 := polled.foldl catchSignal t
  if polled.contains SIGINT ∧ sigintHasDefaultAction t1 then
    { traps := t1, exit := exit, runs := [], divert := some (.interrupt (some (384 + SIGINT))) }
  else runTrapsForCaughtSignals body inTrap t1 exit

/-- successive command boundaries (`$?` at each boundary is whatever the commands in between left) -/
def boundaries (body : Body) : List Int → TrapMap → List (Nat × Nat) → TrapMap × List (Nat × Nat)
  | [], t, runs => (t, runs)
  | e :: es, t, runs =>
    let r := runTrapsForCaughtSignals body false t e
    boundaries body es r.traps (runs ++ r.runs)

/-! ## The boundary after a command (`yash-semantics/src/command.rs`, `Command::execute`) -/

/-- declaration order of `Divert` (`Continue`/`Break`, lumped in `other`, come first) -/
def Divert.rank : Divert → Nat
  | .other => 0
  | .ret _ => 2
  | .interrupt _ => 3
  | .exit _ => 4
  | .abort _ => 5

def Divert.payload : Divert → Option Int
  | .other => none
  | .ret s => s
  | .interrupt s => s
  | .exit s => s
  | .abort s => s

def optLe : Option Int → Option Int → Bool
  | none, _ => true
  | some _, none => false
  | some a, some b => a ≤ b

/-- derived `Ord::max` on `Divert` -/
def Divert.max (a b : Divert) : Divert :=
  if a.rank < b.rank then b
  else if b.rank < a.rank then a
  else if optLe a.payload b.payload then b else a

/-- the `match (main_result, trap_result)` of `Command::execute` -/
def mergeDivert : Option Divert → Option Divert → Option Divert
  | m, none => m
  | none, t => t
  | some a, some b => some (a.max b)

/-- the tail of `Command::execute`: whatever the command itself resulted in (`main`, a divert
    or not), `run_traps_for_caught_signals` is called, and the two results are merged -/
def afterCommand (body : Body) (inTrap : Bool) (main : Option Divert) (t : TrapMap) (exit : Int)
    : RunResult :=
  let r := runTrapsForCaughtSignals body inTrap t exit
  { r with divert := mergeDivert main r.divert }

/-! ## An interruptible built-in interrupted by SIGINT (`simple_command/builtin.rs`, `execute_builtin`) -/

/-- the helper future of `execute_builtin` that runs beside an interruptible built-in (interactive
    shell, no user trap for SIGINT): `loop { signals = wait_for_signals(); caught.extend(signals);
    if signals.contains(SIGINT) { return } }` over the batches of signals the system reports.
    Returns what it has recorded in `caught` and whether it returned (i.e. interrupted the built-in). -/
def sigintLoop : List (List Nat) → List Nat → List Nat × Bool
  | [], caught => (caught, false)
  | batch :: rest, caught =>
    let caught' := caught ++ batch
    if batch.contains SIGINT then (caught', true) else sigintLoop rest caught'

/-- `execute_builtin` for a built-in that does not finish by itself: after the helper returned,
    `for signal in caught { env.traps.catch_signal(signal) }`, result `Interrupt(Some(384 + SIGINT))`.
    This helper bypasses `Env::wait_for_signals`, so `caught` is the only way these signals reach
    the trap set. -/
def interruptedBuiltin (t : TrapMap) (batches : List (List Nat)) : TrapMap × Bool :=
  let r := sigintLoop batches []
  (r.1.foldl catchSignal t, r.2)

/-! ## The frame walk of `in_trap` (`yash-semantics/src/trap/signal.rs`, `yash-env/src/stack.rs`) -/

/-- `stack::Frame` (the payload of `Builtin` is dropped; `Trap` carries the condition: 0 = EXIT) -/
inductive Frame where
  | loop | subshell | condition | builtin | dotScript | trap (cond : Nat) | initFile
  deriving DecidableEq, Repr

/-- `matches!(*frame, Frame::Trap(Condition::Signal(_)))` -/
def Frame.isSignalTrap : Frame → Bool
  | .trap c => c != 0
  | _ => false

/-- `in_trap`: `env.stack.iter().rev().take_while(|frame| **frame != Frame::Subshell)
    .any(|frame| matches!(*frame, Frame::Trap(Condition::Signal(_))))`; the stack is a `Vec` whose last
    element is the innermost frame -/
def inTrap (stack : List Frame) : Bool :=
  (stack.reverse.takeWhile (· != Frame.subshell)).any Frame.isSignalTrap

/-- `run_traps_for_caught_signals` (after the poll) on a given execution stack -/
def runTrapsOnStack (body : Body) (stack : List Frame) (t : TrapMap) (exit : Int) : RunResult :=
  runTrapsForCaughtSignals body (inTrap stack) t exit

end YashModel.Trap
