/-
  C11 — helper lemmas, part 7: the `trap` built-in, the poll shortcut and the interrupted `wait`.
-/
import YashModel.Trap.Builtin
import YashModel.Trap.Pending
namespace YashModel.Trap

/-! ### the built-in only composes `peek_state` and `set_action` -/

theorem inv_displayTrap (init : Nat → Disp) (hinit : ∀ s, init s ≠ .catch) (st : State) (c : Nat)
    (incl : Bool) (h : Inv init st) : Inv init (displayTrap st c incl).1 := by
  have := inv_peek init hinit st c h
  unfold displayTrap
  simp only
  split <;> exact this

theorem inv_displayAll (init : Nat → Disp) (hinit : ∀ s, init s ≠ .catch) (incl : Bool)
    (cs : List Nat) (st : State) (h : Inv init st) : Inv init (displayAll incl cs st).1 := by
  induction cs generalizing st with
  | nil => exact h
  | cons c cs ih =>
    simp only [displayAll]
    split
    · exact ih st h
    · exact ih _ (inv_displayTrap init hinit st c incl h)

theorem inv_displayEach (init : Nat → Disp) (hinit : ∀ s, init s ≠ .catch)
    (cs : List Nat) (st : State) (h : Inv init st) : Inv init (displayEach cs st).1 := by
  induction cs generalizing st with
  | nil => exact h
  | cons c cs ih => exact ih _ (inv_displayTrap init hinit st c true h)

theorem inv_setActions (init : Nat → Disp) (hinit : ∀ s, init s ≠ .catch) (a : Action) (o : Nat)
    (ov : Bool) (cs : List Nat) (st : State) (h : Inv init st) :
    Inv init (setActions a o ov cs st).1 := by
  induction cs generalizing st with
  | nil => exact h
  | cons c cs ih => exact ih _ (inv_setAction init hinit st c a o ov h)

theorem inv_trapMain (init : Nat → Disp) (hinit : ∀ s, init s ≠ .catch) (cmdOf : String → Nat)
    (st : State) (o : Nat) (i p : Bool) (ops : List String) (h : Inv init st) :
    Inv init (trapMain cmdOf st o i p ops).st := by
  have hx : ∀ cmd : TrapCmd, Inv init (cmd.execute st o i).1 := by
    intro cmd
    cases cmd with
    | printAll incl =>
      simp only [TrapCmd.execute]
      exact inv_displayAll init hinit incl allConditions st h
    | print cs =>
      simp only [TrapCmd.execute]
      exact inv_displayEach init hinit cs st h
    | setAction a cs =>
      simp only [TrapCmd.execute]
      exact inv_setActions init hinit a o i cs st h
  unfold trapMain
  split
  · exact h
  · exact h
  · rename_i cmd _
    simp only
    split <;> exact hx cmd

/-- KILL or STOP among the conditions makes the whole built-in fail -/
theorem setActions_killStop (a : Action) (o : Nat) (ov : Bool) (cs : List Nat) (st : State)
    (k : Nat) (hk : k = SIGKILL ∨ k = SIGSTOP) (hm : k ∈ cs) :
    ∃ e, e ∈ (setActions a o ov cs st).2 ∧ e ≠ .initiallyIgnored := by
  induction cs generalizing st with
  | nil => cases hm
  | cons c cs ih =>
    simp only [setActions]
    rcases List.mem_cons.mp hm with h | h
    · subst h
      rcases hk with hk | hk
      · refine ⟨.sigkill, ?_, by decide⟩
        simp [setAction, hk]
      · refine ⟨.sigstop, ?_, by decide⟩
        simp [setAction, hk, SIGSTOP, SIGKILL]
    · obtain ⟨e, he, hne⟩ := ih (setAction st c a o ov).1 h
      exact ⟨e, List.mem_append_right _ he, hne⟩

/-! ### `trap -p COND` reads back what `trap ACTION COND` set -/

theorem getState_setAction_ok (st : State) (c : Nat) (a : Action) (o : Nat) (ov : Bool)
    (hok : (setAction st c a o ov).2 = none) :
    get (setAction st c a o ov).1.traps c
      = some { current := { action := a, origin := .user o, pending := false }, parent := none,
               internal := ((get (clearParents st.traps) c).map (·.internal)).getD .default } := by
  unfold setAction at hok ⊢
  split
  · rename_i h; simp [h] at hok
  · split
    · rename_i h1 h2; simp [h2, SIGSTOP, SIGKILL] at hok
    · rename_i h1 h2
      simp only [h1, h2, if_false] at hok
      simp only [get_set, if_true]
      unfold GrandState.setAction at hok ⊢
      cases hg : get (clearParents st.traps) c with
      | none =>
        rw [hg] at hok
        simp only at hok ⊢
        split
        · split
          · rename_i hc hp
            simp only [hc, ne_eq, not_false_eq_true, if_true] at hok
            rw [if_pos hp] at hok
            simp at hok
          · rfl
        · rfl
      | some g =>
        rw [hg] at hok
        simp only at hok ⊢
        have hpar : g.parent = none := by
          rw [get_clearParents] at hg
          cases hg0 : get st.traps c with
          | none => rw [hg0] at hg; simp at hg
          | some g0 =>
            rw [hg0] at hg
            simp only [Option.map_some, Option.some.injEq] at hg
            rw [← hg]; rfl
        split
        · rename_i hp; simp [hp] at hok
        · simp [hpar]

theorem print_reads_back (st : State) (c : Nat) (a : Action) (o : Nat) (ov : Bool)
    (hok : (setAction st c a o ov).2 = none) :
    (displayTrap (setAction st c a o ov).1 c true).2 = [{ action := a, cond := c }] := by
  have hg := getState_setAction_ok st c a o ov hok
  unfold displayTrap peekState
  simp only [hg, GrandState.insertFromSystemIfVacant, Option.getD_none]
  cases a <;> rfl

/-! ### the poll shortcut loses nothing -/

theorem runTrapsAfterPoll_conserve (body : Body) (hm : MapPreserving body) (polled : List Nat)
    (t : TrapMap) (exit : Int) :
    (runTrapsAfterPoll body false polled t exit).runs
        ++ pendingCommands (runTrapsAfterPoll body false polled t exit).traps
      = pendingCommands (polled.foldl catchSignal t) := by
  unfold runTrapsAfterPoll
  simp only
  split
  · rfl
  · exact (runTraps_conserve body hm _ exit).1

end YashModel.Trap

namespace YashModel.Trap

/-! ### `wait` interrupted by a trapped signal -/

/-- the run that interrupted the wait, as owed to signal `x` -/
def ranFor (r : Option (Nat × Nat × Int × Option Divert)) (x : Nat) : List (Nat × Nat) :=
  match r with
  | some (s, c, _, _) => if s = x then [(x, c)] else []
  | none => []

theorem owed_set_same (t : TrapMap) (s x : Nat) (g : GrandState) (hg : get t s = some g) :
    owed (get (set t s g) x) x = owed (get t x) x := by
  rw [get_set]
  by_cases h : x = s
  · subst h; simp [hg]
  · simp [h]

theorem waitTrapLoop_conserve (body : Body) (hm : MapPreserving body) (sigs : List Nat)
    (h0 : ¬ (0 ∈ sigs)) (t : TrapMap) (exit : Int) (x : Nat) :
    ranFor (waitTrapLoop body sigs t exit).2 x ++ owed (get (waitTrapLoop body sigs t exit).1 x) x
      = owed (get t x) x := by
  induction sigs generalizing t with
  | nil => simp [waitTrapLoop, ranFor]
  | cons s rest ih =>
    have hs0 : s ≠ 0 := fun h => h0 (h ▸ List.mem_cons_self ..)
    have hrest : ¬ (0 ∈ rest) := fun h => h0 (List.mem_cons_of_mem _ h)
    simp only [waitTrapLoop, runTrapIfCaught, takeSignalIfCaught]
    cases hg : get t s with
    | none => simpa using ih hrest t
    | some g =>
      simp only [GrandState.handleIfCaught]
      by_cases hp : g.current.pending = true
      · simp only [hp, if_true]
        cases hact : g.current.action with
        | command c =>
          simp only [runTrap_traps body hm]
          simp only [ranFor, get_set]
          by_cases hx : x = s
          · subst hx
            simp [owed, hg, hact, hp, hs0]
          · have : ¬ s = x := fun h => hx h.symm
            simp [hx, this]
        | default =>
          simp only
          rw [ih hrest, get_set]
          by_cases hx : x = s
          · subst hx; simp [owed, hg, hact]
          · simp [hx]
        | ignore =>
          simp only
          rw [ih hrest, get_set]
          by_cases hx : x = s
          · subst hx; simp [owed, hg, hact]
          · simp [hx]
      · simp only [hp]
        simp only [Bool.false_eq_true, if_false]
        rw [ih hrest, owed_set_same t s x g hg]

end YashModel.Trap

namespace YashModel.Trap

/-! ### the built-in as a history of `TrapSet` operations -/

/-- the `TrapSet` operations one `trap` command performs -/
def trapCmdOps (origin : Nat) (interactive : Bool) : TrapCmd → List Op
  | .printAll _ => (allConditions.filter fun c => !(c == SIGKILL || c == SIGSTOP)).map Op.peek
  | .print conds => conds.map Op.peek
  | .setAction a conds => conds.map fun c => Op.setAction c a origin interactive

/-- the operations of a whole invocation (none if the operands are rejected) -/
def trapMainOps (cmdOf : String → Nat) (origin : Nat) (interactive print : Bool) (operands : List String)
    : List Op :=
  match interpret cmdOf print operands with
  | .error _ => []
  | .ok cmd => trapCmdOps origin interactive cmd

theorem run_append (st : State) (a b : List Op) : run st (a ++ b) = run (run st a) b := by
  induction a generalizing st with
  | nil => rfl
  | cons op a ih => exact ih _

theorem displayTrap_fst (st : State) (c : Nat) (incl : Bool) :
    (displayTrap st c incl).1 = step st (.peek c) := by
  unfold displayTrap
  simp only
  split <;> rfl

theorem displayAll_run (incl : Bool) (cs : List Nat) (st : State) :
    (displayAll incl cs st).1
      = run st ((cs.filter fun c => !(c == SIGKILL || c == SIGSTOP)).map Op.peek) := by
  induction cs generalizing st with
  | nil => rfl
  | cons c cs ih =>
    simp only [displayAll]
    by_cases hk : c = SIGKILL ∨ c = SIGSTOP
    · have : (!(c == SIGKILL || c == SIGSTOP)) = false := by
        rcases hk with h | h <;> simp [h]
      simp only [hk, if_true, List.filter_cons, this, Bool.false_eq_true, if_false]
      exact ih st
    · have : (!(c == SIGKILL || c == SIGSTOP)) = true := by
        simp only [not_or] at hk
        simp [hk.1, hk.2]
      simp only [hk, if_false, List.filter_cons, this, if_true, List.map_cons, run]
      rw [ih, displayTrap_fst]

theorem displayEach_run (cs : List Nat) (st : State) :
    (displayEach cs st).1 = run st (cs.map Op.peek) := by
  induction cs generalizing st with
  | nil => rfl
  | cons c cs ih =>
    simp only [displayEach, List.map_cons, run]
    rw [ih, displayTrap_fst]

theorem setActions_run (a : Action) (o : Nat) (ov : Bool) (cs : List Nat) (st : State) :
    (setActions a o ov cs st).1 = run st (cs.map fun c => Op.setAction c a o ov) := by
  induction cs generalizing st with
  | nil => rfl
  | cons c cs ih =>
    simp only [setActions, List.map_cons, run]
    rw [ih]; rfl

theorem trapMain_run (cmdOf : String → Nat) (st : State) (o : Nat) (i p : Bool) (ops : List String) :
    (trapMain cmdOf st o i p ops).st = run st (trapMainOps cmdOf o i p ops) := by
  unfold trapMain trapMainOps
  cases hi : interpret cmdOf p ops with
  | error e => cases e <;> rfl
  | ok cmd =>
    have hx : (cmd.execute st o i).1 = run st (trapCmdOps o i cmd) := by
      cases cmd with
      | printAll incl => simp only [TrapCmd.execute, trapCmdOps]; exact displayAll_run incl _ st
      | print cs => simp only [TrapCmd.execute, trapCmdOps]; exact displayEach_run cs st
      | setAction a cs => simp only [TrapCmd.execute, trapCmdOps]; exact setActions_run a o i cs st
    simp only
    split <;> exact hx

end YashModel.Trap

namespace YashModel.Trap

/-! ### one `trap ACTION COND…` command sets every listed condition -/

/-- the state `set_action` writes -/
def newState (a : Action) (o : Nat) : TrapState := { action := a, origin := .user o, pending := false }

theorem setAction_ok_of_not_refused (st : State) (c : Nat) (a : Action) (o : Nat) (ov : Bool)
    (hk : c ≠ SIGKILL) (hs : c ≠ SIGSTOP) (hr : refused st c ov = false) :
    (setAction st c a o ov).2 = none := by
  unfold setAction
  simp only [hk, hs, if_false]
  unfold GrandState.setAction
  unfold refused at hr
  rw [get_clearParents]
  cases hg : get st.traps c with
  | none =>
    rw [hg] at hr
    simp only [Option.map_none]
    by_cases h0 : c = 0
    · simp [h0]
    · simp only [h0, ne_eq, not_false_eq_true, if_true, setDisposition_fst]
      cases ov <;> simp_all
  | some g =>
    rw [hg] at hr
    simp only [Option.map_some, GrandState.clearParent]
    cases ov with
    | true => simp
    | false =>
      have hne : ¬ (g.current.action = Action.ignore ∧ g.current.origin = Origin.inherited) := by
        intro h; simp [h.1, h.2] at hr
      simp [hne]

theorem setAction_get_other (st : State) (c c' : Nat) (a : Action) (o : Nat) (ov : Bool) (h : c ≠ c') :
    get (setAction st c' a o ov).1.traps c = (get st.traps c).map GrandState.clearParent
    ∨ get (setAction st c' a o ov).1.traps c = get st.traps c := by
  unfold setAction
  split
  · right; rfl
  · split
    · right; rfl
    · left; simp only [get_set, h, if_false, get_clearParents]

theorem setAction_disp_other (st : State) (c c' : Nat) (a : Action) (o : Nat) (ov : Bool) (h : c ≠ c') :
    (setAction st c' a o ov).1.sys.disp c = st.sys.disp c := by
  unfold setAction
  split
  · rfl
  · split
    · rfl
    · exact setActionE_other _ _ _ _ _ _ _ h

theorem refused_setAction_other (st : State) (c c' : Nat) (a : Action) (o : Nat) (ov ov' : Bool)
    (h : c ≠ c') : refused (setAction st c' a o ov).1 c ov' = refused st c ov' := by
  unfold refused
  rw [setAction_disp_other st c c' a o ov h]
  rcases setAction_get_other st c c' a o ov h with hg | hg
  · rw [hg]; cases get st.traps c <;> rfl
  · rw [hg]

/-- once a condition holds the new state, a further `set_action` of the same command keeps it -/
theorem newState_preserved (st : State) (c c' : Nat) (a : Action) (o : Nat) (ov : Bool) (g : GrandState)
    (hg : get st.traps c = some g) (hn : g.current = newState a o) :
    ∃ g', get (setAction st c' a o ov).1.traps c = some g' ∧ g'.current = newState a o := by
  by_cases h : c = c'
  · subst h
    by_cases hk : c = SIGKILL
    · refine ⟨g, ?_, hn⟩
      have : (setAction st c a o ov).1 = st := by unfold setAction; rw [if_pos hk]
      rw [this, hg]
    · by_cases hs : c = SIGSTOP
      · refine ⟨g, ?_, hn⟩
        have : (setAction st c a o ov).1 = st := by unfold setAction; rw [if_neg hk, if_pos hs]
        rw [this, hg]
      · have hr : refused st c ov = false := by
          simp [refused, hg, hn, newState]
        have hok := setAction_ok_of_not_refused st c a o ov hk hs hr
        exact ⟨_, getState_setAction_ok st c a o ov hok, rfl⟩
  · rcases setAction_get_other st c c' a o ov h with hg' | hg'
    · exact ⟨g.clearParent, by rw [hg', hg]; rfl, hn⟩
    · exact ⟨g, by rw [hg', hg], hn⟩

theorem setActions_keeps_new (a : Action) (o : Nat) (ov : Bool) (cs : List Nat) (st : State) (c : Nat)
    (g : GrandState) (hg : get st.traps c = some g) (hn : g.current = newState a o) :
    ∃ g', get (setActions a o ov cs st).1.traps c = some g' ∧ g'.current = newState a o := by
  induction cs generalizing st g with
  | nil => exact ⟨g, hg, hn⟩
  | cons c' cs ih =>
    simp only [setActions]
    obtain ⟨g1, hg1, hn1⟩ := newState_preserved st c c' a o ov g hg hn
    exact ih _ g1 hg1 hn1

/-- every listed condition that is not ignored on entry (and is not KILL/STOP) ends up with the
    action of the command, whatever stands before or after it in the list -/
theorem setActions_sets_each (a : Action) (o : Nat) (ov : Bool) (cs : List Nat) (st : State) (c : Nat)
    (hm : c ∈ cs) (hk : c ≠ SIGKILL) (hs : c ≠ SIGSTOP) (hr : refused st c ov = false) :
    ∃ g, get (setActions a o ov cs st).1.traps c = some g ∧ g.current = newState a o := by
  induction cs generalizing st with
  | nil => cases hm
  | cons c' cs ih =>
    simp only [setActions]
    by_cases h : c = c'
    · subst h
      have hok := setAction_ok_of_not_refused st c a o ov hk hs hr
      exact setActions_keeps_new a o ov cs _ c _ (getState_setAction_ok st c a o ov hok) rfl
    · have hm' : c ∈ cs := by
        rcases List.mem_cons.mp hm with h1 | h1
        · exact absurd h1 h
        · exact h1
      apply ih _ hm'
      rw [refused_setAction_other st c c' a o ov ov h]; exact hr

end YashModel.Trap
