/-
  C11 — helper lemmas, part 7: the `trap` built-in, the poll shortcut and the interrupted `wait`.
-/
import YashModel.Trap.Builtin
import YashModel.Trap.Pending
namespace YashModel.Trap

/-! ### the built-in only composes `peek_state` and `set_action` -/

theorem inv_displayTrap (init : Nat → Disp) (hinit : ∀ s, init s ≠ .catch) (st : State) (c : Nat)
    (incl : Bool) (h : Inv init st) : Inv init (displayTrap st c incl).1 := by
  have := inv_peek init hinit st c h
  unfold displayTrap
  simp only
  split <;> exact this

theorem inv_displayAll (init : Nat → Disp) (hinit : ∀ s, init s ≠ .catch) (incl : Bool)
    (cs : List Nat) (st : State) (h : Inv init st) : Inv init (displayAll incl cs st).1 := by
  induction cs generalizing st with
  | nil => exact h
  | cons c cs ih =>
    simp only [displayAll]
    split
    · exact ih st h
    · exact ih _ (inv_displayTrap init hinit st c incl h)

theorem inv_displayEach (init : Nat → Disp) (hinit : ∀ s, init s ≠ .catch)
    (cs : List Nat) (st : State) (h : Inv init st) : Inv init (displayEach cs st).1 := by
  induction cs generalizing st with
  | nil => exact h
  | cons c cs ih => exact ih _ (inv_displayTrap init hinit st c true h)

theorem inv_setActions (init : Nat → Disp) (hinit : ∀ s, init s ≠ .catch) (a : Action) (o : Nat)
    (ov : Bool) (cs : List Nat) (st : State) (h : Inv init st) :
    Inv init (setActions a o ov cs st).1 := by
  induction cs generalizing st with
  | nil => exact h
  | cons c cs ih => exact ih _ (inv_setAction init hinit st c a o ov h)

theorem inv_trapMain (init : Nat → Disp) (hinit : ∀ s, init s ≠ .catch) (cmdOf : String → Nat)
    (st : State) (o : Nat) (i p : Bool) (ops : List String) (h : Inv init st) :
    Inv init (trapMain cmdOf st o i p ops).st := by
  have hx : ∀ cmd : TrapCmd, Inv init (cmd.execute st o i).1 := by
    intro cmd
    cases cmd with
    | printAll incl =>
      simp only [TrapCmd.execute]
      exact inv_displayAll init hinit incl allConditions st h
    | print cs =>
      simp only [TrapCmd.execute]
      exact inv_displayEach init hinit cs st h
    | setAction a cs =>
      simp only [TrapCmd.execute]
      exact inv_setActions init hinit a o i cs st h
  unfold trapMain
  split
  · exact h
  · exact h
  · rename_i cmd _
    simp only
    split <;> exact hx cmd

/-- KILL or STOP among the conditions makes the whole built-in fail -/
theorem setActions_killStop (a : Action) (o : Nat) (ov : Bool) (cs : List Nat) (st : State)
    (k : Nat) (hk : k = SIGKILL ∨ k = SIGSTOP) (hm : k ∈ cs) :
    ∃ e, e ∈ (setActions a o ov cs st).2 ∧ e ≠ .initiallyIgnored := by
  induction cs generalizing st with
  | nil => cases hm
  | cons c cs ih =>
    simp only [setActions]
    rcases List.mem_cons.mp hm with h | h
    · subst h
      rcases hk with hk | hk
      · refine ⟨.sigkill, ?_, by decide⟩
        simp [setAction, hk]
      · refine ⟨.sigstop, ?_, by decide⟩
        simp [setAction, hk, SIGSTOP, SIGKILL]
    · obtain ⟨e, he, hne⟩ := ih (setAction st c a o ov).1 h
      exact ⟨e, List.mem_append_right _ he, hne⟩

/-! ### `trap -p COND` reads back what `trap ACTION COND` set -/

theorem getState_setAction_ok (st : State) (c : Nat) (a : Action) (o : Nat) (ov : Bool)
    (hok : (setAction st c a o ov).2 = none) :
    get (setAction st c a o ov).1.traps c
      = some { current := { action := a, origin := .user o, pending := false }, parent := none,
               internal := ((get (clearParents st.traps) c).map (·.internal)).getD .default } := by
  unfold setAction at hok ⊢
  split
  · rename_i h; simp [h] at hok
  · split
    · rename_i h1 h2; simp [h2, SIGSTOP, SIGKILL] at hok
    · rename_i h1 h2
      simp only [h1, h2, if_false] at hok
      simp only [get_set, if_true]
      unfold GrandState.setAction at hok ⊢
      cases hg : get (clearParents st.traps) c with
      | none =>
        rw [hg] at hok
        simp only at hok ⊢
        split
        · split
          · rename_i hc hp
            simp only [hc, ne_eq, not_false_eq_true, if_true] at hok
            rw [if_pos hp] at hok
            simp at hok
          · rfl
        · rfl
      | some g =>
        rw [hg] at hok
        simp only at hok ⊢
        have hpar : g.parent = none := by
          rw [get_clearParents] at hg
          cases hg0 : get st.traps c with
          | none => rw [hg0] at hg; simp at hg
          | some g0 =>
            rw [hg0] at hg
            simp only [Option.map_some, Option.some.injEq] at hg
            rw [← hg]; rfl
        split
        · rename_i hp; simp [hp] at hok
        · simp [hpar]

theorem print_reads_back (st : State) (c : Nat) (a : Action) (o : Nat) (ov : Bool)
    (hok : (setAction st c a o ov).2 = none) :
    (displayTrap (setAction st c a o ov).1 c true).2 = [{ action := a, cond := c }] := by
  have hg := getState_setAction_ok st c a o ov hok
  unfold displayTrap peekState
  simp only [hg, GrandState.insertFromSystemIfVacant, Option.getD_none]
  cases a <;> rfl

/-! ### the poll shortcut loses nothing -/

theorem runTrapsAfterPoll_conserve (body : Body) (hm : MapPreserving body) (polled : List Nat)
    (t : TrapMap) (exit : Int) :
    (runTrapsAfterPoll body false polled t exit).runs
        ++ pendingCommands (runTrapsAfterPoll body false polled t exit).traps
      = pendingCommands (polled.foldl catchSignal t) := by
  unfold runTrapsAfterPoll
  simp only
  split
  · rfl
  · exact (runTraps_conserve body hm _ exit).1

end YashModel.Trap

namespace YashModel.Trap

/-! ### `wait` interrupted by a trapped signal -/

/-- the run that interrupted the wait, as owed to signal `x` -/
def ranFor (r : Option (Nat × Nat × Int × Option Divert)) (x : Nat) : List (Nat × Nat) :=
  match r with
  | some (s, c, _, _) => if s = x then [(x, c)] else []
  | none => []

theorem owed_set_same (t : TrapMap) (s x : Nat) (g : GrandState) (hg : get t s = some g) :
    owed (get (set t s g) x) x = owed (get t x) x := by
  rw [get_set]
  by_cases h : x = s
  · subst h; simp [hg]
  · simp [h]

theorem waitTrapLoop_conserve (body : Body) (hm : MapPreserving body) (sigs : List Nat)
    (h0 : ¬ (0 ∈ sigs)) (t : TrapMap) (exit : Int) (x : Nat) :
    ranFor (waitTrapLoop body sigs t exit).2 x ++ owed (get (waitTrapLoop body sigs t exit).1 x) x
      = owed (get t x) x := by
  induction sigs generalizing t with
  | nil => simp [waitTrapLoop, ranFor]
  | cons s rest ih =>
    have hs0 : s ≠ 0 := fun h => h0 (h ▸ List.mem_cons_self ..)
    have hrest : ¬ (0 ∈ rest) := fun h => h0 (List.mem_cons_of_mem _ h)
    simp only [waitTrapLoop, runTrapIfCaught, takeSignalIfCaught]
    cases hg : get t s with
    | none => simpa using ih hrest t
    | some g =>
      simp only [GrandState.handleIfCaught]
      by_cases hp : g.current.pending = true
      · simp only [hp, if_true]
        cases hact : g.current.action with
        | command c =>
          simp only [runTrap_traps body hm]
          simp only [ranFor, get_set]
          by_cases hx : x = s
          · subst hx
            simp [owed, hg, hact, hp, hs0]
          · have : ¬ s = x := fun h => hx h.symm
            simp [hx, this]
        | default =>
          simp only
          rw [ih hrest, get_set]
          by_cases hx : x = s
          · subst hx; simp [owed, hg, hact]
          · simp [hx]
        | ignore =>
          simp only
          rw [ih hrest, get_set]
          by_cases hx : x = s
          · subst hx; simp [owed, hg, hact]
          · simp [hx]
      · simp only [hp]
        simp only [Bool.false_eq_true, if_false]
        rw [ih hrest, owed_set_same t s x g hg]

end YashModel.Trap

namespace YashModel.Trap

/-! ### the built-in as a history of `TrapSet` operations -/

/-- the `TrapSet` operations one `trap` command performs -/
def trapCmdOps (origin : Nat) (interactive : Bool) : TrapCmd → List Op
  | .printAll _ => (allConditions.filter fun c => !(c == SIGKILL || c == SIGSTOP)).map Op.peek
  | .print conds => conds.map Op.peek
  | .setAction a conds => conds.map fun c => Op.setAction c a origin interactive

/-- the operations of a whole invocation (none if the operands are rejected) -/
def trapMainOps (cmdOf : String → Nat) (origin : Nat) (interactive print : Bool) (operands : List String)
    : List Op :=
  match interpret cmdOf print operands with
  | .error _ => []
  | .ok cmd => trapCmdOps origin interactive cmd

theorem run_append (st : State) (a b : List Op) : run st (a ++ b) = run (run st a) b := by
  induction a generalizing st with
  | nil => rfl
  | cons op a ih => exact ih _

theorem displayTrap_fst (st : State) (c : Nat) (incl : Bool) :
    (displayTrap st c incl).1 = step st (.peek c) := by
  unfold displayTrap
  simp only
  split <;> rfl

theorem displayAll_run (incl : Bool) (cs : List Nat) (st : State) :
    (displayAll incl cs st).1
      = run st ((cs.filter fun c => !(c == SIGKILL || c == SIGSTOP)).map Op.peek) := by
  induction cs generalizing st with
  | nil => rfl
  | cons c cs ih =>
    simp only [displayAll]
    by_cases hk : c = SIGKILL ∨ c = SIGSTOP
    · have : (!(c == SIGKILL || c == SIGSTOP)) = false := by
        rcases hk with h | h <;> simp [h]
      simp only [hk, if_true, List.filter_cons, this, Bool.false_eq_true, if_false]
      exact ih st
    · have : (!(c == SIGKILL || c == SIGSTOP)) = true := by
        simp only [not_or] at hk
        simp [hk.1, hk.2]
      simp only [hk, if_false, List.filter_cons, this, if_true, List.map_cons, run]
      rw [ih, displayTrap_fst]

theorem displayEach_run (cs : List Nat) (st : State) :
    (displayEach cs st).1 = run st (cs.map Op.peek) := by
  induction cs generalizing st with
  | nil => rfl
  | cons c cs ih =>
    simp only [displayEach, List.map_cons, run]
    rw [ih, displayTrap_fst]

theorem setActions_run (a : Action) (o : Nat) (ov : Bool) (cs : List Nat) (st : State) :
    (setActions a o ov cs st).1 = run st (cs.map fun c => Op.setAction c a o ov) := by
  induction cs generalizing st with
  | nil => rfl
  | cons c cs ih =>
    simp only [setActions, List.map_cons, run]
    rw [ih]; rfl

theorem trapMain_run (cmdOf : String → Nat) (st : State) (o : Nat) (i p : Bool) (ops : List String) :
    (trapMain cmdOf st o i p ops).st = run st (trapMainOps cmdOf o i p ops) := by
  unfold trapMain trapMainOps
  cases hi : interpret cmdOf p ops with
  | error e => cases e <;> rfl
  | ok cmd =>
    have hx : (cmd.execute st o i).1 = run st (trapCmdOps o i cmd) := by
      cases cmd with
      | printAll incl => simp only [TrapCmd.execute, trapCmdOps]; exact displayAll_run incl _ st
      | print cs => simp only [TrapCmd.execute, trapCmdOps]; exact displayEach_run cs st
      | setAction a cs => simp only [TrapCmd.execute, trapCmdOps]; exact setActions_run a o i cs st
    simp only
    split <;> exact hx

end YashModel.Trap
