/-
  C11 — helper lemmas, part 9 (wave 3): signals that arrive WHILE an action runs.  The hypothesis
  `MapPreserving` of the big-step exactly-once theorem is replaced by `Arrivals`: the only thing an
  action does to the trap set is that signals are delivered (`catch_signal`) while it runs — any
  signals, any number, also its own.  One runner invocation is then a sequence of the small steps of
  `Interleave.lean` (`take`, the arrivals of that action, `take`, …), so the pending discipline of
  `stepEv_account` carries over to whole command boundaries.
-/
import YashModel.Trap.Interleave
namespace YashModel.Trap

/-- bodies whose only effect on the trap set is that the signals `arr c e t` are delivered
    (`TrapSet::catch_signal`, in that order) while they run -/
def Arrivals (body : Body) (arr : Nat → Int → TrapMap → List Nat) : Prop :=
  ∀ c e t, (body c e t).2 = (arr c e t).foldl catchSignal t

theorem arrivals_of_mapPreserving (body : Body) (hm : MapPreserving body) :
    Arrivals body (fun _ _ _ => []) := fun c e t => hm c e t

/-- the small steps of one `drain`: `take`, then the arrivals of the action just run, and so on,
    following the recursion of `drain` -/
def drainEvs (body : Body) (arr : Nat → Int → TrapMap → List Nat) : Nat → TrapMap → Int → List Ev
  | 0, _, _ => []
  | fuel + 1, t, exit =>
    match (takeCaughtSignal t).2 with
    | none => []
    | some (_, ts) =>
      match ts.action with
      | .command c =>
        match (runTrap body c exit (takeCaughtSignal t).1).2.1 with
        | some _ => Ev.take :: (arr c exit (takeCaughtSignal t).1).map Ev.deliver
        | none =>
          (Ev.take :: (arr c exit (takeCaughtSignal t).1).map Ev.deliver)
            ++ drainEvs body arr fuel (runTrap body c exit (takeCaughtSignal t).1).2.2
                 (runTrap body c exit (takeCaughtSignal t).1).1
      | _ => Ev.take :: drainEvs body arr fuel (takeCaughtSignal t).1 exit

theorem runEvs_trace (s : Nat) (evs : List Ev) (t : TrapMap) (tr : STrace) :
    runEvs s t evs tr = ((runEvs s t evs []).1, tr ++ (runEvs s t evs []).2) := by
  induction evs generalizing t tr with
  | nil => simp [runEvs]
  | cons ev evs ih =>
    simp only [runEvs, List.nil_append]
    rw [ih _ (tr ++ _), ih _ (stepEv s t ev).2]
    simp [List.append_assoc]

theorem runEvs_append (s : Nat) (a b : List Ev) (t : TrapMap) (tr : STrace) :
    runEvs s t (a ++ b) tr = runEvs s (runEvs s t a tr).1 b (runEvs s t a tr).2 := by
  induction a generalizing t tr with
  | nil => rfl
  | cons ev a ih => simp only [List.cons_append, runEvs]; exact ih _ _

theorem runEvs_delivers (s : Nat) (l : List Nat) (t : TrapMap) (tr : STrace) :
    (runEvs s t (l.map Ev.deliver) tr).1 = l.foldl catchSignal t
    ∧ (runEvs s t (l.map Ev.deliver) tr).2.count false = tr.count false := by
  induction l generalizing t tr with
  | nil => exact ⟨rfl, rfl⟩
  | cons x l ih =>
    simp only [List.map_cons, runEvs, List.foldl_cons, stepEv]
    refine ⟨(ih _ _).1, ?_⟩
    rw [(ih _ _).2, List.count_append]
    split <;> simp

theorem runTrap_traps_arr (body : Body) (arr : Nat → Int → TrapMap → List Nat) (hA : Arrivals body arr)
    (c : Nat) (e : Int) (t : TrapMap) : (runTrap body c e t).2.2 = (arr c e t).foldl catchSignal t := by
  unfold runTrap
  simp only
  split <;> exact hA c e t

/-- one runner invocation IS the small-step run of its events, as far as the trap set goes -/
theorem drain_small_steps_traps (body : Body) (arr : Nat → Int → TrapMap → List Nat) (hA : Arrivals body arr)
    (s : Nat) (fuel : Nat) (t : TrapMap) (exit : Int) (runs : List (Nat × Nat)) (tr : STrace) :
    (runEvs s t (drainEvs body arr fuel t exit) tr).1 = (drain body fuel t exit runs).traps := by
  induction fuel generalizing t exit runs tr with
  | zero => rfl
  | succ fuel ih =>
    simp only [drain, drainEvs]
    cases hr : (takeCaughtSignal t).2 with
    | none => rfl
    | some p =>
      obtain ⟨k, ts⟩ := p
      have hstep : (stepEv s t .take).1 = (takeCaughtSignal t).1 := by simp [stepEv, hr]
      simp only
      cases hact : ts.action with
      | command c =>
        simp only
        have htr := runTrap_traps_arr body arr hA c exit (takeCaughtSignal t).1
        cases hd : (runTrap body c exit (takeCaughtSignal t).1).2.1 with
        | some d =>
          simp only [runEvs, hstep]
          rw [(runEvs_delivers s _ _ _).1, htr]
        | none =>
          simp only [List.cons_append, runEvs, hstep, runEvs_append]
          rw [(runEvs_delivers s _ _ _).1, ← htr]
          exact ih _ _ _ _
      | default => simp only [runEvs, hstep]; exact ih _ _ _ _
      | ignore => simp only [runEvs, hstep]; exact ih _ _ _ _

theorem actionAt_of_core (t t' : TrapMap) (s : Nat) (hc : (get t' s).map core = (get t s).map core) :
    actionAt t' s = actionAt t s := by
  unfold actionAt
  cases h1 : get t' s <;> cases h2 : get t s <;> simp_all [core]

/-- … and as far as the actions run for `s` go: with a command trap `c` on `s`, the runs of `s` this
    invocation adds are `(s, c)`, one per `false` of the small-step trace -/
theorem drain_small_steps_runs (body : Body) (arr : Nat → Int → TrapMap → List Nat) (hA : Arrivals body arr)
    (s c : Nat) (fuel : Nat) (t : TrapMap) (hsorted : Sorted t) (hact : actionAt t s = some (.command c))
    (exit : Int) (runs : List (Nat × Nat)) :
    (drain body fuel t exit runs).runs.filter (fun p => p.1 == s)
      = runs.filter (fun p => p.1 == s)
        ++ List.replicate ((runEvs s t (drainEvs body arr fuel t exit) []).2.count false) (s, c) := by
  induction fuel generalizing t exit runs with
  | zero => simp [drain, drainEvs, runEvs]
  | succ fuel ih =>
    simp only [drain, drainEvs]
    have hspec := takeCaught_spec t hsorted
    cases hr : (takeCaughtSignal t).2 with
    | none => simp [runEvs]
    | some p =>
      obtain ⟨k, ts⟩ := p
      rw [hr] at hspec
      simp only at hspec
      obtain ⟨hk0, hpk, ⟨g, hg, hts, hget⟩, _⟩ := hspec
      have hstep1 : (stepEv s t .take).1 = (takeCaughtSignal t).1 := by simp [stepEv, hr]
      have hstep2 : (stepEv s t .take).2 = if k = s then [false] else [] := by simp [stepEv, hr]
      have hs1 := sorted_takeCaught t hsorted
      have ha1 : actionAt (takeCaughtSignal t).1 s = some (.command c) := by
        rw [actionAt_of_core t _ s (takeCaught_core t s)]; exact hact
      -- the head of the trace, and the rest
      simp only
      cases hact' : ts.action with
      | command c' =>
        simp only
        have htr := runTrap_traps_arr body arr hA c' exit (takeCaughtSignal t).1
        have hs2 : Sorted ((arr c' exit (takeCaughtSignal t).1).foldl catchSignal (takeCaughtSignal t).1) :=
          sorted_foldl_catch _ _ hs1
        have ha2 : actionAt ((arr c' exit (takeCaughtSignal t).1).foldl catchSignal (takeCaughtSignal t).1) s
            = some (.command c) := by
          rw [actionAt_of_core _ _ s (core_foldl_catch _ _ s)]; exact ha1
        -- if the signal taken is `s`, the command is `c`
        have hkc : k = s → c' = c := by
          intro hks
          subst hks
          unfold actionAt at hact
          rw [hg] at hact
          simp only [Option.map_some, Option.some.injEq] at hact
          rw [hts] at hact'
          simp only at hact'
          rw [hact] at hact'
          cases hact'; rfl
        cases hd : (runTrap body c' exit (takeCaughtSignal t).1).2.1 with
        | some d =>
          simp only [runEvs, hstep1, hstep2, List.nil_append]
          rw [runEvs_trace, List.count_append, (runEvs_delivers s _ _ []).2]
          by_cases hks : k = s
          · have := hkc hks
            subst this; subst hks
            simp [List.filter_append]
          · have : (k == s) = false := by simpa using hks
            simp [List.filter_append, hks, this]
        | none =>
          simp only [List.cons_append, runEvs, hstep1, hstep2, List.nil_append, runEvs_append]
          rw [runEvs_trace s (drainEvs _ _ _ _ _), List.count_append]
          have hD := runEvs_delivers s (arr c' exit (takeCaughtSignal t).1) (takeCaughtSignal t).1
            (if k = s then [false] else [])
          rw [hD.2, hD.1, htr]
          rw [ih _ hs2 ha2]
          by_cases hks : k = s
          · have := hkc hks
            subst this; subst hks
            simp only [List.filter_append, if_true, List.count_cons_self, List.count_nil, Nat.zero_add,
              List.filter_cons, List.filter_nil, beq_self_eq_true, List.append_assoc, List.cons_append,
              List.nil_append]
            rw [Nat.add_comm, List.replicate_succ]
          · have : (k == s) = false := by simpa using hks
            simp [List.filter_append, hks, this]
      | default =>
        simp only [runEvs, hstep1, hstep2, List.nil_append]
        rw [runEvs_trace, List.count_append, ih _ hs1 ha1]
        have hks : k ≠ s := by
          intro hks; subst hks
          unfold actionAt at hact
          rw [hg] at hact
          simp only [Option.map_some, Option.some.injEq] at hact
          rw [hts] at hact'; simp only at hact'
          rw [hact] at hact'; cases hact'
        simp [hks]
      | ignore =>
        simp only [runEvs, hstep1, hstep2, List.nil_append]
        rw [runEvs_trace, List.count_append, ih _ hs1 ha1]
        have hks : k ≠ s := by
          intro hks; subst hks
          unfold actionAt at hact
          rw [hg] at hact
          simp only [Option.map_some, Option.some.injEq] at hact
          rw [hts] at hact'; simp only at hact'
          rw [hact] at hact'; cases hact'
        simp [hks]


/-! ### whole histories: deliveries outside actions, command boundaries, arrivals inside actions -/

theorem core_stepEv (s : Nat) (t : TrapMap) (ev : Ev) (x : Nat) :
    (get (stepEv s t ev).1 x).map core = (get t x).map core := by
  cases ev with
  | deliver y => exact catchSignal_core t y x
  | take =>
    simp only [stepEv]
    split <;> exact takeCaught_core t x

theorem runEvs_sorted_core (s : Nat) (evs : List Ev) (t : TrapMap) (tr : STrace) (h : Sorted t) :
    Sorted (runEvs s t evs tr).1 ∧ ∀ x, (get (runEvs s t evs tr).1 x).map core = (get t x).map core := by
  induction evs generalizing t tr with
  | nil => exact ⟨h, fun _ => rfl⟩
  | cons ev evs ih =>
    simp only [runEvs]
    have := ih (stepEv s t ev).1 (tr ++ (stepEv s t ev).2) (sorted_stepEv s t ev h)
    exact ⟨this.1, fun x => (this.2 x).trans (core_stepEv s t ev x)⟩

theorem account_runs (armed : Bool) (tr : STrace) (a : Bool) (r e : Nat)
    (h : account armed tr = some (a, r, e)) : r = tr.count false := by
  induction tr generalizing armed a r e with
  | nil => simp [account] at h; simp [h.2.1]
  | cons b rest ih =>
    cases b with
    | true =>
      simp only [account, Option.map_eq_some_iff] at h
      obtain ⟨⟨a', r', e'⟩, hacc, heq⟩ := h
      simp only [Prod.mk.injEq] at heq
      have := ih true a' r' e' hacc
      simp [← heq.2.1, this]
    | false =>
      cases armed with
      | false => simp [account] at h
      | true =>
        simp only [account, if_true, Option.map_eq_some_iff] at h
        obtain ⟨⟨a', r', e'⟩, hacc, heq⟩ := h
        simp only [Prod.mk.injEq] at heq
        have := ih false a' r' e' hacc
        simp [← heq.2.1, this]

/-- state of a history seen for signal `s`: the trap set, what happened to `s` in order (`true` = a
    delivery — outside or inside an action —, `false` = its action was taken to be run), and every
    action run so far -/
structure BigA where
  traps : TrapMap
  trace : STrace := []
  runs : List (Nat × Nat) := []

def stepBigA (body : Body) (arr : Nat → Int → TrapMap → List Nat) (s : Nat) (st : BigA) : BEv → BigA
  | .deliver x =>
    { st with traps := catchSignal st.traps x,
              trace := st.trace ++ (if x = s ∧ (get st.traps s).isSome then [true] else []) }
  | .boundary main exit =>
    let r := afterCommand body false main st.traps exit
    { traps := r.traps,
      trace := st.trace ++ (runEvs s st.traps (drainEvs body arr (st.traps.length + 1) st.traps exit) []).2,
      runs := st.runs ++ r.runs }

def runBigA (body : Body) (arr : Nat → Int → TrapMap → List Nat) (s : Nat) : BigA → List BEv → BigA
  | st, [] => st
  | st, ev :: evs => runBigA body arr s (stepBigA body arr s st ev) evs

/-- the invariant of a history, for signal `s` with command trap `c` -/
structure InvA (s c : Nat) (armed0 : Bool) (st : BigA) : Prop where
  sorted : Sorted st.traps
  action : actionAt st.traps s = some (.command c)
  acc : (account armed0 st.trace).map (·.1) = some (pendingAt st.traps s)
  runs : st.runs.filter (fun p => p.1 == s) = List.replicate (st.trace.count false) (s, c)

theorem invA_step (body : Body) (arr : Nat → Int → TrapMap → List Nat) (hA : Arrivals body arr)
    (s c : Nat) (hs0 : s ≠ 0) (armed0 : Bool) (st : BigA) (ev : BEv) (h : InvA s c armed0 st) :
    InvA s c armed0 (stepBigA body arr s st ev) := by
  cases ev with
  | deliver x =>
    have hstep : stepEv s st.traps (.deliver x)
        = (catchSignal st.traps x, if x = s ∧ (get st.traps s).isSome then [true] else []) := rfl
    refine ⟨sorted_catchSignal _ _ h.sorted, ?_, ?_, ?_⟩
    · simp only [stepBigA]
      rw [actionAt_of_core st.traps _ s (catchSignal_core st.traps x s)]; exact h.action
    · have := account_snoc_ok armed0 st.trace _ _ _ h.acc
        (stepEv_account s hs0 st.traps (.deliver x) h.sorted)
      simpa [stepBigA, hstep] using this
    · simp only [stepBigA, List.count_append]
      rw [h.runs]
      split <;> simp
  | boundary main exit =>
    have htraps := drain_small_steps_traps body arr hA s (st.traps.length + 1) st.traps exit [] st.trace
    have hsc := runEvs_sorted_core s (drainEvs body arr (st.traps.length + 1) st.traps exit) st.traps st.trace
      h.sorted
    have hacc := runEvs_account s hs0 (drainEvs body arr (st.traps.length + 1) st.traps exit) st.traps
      h.sorted armed0 st.trace h.acc
    have hruns := drain_small_steps_runs body arr hA s c (st.traps.length + 1) st.traps h.sorted h.action exit []
    rw [runEvs_trace] at hacc hsc htraps
    simp only at hacc hsc htraps
    have hT : (stepBigA body arr s st (.boundary main exit)).traps
        = (runEvs s st.traps (drainEvs body arr (st.traps.length + 1) st.traps exit) []).1 := by
      simp only [stepBigA, afterCommand, runTrapsForCaughtSignals, Bool.false_eq_true, if_false]
      exact htraps.symm
    refine ⟨?_, ?_, ?_, ?_⟩
    · rw [hT]; exact hsc.1
    · rw [hT, actionAt_of_core st.traps _ s (hsc.2 s)]; exact h.action
    · rw [hT]; exact hacc
    · simp only [stepBigA, afterCommand, runTrapsForCaughtSignals, Bool.false_eq_true, if_false,
        List.filter_append, List.count_append, ← List.replicate_append_replicate]
      rw [h.runs, hruns]
      simp

theorem invA_run (body : Body) (arr : Nat → Int → TrapMap → List Nat) (hA : Arrivals body arr)
    (s c : Nat) (hs0 : s ≠ 0) (armed0 : Bool) (evs : List BEv) (st : BigA) (h : InvA s c armed0 st) :
    InvA s c armed0 (runBigA body arr s st evs) := by
  induction evs generalizing st with
  | nil => exact h
  | cons ev evs ih => exact ih _ (invA_step body arr hA s c hs0 armed0 st ev h)

end YashModel.Trap
