/-
  C11 — property theorems of wave 3, second pass (and non-vacuity examples) ONLY.
  Helper lemmas: `Retrap.lean`, `Fuel.lean`, `WaitCompose.lean`.
-/
import YashModel.Trap.Retrap
import YashModel.Trap.Fuel
import YashModel.Trap.WaitCompose
import YashModel.Trap.Theorems
import YashModel.Trap.PollSites
namespace YashModel.Trap

/-! ## 1. Actions (and scripts) that run `trap` while signals are pending -/

/-- ★ what a `trap` command does to a delivery that is still pending (the code: `GrandState::set_action` replaces
    the whole `TrapState`, `pending: false`; POSIX says nothing about it): for every state, condition, action,
    flags and every signal `s` — a command for ANOTHER condition, or one that is rejected (KILL/STOP, ignored on
    entry), leaves the pending flag of `s` as it was; an accepted one on `s` itself clears it (that delivery
    will run neither the old nor the new action) and records exactly the new action, not pending: the new
    action applies to the NEXT delivery (`catch_signal` then `take_signal_if_caught` hands out the new action). -/
theorem trap_command_and_pending_delivery (st : State) (x : Nat) (a : Action) (o : Nat) (ov : Bool) (s : Nat) :
    pendingAt (setAction st x a o ov).1.traps s
        = (if x = s ∧ (setAction st x a o ov).2 = none then false else pendingAt st.traps s)
    ∧ ((setAction st x a o ov).2 = none →
        (takeSignalIfCaught (catchSignal (setAction st x a o ov).1.traps x) x).2
          = some { action := a, origin := .user o, pending := false }) := by
  refine ⟨pendingAt_setAction st x a o ov s, ?_⟩
  intro h
  obtain ⟨g, hg, hc⟩ := get_setAction_accepted st x a o ov h
  unfold takeSignalIfCaught catchSignal
  simp only [hg, get_set, if_true, GrandState.handleIfCaught, GrandState.markAsCaught, hc]

theorem count_toS (l : List TMark) :
    (l.map TMark.toS).count false = l.count .ran + l.count .discarded := by
  induction l with
  | nil => rfl
  | cons m l ih => cases m <;> simp [TMark.toS, List.count_cons, ih] <;> omega

/-- ★ `at_most_once_with_trap_commands` — the end-to-end statement WITHOUT any hypothesis on what actions do to
    the trap set (the hole behind `MapPreserving` / `Arrivals`): every sequence of the small events `deliver x`,
    `take` (one iteration of the runner's loop) and `trapCmd x a o ov` (a `trap` command, wherever it is run: in
    the script, inside an action, on the signal being handled or on another pending one), from every state in
    key order, every signal `s`: the history of `s` is accepted by the pending discipline (an action is taken
    only for a delivery not yet run: AT MOST once per coalesced delivery), and
      #runs + #discarded + [still pending] = #coalesced deliveries,
    where a delivery is discarded exactly by an accepted `trap` command on `s` while `s` is pending.  So each
    delivery runs its action exactly once unless the script itself replaced the trap of that signal in between. -/
theorem at_most_once_with_trap_commands (s : Nat) (hs0 : s ≠ 0) (st : State) (hsorted : Sorted st.traps)
    (hp : pendingAt st.traps s = false) (evs : List TEv) :
    let r := runTEvs s st evs []
    ∃ e, (account false (r.2.map TMark.toS)).map (fun x => (x.1, x.2.2)) = some (pendingAt r.1.traps s, e)
      ∧ r.2.count .ran + r.2.count .discarded + (if pendingAt r.1.traps s then 1 else 0) = e
      ∧ r.2.count .ran ≤ e := by
  intro r
  have h := runTEvs_account s hs0 evs st hsorted false [] (by simp [account, hp])
  simp only [r]
  cases hq : account false ((runTEvs s st evs []).2.map TMark.toS) with
  | none => rw [hq] at h; simp at h
  | some p =>
    obtain ⟨a, n, e⟩ := p
    rw [hq] at h
    simp only [Option.map_some, Option.some.injEq] at h
    subst h
    have hc := account_conserve false _ _ n e hq
    have hn := account_runs false _ _ n e hq
    rw [count_toS] at hn
    refine ⟨e, rfl, ?_, ?_⟩
    · simp only [Bool.false_eq_true, if_false, Nat.add_zero] at hc; omega
    · simp only [Bool.false_eq_true, if_false, Nat.add_zero] at hc; omega

/-- non-vacuity: INT and USR1 delivered, both taken (INT first: lower number); then USR1 is re-trapped (nothing
    pending: no discard), INT is delivered again and, while pending, reset by `trap - INT` (discarded), and
    delivered once more (recorded: the entry exists) -/
example :
    let sys : Sys := { disp := fun _ => .catch, blocked := fun _ => true }
    let t : TrapMap := set (set [] SIGUSR1 { current := { action := .command 5, origin := .user 0 } })
        SIGINT { current := { action := .command 7, origin := .user 1 } }
    let st : State := { sys := sys, traps := t }
    let evs : List TEv := [.deliver SIGINT, .deliver SIGUSR1, .take, .take,
      .trapCmd SIGUSR1 (.command 6) 2 false, .deliver SIGINT, .trapCmd SIGINT .default 3 false, .deliver SIGINT]
    (runTEvs SIGINT st evs []).2 = [.delivered, .ran, .delivered, .discarded, .delivered]
    ∧ (runTEvs SIGUSR1 st evs []).2 = [.delivered, .ran] := by decide

/-! ## 2. The model's fuel and the code's unbounded loop -/

/-- ★ `runner_loop_terminates_with_finite_arrivals` — the `while let Some(..) = take_caught_signal()` loop has no
    bound in the code; the model's `drain` has fuel.  If the actions of one invocation receive at most `n`
    signals in all (whatever the fuel: `drainEvs` lists them), then every fuel above `npend t + n` completes the
    loop (`drainCompleted`: it ended because nothing was left or an action diverted), every larger fuel gives
    the SAME result (so that result is the code's), and without a divert nothing is left to take: everything
    pending, the arrivals included, has run at this boundary.  With `n = 0` this is the model's own fuel
    (`map size + 1 > npend t`). -/
theorem runner_loop_terminates_with_finite_arrivals (body : Body) (arr : Nat → Int → TrapMap → List Nat)
    (hA : Arrivals body arr) (n : Nat) (t : TrapMap) (exit : Int) (runs : List (Nat × Nat))
    (hn : ∀ f, ((drainEvs body arr f t exit).filter Ev.isDeliver).length ≤ n)
    (fuel : Nat) (hf : npend t + n < fuel) :
    drainCompleted body fuel t exit = true
    ∧ (∀ k, drain body (fuel + k) t exit runs = drain body fuel t exit runs)
    ∧ ((drain body fuel t exit runs).divert = none →
        (takeCaughtSignal (drain body fuel t exit runs).traps).2 = none) := by
  have hc := drain_completes body arr hA fuel n t exit hn hf
  exact ⟨hc, drain_fuel_irrelevant body fuel t exit runs hc, drain_completed_nothing_left body fuel t exit runs hc⟩

/-- non-vacuity: the action of USR1 re-sends USR1 once (it replaces nothing: `c = 5` sends, `c = 505` does not …
    here modelled by the entry's pending flag): map size 1, fuel 2 would stop early; with one arrival fuel 3
    completes and runs both -/
example :
    let body : Body := fun c _ t => if c = 5 ∧ pendingAt t SIGINT = false then ({ exit := 0 }, catchSignal t SIGINT) else ({ exit := 0 }, t)
    let t : TrapMap := [(SIGINT, { current := { action := .command 7, origin := .user 0 } }),
                        (SIGUSR1, { current := { action := .command 5, origin := .user 0, pending := true } })]
    drainCompleted body 3 t 0 = true ∧ (drain body 3 t 0 []).runs = [(SIGUSR1, 5), (SIGINT, 7)]
    ∧ drainCompleted body 1 t 0 = false := by decide

/-! ## 3. The `wait` path composed with C13's model of the built-in (`Proc/WaitTrap.lean`) -/

open YashModel.Proc in
/-- ★ `wait_trap_runs_once_then_boundary` — "… or on interrupting `wait`": C13's `TSys` is the `wait` built-in
    blocked in `wait_for_signals` with trapped signals pending in the process (`sigPending`, delivery order), this
    area's trap set `m` is abstracted by `traps` = the signals with a command trap.  With `σ` the first trapped
    signal: (a) [C13, `trap_interrupts_wait`] the shell can move at once and, under EVERY schedule of children
    and senders, the built-in ends with `Trapped(σ)` (exit status 128+σ, `ExitStatus::from(σ)`); (b) in this
    area's model of that same step — `wait_for_signals` hands every reported signal to `catch_signal`, then the
    loop of `wait_for_any_job_or_trap` — exactly ONE action runs and it is the command trap of that same `σ`;
    (c) for every signal `x`, what ran for `x` followed by what is still owed to `x` is what was owed after the
    deliveries: nothing twice, the other caught signals keep their flag; (d) at the next command boundary where
    no action diverts, exactly those still-owed actions run and nothing is left — before the next command. -/
theorem wait_trap_runs_once_then_boundary (body : Body) (hm : MapPreserving body) (m : TrapMap) (t : TSys)
    (σ : Nat) (exit : Int) (hout : t.out = none) (hpc : t.sys.pc = .await)
    (hσ : firstTrapped t.traps t.sigPending = some σ) (habs : ∀ x, t.traps.contains x = isCmd m x)
    (h0 : ¬ (0 ∈ t.sigPending)) :
    let m1 := t.sigPending.foldl catchSignal m
    let r := waitTrapLoop body t.sigPending m1 exit
    (∃ t', tstep t .parent = some t' ∧ t'.out = some (.trapped σ))
    ∧ (∀ u o, TSteps t u → u.out = some o → o = .trapped σ)
    ∧ (∃ c e d, r.2 = some (σ, c, e, d) ∧ actionAt m σ = some (.command c))
    ∧ (∀ x, ranFor r.2 x ++ owed (get r.1 x) x = owed (get m1 x) x)
    ∧ (∀ main e', (runTrapsForCaughtSignals body false r.1 e').divert = none →
        (afterCommand body false main r.1 e').runs = pendingCommands r.1
        ∧ pendingCommands (afterCommand body false main r.1 e').traps = []) := by
  intro m1 r
  obtain ⟨a, b, c⟩ := wait_compose body m t σ exit hout hpc hσ habs
  exact ⟨a, b, c, fun x => wait_interrupt_conserves body hm t.sigPending h0 m1 exit x,
    fun main e' hnd => runs_at_next_boundary body hm main r.1 e' hnd⟩

/-! ## 4. Where the boundaries fall: the call sites of the runner, this model and C02's Exec model -/

open YashModel.Generated in
/-- ★ `poll_sites_are_the_boundaries` — (i) `run_traps_for_caught_signals` is called, outside tests, at exactly two
    places (re-extracted from /repo on every run): at the tail of `impl Command for syntax::Command::execute`
    (AFTER the command) and in `runner::run_command` (BEFORE a command line); `run_trap_if_caught` only from the
    `wait` built-in (and its injection at start-up).  (ii) C02's Exec model polls at exactly those two places:
    after the single command of `execCommands`, and before every line of `runScript`.  (iii) Its poll condition
    `St.trapDue` is this area's runner condition on the corresponding one-entry trap set and stack (outside
    subshells): not inside a signal-trap action, and a command trap pending.  (iv) This area's `afterCommand` is
    the first site: the runner's result does not depend on the command's own result.  So the boundaries of C02's
    script interpreter are the boundaries the exactly-once theorems speak about. -/
theorem poll_sites_are_the_boundaries :
    TrapTables.trapPollSites
        = [("yash-semantics/src/command.rs", "execute", "after"), ("yash-semantics/src/runner.rs", "run_command", "before")]
    ∧ TrapTables.trapIfCaughtSites
        = [("yash-builtin/src/wait/core.rs", "wait_for_any_job_or_trap"), ("yash-cli/src/startup.rs", "inject_dependencies")]
    ∧ (∀ fuel s c, Exec.execCommands (fuel + 1) s [c]
        = Exec.pollWith (Exec.execList fuel) (Exec.execCmd fuel s c).1 (Exec.execCmd fuel s c).2)
    ∧ (∀ fuel s line rest r0, (Exec.pollWith (Exec.execList fuel) s .continue_).2 = r0 → r0 ≠ .continue_ →
        Exec.runScript (fuel + 1) s (.cmds line :: rest)
          = ((Exec.pollWith (Exec.execList fuel) s .continue_).1.applyResult r0, r0))
    ∧ (∀ s : Exec.St, s.stack.contains .subshell = false →
        s.trapDue.isSome = (!inTrap (ofExecStack s.stack) && !(pendingCommands (ofExecTraps s)).isEmpty))
    ∧ (∀ (body : Body) main t e, (afterCommand body false main t e).runs = (runTrapsForCaughtSignals body false t e).runs
        ∧ (afterCommand body false main t e).traps = (runTrapsForCaughtSignals body false t e).traps) := by
  refine ⟨by decide, by decide, exec_poll_after_every_command, ?_, exec_trapDue_is_runner_condition,
    fun _ _ _ _ => ⟨rfl, rfl⟩⟩
  intro fuel s line rest r0 h hne
  cases r0 with
  | continue_ => exact absurd rfl hne
  | break_ d => simp only [Exec.runScript, h]
  | outOfFuel => simp only [Exec.runScript, h]

/-! ## 5. The SIGINT shortcut of `wait` (coverage triage, session 4) -/

/-- `wait` interrupted by SIGINT in an interactive shell (`wait/core.rs`: the check before the loop): the built-in
    ends with `Interrupt(Some(384 + SIGINT))`, NO action runs inside `wait` and no pending flag is touched — so
    every other signal caught in the same batch is still pending and (`runs_at_next_boundary`) runs at the hook
    right after the `wait` command; when the shortcut does not apply the loop is `waitTrapLoop`. -/
theorem wait_sigint_shortcut_loses_nothing (body : Body) (sigs : List Nat) (t : TrapMap) (exit : Int) :
    (waitSigintShortcut sigs t = true →
        (waitAfterSignals body sigs t exit).1 = t
        ∧ (waitAfterSignals body sigs t exit).2 = some (SIGINT, none, exit, some (.interrupt (some (384 + SIGINT))))
        ∧ pendingCommands (waitAfterSignals body sigs t exit).1 = pendingCommands t)
    ∧ (waitSigintShortcut sigs t = false →
        (waitAfterSignals body sigs t exit).1 = (waitTrapLoop body sigs t exit).1) := by
  unfold waitAfterSignals
  constructor
  · intro h; simp [h]
  · intro h
    simp only [h, Bool.false_eq_true, if_false]
    rcases hx : waitTrapLoop body sigs t exit with ⟨t', r⟩
    cases r with
    | none => rfl
    | some p => obtain ⟨s, c, e, d⟩ := p; rfl

/-- non-vacuity: interactive shell (`term+`), USR1 trapped; USR1 and INT arrive during `wait`: the shortcut
    applies, USR1's action is still owed -/
example :
    let st := step (step (State.init fun _ => .default) .enableTerminators) (.setAction SIGUSR1 (.command 1) 0 false)
    let t := [SIGUSR1, SIGINT].foldl catchSignal st.traps
    waitSigintShortcut [SIGUSR1, SIGINT] t = true ∧ pendingCommands t = [(SIGUSR1, 1)] := by decide

/-! ## 6. `$?` across an action that changes it and then diverts (round-8 seed) -/

/-- `run_trap` restores `$?` on EVERY way the action can end except `Interrupt`: whatever `$?` the action left
    (`false; return`, `! :; return`, `(exit 7); break` …) and whatever divert it ends in — `Return`, `Exit`,
    `Break`/`Continue` (`other`), `Abort`, with or without a status — the caller's `$?` is back and the divert is
    passed on unchanged; the status the receiver of the divert then assigns is the divert's own (`return N` → N)
    or, without one, that restored `$?` (`return` → the `$?` of before the trap). -/
theorem run_trap_restores_status_on_every_divert (body : Body) (c : Nat) (exit : Int) (t : TrapMap) (d : Divert)
    (hd : (body c exit t).1.divert = some d) (hni : ∀ st, d ≠ .interrupt st) :
    (runTrap body c exit t).1 = exit
    ∧ (runTrap body c exit t).2.1 = some d
    ∧ d.payload.getD (runTrap body c exit t).1 = d.payload.getD exit := by
  have h1 := run_trap_restores_status body c exit t (fun st h => hni st (by rw [hd] at h; exact (Option.some.inj h)))
  refine ⟨h1, ?_, by rw [h1]⟩
  unfold runTrap
  simp only [hd]
  cases d with
  | interrupt st => exact absurd rfl (hni st)
  | ret st => rfl
  | exit st => rfl
  | other => rfl
  | abort st => rfl

/-- non-vacuity: `false; return` at `$?` = 4 -/
example :
    let body : Body := fun _ _ t => ({ exit := 1, divert := some (.ret none) }, t)
    (runTrap body 0 4 []).1 = 4 ∧ (Divert.ret none).payload.getD (runTrap body 0 4 []).1 = 4 := by decide

end YashModel.Trap
