/-
  Impl model, second layer: the same `TrapSet` / `GrandState` operations as `Model.lean`, but over a
  system whose primitive calls are *recorded* and *may fail with an errno*.

  `Model.lean` drops `Result<_, Errno>` ("the signal system calls do not fail").  Here nothing is dropped:
  * `Concurrent::set_disposition` (`system/concurrency/signal.rs`) is the sequence it is in the code —
    `sigmask(Add)` before installing `Catch`, `sigaction`, `sigmask(Remove)` after installing anything
    else — each with its `?`;
  * every `system.set_disposition(..).await?` of `trap/state.rs` keeps its `?`, so the position of each
    state write relative to the call that may fail is the code's (e.g. `enter_subshell` rewrites
    `current_state` *before* the call and `internal_disposition` *after* it);
  * `TrapSet::enter_subshell` ignores the errors (`.ok()`, `unwrap_or_default()`), the enable/disable
    functions stop at the first one, `set_action` reports `SystemError`.
  The record (`log`) is what a system-call tracer would see: it is compared call by call with the real
  code running on a fault-injecting `Sigmask + Sigaction` system under the real `Concurrent`.

  `plan` = outcome of the coming primitive calls (`true` = fails), exhausted = all succeed.
  With an empty plan this layer is `Model.lean` plus the record (`TheoremsExt.faultless_refines`).
  Import-free apart from `Model.lean`; executable.
-/
import YashModel.Trap.Model
namespace YashModel.Trap

/-- a primitive system call under `Concurrent::set_disposition` -/
inductive Prim where
  /-- `sigmask(Some((Add | Remove, {sig})), Some(&mut old))` -/
  | mask (add : Bool) (sig : Nat)
  /-- `sigaction(sig, d)` -/
  | action (sig : Nat) (d : Disp)
  /-- `get_sigaction(sig)` (`SignalSystem::get_disposition`; wave 3) -/
  | get (sig : Nat)
  deriving DecidableEq, Repr

/-- one recorded call: what was asked, whether it succeeded, and (for `sigaction`) the old
    disposition it returned -/
structure Call where
  prim : Prim
  ok : Bool
  old : Disp := .default
  deriving DecidableEq, Repr

structure FSys where
  sys : Sys
  /-- calls made so far, oldest first -/
  log : List Call := []
  /-- outcomes of the coming calls: `true` = fails with an errno; exhausted = all succeed -/
  plan : List Bool := []

/-- `Sigmask::sigmask` through `update_sigmask_and_select_mask`: on an error nothing is touched
    (`.await?` comes before the `select_mask` update) -/
def FSys.sigmask (s : FSys) (add : Bool) (sig : Nat) : Bool × FSys :=
  if s.plan.headD false then
    (false, { s with log := s.log ++ [{ prim := .mask add sig, ok := false }], plan := s.plan.tail })
  else
    (true, { sys := s.sys.updateMask add sig,
             log := s.log ++ [{ prim := .mask add sig, ok := true }], plan := s.plan.tail })

/-- `Sigaction::sigaction`: installs and returns the old disposition, or fails without effect -/
def FSys.sigaction (s : FSys) (sig : Nat) (d : Disp) : Option Disp × FSys :=
  if s.plan.headD false then
    (none, { s with log := s.log ++ [{ prim := .action sig d, ok := false }], plan := s.plan.tail })
  else
    (some (s.sys.disp sig),
     { sys := { s.sys with disp := upd s.sys.disp sig d },
       log := s.log ++ [{ prim := .action sig d, ok := true, old := s.sys.disp sig }],
       plan := s.plan.tail })

/-- `impl SignalSystem for Rc<Concurrent<S>>::get_disposition` = `GetSigaction::get_sigaction`: reads the
    installed disposition, or fails; changes nothing -/
def FSys.getDisposition (s : FSys) (sig : Nat) : Option Disp × FSys :=
  if s.plan.headD false then
    (none, { s with log := s.log ++ [{ prim := .get sig, ok := false }], plan := s.plan.tail })
  else
    (some (s.sys.disp sig),
     { s with log := s.log ++ [{ prim := .get sig, ok := true, old := s.sys.disp sig }], plan := s.plan.tail })

/-- `impl SignalSystem for Rc<Concurrent<S>>::set_disposition` with its three `?` -/
def FSys.setDisposition (s : FSys) (sig : Nat) (d : Disp) : Option Disp × FSys :=
  let m1 := if d = .catch then s.sigmask true sig else (true, s)
  if m1.1 = false then (none, m1.2)
  else
    let a := m1.2.sigaction sig d
    match a.1 with
    | none => (none, a.2)
    | some old =>
      let m2 := if d ≠ .catch then a.2.sigmask false sig else (true, a.2)
      if m2.1 = false then (none, m2.2) else (some old, m2.2)

/-- `trap::SetActionError` in full -/
inductive SetActionErrorF where
  | base (e : SetActionError)
  | systemError
  deriving DecidableEq, Repr

/-- `GrandState::set_action` with its `?`s: the system, the entry afterwards (`none` = still vacant)
    and the error if any -/
def GrandState.setActionF (sys : FSys) (e : Option GrandState) (cond : Nat) (a : Action) (origin : Nat)
    (overrideIgnore : Bool) : FSys × Option GrandState × Option SetActionErrorF :=
  let d := a.toDisp
  let new : TrapState := { action := a, origin := .user origin, pending := false }
  match e with
  | none =>
    if cond ≠ 0 then
      -- probe: learn the initial disposition by installing `Ignore`
      let p := if overrideIgnore = false then sys.setDisposition cond .ignore else (some .default, sys)
      match p.1 with
      | none => (p.2, none, some .systemError)
      | some initial =>
        if overrideIgnore = false ∧ initial = .ignore then
          (p.2, some { current := .fromInitial .ignore, parent := none, internal := .default },
           some (.base .initiallyIgnored))
        else
          let q := if overrideIgnore = true ∨ d ≠ .ignore then p.2.setDisposition cond d
                   else (some .default, p.2)
          match q.1 with
          | none => (q.2, none, some .systemError)
          | some _ => (q.2, some { current := new, parent := none, internal := .default }, none)
    else
      (sys, some { current := new, parent := none, internal := .default }, none)
  | some g =>
    if overrideIgnore = false ∧ g.current.action = .ignore ∧ g.current.origin = .inherited then
      (sys, some g, some (.base .initiallyIgnored))
    else
      let oldD := g.internal.max g.current.action.toDisp
      let newD := g.internal.max d
      let q := if cond ≠ 0 ∧ oldD ≠ newD then sys.setDisposition cond newD else (some .default, sys)
      match q.1 with
      | none => (q.2, some g, some .systemError)
      | some _ => (q.2, some { g with current := new }, none)

/-- `GrandState::set_internal_disposition` with its `?`s; the flag is `Ok(())` -/
def GrandState.setInternalF (sys : FSys) (e : Option GrandState) (sig : Nat) (d : Disp)
    : FSys × Option GrandState × Bool :=
  match e with
  | none =>
    if d = .default then (sys, none, true)
    else
      let r := sys.setDisposition sig d
      match r.1 with
      | none => (r.2, none, false)
      | some initial => (r.2, some { current := .fromInitial initial, parent := none, internal := d }, true)
  | some g =>
    let setting := g.current.action.toDisp
    let oldD := g.internal.max setting
    let newD := d.max setting
    let q := if oldD ≠ newD then sys.setDisposition sig newD else (some .default, sys)
    match q.1 with
    | none => (q.2, some g, false)
    | some _ => (q.2, some { g with internal := d }, true)

/-- `GrandState::enter_subshell` with its `?`: `current_state` / `parent_state` are rewritten before
    the call, `internal_disposition` only after it -/
def GrandState.enterSubshellF (sys : FSys) (g : GrandState) (cond : Nat) (opt : SubOpt) : FSys × GrandState :=
  let oldD := g.internal.max g.current.action.toDisp
  let newD := g.enterNewDisp opt
  let q := if oldD ≠ newD ∧ cond ≠ 0 then sys.setDisposition cond newD else (some .default, sys)
  match q.1 with
  | none => (q.2, { (g.enterState opt) with internal := g.internal })
  | some _ => (q.2, g.enterState opt)

/-- `GrandState::ignore` with its `?` (`none` = the entry stays vacant) -/
def GrandState.ignoreF (sys : FSys) (sig : Nat) : FSys × Option GrandState :=
  let r := sys.setDisposition sig .ignore
  match r.1 with
  | none => (r.2, none)
  | some initial =>
    let origin : Origin := match initial with
      | .default => .subshell
      | .ignore => .inherited
      | .catch => .subshell
    (r.2, some { current := { action := .ignore, origin := origin, pending := false },
                 parent := none, internal := .default })

/-! ## `TrapSet` over the recording system -/

structure FState where
  sys : FSys
  traps : TrapMap := []

/-- forgetting the record -/
def FState.toState (st : FState) : State := { sys := st.sys.sys, traps := st.traps }

/-- `GrandState::insert_from_system_if_vacant` with its `?` (`none` = `Err`, the entry stays vacant) -/
def GrandState.insertFromSystemIfVacantF (fs : FSys) (e : Option GrandState) (cond : Nat)
    : FSys × Option GrandState :=
  match e with
  | none =>
    if cond ≠ 0 then
      let r := fs.getDisposition cond
      match r.1 with
      | none => (r.2, none)
      | some d => (r.2, some { current := .fromInitial d, parent := none, internal := .default })
    else (fs, some { current := .fromInitial .default, parent := none, internal := .default })
  | some g => (fs, some g)

/-- `TrapSet::peek_state` with its `?` (`none` = `Err(errno)`: nothing inserted) -/
def peekStateF (st : FState) (cond : Nat) : FState × Option TrapState :=
  let r := GrandState.insertFromSystemIfVacantF st.sys (get st.traps cond) cond
  match r.2 with
  | none => ({ st with sys := r.1 }, none)
  | some g => ({ sys := r.1, traps := set st.traps cond g }, some (g.parent.getD g.current))

/-- `TrapSet::set_action` -/
def setActionF (st : FState) (cond : Nat) (a : Action) (origin : Nat) (overrideIgnore : Bool)
    : FState × Option SetActionErrorF :=
  if cond = SIGKILL then (st, some (.base .sigkill))
  else if cond = SIGSTOP then (st, some (.base .sigstop))
  else
    let t1 := clearParents st.traps
    let r := GrandState.setActionF st.sys (get t1 cond) cond a origin overrideIgnore
    ({ sys := r.1, traps := setOpt t1 cond r.2.1 }, r.2.2)

/-- the private `TrapSet::set_internal_disposition` -/
def setInternalF (st : FState) (sig : Nat) (d : Disp) : FState × Bool :=
  let r := GrandState.setInternalF st.sys (get st.traps sig) sig d
  ({ sys := r.1, traps := setOpt st.traps sig r.2.1 }, r.2.2)

/-- `a.await?; b.await?; c.await`: the calls in order, stopping at the first error -/
def seqInternalF (st : FState) : List (Nat × Disp) → FState × Bool
  | [] => (st, true)
  | (s, d) :: rest =>
    let x := setInternalF st s d
    if x.2 then seqInternalF x.1 rest else (x.1, false)

def enableChldOps : List (Nat × Disp) := [(SIGCHLD, .catch)]
def enableTerminatorsOps : List (Nat × Disp) := [(SIGINT, .catch), (SIGTERM, .ignore), (SIGQUIT, .ignore)]
def enableStoppersOps : List (Nat × Disp) := [(SIGTSTP, .ignore), (SIGTTIN, .ignore), (SIGTTOU, .ignore)]
def disableTerminatorsOps : List (Nat × Disp) := [(SIGINT, .default), (SIGTERM, .default), (SIGQUIT, .default)]
def disableStoppersOps : List (Nat × Disp) := [(SIGTSTP, .default), (SIGTTIN, .default), (SIGTTOU, .default)]
/-- `disable_internal_dispositions`: SIGCHLD, then the terminators, then the stoppers, each with `?` -/
def disableAllOps : List (Nat × Disp) := (SIGCHLD, .default) :: disableTerminatorsOps ++ disableStoppersOps

/-- the loop of `TrapSet::enter_subshell`; errors are dropped (`.await.ok()`) -/
def enterAllF (sys : FSys) (ii ks : Bool) : TrapMap → FSys × TrapMap
  | [] => (sys, [])
  | (k, g) :: t =>
    let r := g.enterSubshellF sys k (subshellOption k g ii ks)
    let r' := enterAllF r.1 ii ks t
    (r'.1, (k, r.2) :: r'.2)

/-- one round of the trailing `for signal in [SIGINT, SIGQUIT]` (`unwrap_or_default()`) -/
def ignoreIfVacantF (st : FState) (sig : Nat) : FState :=
  match get st.traps sig with
  | none =>
    let r := GrandState.ignoreF st.sys sig
    { sys := r.1, traps := setOpt st.traps sig r.2 }
  | some _ => st

/-- `TrapSet::enter_subshell` -/
def enterSubshellF (st : FState) (ii ks : Bool) : FState :=
  let r := enterAllF st.sys ii ks (clearParents st.traps)
  let st1 : FState := { sys := r.1, traps := r.2 }
  if ii then ignoreIfVacantF (ignoreIfVacantF st1 SIGINT) SIGQUIT else st1

/-- a history step over the recording system (the operations that make no system call act on the
    trap set exactly as in `step`) -/
def stepF (st : FState) : Op → FState
  | .setAction c a o ov => (setActionF st c a o ov).1
  | .enableChld => (seqInternalF st enableChldOps).1
  | .enableTerminators => (seqInternalF st enableTerminatorsOps).1
  | .enableStoppers => (seqInternalF st enableStoppersOps).1
  | .disableTerminators => (seqInternalF st disableTerminatorsOps).1
  | .disableStoppers => (seqInternalF st disableStoppersOps).1
  | .disableAll => (seqInternalF st disableAllOps).1
  | .enterSubshell ii ks => enterSubshellF st ii ks
  | .peek c => (peekStateF st c).1
  | op => { st with traps := (step st.toState op).traps }

def runF (st : FState) : List Op → FState
  | [] => st
  | op :: ops => runF (stepF st op) ops

/-- the shell at start-up over the recording system, with a plan of faults -/
def FState.init (init : Nat → Disp) (plan : List Bool) : FState :=
  { sys := { sys := (State.init init).sys, log := [], plan := plan }, traps := [] }

/-- the result an operation reports: `set_action`'s error, or whether an enable/disable returned `Ok` -/
inductive OpResult where
  | none
  | setAction (e : Option SetActionErrorF)
  | ok (b : Bool)
  deriving DecidableEq, Repr

def resultF (st : FState) : Op → OpResult
  | .setAction c a o ov => .setAction (setActionF st c a o ov).2
  | .enableChld => .ok (seqInternalF st enableChldOps).2
  | .enableTerminators => .ok (seqInternalF st enableTerminatorsOps).2
  | .enableStoppers => .ok (seqInternalF st enableStoppersOps).2
  | .disableTerminators => .ok (seqInternalF st disableTerminatorsOps).2
  | .disableStoppers => .ok (seqInternalF st disableStoppersOps).2
  | .disableAll => .ok (seqInternalF st disableAllOps).2
  | .peek c => .ok (peekStateF st c).2.isSome
  | _ => .none

/-- a recorded `sigaction` that installed what was installed already -/
def Call.needless (c : Call) : Bool :=
  match c.prim with
  | .action _ d => c.ok && c.old == d
  | .mask _ _ => false
  | .get _ => false

def Call.sig (c : Call) : Nat :=
  match c.prim with
  | .action s _ => s
  | .mask _ s => s
  | .get s => s

end YashModel.Trap
