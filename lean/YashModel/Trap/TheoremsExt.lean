/-
  C11 — property theorems of the extension round (and non-vacuity examples) ONLY.
  Helper lemmas: `SyscallLemmas.lean`; definitions: `Syscalls.lean`, `SyscallSpec.lean`, `Tables.lean`.

  1. `tables_*`: the model's hand-typed constants agree with the tables re-extracted from /repo on every
     run (`Generated/TrapTables.lean`): an edit of a signal number, a signal name, a default effect, the
     declaration order of `Disposition` / `Divert`, or of the signals an enable/disable function touches
     breaks these proofs (or leaves them true because nothing the model relies on changed).
  2. the system-call layer: `Model.lean` assumed that the signal system calls never fail and did not
     say which calls are made.  `Syscalls.lean` keeps every `?` of the code and records every primitive
     call; here: without faults it *is* `Model.lean` (so every theorem of `Theorems.lean` speaks about it),
     an occupied entry never causes a needless call, a reported system error leaves the entry untouched,
     and what a fault can and cannot break.
-/
import YashModel.Trap.SyscallLemmas
import YashModel.Trap.Tables
import YashModel.Trap.Pending
namespace YashModel.Trap
open YashModel.Generated

/-! ## 1. Tie of the constants to the code -/

/-- the ten signal numbers the model names are the `pub const SIG…` of `system/virtual/signal.rs` -/
theorem tables_signal_numbers :
    genNumber "SIGINT" = some SIGINT ∧ genNumber "SIGQUIT" = some SIGQUIT ∧ genNumber "SIGKILL" = some SIGKILL
    ∧ genNumber "SIGTERM" = some SIGTERM ∧ genNumber "SIGCHLD" = some SIGCHLD ∧ genNumber "SIGSTOP" = some SIGSTOP
    ∧ genNumber "SIGTSTP" = some SIGTSTP ∧ genNumber "SIGTTIN" = some SIGTTIN ∧ genNumber "SIGTTOU" = some SIGTTOU
    ∧ genNumber "SIGUSR1" = some SIGUSR1 := by decide

/-- `Builtin.signalTable` (every valid signal with its `sig2str` name, ascending) is what the code's
    constants, `Name::try_from_raw_virtual` (first arm wins, real-time rule) and `Name::as_string` give -/
theorem tables_signal_table : signalTable = genSignalTable := by decide

/-- `Builtin.defaultEffect` is `SignalEffect::of` on every valid signal -/
theorem tables_default_effect : ∀ p ∈ signalTable, genEffect p.1 = some (defaultEffect p.1).code := by decide

/-- `Disp.rank` is the declaration order of `Disposition` (whose `Ord` is derived), and `Divert.rank`
    respects the declaration order of `Divert` -/
theorem tables_orders :
    (∀ a b : Disp, a.rank ≤ b.rank ↔
        TrapTables.dispositionOrder.idxOf a.name ≤ TrapTables.dispositionOrder.idxOf b.name)
    ∧ (∀ a : Disp, a.name ∈ TrapTables.dispositionOrder) ∧ TrapTables.dispositionOrder.length = 3
    ∧ (∀ n ∈ ["Continue", "Break", "Return", "Interrupt", "Exit"], n ∈ TrapTables.divertOrder)
    ∧ TrapTables.divertOrder.idxOf "Continue" < TrapTables.divertOrder.idxOf "Return"
    ∧ TrapTables.divertOrder.idxOf "Break" < TrapTables.divertOrder.idxOf "Return"
    ∧ TrapTables.divertOrder.idxOf "Return" < TrapTables.divertOrder.idxOf "Interrupt"
    ∧ TrapTables.divertOrder.idxOf "Interrupt" < TrapTables.divertOrder.idxOf "Exit"
    ∧ (Divert.ret none).rank < (Divert.interrupt none).rank
    ∧ (Divert.interrupt none).rank < (Divert.exit none).rank ∧ Divert.other.rank < (Divert.ret none).rank
    ∧ TrapTables.divertOrder.idxOf "Exit" < TrapTables.divertOrder.idxOf "Abort" ∧ "Abort" ∈ TrapTables.divertOrder
    ∧ (Divert.exit none).rank < (Divert.abort none).rank
    ∧ (∀ d : Divert, ∀ n ∈ d.variantName, n ∈ TrapTables.divertOrder) := by
  refine ⟨?_, ?_, by decide, by decide, by decide, by decide, by decide, by decide, by decide, by decide, by decide,
    by decide, by decide, by decide, ?_⟩
  rotate_left 2
  · intro d; cases d <;> simp [Divert.variantName, TrapTables.divertOrder]
  · intro a b; cases a <;> cases b <;> decide
  · intro a; cases a <;> decide

/-- the six enable/disable operations install, for the signals and in the order of the code
    (`trap.rs`, calls of one another expanded), the internal dispositions the code names -/
theorem tables_internal_ops (st : State) :
    enableChld st = genInternal "enable_internal_disposition_for_sigchld" st
    ∧ enableTerminators st = genInternal "enable_internal_dispositions_for_terminators" st
    ∧ enableStoppers st = genInternal "enable_internal_dispositions_for_stoppers" st
    ∧ disableTerminators st = genInternal "disable_internal_dispositions_for_terminators" st
    ∧ disableStoppers st = genInternal "disable_internal_dispositions_for_stoppers" st
    ∧ disableAll st = genInternal "disable_internal_dispositions" st :=
  ⟨rfl, rfl, rfl, rfl, rfl, rfl⟩

/-! ## 2. The system-call layer -/

/-- ★ Without faults the recording layer is `Model.lean`: for every history, from every inherited
    dispositions, the state reached over the recording system (with every `?` of the code in place)
    projects to the state `run` reaches, and no fault is pending afterwards.  Hence every theorem about
    `run` (`disposition_invariant`, `mask_iff_catch`, `initially_ignored_sticky`, …) holds of the layer the
    harness traces call by call. -/
theorem faultless_refines (init : Nat → Disp) (ops : List Op) :
    (runF (FState.init init []) ops).toState = run (State.init init) ops
    ∧ (runF (FState.init init []) ops).sys.plan = [] :=
  runF_nofault ops (FState.init init []) rfl

/-- … in particular the installed disposition over the recording system is the reference merge -/
theorem faultless_disposition_invariant (init : Nat → Disp) (hinit : ∀ s, init s ≠ .catch) (ops : List Op)
    (s : Nat) (hs : s ≠ 0) :
    let st := runF (FState.init init []) ops
    st.sys.sys.disp s = expected (get st.traps s) (init s)
    ∧ (st.sys.sys.blocked s = true ↔ st.sys.sys.disp s = .catch) := by
  intro st
  have h := (faultless_refines init ops).1
  have h1 := (inv_run init hinit ops _ (inv_init_state init hinit))
  rw [← h] at h1
  refine ⟨h1.disp s hs, ?_⟩
  have := h1.sys.mask s
  simp only [FState.toState] at this
  rw [this]; simp only [beq_iff_eq]; exact Iff.rfl

/-- non-vacuity: a history with sixteen primitive system calls -/
example :
    let st := runF (FState.init (fun _ => .default) [])
      [.setAction SIGUSR1 (.command 1) 0 false, .enableTerminators, .enterSubshell true false]
    st.sys.log.length = 16 ∧ st.sys.sys.disp SIGINT = .ignore ∧ st.sys.sys.disp SIGUSR1 = .default := by
  decide

/-- ☆ `occupied_no_needless_syscall` (DESIGN.md; "system call issued only when the effective maximum
    changes"): for an entry the trap set knows (`some g`) whose installed disposition is the reference
    merge, `set_action`, `set_internal_disposition` and `enter_subshell` either make no call at all or
    exactly one `set_disposition`, and that one installs a disposition different from the installed one;
    the recorded calls are `mask+, sigaction(Catch)` or `sigaction(d), mask-`. -/
theorem occupied_no_needless_syscall (fs : FSys) (hp : fs.plan = []) (g : GrandState) (c : Nat)
    (hinst : fs.sys.disp c = g.internal.max g.current.action.toDisp) :
    (∀ a o ov, ∃ L, (GrandState.setActionF fs (some g) c a o ov).1.log = fs.log ++ L
        ∧ economical [(c, g)] L = true ∧ wellBracketed L = true ∧ L.length ≤ 2 ∧ ∀ x ∈ L, x.needless = false)
    ∧ (∀ d, ∃ L, (GrandState.setInternalF fs (some g) c d).1.log = fs.log ++ L
        ∧ wellBracketed L = true ∧ L.length ≤ 2 ∧ ∀ x ∈ L, x.needless = false)
    ∧ (∀ opt, ∃ L, (g.enterSubshellF fs c opt).1.log = fs.log ++ L
        ∧ wellBracketed L = true ∧ L.length ≤ 2 ∧ ∀ x ∈ L, x.needless = false) := by
  have key : ∀ d : Disp, d ≠ fs.sys.disp c →
      wellBracketed (dispCalls fs.sys c d) = true ∧ (dispCalls fs.sys c d).length ≤ 2
      ∧ ∀ x ∈ dispCalls fs.sys c d, x.needless = false := by
    intro d hd
    unfold dispCalls
    by_cases hcatch : d = .catch
    · subst hcatch
      refine ⟨by simp [wellBracketed], by simp, ?_⟩
      intro x hx
      simp only [if_true, List.mem_cons, List.mem_nil_iff, or_false] at hx
      rcases hx with rfl | rfl
      · rfl
      · simp only [Call.needless, Bool.true_and, beq_eq_false_iff_ne, ne_eq]
        exact fun h => hd h.symm
    · refine ⟨by simp [wellBracketed, hcatch], by simp [hcatch], ?_⟩
      intro x hx
      simp only [hcatch, if_false, List.mem_cons, List.mem_nil_iff, or_false] at hx
      rcases hx with rfl | rfl
      · simp only [Call.needless, Bool.true_and, beq_eq_false_iff_ne, ne_eq]
        exact fun h => hd h.symm
      · rfl
  refine ⟨?_, ?_, ?_⟩
  · intro a o ov
    unfold GrandState.setActionF
    simp only
    by_cases h1 : ov = false ∧ g.current.action = .ignore ∧ g.current.origin = .inherited
    · exact ⟨[], by simp [h1], rfl, rfl, by simp, by simp⟩
    · by_cases hcond : c ≠ 0 ∧ g.internal.max g.current.action.toDisp ≠ g.internal.max a.toDisp
      · obtain ⟨k1, k2, k3⟩ := key (g.internal.max a.toDisp) (by rw [hinst]; exact fun h => hcond.2 h.symm)
        refine ⟨dispCalls fs.sys c (g.internal.max a.toDisp), by simp [h1, hcond, setDispositionF_nofault fs hp],
          ?_, k1, k2, k3⟩
        simp only [economical, List.all_eq_true, Bool.not_eq_true', Bool.and_eq_false_iff]
        intro x hx; exact Or.inl (k3 x hx)
      · exact ⟨[], by simp [h1, hcond], rfl, rfl, by simp, by simp⟩
  · intro d
    unfold GrandState.setInternalF
    simp only
    by_cases hcond : g.internal.max g.current.action.toDisp ≠ d.max g.current.action.toDisp
    · obtain ⟨k1, k2, k3⟩ := key (d.max g.current.action.toDisp) (by rw [hinst]; exact fun h => hcond h.symm)
      exact ⟨_, by simp [hcond, setDispositionF_nofault fs hp], k1, k2, k3⟩
    · exact ⟨[], by simp [hcond], rfl, by simp, by simp⟩
  · intro opt
    unfold GrandState.enterSubshellF
    simp only
    by_cases hcond : g.internal.max g.current.action.toDisp ≠ g.enterNewDisp opt ∧ c ≠ 0
    · obtain ⟨k1, k2, k3⟩ := key (g.enterNewDisp opt) (by rw [hinst]; exact fun h => hcond.1 h.symm)
      exact ⟨_, by simp [hcond, setDispositionF_nofault fs hp], k1, k2, k3⟩
    · exact ⟨[], by simp [hcond], rfl, by simp, by simp⟩

/-- non-vacuity: replacing a command trap by `ignore` makes exactly the two calls `sigaction(Ignore)`,
    `mask-`; replacing it by another command makes none -/
example :
    let fs : FSys := { sys := { disp := fun _ => .catch, blocked := fun _ => true } }
    let g : GrandState := { current := { action := .command 1, origin := .user 0 } }
    (GrandState.setActionF fs (some g) SIGINT .ignore 1 false).1.log.length = 2
    ∧ (GrandState.setActionF fs (some g) SIGINT (.command 2) 1 false).1.log.length = 0 := by decide

/-- A system error is never recorded as success, whatever fails and whenever: if `set_action` reports
    `SystemError`, or `set_internal_disposition` returns `Err`, the entry is exactly what it was (a vacant
    one stays vacant) — for every fault plan and every state.  (`enter_subshell` is different by design of
    the code: it rewrites `current_state` before the call, see `fault_in_subshell_keeps_catch`.) -/
theorem system_error_leaves_entry (fs : FSys) (e : Option GrandState) (c : Nat) :
    (∀ a o ov, (GrandState.setActionF fs e c a o ov).2.2 = some .systemError →
        (GrandState.setActionF fs e c a o ov).2.1 = e)
    ∧ (∀ d, (GrandState.setInternalF fs e c d).2.2 = false → (GrandState.setInternalF fs e c d).2.1 = e)
    ∧ (∀ a o ov, (setActionF ⟨fs, []⟩ c a o ov).2 = some .systemError →
        (setActionF ⟨fs, []⟩ c a o ov).1.traps = []) := by
  refine ⟨?_, ?_, ?_⟩
  · intro a o ov
    unfold GrandState.setActionF
    cases e with
    | none =>
      simp only
      split
      · split
        · intro; rfl
        · split
          · intro h; simp at h
          · split
            · intro; rfl
            · intro h; simp at h
      · intro h; simp at h
    | some g =>
      simp only
      split
      · intro h; simp at h
      · split
        · intro; rfl
        · intro h; simp at h
  · intro d
    unfold GrandState.setInternalF
    cases e with
    | none =>
      simp only
      split
      · intro; rfl
      · split
        · intro; rfl
        · intro h; simp at h
    | some g =>
      simp only
      split
      · intro; rfl
      · intro h; simp at h
  · intro a o ov
    unfold setActionF
    split
    · intro h; simp at h
    · split
      · intro h; simp at h
      · intro h
        have := (show ∀ a o ov, (GrandState.setActionF fs none c a o ov).2.2 = some .systemError →
            (GrandState.setActionF fs none c a o ov).2.1 = none from by
          intro a o ov
          unfold GrandState.setActionF
          simp only
          split
          · split
            · intro; rfl
            · split
              · intro h; simp at h
              · split
                · intro; rfl
                · intro h; simp at h
          · intro h; simp at h) a o ov
        simp only [clearParents, List.map_nil, get] at h ⊢
        rw [this h]; rfl

/-- non-vacuity: the second primitive call of `trap 'cmd' INT` fails -/
example :
    (setActionF (FState.init (fun _ => .default) [false, true]) SIGINT (.command 1) 0 false).2
      = some .systemError := by decide

/-- What a fault CAN break (a limit of the property, kept as a checked fact): in a shell that did NOT
    inherit SIGINT ignored, if the unblocking `sigmask` after the probing `sigaction(INT, Ignore)` of the
    first `trap 'cmd' INT` fails, the command reports a system error, the entry stays vacant, `Ignore`
    stays installed — and the *next* `trap 'cmd' INT` is refused as "ignored on entry", although it was
    not.  (Errno faults are outside the property's quantifier; the real code behaves the same: harness
    case `sc 01; set INT c1 0; set INT c1 0`.) -/
theorem fault_after_probe_strands_ignore :
    let st0 := FState.init (fun _ => .default) [false, true]
    let r1 := setActionF st0 SIGINT (.command 1) 0 false
    let r2 := setActionF r1.1 SIGINT (.command 1) 1 false
    r1.2 = some .systemError ∧ get r1.1.traps SIGINT = none ∧ r1.1.sys.sys.disp SIGINT = .ignore
    ∧ r2.2 = some (.base .initiallyIgnored) ∧ r2.1.sys.sys.disp SIGINT = .ignore := by decide

/-- … and in `enter_subshell`, whose errors are dropped by the code: if the `sigaction` that should reset
    a command trap fails, the subshell's entry says `Default` (origin `Subshell`) while `Catch` stays
    installed and the signal stays blocked — the internal disposition, not yet cleared, is kept too. -/
theorem fault_in_subshell_keeps_catch :
    let st0 := FState.init (fun _ => .default) [false, false, false, false, true]
    let st1 := stepF st0 (.setAction SIGUSR1 (.command 1) 0 false)
    let st2 := stepF st1 (.enterSubshell false false)
    (get st2.traps SIGUSR1).map (·.current.action) = some .default
    ∧ st2.sys.sys.disp SIGUSR1 = .catch ∧ st2.sys.sys.blocked SIGUSR1 = true := by decide

/-! ## 3. Deliveries that arrive while an action is running (re-entrant deliveries) -/

theorem get_catchSignal_same (t : TrapMap) (sig : Nat) :
    get (catchSignal t sig) sig = (get t sig).map GrandState.markAsCaught := by
  unfold catchSignal
  cases h : get t sig <;> simp [h, get_set]

theorem runTrap_traps_eq (body : Body) (c : Nat) (e : Int) (t : TrapMap) :
    (runTrap body c e t).2.2 = (body c e t).2 := by
  unfold runTrap
  simp only
  split <;> rfl

/-- ★ The `wait` path takes the pending flag BEFORE it runs the action, and touches the trap set no more
    afterwards (`run_trap_if_caught`): for every action, the trap set after the call is exactly what the
    action left.  So whatever was delivered while the action ran — the same signal again, another one —
    is still pending afterwards.  A model that cleared the flag after the action would not satisfy the
    first clause (it would be `takeSignalIfCaught` of what the action left). -/
theorem wait_trap_keeps_what_the_action_left (body : Body) (t : TrapMap) (sig : Nat) (exit : Int)
    (g : GrandState) (c : Nat) (hg : get t sig = some g) (hp : g.current.pending = true)
    (ha : g.current.action = .command c) :
    (runTrapIfCaught body t sig exit).1 = (body c exit (takeSignalIfCaught t sig).1).2
    ∧ (∃ e d, (runTrapIfCaught body t sig exit).2 = some (c, e, d))
    ∧ (get (takeSignalIfCaught t sig).1 sig).map (·.current.pending) = some false := by
  unfold runTrapIfCaught
  have h2 : (takeSignalIfCaught t sig).2 = some { g.current with pending := false } := by
    unfold takeSignalIfCaught; simp [hg, GrandState.handleIfCaught, hp]
  simp only [h2, ha]
  refine ⟨runTrap_traps_eq _ _ _ _, ⟨_, _, rfl⟩, ?_⟩
  unfold takeSignalIfCaught
  simp [hg, get_set, GrandState.handleIfCaught, hp]

/-- ★ exactly-once for a delivery made during an action, `wait` path: if the action of `sig` delivers
    `sig` again while it runs (its effect on the trap set ends in `catch_signal(sig)`, whatever else it did
    before — e.g. redefining its own trap), then after `run_trap_if_caught` the action has run once
    and `sig` is pending again: the second delivery is owed its run (which `runs_at_next_boundary` /
    `pending_exactly_once` then give at the next command boundary). -/
theorem redelivery_during_wait_action_stays_pending (body : Body) (t : TrapMap) (sig : Nat) (exit : Int)
    (g : GrandState) (c : Nat) (hg : get t sig = some g) (hp : g.current.pending = true)
    (ha : g.current.action = .command c)
    (hbody : ∀ e t0, ∃ t1, (body c e t0).2 = catchSignal t1 sig ∧ (get t1 sig).isSome = true) :
    (∃ e d, (runTrapIfCaught body t sig exit).2 = some (c, e, d))
    ∧ (get (runTrapIfCaught body t sig exit).1 sig).map (·.current.pending) = some true := by
  obtain ⟨h1, h2, _⟩ := wait_trap_keeps_what_the_action_left body t sig exit g c hg hp ha
  refine ⟨h2, ?_⟩
  obtain ⟨t1, e1, e2⟩ := hbody exit (takeSignalIfCaught t sig).1
  rw [h1, e1, get_catchSignal_same]
  cases h : get t1 sig with
  | none => rw [h] at e2; simp at e2
  | some g1 => simp [GrandState.markAsCaught]

/-- non-vacuity (the round-6 scenario): `trap 'probe 5; trap "probe 505" USR1; kill -s USR1 $$' USR1`,
    USR1 arrives during `wait`: the action runs once, and USR1 is pending again with the new action -/
example :
    let body : Body := fun c _ t0 =>
      ({ exit := 0 },
       catchSignal (set t0 SIGUSR1 { current := { action := .command (c + 500), origin := .user 0 } }) SIGUSR1)
    let t : TrapMap := [(SIGUSR1, { current := { action := .command 5, origin := .user 0, pending := true } })]
    let r := runTrapIfCaught body t SIGUSR1 0
    r.2 = some (5, 0, none) ∧ pendingCommands r.1 = [(SIGUSR1, 505)] := by decide

/-- ★ the same at a command boundary: the loop of `run_traps_for_caught_signals` takes the flag, runs
    the action and goes on with exactly the trap set the action left (first clause), so a signal the
    action delivered — the same one again or another — is taken by the same loop: here, for an action
    that ends without divert and leaves `sig` pending with command `c'`, the next iteration is not the end
    of the loop. -/
theorem boundary_loop_keeps_what_the_action_left (body : Body) (fuel : Nat) (t : TrapMap) (exit : Int)
    (runs : List (Nat × Nat)) (sig c : Nat) (ts : TrapState)
    (htake : (takeCaughtSignal t).2 = some (sig, ts)) (ha : ts.action = .command c)
    (hnd : (body c exit (takeCaughtSignal t).1).1.divert = none) :
    drain body (fuel + 1) t exit runs
      = drain body fuel (body c exit (takeCaughtSignal t).1).2 exit (runs ++ [(sig, c)]) := by
  rw [drain]
  simp only [htake, ha]
  have h1 : (runTrap body c exit (takeCaughtSignal t).1).2.1 = none := by
    unfold runTrap
    simp only
    split
    · rename_i st hd; rw [hnd] at hd; cases hd
    · exact hnd
  have h2 : (runTrap body c exit (takeCaughtSignal t).1).1 = exit := runTrap_exit_of_none _ _ _ _ h1
  simp only [h1, h2, runTrap_traps_eq]

/-- non-vacuity + the count: at ONE boundary the re-sending action and then the action of the delivery it
    made both run, each once, and nothing is left pending -/
example :
    let body : Body := fun c _ t0 =>
      if c = 5 then
        ({ exit := 0 },
         catchSignal (set t0 SIGUSR1 { current := { action := .command 505, origin := .user 0 } }) SIGUSR1)
      else ({ exit := 0 }, t0)
    let t : TrapMap := [(SIGUSR1, { current := { action := .command 5, origin := .user 0, pending := true } })]
    let r := drain body 4 t 0 []
    r.runs = [(SIGUSR1, 5), (SIGUSR1, 505)] ∧ pendingCommands r.traps = [] ∧ r.exit = 0 := by decide

end YashModel.Trap
