/-
  C11 — helper lemmas, part 8: arbitrary interleavings of signal deliveries with takes / command
  boundaries; accounting of deliveries and runs per signal.
-/
import YashModel.Trap.Pending
namespace YashModel.Trap

/-! ### `take_caught_signal` exactly -/

/-- is the trap of `s` pending? -/
def pendingAt (t : TrapMap) (s : Nat) : Bool :=
  match get t s with
  | some g => g.current.pending
  | none => false

/-- On a map in key order `take_caught_signal` returns the LEAST pending signal, clears exactly its
    flag, and returns nothing only if no signal is pending. -/
theorem takeCaught_spec (t : TrapMap) (hs : Sorted t) :
    match (takeCaughtSignal t).2 with
    | none => ∀ x, x ≠ 0 → pendingAt t x = false
    | some (k, ts) =>
      k ≠ 0 ∧ pendingAt t k = true
      ∧ (∃ g, get t k = some g ∧ ts = { g.current with pending := false }
          ∧ ∀ x, get (takeCaughtSignal t).1 x = if x = k then some g.handleIfCaught.1 else get t x)
      ∧ ∀ x, x ≠ 0 → x < k → pendingAt t x = false := by
  induction t with
  | nil => simp [takeCaughtSignal, pendingAt, get]
  | cons kv t ih =>
    obtain ⟨k', g⟩ := kv
    obtain ⟨hlo, hs'⟩ := hs
    have ih := ih hs'
    by_cases hc : k' ≠ 0 ∧ g.current.pending = true
    · have he : takeCaughtSignal ((k', g) :: t)
          = ((k', g.handleIfCaught.1) :: t, some (k', { g.current with pending := false })) := by
        simp [takeCaughtSignal, hc]
      rw [he]
      refine ⟨hc.1, by simp [pendingAt, get, hc.2], ⟨g, by simp [get], rfl, ?_⟩, ?_⟩
      · intro x
        simp only [get]
        by_cases hx : x = k' <;> simp [hx]
      · intro x hx0 hlt
        simp only [pendingAt, get]
        have hne : x ≠ k' := Nat.ne_of_lt hlt
        simp only [hne, if_false]
        cases hg : get t x with
        | none => rfl
        | some g' => exact absurd (hlo x g' hg) (by omega)
    · have he : takeCaughtSignal ((k', g) :: t)
          = ((k', g) :: (takeCaughtSignal t).1, (takeCaughtSignal t).2) := by
        simp only [takeCaughtSignal, hc, if_false]
      rw [he]
      have hhead : k' ≠ 0 → g.current.pending = false := by
        intro h0
        cases hp : g.current.pending with
        | false => rfl
        | true => exact absurd ⟨h0, hp⟩ hc
      cases hr : (takeCaughtSignal t).2 with
      | none =>
        rw [hr] at ih
        simp only at ih ⊢
        intro x hx0
        simp only [pendingAt, get]
        by_cases hx : x = k'
        · subst hx; simp [hhead hx0]
        · simp only [hx, if_false]; exact ih x hx0
      | some p =>
        obtain ⟨k, ts⟩ := p
        rw [hr] at ih
        simp only at ih ⊢
        obtain ⟨hk0, hpk, ⟨g0, hg0, hts, hget⟩, hleast⟩ := ih
        have hkk : k' < k := hlo k g0 hg0
        have hne : k ≠ k' := by omega
        refine ⟨hk0, ?_, ⟨g0, by simp [get, hne, hg0], hts, ?_⟩, ?_⟩
        · simpa [pendingAt, get, hne] using hpk
        · intro x
          simp only [get]
          by_cases hx : x = k'
          · subst hx
            have : ¬ x = k := fun h => hne h.symm
            simp [this]
          · simp only [hx, if_false]; exact hget x
        · intro x hx0 hlt
          simp only [pendingAt, get]
          by_cases hx : x = k'
          · subst hx; simp [hhead hx0]
          · simp only [hx, if_false]; exact hleast x hx0 hlt

theorem pendingAt_takeCaught (t : TrapMap) (hs : Sorted t) (x : Nat) :
    pendingAt (takeCaughtSignal t).1 x
      = (match (takeCaughtSignal t).2 with
         | some (k, _) => if x = k then false else pendingAt t x
         | none => pendingAt t x) := by
  have h := takeCaught_spec t hs
  cases hr : (takeCaughtSignal t).2 with
  | none =>
    -- nothing taken: the map is unchanged as far as flags go
    have hc := takeCaught_core t x
    simp only
    -- pending flags are not part of `core`, use the structure of the function instead
    clear h
    induction t with
    | nil => rfl
    | cons kv t ih =>
      obtain ⟨k', g⟩ := kv
      simp only [takeCaughtSignal] at hr ⊢
      split at hr
      · simp at hr
      · rename_i hcnd
        simp only [hcnd, if_false, pendingAt, get]
        by_cases hx : x = k'
        · simp [hx]
        · simp only [hx, if_false]
          exact ih hs.2 hr (takeCaught_core t x)
  | some p =>
    obtain ⟨k, ts⟩ := p
    rw [hr] at h
    simp only at h ⊢
    obtain ⟨_, hpk, ⟨g, hg, _, hget⟩, _⟩ := h
    simp only [pendingAt, hget x]
    by_cases hx : x = k
    · subst hx
      simp only [if_true]
      unfold GrandState.handleIfCaught
      split <;> simp_all
    · simp [hx]

theorem pendingAt_catchSignal (t : TrapMap) (s x : Nat) :
    pendingAt (catchSignal t s) x = if x = s ∧ (get t s).isSome then true else pendingAt t x := by
  unfold catchSignal pendingAt
  cases hg : get t s with
  | none => simp
  | some g =>
    simp only [get_set]
    by_cases hx : x = s
    · subst hx; simp [GrandState.markAsCaught]
    · simp [hx]

/-! ### accounting of one signal's deliveries and runs -/

/-- what happened to one signal, in order: `true` = it was delivered (handed to `catch_signal`),
    `false` = its action was taken to be run -/
abbrev STrace := List Bool

/-- The POSIX pending-signal discipline as an acceptor: a delivery arms the signal (a delivery
    while already armed coalesces with it); a run is legal only when armed and disarms.  Returns
    `none` on an illegal run, otherwise the final armed flag, the number of runs and the number of
    *coalesced deliveries* (deliveries that found the signal not armed). -/
def account : Bool → STrace → Option (Bool × Nat × Nat)
  | armed, [] => some (armed, 0, 0)
  | armed, true :: rest =>
    (account true rest).map fun (a, r, e) => (a, r, if armed then e else e + 1)
  | armed, false :: rest =>
    if armed then (account false rest).map fun (a, r, e) => (a, r + 1, e) else none

/-- accepted traces conserve: runs + (still armed) = coalesced deliveries + (armed at the start) -/
theorem account_conserve (armed : Bool) (tr : STrace) (a : Bool) (r e : Nat)
    (h : account armed tr = some (a, r, e)) :
    r + (if a then 1 else 0) = e + (if armed then 1 else 0) := by
  induction tr generalizing armed a r e with
  | nil => simp [account] at h; obtain ⟨h1, h2, h3⟩ := h; subst h1 h2 h3; rfl
  | cons b rest ih =>
    cases b with
    | true =>
      simp only [account, Option.map_eq_some_iff] at h
      obtain ⟨⟨a', r', e'⟩, hacc, heq⟩ := h
      simp only [Prod.mk.injEq] at heq
      obtain ⟨h1, h2, h3⟩ := heq
      subst h1 h2
      have := ih true a' r' e' hacc
      cases armed <;> simp_all <;> omega
    | false =>
      cases armed with
      | false => simp [account] at h
      | true =>
        simp only [account, if_true, Option.map_eq_some_iff] at h
        obtain ⟨⟨a', r', e'⟩, hacc, heq⟩ := h
        simp only [Prod.mk.injEq] at heq
        obtain ⟨h1, h2, h3⟩ := heq
        subst h1 h2 h3
        have := ih false a' r' e' hacc
        simp_all
        omega

theorem account_append (armed : Bool) (tr1 tr2 : STrace) :
    account armed (tr1 ++ tr2)
      = (account armed tr1).bind fun (a, r, e) =>
          (account a tr2).map fun (a', r', e') => (a', r + r', e + e') := by
  induction tr1 generalizing armed with
  | nil =>
    simp only [List.nil_append, account, Option.bind_some]
    cases account armed tr2 with
    | none => rfl
    | some p => obtain ⟨a, r, e⟩ := p; simp
  | cons b rest ih =>
    cases b with
    | true =>
      simp only [List.cons_append, account, ih]
      cases account true rest with
      | none => rfl
      | some p =>
        obtain ⟨a, r, e⟩ := p
        simp only [Option.map_some, Option.bind_some]
        cases account a tr2 with
        | none => rfl
        | some q => obtain ⟨a', r', e'⟩ := q; cases armed <;> simp <;> omega
    | false =>
      cases armed with
      | false => simp [account]
      | true =>
        simp only [List.cons_append, account, if_true, ih]
        cases account false rest with
        | none => rfl
        | some p =>
          obtain ⟨a, r, e⟩ := p
          simp only [Option.map_some, Option.bind_some]
          cases account a tr2 with
          | none => rfl
          | some q => obtain ⟨a', r', e'⟩ := q; simp; omega

/-- acceptance of a trace extended by one accepted step -/
theorem account_snoc_ok (armed : Bool) (tr step : STrace) (a a' : Bool)
    (h1 : (account armed tr).map (·.1) = some a)
    (h2 : (account a step).map (·.1) = some a') :
    (account armed (tr ++ step)).map (·.1) = some a' := by
  rw [account_append]
  cases hacc : account armed tr with
  | none => rw [hacc] at h1; simp at h1
  | some p =>
    obtain ⟨a0, r, e⟩ := p
    rw [hacc] at h1
    simp only [Option.map_some, Option.some.injEq] at h1
    subst h1
    simp only [Option.bind_some]
    cases hs : account a0 step with
    | none => rw [hs] at h2; simp at h2
    | some q =>
      obtain ⟨a1, r1, e1⟩ := q
      rw [hs] at h2
      simpa using h2

/-! ### small steps: deliveries and single takes in any order -/

inductive Ev where
  /-- `catch_signal(s)` (a signal collected by a poll, at any moment: also while an action runs) -/
  | deliver (s : Nat)
  /-- one iteration of the runner's loop: `take_caught_signal` and run what it returns -/
  | take
  deriving Repr

/-- one small step on the trap set; the second component is what happened to signal `s` -/
def stepEv (s : Nat) (t : TrapMap) : Ev → TrapMap × STrace
  | .deliver x => (catchSignal t x, if x = s ∧ (get t s).isSome then [true] else [])
  | .take =>
    match (takeCaughtSignal t).2 with
    | some (k, _) => ((takeCaughtSignal t).1, if k = s then [false] else [])
    | none => ((takeCaughtSignal t).1, [])

def runEvs (s : Nat) : TrapMap → List Ev → STrace → TrapMap × STrace
  | t, [], tr => (t, tr)
  | t, ev :: evs, tr =>
    let r := stepEv s t ev
    runEvs s r.1 evs (tr ++ r.2)

theorem sorted_stepEv (s : Nat) (t : TrapMap) (ev : Ev) (h : Sorted t) : Sorted (stepEv s t ev).1 := by
  cases ev with
  | deliver x => exact sorted_catchSignal _ _ h
  | take =>
    simp only [stepEv]
    split <;> exact sorted_takeCaught _ h

/-- every small step is accepted by the pending discipline and keeps "armed = pending flag" -/
theorem stepEv_account (s : Nat) (hs0 : s ≠ 0) (t : TrapMap) (ev : Ev) (h : Sorted t) :
    (account (pendingAt t s) (stepEv s t ev).2).map (·.1) = some (pendingAt (stepEv s t ev).1 s) := by
  cases ev with
  | deliver x =>
    simp only [stepEv]
    rw [pendingAt_catchSignal]
    by_cases hx : x = s
    · subst hx
      cases hg : get t x with
      | none => simp [account, pendingAt, hg]
      | some g => simp [account]
    · have : ¬ s = x := fun h => hx h.symm
      simp [hx, this, account]
  | take =>
    have hp := pendingAt_takeCaught t h s
    have hspec := takeCaught_spec t h
    simp only [stepEv]
    cases hr : (takeCaughtSignal t).2 with
    | none =>
      rw [hr] at hp
      simp only at hp ⊢
      simp [account, hp]
    | some p =>
      obtain ⟨k, ts⟩ := p
      rw [hr] at hp hspec
      simp only at hp hspec ⊢
      by_cases hk : k = s
      · subst hk
        simp only [if_true] at hp ⊢
        simp [account, hspec.2.1, hp]
      · have : ¬ s = k := fun h => hk h.symm
        simp only [this, if_false] at hp
        simp [hk, account, hp]

theorem runEvs_account (s : Nat) (hs0 : s ≠ 0) (evs : List Ev) (t : TrapMap) (h : Sorted t)
    (armed0 : Bool) (tr : STrace)
    (htr : (account armed0 tr).map (·.1) = some (pendingAt t s)) :
    (account armed0 (runEvs s t evs tr).2).map (·.1) = some (pendingAt (runEvs s t evs tr).1 s) := by
  induction evs generalizing t tr with
  | nil => exact htr
  | cons ev evs ih =>
    simp only [runEvs]
    apply ih _ (sorted_stepEv s t ev h)
    exact account_snoc_ok armed0 tr _ _ _ htr (stepEv_account s hs0 t ev h)

/-! ### one runner invocation as small steps -/

theorem drain_sorted_core (body : Body) (hm : MapPreserving body) (fuel : Nat) (t : TrapMap)
    (exit : Int) (runs : List (Nat × Nat)) (h : Sorted t) :
    Sorted (drain body fuel t exit runs).traps
    ∧ ∀ x, (get (drain body fuel t exit runs).traps x).map core = (get t x).map core := by
  induction fuel generalizing t exit runs with
  | zero => exact ⟨h, fun _ => rfl⟩
  | succ fuel ih =>
    simp only [drain]
    cases hr : (takeCaughtSignal t).2 with
    | none => exact ⟨h, fun _ => rfl⟩
    | some p =>
      obtain ⟨k, ts⟩ := p
      have hs1 := sorted_takeCaught t h
      have hc1 := takeCaught_core t
      simp only
      cases hact : ts.action with
      | command c =>
        simp only
        have htr := runTrap_traps body hm c exit (takeCaughtSignal t).1
        cases hd : (runTrap body c exit (takeCaughtSignal t).1).2.1 with
        | some d => simp only [htr]; exact ⟨hs1, hc1⟩
        | none =>
          simp only [htr]
          have := ih (takeCaughtSignal t).1 (runTrap body c exit (takeCaughtSignal t).1).1
            (runs ++ [(k, c)]) hs1
          exact ⟨this.1, fun x => (this.2 x).trans (hc1 x)⟩
      | default =>
        have := ih (takeCaughtSignal t).1 exit runs hs1
        exact ⟨this.1, fun x => (this.2 x).trans (hc1 x)⟩
      | ignore =>
        have := ih (takeCaughtSignal t).1 exit runs hs1
        exact ⟨this.1, fun x => (this.2 x).trans (hc1 x)⟩

/-! ### big steps: deliveries and whole command boundaries in any order -/

inductive BEv where
  | deliver (s : Nat)
  /-- the boundary after a command: `main` is what the command itself resulted in (possibly a
      divert), `exit` is `$?` there -/
  | boundary (main : Option Divert) (exit : Int)

def stepBig (body : Body) (s : Nat) (t : TrapMap) : BEv → TrapMap × STrace
  | .deliver x => (catchSignal t x, if x = s ∧ (get t s).isSome then [true] else [])
  | .boundary main exit =>
    let r := afterCommand body false main t exit
    (r.traps, (r.runs.filter fun p => p.1 == s).map fun _ => false)

def runBig (body : Body) (s : Nat) : TrapMap → List BEv → STrace → TrapMap × STrace
  | t, [], tr => (t, tr)
  | t, ev :: evs, tr =>
    let r := stepBig body s t ev
    runBig body s r.1 evs (tr ++ r.2)

theorem owed_pending (e : Option GrandState) (s c : Nat) (hs0 : s ≠ 0) (g : GrandState)
    (he : e = some g) (hact : g.current.action = .command c) :
    owed e s = if g.current.pending then [(s, c)] else [] := by
  subst he
  simp only [owed, hact, hs0, ne_eq, not_false_eq_true, true_and]

theorem sorted_stepBig (body : Body) (hm : MapPreserving body) (s : Nat) (t : TrapMap) (ev : BEv)
    (h : Sorted t) : Sorted (stepBig body s t ev).1 := by
  cases ev with
  | deliver x => exact sorted_catchSignal _ _ h
  | boundary main exit =>
    simp only [stepBig, afterCommand, runTrapsForCaughtSignals, Bool.false_eq_true, if_false]
    exact (drain_sorted_core body hm _ t exit [] h).1

/-- the action recorded for `s` -/
def actionAt (t : TrapMap) (s : Nat) : Option Action := (get t s).map (·.current.action)

theorem actionAt_stepBig (body : Body) (hm : MapPreserving body) (s : Nat) (t : TrapMap) (ev : BEv)
    (h : Sorted t) : actionAt (stepBig body s t ev).1 s = actionAt t s := by
  have hcore : ∀ t' : TrapMap, (get t' s).map core = (get t s).map core → actionAt t' s = actionAt t s := by
    intro t' hc
    unfold actionAt
    cases h1 : get t' s <;> cases h2 : get t s <;> simp_all [core]
  cases ev with
  | deliver x => exact hcore _ (catchSignal_core t x s)
  | boundary main exit =>
    simp only [stepBig, afterCommand, runTrapsForCaughtSignals, Bool.false_eq_true, if_false]
    exact hcore _ ((drain_sorted_core body hm _ t exit [] h).2 s)

theorem stepBig_account (body : Body) (hm : MapPreserving body) (s c : Nat) (hs0 : s ≠ 0)
    (t : TrapMap) (ev : BEv) (h : Sorted t) (hact : actionAt t s = some (.command c)) :
    (account (pendingAt t s) (stepBig body s t ev).2).map (·.1)
      = some (pendingAt (stepBig body s t ev).1 s) := by
  cases ev with
  | deliver x =>
    simp only [stepBig]
    rw [pendingAt_catchSignal]
    by_cases hx : x = s
    · subst hx
      cases hg : get t x with
      | none => simp [account, pendingAt, hg]
      | some g => simp [account]
    · have : ¬ s = x := fun h => hx h.symm
      simp [hx, this, account]
  | boundary main exit =>
    have hsb := sorted_stepBig body hm s t (.boundary main exit) h
    have hab := actionAt_stepBig body hm s t (.boundary main exit) h
    simp only [stepBig, afterCommand] at hsb hab ⊢
    have hc := (runTraps_conserve body hm t exit).1
    -- project the conservation law to `s`
    have hf := congrArg (List.filter fun p => p.1 == s) hc
    rw [List.filter_append, pendingCommands_filter _ s hsb, pendingCommands_filter _ s h] at hf
    -- both entries exist and carry the command `c`
    unfold actionAt at hact hab
    rw [hact] at hab
    cases hg : get t s with
    | none => rw [hg] at hact; simp at hact
    | some g =>
      rw [hg] at hact
      simp only [Option.map_some, Option.some.injEq] at hact
      cases hg' : get (runTrapsForCaughtSignals body false t exit).traps s with
      | none => rw [hg'] at hab; simp at hab
      | some g' =>
        rw [hg'] at hab
        simp only [Option.map_some, Option.some.injEq] at hab
        rw [hg, hg', owed_pending _ s c hs0 g rfl hact, owed_pending _ s c hs0 g' rfl hab] at hf
        simp only [pendingAt, hg, hg']
        cases hp : g.current.pending <;> cases hp' : g'.current.pending <;>
          simp only [hp, hp', if_true, if_false, Bool.false_eq_true] at hf
        · -- not pending before, not after: nothing ran for s
          have : (List.filter (fun p => p.1 == s) (runTrapsForCaughtSignals body false t exit).runs) = [] := by
            simpa using hf
          simp [this, account]
        · -- not pending before, pending after: impossible
          have := congrArg List.length hf
          simp at this
        · -- pending before, not after: exactly one run
          have : (List.filter (fun p => p.1 == s) (runTrapsForCaughtSignals body false t exit).runs) = [(s, c)] := by
            simpa using hf
          simp [this, account]
        · -- pending before and after: no run (an earlier action diverted)
          have hlen := congrArg List.length hf
          simp only [List.length_append, List.length_cons, List.length_nil] at hlen
          have : (List.filter (fun p => p.1 == s) (runTrapsForCaughtSignals body false t exit).runs) = [] := by
            apply List.eq_nil_of_length_eq_zero; omega
          simp [this, account]

theorem runBig_account (body : Body) (hm : MapPreserving body) (s c : Nat) (hs0 : s ≠ 0)
    (evs : List BEv) (t : TrapMap) (h : Sorted t) (hact : actionAt t s = some (.command c))
    (armed0 : Bool) (tr : STrace)
    (htr : (account armed0 tr).map (·.1) = some (pendingAt t s)) :
    (account armed0 (runBig body s t evs tr).2).map (·.1)
      = some (pendingAt (runBig body s t evs tr).1 s) := by
  induction evs generalizing t tr with
  | nil => exact htr
  | cons ev evs ih =>
    simp only [runBig]
    apply ih _ (sorted_stepBig body hm s t ev h)
    · rw [actionAt_stepBig body hm s t ev h]; exact hact
    · exact account_snoc_ok armed0 tr _ _ _ htr (stepBig_account body hm s c hs0 t ev h hact)

end YashModel.Trap

namespace YashModel.Trap

/-! ### an interruptible built-in interrupted by SIGINT -/

/-- the signals the system reported up to and including the first batch that contains SIGINT -/
def deliveredBatches : List (List Nat) → List Nat
  | [] => []
  | b :: rest => if b.contains SIGINT then b else b ++ deliveredBatches rest

theorem sigintLoop_spec (batches : List (List Nat)) (caught : List Nat) :
    (sigintLoop batches caught).1 = caught ++ deliveredBatches batches
    ∧ (sigintLoop batches caught).2 = batches.any (·.contains SIGINT) := by
  induction batches generalizing caught with
  | nil => simp [sigintLoop, deliveredBatches]
  | cons b rest ih =>
    simp only [sigintLoop, deliveredBatches, List.any_cons, List.contains_iff_mem]
    by_cases hb : SIGINT ∈ b
    · simp [hb]
    · have := ih (caught ++ b)
      have hc : b.contains SIGINT = false := by simpa using hb
      simp only [hb, if_false, hc, Bool.false_or]
      exact ⟨by rw [this.1, List.append_assoc], this.2⟩

theorem isSome_catchSignal (t : TrapMap) (k x : Nat) :
    (get (catchSignal t k) x).isSome = (get t x).isSome :=
  isSome_of_core (catchSignal_core t k x)

theorem pendingAt_foldl_catch (l : List Nat) (t : TrapMap) (x : Nat) :
    pendingAt (l.foldl catchSignal t) x = ((l.contains x && (get t x).isSome) || pendingAt t x) := by
  induction l generalizing t with
  | nil => simp
  | cons k l ih =>
    simp only [List.foldl_cons]
    rw [ih, isSome_catchSignal, pendingAt_catchSignal]
    by_cases hx : x = k
    · subst hx
      cases hg : (get t x).isSome <;> cases hp : pendingAt t x <;> simp
    · have hne : ¬ k = x := fun h => hx h.symm
      by_cases hl : x ∈ l <;> cases hg : (get t x).isSome <;> cases hp : pendingAt t x <;>
        simp [hx, hl]

theorem core_foldl_catch (l : List Nat) (t : TrapMap) (x : Nat) :
    (get (l.foldl catchSignal t) x).map core = (get t x).map core := by
  induction l generalizing t with
  | nil => rfl
  | cons k l ih => simp only [List.foldl_cons]; rw [ih, catchSignal_core]

theorem sorted_foldl_catch (l : List Nat) (t : TrapMap) (h : Sorted t) : Sorted (l.foldl catchSignal t) := by
  induction l generalizing t with
  | nil => exact h
  | cons k l ih => exact ih _ (sorted_catchSignal _ _ h)

end YashModel.Trap
