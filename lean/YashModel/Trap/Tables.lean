/-
  The constants and tables of the signal code as re-extracted from /repo on every run
  (`YashModel.Generated.TrapTables`, written by tools/tables/trap.py) put in the form in which the
  hand-transcribed model uses them.  The `tables_*` theorems of Theorems.lean state that the model's
  hand-typed constants (`SIGINT … SIGUSR1`, `Builtin.signalTable`, `Builtin.defaultEffect`,
  `Disp.rank`, `Divert.rank`, the six enable/disable operations) agree with them.
  Import-free apart from the model and the generated file; executable.
-/
import YashModel.Trap.Builtin
import YashModel.Generated.TrapTables
namespace YashModel.Trap
open YashModel.Generated

/-- number of `pub const <name>: Number` in `system/virtual/signal.rs` -/
def genNumber (name : String) : Option Nat :=
  (TrapTables.signalConsts.find? (·.1 == name)).map (·.2)

/-- decimal digits of a one- or two-digit offset (real-time ranges are short) -/
def smallNat (n : Nat) : String :=
  let d (k : Nat) : String := String.singleton (Char.ofNat (48 + k))
  if n < 10 then d n else d (n / 10 % 10) ++ d (n % 10)

/-- the real-time arm of `Name::try_from_raw_virtual` (`incr <= -decr` chooses `Rtmin(incr)`, else
    `Rtmax(decr)`) followed by `Name::as_string` (`RTMIN`, `RTMAX`, `RTMIN+n`, `RTMAX-n`) -/
def rtName (lo hi n : Nat) : String :=
  let incr := n - lo
  let decr := hi - n
  if incr ≤ decr then (if incr = 0 then "RTMIN" else "RTMIN+" ++ smallNat incr)
  else (if decr = 0 then "RTMAX" else "RTMAX-" ++ smallNat decr)

/-- `Name` variant of a signal number (`try_from_raw_virtual`) -/
def genVariant (n : Nat) : Option String :=
  match TrapTables.numberToVariant.find? (·.1 == n) with
  | some p => some p.2
  | none =>
    if TrapTables.rtMin ≤ n ∧ n ≤ TrapTables.rtMax then
      some (if n - TrapTables.rtMin ≤ TrapTables.rtMax - n then "Rtmin" else "Rtmax")
    else none

/-- `sig2str`: the name of a valid signal number -/
def genName (n : Nat) : Option String :=
  match TrapTables.numberToVariant.find? (·.1 == n) with
  | some p => (TrapTables.variantString.find? (·.1 == p.2)).map (·.2)
  | none =>
    if TrapTables.rtMin ≤ n ∧ n ≤ TrapTables.rtMax then some (rtName TrapTables.rtMin TrapTables.rtMax n)
    else none

/-- every valid signal number with its name, in ascending order (= `Condition::iter` without `Exit`) -/
def genSignalTable : List (Nat × String) :=
  (List.range (TrapTables.rtMax + 1)).filterMap fun n => (genName n).map fun s => (n, s)

def Effect.code : Effect → Nat
  | .none => 0 | .terminate => 1 | .suspend => 2 | .resume => 3

/-- `SignalEffect::of(name of n)` as a code -/
def genEffect (n : Nat) : Option Nat :=
  (genVariant n).bind fun v => (TrapTables.variantEffect.find? (·.1 == v)).map (·.2)

def Disp.name : Disp → String
  | .default => "Default" | .ignore => "Ignore" | .catch => "Catch"

def parseDispName (s : String) : Disp :=
  if s == "Catch" then .catch else if s == "Ignore" then .ignore else .default

def Divert.variantName : Divert → List String
  | .other => ["Continue", "Break"]
  | .ret _ => ["Return"]
  | .interrupt _ => ["Interrupt"]
  | .exit _ => ["Exit"]
  | .abort _ => ["Abort"]

/-- the `set_internal_disposition` calls of one of the six enable/disable functions of `trap.rs`,
    applied in order -/
def genInternal (fn : String) (st : State) : State :=
  match TrapTables.internalOps.find? (·.1 == fn) with
  | some p => p.2.foldl (fun st q => setInternal st q.1 (parseDispName q.2)) st
  | none => st

/-! ## wave 3: the option selection of `TrapSet::enter_subshell`, `stack::Frame`, `in_trap` -/

def parseSubOpt (s : String) : SubOpt :=
  if s == "KeepInternalDisposition" then .keep else if s == "Ignore" then .ignore else .clear

/-- a flag of a generated row: 0 / 1 = the first / second `bool` parameter of `enter_subshell`,
    2 = `state.internal_disposition() != Disposition::Default` -/
def subFlag (g : GrandState) (ii ks : Bool) (k : Nat) : Bool :=
  if k = 0 then ii else if k = 1 then ks else g.internal != .default

/-- the generated rows with their option parsed -/
def genSubshellRows : List (List Nat × List Nat × SubOpt) :=
  TrapTables.subshellRules.map fun r => (r.1, r.2.1, parseSubOpt r.2.2)

/-- the `if … else if … else` chain of the `Condition::Signal` arm, row by row -/
def genSubshellChain (cond : Nat) (g : GrandState) (ii ks : Bool) (els : SubOpt) :
    List (List Nat × List Nat × SubOpt) → SubOpt
  | [] => els
  | (sigs, flags, opt) :: rest =>
    if sigs.contains cond && flags.all (subFlag g ii ks) then opt
    else genSubshellChain cond g ii ks els rest

/-- `let option = match cond { Exit => …, Signal(signal) => if … }` as the generated tables say -/
def genSubshellOption (cond : Nat) (g : GrandState) (ii ks : Bool) : SubOpt :=
  if cond = 0 then parseSubOpt TrapTables.subshellExit
  else genSubshellChain cond g ii ks (parseSubOpt TrapTables.subshellElse) genSubshellRows

/-- the trailing `if <flag> { for signal in [..] { Vacant => GrandState::ignore } }` -/
def genSubshellTrailing (st : State) (ii ks : Bool) : State :=
  if (if TrapTables.subshellTrailing.2 = 0 then ii else ks) then
    TrapTables.subshellTrailing.1.foldl ignoreIfVacant st
  else st

def Frame.variant : Frame → String
  | .loop => "Loop" | .subshell => "Subshell" | .condition => "Condition" | .builtin => "Builtin"
  | .dotScript => "DotScript" | .trap _ => "Trap" | .initFile => "InitFile"

/-- one frame of every variant, in the model's declaration order -/
def Frame.samples : List Frame := [.loop, .subshell, .condition, .builtin, .dotScript, .trap 0, .initFile]

end YashModel.Trap
