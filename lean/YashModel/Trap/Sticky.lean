/-
  C11 — helper lemmas, part 5: a signal ignored on entry stays `{Ignore, Inherited}` as long as no
  `set_action` with `override_ignore` is applied to it.
-/
import YashModel.Trap.Ops
namespace YashModel.Trap

/-- the entry, if any, still says "ignored since start-up" -/
def IgnInh (e : Option GrandState) : Prop :=
  ∀ g, e = some g → g.current.action = .ignore ∧ g.current.origin = .inherited

/-- the operation is not a `set_action` on `s` with `override_ignore` -/
def opNoOverride (s : Nat) : Op → Prop
  | .setAction c _ _ ov => ¬ (c = s ∧ ov = true)
  | _ => True

theorem ignInh_none : IgnInh none := fun _ h => by cases h

theorem ignInh_of_core {e e' : Option GrandState} (h : e'.map core = e.map core) (he : IgnInh e) :
    IgnInh e' := by
  intro g' hg'
  subst hg'
  cases e with
  | none => simp at h
  | some g =>
    have := he g rfl
    simp only [Option.map_some, Option.some.injEq, core, Prod.mk.injEq] at h
    exact ⟨h.1.trans this.1, h.2.1.trans this.2⟩

theorem ignInh_clearParent {e : Option GrandState} (he : IgnInh e) :
    IgnInh (e.map GrandState.clearParent) := by
  intro g' hg'
  cases e with
  | none => simp at hg'
  | some g =>
    simp only [Option.map_some, Option.some.injEq] at hg'
    subst hg'
    exact he g rfl

/-- `set_action` without override on an entry that is vacant-and-ignored or `{Ignore, Inherited}`:
    the call fails, the entry stays `{Ignore, Inherited}`, the disposition stays what it was -/
theorem setActionE_sticky (sys : Sys) (e : Option GrandState) (k : Nat) (a : Action) (o : Nat)
    (hk : k ≠ 0) (hd : e = none → sys.disp k = .ignore) (he : IgnInh e) :
    (GrandState.setAction sys e k a o false).2.2 = some .initiallyIgnored
    ∧ IgnInh (some (GrandState.setAction sys e k a o false).2.1)
    ∧ (GrandState.setAction sys e k a o false).1.disp k = sys.disp k := by
  unfold GrandState.setAction
  cases e with
  | none =>
    have hd := hd rfl
    simp only [hk, ne_eq, not_false_eq_true, if_true, setDisposition_fst, hd, and_self]
    refine ⟨trivial, ?_, by simp⟩
    intro g hg
    simp only [Option.some.injEq] at hg
    subst hg
    exact ⟨rfl, rfl⟩
  | some g =>
    have := he g rfl
    simp only [this, and_self, if_true]
    exact ⟨trivial, he, trivial⟩

theorem setInternalE_sticky (sys : Sys) (e : Option GrandState) (k : Nat) (d : Disp)
    (hd : e = none → sys.disp k = .ignore) (he : IgnInh e) :
    IgnInh (GrandState.setInternal sys e k d).2 := by
  unfold GrandState.setInternal
  cases e with
  | none =>
    simp only
    split
    · exact ignInh_none
    · intro g hg
      simp only [Option.some.injEq, setDisposition_fst, hd rfl] at hg
      subst hg
      exact ⟨rfl, rfl⟩
  | some g =>
    intro g' hg'
    simp only [Option.some.injEq] at hg'
    subst hg'
    exact he g rfl

theorem enterState_sticky (g : GrandState) (opt : SubOpt) (he : IgnInh (some g)) :
    IgnInh (some (g.enterState opt)) := by
  have h := he g rfl
  intro g' hg'
  simp only [Option.some.injEq] at hg'
  subst hg'
  unfold GrandState.enterState
  simp only [h.1, Action.isCommand, Bool.false_eq_true, if_false]
  split <;> simp [h.1, h.2]

theorem sticky_ignoreIfVacant (init : Nat → Disp) (st : State) (k s : Nat) (hs0 : s ≠ 0)
    (hign : init s = .ignore) (h : Inv init st) (he : IgnInh (get st.traps s)) :
    IgnInh (get (ignoreIfVacant st k).traps s) := by
  unfold ignoreIfVacant
  cases hg : get st.traps k with
  | some g => exact he
  | none =>
    simp only [get_set]
    by_cases hs : s = k
    · subst hs
      simp only [if_true]
      have hd := h.disp s hs0
      rw [hg, expected_none, hign] at hd
      intro g' hg'
      simp only [Option.some.injEq] at hg'
      subst hg'
      simp [GrandState.ignore, hd]
    · simp only [hs, if_false]; exact he

theorem sticky_step (init : Nat → Disp) (hinit : ∀ s, init s ≠ .catch) (st : State) (s : Nat) (op : Op)
    (hs0 : s ≠ 0) (hign : init s = .ignore) (h : Inv init st) (he : IgnInh (get st.traps s))
    (hno : opNoOverride s op) : IgnInh (get (step st op).traps s) := by
  -- what the disposition is while the entry is vacant
  have hvac : ∀ st', Inv init st' → get st'.traps s = none → st'.sys.disp s = .ignore := by
    intro st' h' hg
    have := h'.disp s hs0
    rwa [hg, expected_none, hign] at this
  -- one internal-disposition update
  have hI : ∀ st' k d, Inv init st' → IgnInh (get st'.traps s) →
      IgnInh (get (setInternal st' k d).traps s) := by
    intro st' k d h' he'
    unfold setInternal
    simp only [setInternalE_get]
    by_cases hs : s = k
    · subst hs
      simp only [if_true]
      exact setInternalE_sticky _ _ _ _ (hvac st' h') he'
    · simp only [hs, if_false]; exact he'
  have hP : ∀ st' k d, (Inv init st' ∧ IgnInh (get st'.traps s)) →
      (Inv init (setInternal st' k d) ∧ IgnInh (get (setInternal st' k d).traps s)) :=
    fun st' k d hp => ⟨inv_setInternal init hinit st' k d hp.1, hI st' k d hp.1 hp.2⟩
  cases op with
  | setAction c a o ov =>
    simp only [step]
    unfold setAction
    split
    · exact he
    · split
      · exact he
      · simp only [get_set]
        by_cases hs : s = c
        · subst hs
          simp only [if_true]
          have hov : ov = false := by
            cases ov with
            | false => rfl
            | true => exact absurd ⟨rfl, rfl⟩ hno
          subst hov
          refine (setActionE_sticky _ _ _ _ _ hs0 ?_ ?_).2.1
          · intro hn
            rw [get_clearParents] at hn
            have : get st.traps s = none := by
              cases hg : get st.traps s with
              | none => rfl
              | some g => rw [hg] at hn; simp at hn
            exact hvac st h this
          · rw [get_clearParents]; exact ignInh_clearParent he
        · simp only [hs, if_false]
          rw [get_clearParents]; exact ignInh_clearParent he
  | enableChld => exact hI _ _ _ h he
  | enableTerminators => exact (hP _ _ _ (hP _ _ _ (hP _ _ _ ⟨h, he⟩))).2
  | enableStoppers => exact (hP _ _ _ (hP _ _ _ (hP _ _ _ ⟨h, he⟩))).2
  | disableTerminators => exact (hP _ _ _ (hP _ _ _ (hP _ _ _ ⟨h, he⟩))).2
  | disableStoppers => exact (hP _ _ _ (hP _ _ _ (hP _ _ _ ⟨h, he⟩))).2
  | disableAll =>
    exact (hP _ _ _ (hP _ _ _ (hP _ _ _ (hP _ _ _ (hP _ _ _ (hP _ _ _ (hP _ _ _ ⟨h, he⟩))))))).2
  | enterSubshell ii ks =>
    simp only [step]
    unfold enterSubshell
    have h1 := inv_enterAll init st ii ks h
    have e1 : IgnInh (get (enterAll st.sys ii ks (clearParents st.traps)).2 s) := by
      rw [get_enterAll, get_clearParents]
      cases hg : get st.traps s with
      | none => exact ignInh_none
      | some g =>
        simp only [Option.map_some]
        apply enterState_sticky
        have := he g hg
        intro g' hg'
        simp only [Option.some.injEq] at hg'
        subst hg'
        exact this
    simp only
    split
    · have h2 := inv_ignoreIfVacant init _ SIGINT h1
      have e2 := sticky_ignoreIfVacant init _ SIGINT s hs0 hign h1 e1
      exact sticky_ignoreIfVacant init _ SIGQUIT s hs0 hign h2 e2
    · exact e1
  | peek c =>
    simp only [step, peekState, get_set]
    by_cases hs : s = c
    · subst hs
      simp only [if_true]
      unfold GrandState.insertFromSystemIfVacant
      cases hg : get st.traps s with
      | none =>
        intro g' hg'
        simp only [Option.some.injEq] at hg'
        subst hg'
        simp [hs0, Sys.getDisposition, hvac st h hg, TrapState.fromInitial]
      | some g => intro g' hg'; simp only [Option.some.injEq] at hg'; subst hg'; exact he g hg
    · simp only [hs, if_false]; exact he
  | catchSignal k => exact ignInh_of_core (catchSignal_core _ _ _) he
  | takeCaught => exact ignInh_of_core (takeCaught_core _ _) he
  | takeIfCaught k => exact ignInh_of_core (takeIf_core _ _ _) he
  | deliver k =>
    simp only [step, deliver]
    split
    · exact ignInh_of_core (catchSignal_core _ _ _) he
    · exact he

end YashModel.Trap
