/-
  Spec for C11: what the property text says about one signal, as directly as possible.

  * the installed disposition is the one implied by the user's trap action combined with the
    shell's own need: untouched signals keep what they inherited, otherwise
    `max internal (disposition of the current action)` in the order `Default < Ignore < Catch`;
  * a signal is blocked (deliverable only inside `select`) exactly when it is caught;
  * a caught signal makes its trap run exactly once.
-/
import YashModel.Trap.Model
namespace YashModel.Trap

/-- the reference merge: `init` is the disposition inherited at start-up -/
def expected (e : Option GrandState) (init : Disp) : Disp :=
  match e with
  | none => init
  | some g => g.internal.max g.current.action.toDisp

/-- the signals the correspondence run looks at (the Lean theorems quantify over all numbers) -/
def watched : List Nat :=
  [SIGINT, SIGQUIT, SIGKILL, SIGTERM, SIGCHLD, SIGSTOP, SIGTSTP, SIGTTIN, SIGTTOU, SIGUSR1]

/-- the property's state predicate evaluated on one state for one signal:
    `none` = fine, `some what` = which clause fails -/
def specViolation (init : Nat → Disp) (st : State) (sig : Nat) : Option String :=
  if st.sys.disp sig ≠ expected (get st.traps sig) (init sig) then some "disposition"
  else if st.sys.blocked sig ≠ (st.sys.disp sig == .catch) then some "mask"
  else if (sig = SIGKILL ∨ sig = SIGSTOP) ∧ st.sys.disp sig ≠ init sig then some "kill-stop"
  else none

def specCheck (init : Nat → Disp) (st : State) : Option String :=
  watched.findSome? fun sig => (specViolation init st sig).map fun w => s!"{w}:{sig}"

/-- the trap bodies that must run at a command boundary: every signal whose entry is pending and
    has a command action, once each, in ascending signal order -/
def pendingCommands : TrapMap → List (Nat × Nat)
  | [] => []
  | (k, g) :: t =>
    match g.current.action with
    | .command c => if k ≠ 0 ∧ g.current.pending = true then (k, c) :: pendingCommands t else pendingCommands t
    | _ => pendingCommands t

/-- "ignored on entry" as `set_action` sees it: no override, and the signal is still vacant with
    `Ignore` installed, or its entry still says `{Ignore, Inherited}` -/
def refused (st : State) (c : Nat) (overrideIgnore : Bool) : Bool :=
  !overrideIgnore &&
  match get st.traps c with
  | none => c != 0 && st.sys.disp c == .ignore
  | some g => g.current.action == .ignore && g.current.origin == .inherited

/-- what one `trap ACTION COND…` command must leave for a listed condition (other than KILL and STOP,
    which make the command fail): ignored on entry → still `{Ignore, Inherited}`; every other
    condition → the action, with the command as its origin, wherever it stands in the list -/
def trapCommandExpect (st : State) (c : Nat) (a : Action) (origin : Nat) (overrideIgnore : Bool)
    : Action × Origin :=
  if refused st c overrideIgnore then (.ignore, .inherited) else (a, .user origin)

end YashModel.Trap
