/-
  Spec for C11: what the property text says about one signal, as directly as possible.

  * the installed disposition is the one implied by the user's trap action combined with the
    shell's own need: untouched signals keep what they inherited, otherwise
    `max internal (disposition of the current action)` in the order `Default < Ignore < Catch`;
  * a signal is blocked (deliverable only inside `select`) exactly when it is caught;
  * a caught signal makes its trap run exactly once.
-/
import YashModel.Trap.Model
namespace YashModel.Trap

/-- the reference merge: `init` is the disposition inherited at start-up -/
def expected (e : Option GrandState) (init : Disp) : Disp :=
  match e with
  | none => init
  | some g => g.internal.max g.current.action.toDisp

/-- the signals the correspondence run looks at (the Lean theorems quantify over all numbers) -/
def watched : List Nat :=
  [SIGINT, SIGQUIT, SIGKILL, SIGTERM, SIGCHLD, SIGSTOP, SIGTSTP, SIGTTIN, SIGTTOU, SIGUSR1]

/-- the property's state predicate evaluated on one state for one signal:
    `none` = fine, `some what` = which clause fails -/
def specViolation (init : Nat → Disp) (st : State) (sig : Nat) : Option String :=
  if st.sys.disp sig ≠ expected (get st.traps sig) (init sig) then some "disposition"
  else if st.sys.blocked sig ≠ (st.sys.disp sig == .catch) then some "mask"
  else if (sig = SIGKILL ∨ sig = SIGSTOP) ∧ st.sys.disp sig ≠ init sig then some "kill-stop"
  else none

def specCheck (init : Nat → Disp) (st : State) : Option String :=
  watched.findSome? fun sig => (specViolation init st sig).map fun w => s!"{w}:{sig}"

/-- the trap bodies that must run at a command boundary: every signal whose entry is pending and
    has a command action, once each, in ascending signal order -/
def pendingCommands : TrapMap → List (Nat × Nat)
  | [] => []
  | (k, g) :: t =>
    match g.current.action with
    | .command c => if k ≠ 0 ∧ g.current.pending = true then (k, c) :: pendingCommands t else pendingCommands t
    | _ => pendingCommands t

/-- "ignored on entry" as `set_action` sees it: no override, and the signal is still vacant with
    `Ignore` installed, or its entry still says `{Ignore, Inherited}` -/
def refused (st : State) (c : Nat) (overrideIgnore : Bool) : Bool :=
  !overrideIgnore &&
  match get st.traps c with
  | none => c != 0 && st.sys.disp c == .ignore
  | some g => g.current.action == .ignore && g.current.origin == .inherited

/-- what one `trap ACTION COND…` command must leave for a listed condition (other than KILL and STOP,
    which make the command fail): ignored on entry → still `{Ignore, Inherited}`; every other
    condition → the action, with the command as its origin, wherever it stands in the list -/
def trapCommandExpect (st : State) (c : Nat) (a : Action) (origin : Nat) (overrideIgnore : Bool)
    : Action × Origin :=
  if refused st c overrideIgnore then (.ignore, .inherited) else (a, .user origin)

/-- POSIX (2.11 "Signals and Error Handling"): on entry to a subshell a trap that is a command is reset
    to the default action; ignored and default ones stay -/
def posixReset : Action → Action
  | .command _ => .default
  | a => a

/-- What `TrapSet::enter_subshell(ignore_sigint_sigquit, keep_stoppers)` must leave for signal `s`,
    read off its documentation and POSIX, from the state BEFORE the call only (not from the per-signal
    option the code computes): the disposition installed afterwards and the action the entry must hold
    (`none` = the signal stays unknown to the trap set).
    * "If `ignore_sigint_sigquit` is true, this function sets the dispositions for SIGINT and SIGQUIT to
      `Ignore`" (POSIX: an asynchronous list without job control inherits SIGINT/SIGQUIT ignored) —
      whatever the trap set knew about them before;
    * "If `keep_internal_dispositions_for_stoppers` is true and the internal dispositions have been
      enabled for SIGTSTP, SIGTTIN, and SIGTTOU, this function leaves the dispositions for those signals
      set to `Ignore`";
    * otherwise: "traps other than `Ignore` [are] reset", "internal dispositions that have been installed
      are cleared except for the SIGCHLD signal": the POSIX reset of the action merged with SIGCHLD's
      internal disposition only; an unknown signal is not touched. -/
def subshellExpect (before : State) (ii ks : Bool) (s : Nat) : Disp × Option Action :=
  if ii = true ∧ (s = SIGINT ∨ s = SIGQUIT) then (.ignore, some .ignore)
  else
    match get before.traps s with
    | none => (before.sys.disp s, none)
    | some g =>
      if ks = true ∧ (s = SIGTSTP ∨ s = SIGTTIN ∨ s = SIGTTOU) ∧ g.internal ≠ .default then
        (.ignore, some .ignore)
      else
        ((if s = SIGCHLD then g.internal else .default).max (posixReset g.current.action).toDisp,
         some (posixReset g.current.action))

/-- "a signal trap action is running in this shell process": reading the execution stack from the
    outermost frame, a `Subshell` frame starts a new process (forget what was seen), a `Trap(signal)` frame
    is remembered (the documentation of `run_traps_for_caught_signals`: no trap action while another runs,
    except in a subshell executed in a trap) -/
def signalTrapRunning : List Frame → Bool → Bool
  | [], acc => acc
  | .subshell :: rest, _ => signalTrapRunning rest false
  | .trap c :: rest, acc => signalTrapRunning rest (acc || c != 0)
  | _ :: rest, acc => signalTrapRunning rest acc

end YashModel.Trap
