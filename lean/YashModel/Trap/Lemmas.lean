/-
  C11 — helper lemmas, part 1: dispositions, the modelled system, the map, and the entry-level
  (`GrandState`) operations.  Property theorems are in `Theorems.lean`.
-/
import YashModel.Trap.Model
import YashModel.Trap.Spec
namespace YashModel.Trap

/-! ### `Disposition` order -/

theorem Disp.max_default_left (a : Disp) : Disp.default.max a = a := by cases a <;> rfl
theorem Disp.max_default_right (a : Disp) : a.max .default = a := by cases a <;> rfl
theorem Disp.max_self (a : Disp) : a.max a = a := by cases a <;> rfl
theorem Disp.max_comm (a b : Disp) : a.max b = b.max a := by cases a <;> cases b <;> rfl
theorem Disp.max_assoc (a b c : Disp) : (a.max b).max c = a.max (b.max c) := by
  cases a <;> cases b <;> cases c <;> rfl
theorem Disp.max_catch_left (a : Disp) : Disp.catch.max a = .catch := by cases a <;> rfl
theorem Disp.max_catch_right (a : Disp) : a.max .catch = .catch := by cases a <;> rfl
/-- `max` is the least upper bound of the order `Default < Ignore < Catch` -/
theorem Disp.max_rank (a b : Disp) : (a.max b).rank = Nat.max a.rank b.rank := by
  cases a <;> cases b <;> rfl
theorem Disp.max_eq_default {a b : Disp} : a.max b = .default ↔ a = .default ∧ b = .default := by
  cases a <;> cases b <;> decide
theorem Disp.max_eq_catch {a b : Disp} : a.max b = .catch ↔ a = .catch ∨ b = .catch := by
  cases a <;> cases b <;> decide

/-! ### function update and `set_disposition` -/

@[simp] theorem upd_same {α : Type} (f : Nat → α) (k : Nat) (v : α) : upd f k v k = v := by simp [upd]
@[simp] theorem upd_other {α : Type} (f : Nat → α) (k s : Nat) (v : α) (h : s ≠ k) : upd f k v s = f s := by
  simp [upd, h]
theorem upd_apply {α : Type} (f : Nat → α) (k s : Nat) (v : α) : upd f k v s = if s = k then v else f s := rfl

@[simp] theorem setDisposition_fst (sys : Sys) (k : Nat) (d : Disp) : (sys.setDisposition k d).1 = sys.disp k := by
  unfold Sys.setDisposition Sys.updateMask; split <;> rfl

theorem setDisposition_disp (sys : Sys) (k s : Nat) (d : Disp) :
    (sys.setDisposition k d).2.disp s = if s = k then d else sys.disp s := by
  unfold Sys.setDisposition Sys.updateMask
  by_cases h : d = .catch <;> simp [h, upd_apply]

theorem setDisposition_blocked (sys : Sys) (k s : Nat) (d : Disp) :
    (sys.setDisposition k d).2.blocked s = if s = k then (d == .catch) else sys.blocked s := by
  unfold Sys.setDisposition Sys.updateMask
  by_cases h : d = .catch <;> by_cases hs : s = k <;> simp [h, hs]

theorem setDisposition_selectMask (sys : Sys) (k : Nat) (d : Disp) :
    (sys.setDisposition k d).2.selectMask = some (upd (sys.selectMask.getD sys.blocked) k false) := by
  unfold Sys.setDisposition Sys.updateMask
  by_cases h : d = .catch <;> simp [h]

@[simp] theorem setDisposition_disp_same (sys : Sys) (k : Nat) (d : Disp) :
    (sys.setDisposition k d).2.disp k = d := by simp [setDisposition_disp]
@[simp] theorem setDisposition_disp_other (sys : Sys) (k s : Nat) (d : Disp) (h : s ≠ k) :
    (sys.setDisposition k d).2.disp s = sys.disp s := by simp [setDisposition_disp, h]

/-- what the blocking mask and the select mask must look like (`mask_iff_catch`):
    blocked exactly when caught; before the first `set_disposition` nothing is blocked, afterwards
    the mask used inside `select` blocks nothing (so a caught signal is deliverable there) -/
structure SysOK (sys : Sys) : Prop where
  mask : ∀ s, sys.blocked s = (sys.disp s == .catch)
  sel : match sys.selectMask with
    | none => ∀ s, sys.blocked s = false
    | some m => ∀ s, m s = false

theorem sysOK_setDisposition (sys : Sys) (k : Nat) (d : Disp) (h : SysOK sys) :
    SysOK (sys.setDisposition k d).2 := by
  refine ⟨?_, ?_⟩
  · intro s
    rw [setDisposition_blocked, setDisposition_disp]
    by_cases hs : s = k <;> simp [hs, h.mask]
  · rw [setDisposition_selectMask]
    intro s
    have hsel := h.sel
    by_cases hs : s = k
    · simp [hs]
    · rw [upd_other _ _ _ _ hs]
      cases hm : sys.selectMask with
      | none => rw [hm] at hsel; simpa using hsel s
      | some m => rw [hm] at hsel; simpa using hsel s

/-! ### the map -/

theorem get_set (t : TrapMap) (k s : Nat) (v : GrandState) :
    get (set t k v) s = if s = k then some v else get t s := by
  induction t with
  | nil => simp [set, get]
  | cons kv t ih =>
    obtain ⟨k', v'⟩ := kv
    simp only [set]
    by_cases h1 : k = k'
    · subst h1; by_cases h4 : s = k <;> simp [get, h4]
    · by_cases h2 : k < k'
      · simp [h1, h2, get]
      · simp only [h1, h2, if_false, get, ih]
        by_cases h3 : s = k' <;> by_cases h4 : s = k <;> simp_all

theorem get_setOpt (t : TrapMap) (k s : Nat) (e : Option GrandState) :
    get (setOpt t k e) s = if s = k ∧ e.isSome then e else get t s := by
  cases e with
  | none => simp [setOpt]
  | some v => simp only [setOpt, get_set]; by_cases h : s = k <;> simp [h]

theorem get_clearParents (t : TrapMap) (s : Nat) :
    get (clearParents t) s = (get t s).map GrandState.clearParent := by
  induction t with
  | nil => simp [clearParents, get]
  | cons kv t ih =>
    obtain ⟨k', v'⟩ := kv
    simp only [clearParents, List.map_cons, get] at ih ⊢
    by_cases h : s = k' <;> simp [h, ih]

/-- every key of `t` is above `k` -/
def Lo (k : Nat) (t : TrapMap) : Prop := ∀ s g, get t s = some g → k < s

/-- ascending key order (what `BTreeMap` guarantees) -/
def Sorted : TrapMap → Prop
  | [] => True
  | (k, _) :: t => Lo k t ∧ Sorted t

theorem lo_get_none {k : Nat} {t : TrapMap} (h : Lo k t) : get t k = none := by
  cases hg : get t k with
  | none => rfl
  | some g => exact absurd (h k g hg) (Nat.lt_irrefl k)

theorem sorted_set (t : TrapMap) (k : Nat) (v : GrandState) (h : Sorted t) : Sorted (set t k v) := by
  induction t with
  | nil => simp [set, Sorted, Lo, get]
  | cons kv t ih =>
    obtain ⟨k', v'⟩ := kv
    obtain ⟨hlo, hs⟩ := h
    simp only [set]
    by_cases h1 : k = k'
    · subst h1; simp only [if_true]; exact ⟨hlo, hs⟩
    · by_cases h2 : k < k'
      · simp only [h1, h2, if_false, if_true]
        refine ⟨?_, hlo, hs⟩
        intro s g hg
        simp only [get] at hg
        by_cases h3 : s = k'
        · omega
        · simp only [h3, if_false] at hg
          have := hlo s g hg
          omega
      · simp only [h1, h2, if_false]
        refine ⟨?_, ih hs⟩
        intro s g hg
        rw [get_set] at hg
        by_cases h3 : s = k
        · omega
        · simp only [h3, if_false] at hg
          exact hlo s g hg

theorem sorted_setOpt (t : TrapMap) (k : Nat) (e : Option GrandState) (h : Sorted t) :
    Sorted (setOpt t k e) := by
  cases e with
  | none => exact h
  | some v => exact sorted_set t k v h

theorem lo_of_get_eq {k : Nat} {t t' : TrapMap} (h : ∀ s, (get t' s).isSome = (get t s).isSome)
    (hlo : Lo k t) : Lo k t' := by
  intro s g hg
  have h1 := h s
  rw [hg] at h1
  cases hg' : get t s with
  | none => rw [hg'] at h1; simp at h1
  | some g' => exact hlo s g' hg'

theorem sorted_clearParents (t : TrapMap) (h : Sorted t) : Sorted (clearParents t) := by
  induction t with
  | nil => exact h
  | cons kv t ih =>
    obtain ⟨k', v'⟩ := kv
    obtain ⟨hlo, hs⟩ := h
    refine ⟨?_, ih hs⟩
    apply lo_of_get_eq _ hlo
    intro s
    have := get_clearParents t s
    simp only [clearParents] at this
    rw [this]
    cases get t s <;> rfl

/-! ### `expected` -/

@[simp] theorem expected_none (init : Disp) : expected none init = init := rfl
@[simp] theorem expected_some (g : GrandState) (init : Disp) :
    expected (some g) init = g.internal.max g.current.action.toDisp := rfl

theorem expected_clearParent (e : Option GrandState) (init : Disp) :
    expected (e.map GrandState.clearParent) init = expected e init := by
  cases e <;> rfl

theorem fromInitial_toDisp (d : Disp) (h : d ≠ .catch) : (TrapState.fromInitial d).action.toDisp = d := by
  cases d <;> first | rfl | exact absurd rfl h

end YashModel.Trap
