/-
  C11 — helper lemmas, part 4: the `pending` flag — catch, take, and the trap runner at a command
  boundary.
-/
import YashModel.Trap.Ops
namespace YashModel.Trap

/-- `n` deliveries of the same signal before the next take -/
def catchN (t : TrapMap) (s : Nat) : Nat → TrapMap
  | 0 => t
  | n + 1 => catchN (catchSignal t s) s n

theorem catchSignal_get (t : TrapMap) (s : Nat) (g : GrandState) (h : get t s = some g) :
    get (catchSignal t s) s = some g.markAsCaught := by
  simp [catchSignal, h, get_set]

theorem markAsCaught_idem (g : GrandState) : g.markAsCaught.markAsCaught = g.markAsCaught := rfl

theorem catchN_get (t : TrapMap) (s : Nat) (g : GrandState) (n : Nat) (h : get t s = some g) :
    get (catchN t s (n + 1)) s = some g.markAsCaught := by
  induction n generalizing t g with
  | zero => exact catchSignal_get t s g h
  | succ n ih =>
    have := ih (catchSignal t s) g.markAsCaught (catchSignal_get t s g h)
    rw [markAsCaught_idem] at this
    exact this

theorem sorted_catchN (t : TrapMap) (s n : Nat) (h : Sorted t) : Sorted (catchN t s n) := by
  induction n generalizing t with
  | zero => exact h
  | succ n ih => exact ih _ (sorted_catchSignal _ _ h)

theorem catchN_get_other (t : TrapMap) (s s' n : Nat) (h : s' ≠ s) :
    get (catchN t s n) s' = get t s' := by
  induction n generalizing t with
  | zero => rfl
  | succ n ih =>
    rw [catchN, ih]
    unfold catchSignal
    cases get t s with
    | none => rfl
    | some g => simp [get_set, h]

/-! ### the runner -/

/-- number of signal entries whose trap is pending -/
def npend : TrapMap → Nat
  | [] => 0
  | (k, g) :: t => (if k ≠ 0 ∧ g.current.pending = true then 1 else 0) + npend t

theorem npend_le_length (t : TrapMap) : npend t ≤ t.length := by
  induction t with
  | nil => exact Nat.le_refl 0
  | cons kv t ih =>
    obtain ⟨k, g⟩ := kv
    simp only [npend, List.length_cons]
    split <;> omega

theorem takeCaught_none (t : TrapMap) (h : (takeCaughtSignal t).2 = none) :
    pendingCommands t = [] ∧ npend t = 0 := by
  induction t with
  | nil => exact ⟨rfl, rfl⟩
  | cons kv t ih =>
    obtain ⟨k, g⟩ := kv
    simp only [takeCaughtSignal] at h
    split at h
    · simp at h
    · rename_i hc
      have := ih h
      simp only [pendingCommands, npend, hc, if_false, this]
      cases g.current.action <;> simp

/-- the runs owed to the head entry -/
def owedHead (k : Nat) (g : GrandState) : List (Nat × Nat) :=
  match g.current.action with
  | .command c => if k ≠ 0 ∧ g.current.pending = true then [(k, c)] else []
  | _ => []

theorem pendingCommands_cons (k : Nat) (g : GrandState) (t : TrapMap) :
    pendingCommands ((k, g) :: t) = owedHead k g ++ pendingCommands t := by
  simp only [pendingCommands, owedHead]
  cases g.current.action with
  | command c => simp only; split <;> rfl
  | default => rfl
  | ignore => rfl

theorem handleIfCaught_pending (g : GrandState) (h : g.current.pending = true) :
    g.handleIfCaught.1 = { g with current := { g.current with pending := false } } := by
  simp [GrandState.handleIfCaught, h]

theorem takeCaught_some (t : TrapMap) (k : Nat) (ts : TrapState)
    (h : (takeCaughtSignal t).2 = some (k, ts)) :
    pendingCommands t
      = (match ts.action with
         | .command c => [(k, c)]
         | _ => []) ++ pendingCommands (takeCaughtSignal t).1
    ∧ npend t = npend (takeCaughtSignal t).1 + 1 := by
  induction t with
  | nil => simp [takeCaughtSignal] at h
  | cons kv t ih =>
    obtain ⟨k', g⟩ := kv
    by_cases hc : k' ≠ 0 ∧ g.current.pending = true
    · have he : takeCaughtSignal ((k', g) :: t)
          = ((k', g.handleIfCaught.1) :: t, some (k', { g.current with pending := false })) := by
        simp [takeCaughtSignal, hc]
      rw [he] at h ⊢
      simp only [Option.some.injEq, Prod.mk.injEq] at h
      obtain ⟨hk, hts⟩ := h
      subst hk
      subst hts
      rw [handleIfCaught_pending g hc.2]
      constructor
      · rw [pendingCommands_cons, pendingCommands_cons]
        have hk0 : k' ≠ 0 := hc.1
        simp only [owedHead, hc]
        cases g.current.action <;> simp [hk0]
      · have hk0 : k' ≠ 0 := hc.1
        simp only [npend, hc]
        simp [hk0]
        omega
    · have he : takeCaughtSignal ((k', g) :: t)
          = ((k', g) :: (takeCaughtSignal t).1, (takeCaughtSignal t).2) := by
        simp only [takeCaughtSignal, hc, if_false]
      rw [he] at h ⊢
      have := ih h
      constructor
      · rw [pendingCommands_cons, pendingCommands_cons, this.1]
        have : owedHead k' g = [] := by
          simp only [owedHead, hc, if_false]; cases g.current.action <;> rfl
        simp [this]
      · simp only [npend, hc, if_false, this.2]
        omega

theorem npend_zero_pendingCommands (t : TrapMap) (h : npend t = 0) : pendingCommands t = [] := by
  induction t with
  | nil => rfl
  | cons kv t ih =>
    obtain ⟨k, g⟩ := kv
    simp only [npend] at h
    have h1 : ¬ (k ≠ 0 ∧ g.current.pending = true) := by
      intro hc; simp [hc] at h
    have h2 : npend t = 0 := by
      simp only [h1, if_false] at h; omega
    simp only [pendingCommands, h1, if_false, ih h2]
    cases g.current.action <;> rfl

theorem runTrap_nodivert (body : Nat → Int → BodyResult) (hb : ∀ c e, (body c e).divert = false)
    (c : Nat) (e : Int) : runTrap body c e = (e, false) := by
  simp [runTrap, hb]

/-- with bodies that do not divert, the loop runs exactly the pending command traps, keeps `$?`
    and leaves nothing pending -/
theorem drain_spec (body : Nat → Int → BodyResult) (hb : ∀ c e, (body c e).divert = false)
    (fuel : Nat) (t : TrapMap) (exit : Int) (runs : List (Nat × Nat)) (hf : npend t < fuel) :
    (drain body fuel t exit runs).2.2 = runs ++ pendingCommands t
    ∧ (drain body fuel t exit runs).2.1 = exit
    ∧ npend (drain body fuel t exit runs).1 = 0 := by
  induction fuel generalizing t runs with
  | zero => omega
  | succ fuel ih =>
    simp only [drain]
    cases h : (takeCaughtSignal t).2 with
    | none =>
      have := takeCaught_none t h
      simp [this]
    | some p =>
      obtain ⟨k, ts⟩ := p
      have hs := takeCaught_some t k ts h
      have hf' : npend (takeCaughtSignal t).1 < fuel := by omega
      simp only
      cases hact : ts.action with
      | command c =>
        simp only [runTrap_nodivert body hb]
        have := ih (takeCaughtSignal t).1 (runs ++ [(k, c)]) hf'
        simp only [Bool.false_eq_true, if_false]
        rw [hs.1, hact]
        simpa using this
      | default =>
        have := ih (takeCaughtSignal t).1 runs hf'
        rw [hs.1, hact]
        simpa using this
      | ignore =>
        have := ih (takeCaughtSignal t).1 runs hf'
        rw [hs.1, hact]
        simpa using this

/-! ### what is pending for one signal -/

theorem pendingCommands_mem_get (t : TrapMap) (s c : Nat) (h : (s, c) ∈ pendingCommands t) :
    (get t s).isSome = true := by
  induction t with
  | nil => simp [pendingCommands] at h
  | cons kv t ih =>
    obtain ⟨k, g⟩ := kv
    simp only [get]
    by_cases hk : s = k
    · simp [hk]
    · simp only [hk, if_false]
      apply ih
      simp only [pendingCommands] at h
      cases hact : g.current.action with
      | command c' =>
        rw [hact] at h
        simp only at h
        split at h
        · simp only [List.mem_cons, Prod.mk.injEq] at h
          rcases h with h | h
          · exact absurd h.1 hk
          · exact h
        · exact h
      | default => rw [hact] at h; exact h
      | ignore => rw [hact] at h; exact h

/-- the runs owed to signal `s` -/
def owed (e : Option GrandState) (s : Nat) : List (Nat × Nat) :=
  match e with
  | none => []
  | some g =>
    match g.current.action with
    | .command c => if s ≠ 0 ∧ g.current.pending = true then [(s, c)] else []
    | _ => []

theorem pendingCommands_filter (t : TrapMap) (s : Nat) (hsorted : Sorted t) :
    (pendingCommands t).filter (fun p => p.1 == s) = owed (get t s) s := by
  induction t with
  | nil => rfl
  | cons kv t ih =>
    obtain ⟨k, g⟩ := kv
    obtain ⟨hlo, hs⟩ := hsorted
    have ih := ih hs
    simp only [get]
    by_cases hk : s = k
    · subst hk
      -- nothing in the tail belongs to `s`
      have hnone := lo_get_none hlo
      have htail : (pendingCommands t).filter (fun p => p.1 == s) = [] := by
        rw [ih, hnone]; rfl
      simp only [if_true, pendingCommands, owed]
      cases hact : g.current.action with
      | command c =>
        simp only
        split
        · simp [htail]
        · simp [htail]
      | default => simpa using htail
      | ignore => simpa using htail
    · simp only [hk, if_false]
      rw [← ih]
      simp only [pendingCommands]
      cases hact : g.current.action with
      | command c =>
        simp only
        split
        · have : (k == s) = false := by simp; omega
          simp [this]
        · rfl
      | default => rfl
      | ignore => rfl

end YashModel.Trap
