/-
  C11 — helper lemmas, part 4: the `pending` flag — catch, take, and the trap runner at a command
  boundary.
-/
import YashModel.Trap.Ops
namespace YashModel.Trap

/-- `n` deliveries of the same signal before the next take -/
def catchN (t : TrapMap) (s : Nat) : Nat → TrapMap
  | 0 => t
  | n + 1 => catchN (catchSignal t s) s n

theorem catchSignal_get (t : TrapMap) (s : Nat) (g : GrandState) (h : get t s = some g) :
    get (catchSignal t s) s = some g.markAsCaught := by
  simp [catchSignal, h, get_set]

theorem markAsCaught_idem (g : GrandState) : g.markAsCaught.markAsCaught = g.markAsCaught := rfl

theorem catchN_get (t : TrapMap) (s : Nat) (g : GrandState) (n : Nat) (h : get t s = some g) :
    get (catchN t s (n + 1)) s = some g.markAsCaught := by
  induction n generalizing t g with
  | zero => exact catchSignal_get t s g h
  | succ n ih =>
    have := ih (catchSignal t s) g.markAsCaught (catchSignal_get t s g h)
    rw [markAsCaught_idem] at this
    exact this

theorem sorted_catchN (t : TrapMap) (s n : Nat) (h : Sorted t) : Sorted (catchN t s n) := by
  induction n generalizing t with
  | zero => exact h
  | succ n ih => exact ih _ (sorted_catchSignal _ _ h)

theorem catchN_get_other (t : TrapMap) (s s' n : Nat) (h : s' ≠ s) :
    get (catchN t s n) s' = get t s' := by
  induction n generalizing t with
  | zero => rfl
  | succ n ih =>
    rw [catchN, ih]
    unfold catchSignal
    cases get t s with
    | none => rfl
    | some g => simp [get_set, h]

/-! ### the runner -/

/-- number of signal entries whose trap is pending -/
def npend : TrapMap → Nat
  | [] => 0
  | (k, g) :: t => (if k ≠ 0 ∧ g.current.pending = true then 1 else 0) + npend t

theorem npend_le_length (t : TrapMap) : npend t ≤ t.length := by
  induction t with
  | nil => exact Nat.le_refl 0
  | cons kv t ih =>
    obtain ⟨k, g⟩ := kv
    simp only [npend, List.length_cons]
    split <;> omega

theorem takeCaught_none (t : TrapMap) (h : (takeCaughtSignal t).2 = none) :
    pendingCommands t = [] ∧ npend t = 0 := by
  induction t with
  | nil => exact ⟨rfl, rfl⟩
  | cons kv t ih =>
    obtain ⟨k, g⟩ := kv
    simp only [takeCaughtSignal] at h
    split at h
    · simp at h
    · rename_i hc
      have := ih h
      simp only [pendingCommands, npend, hc, if_false, this]
      cases g.current.action <;> simp

/-- the runs owed to the head entry -/
def owedHead (k : Nat) (g : GrandState) : List (Nat × Nat) :=
  match g.current.action with
  | .command c => if k ≠ 0 ∧ g.current.pending = true then [(k, c)] else []
  | _ => []

theorem pendingCommands_cons (k : Nat) (g : GrandState) (t : TrapMap) :
    pendingCommands ((k, g) :: t) = owedHead k g ++ pendingCommands t := by
  simp only [pendingCommands, owedHead]
  cases g.current.action with
  | command c => simp only; split <;> rfl
  | default => rfl
  | ignore => rfl

theorem handleIfCaught_pending (g : GrandState) (h : g.current.pending = true) :
    g.handleIfCaught.1 = { g with current := { g.current with pending := false } } := by
  simp [GrandState.handleIfCaught, h]

theorem takeCaught_some (t : TrapMap) (k : Nat) (ts : TrapState)
    (h : (takeCaughtSignal t).2 = some (k, ts)) :
    pendingCommands t
      = (match ts.action with
         | .command c => [(k, c)]
         | _ => []) ++ pendingCommands (takeCaughtSignal t).1
    ∧ npend t = npend (takeCaughtSignal t).1 + 1 := by
  induction t with
  | nil => simp [takeCaughtSignal] at h
  | cons kv t ih =>
    obtain ⟨k', g⟩ := kv
    by_cases hc : k' ≠ 0 ∧ g.current.pending = true
    · have he : takeCaughtSignal ((k', g) :: t)
          = ((k', g.handleIfCaught.1) :: t, some (k', { g.current with pending := false })) := by
        simp [takeCaughtSignal, hc]
      rw [he] at h ⊢
      simp only [Option.some.injEq, Prod.mk.injEq] at h
      obtain ⟨hk, hts⟩ := h
      subst hk
      subst hts
      rw [handleIfCaught_pending g hc.2]
      constructor
      · rw [pendingCommands_cons, pendingCommands_cons]
        have hk0 : k' ≠ 0 := hc.1
        simp only [owedHead, hc]
        cases g.current.action <;> simp [hk0]
      · have hk0 : k' ≠ 0 := hc.1
        simp only [npend, hc]
        simp [hk0]
        omega
    · have he : takeCaughtSignal ((k', g) :: t)
          = ((k', g) :: (takeCaughtSignal t).1, (takeCaughtSignal t).2) := by
        simp only [takeCaughtSignal, hc, if_false]
      rw [he] at h ⊢
      have := ih h
      constructor
      · rw [pendingCommands_cons, pendingCommands_cons, this.1]
        have : owedHead k' g = [] := by
          simp only [owedHead, hc, if_false]; cases g.current.action <;> rfl
        simp [this]
      · simp only [npend, hc, if_false, this.2]
        omega

theorem npend_zero_pendingCommands (t : TrapMap) (h : npend t = 0) : pendingCommands t = [] := by
  induction t with
  | nil => rfl
  | cons kv t ih =>
    obtain ⟨k, g⟩ := kv
    simp only [npend] at h
    have h1 : ¬ (k ≠ 0 ∧ g.current.pending = true) := by
      intro hc; simp [hc] at h
    have h2 : npend t = 0 := by
      simp only [h1, if_false] at h; omega
    simp only [pendingCommands, h1, if_false, ih h2]
    cases g.current.action <;> rfl

/-- bodies that leave the trap set alone -/
def MapPreserving (body : Body) : Prop := ∀ c e t, (body c e t).2 = t

/-- bodies that never end in a divert -/
def NoDivert (body : Body) : Prop := ∀ c e t, (body c e t).1.divert = none

theorem runTrap_traps (body : Body) (hm : MapPreserving body) (c : Nat) (e : Int) (t : TrapMap) :
    (runTrap body c e t).2.2 = t := by
  unfold runTrap
  simp only
  split <;> exact hm c e t

theorem runTrap_exit_of_none (body : Body) (c : Nat) (e : Int) (t : TrapMap)
    (h : (runTrap body c e t).2.1 = none) : (runTrap body c e t).1 = e := by
  unfold runTrap at h ⊢
  simp only at h ⊢
  split
  · rename_i st hd; simp [hd] at h
  · rfl

theorem runTrap_nodivert (body : Body) (hb : NoDivert body) (c : Nat) (e : Int) (t : TrapMap) :
    (runTrap body c e t).2.1 = none := by
  unfold runTrap
  simp only
  split
  · rename_i st hd; rw [hb] at hd; cases hd
  · exact hb c e t

/-- Conservation at one boundary, whatever the bodies end in: the actions run plus the actions
    still pending are exactly the actions that were pending, in order (nothing lost, nothing
    duplicated); if the run was not cut short by a divert nothing is left pending and `$?` is kept;
    and if something was due, at least one action ran. -/
theorem drain_conserve (body : Body) (hm : MapPreserving body)
    (fuel : Nat) (t : TrapMap) (exit : Int) (runs : List (Nat × Nat)) (hf : npend t < fuel) :
    (drain body fuel t exit runs).runs ++ pendingCommands (drain body fuel t exit runs).traps
        = runs ++ pendingCommands t
    ∧ ((drain body fuel t exit runs).divert = none →
        npend (drain body fuel t exit runs).traps = 0 ∧ (drain body fuel t exit runs).exit = exit)
    ∧ (pendingCommands t ≠ [] → runs.length < (drain body fuel t exit runs).runs.length)
    ∧ runs.length ≤ (drain body fuel t exit runs).runs.length := by
  induction fuel generalizing t exit runs with
  | zero => omega
  | succ fuel ih =>
    simp only [drain]
    cases h : (takeCaughtSignal t).2 with
    | none =>
      have := takeCaught_none t h
      simp [this]
    | some p =>
      obtain ⟨k, ts⟩ := p
      have hs := takeCaught_some t k ts h
      have hf' : npend (takeCaughtSignal t).1 < fuel := by omega
      simp only
      cases hact : ts.action with
      | command c =>
        simp only
        have htr := runTrap_traps body hm c exit (takeCaughtSignal t).1
        rw [hs.1, hact]
        cases hd : (runTrap body c exit (takeCaughtSignal t).1).2.1 with
        | some d =>
          simp only [htr]
          refine ⟨by simp, by simp, by simp, by simp⟩
        | none =>
          simp only [htr]
          have he := runTrap_exit_of_none body c exit _ hd
          rw [he]
          have := ih (takeCaughtSignal t).1 exit (runs ++ [(k, c)]) hf'
          refine ⟨by simpa using this.1, this.2.1, ?_, ?_⟩
          · intro _
            have := this.2.2.2
            simp only [List.length_append, List.length_cons, List.length_nil] at this
            omega
          · have := this.2.2.2
            simp only [List.length_append, List.length_cons, List.length_nil] at this
            omega
      | default =>
        have := ih (takeCaughtSignal t).1 exit runs hf'
        rw [hs.1, hact]
        simpa using this
      | ignore =>
        have := ih (takeCaughtSignal t).1 exit runs hf'
        rw [hs.1, hact]
        simpa using this

/-- with bodies that do not divert, the loop runs exactly the pending command traps, keeps `$?`
    and leaves nothing pending -/
theorem drain_spec (body : Body) (hm : MapPreserving body) (hb : NoDivert body)
    (fuel : Nat) (t : TrapMap) (exit : Int) (runs : List (Nat × Nat)) (hf : npend t < fuel) :
    (drain body fuel t exit runs).runs = runs ++ pendingCommands t
    ∧ (drain body fuel t exit runs).exit = exit
    ∧ npend (drain body fuel t exit runs).traps = 0
    ∧ (drain body fuel t exit runs).divert = none := by
  have hnd : (drain body fuel t exit runs).divert = none := by
    clear hf
    induction fuel generalizing t exit runs with
    | zero => rfl
    | succ fuel ih =>
      simp only [drain]
      cases h : (takeCaughtSignal t).2 with
      | none => rfl
      | some p =>
        obtain ⟨k, ts⟩ := p
        simp only
        cases hact : ts.action with
        | command c =>
          simp only
          rw [runTrap_nodivert body hb]
          exact ih _ _ _
        | default => exact ih _ _ _
        | ignore => exact ih _ _ _
  have hc := drain_conserve body hm fuel t exit runs hf
  have h0 := hc.2.1 hnd
  have hpc := npend_zero_pendingCommands _ h0.1
  refine ⟨?_, h0.2, h0.1, hnd⟩
  have := hc.1
  rw [hpc, List.append_nil] at this
  exact this

theorem runTrap_interrupt (body : Body) (c : Nat) (e : Int) (t : TrapMap) (x : Int)
    (h : (runTrap body c e t).2.1 = some (.interrupt (some x))) : (runTrap body c e t).1 = x := by
  unfold runTrap at h ⊢
  simp only at h ⊢
  split
  · rename_i st hd
    simp only [hd, Option.some.injEq, Divert.interrupt.injEq] at h
    subst h; rfl
  · rename_i d hne
    simp only at h
    exact absurd h (hne (some x))

/-- a run that ends in `Interrupt(Some(x))` leaves `$?` = `x` -/
theorem drain_interrupt_exit (body : Body) (fuel : Nat) (t : TrapMap) (exit : Int)
    (runs : List (Nat × Nat)) (x : Int)
    (h : (drain body fuel t exit runs).divert = some (.interrupt (some x))) :
    (drain body fuel t exit runs).exit = x := by
  induction fuel generalizing t exit runs with
  | zero => simp [drain] at h
  | succ fuel ih =>
    simp only [drain] at h ⊢
    cases ht : (takeCaughtSignal t).2 with
    | none => rw [ht] at h; simp at h
    | some p =>
      obtain ⟨k, ts⟩ := p
      rw [ht] at h
      simp only at h ⊢
      cases hact : ts.action with
      | command c =>
        rw [hact] at h
        simp only at h ⊢
        cases hd : (runTrap body c exit (takeCaughtSignal t).1).2.1 with
        | some d =>
          rw [hd] at h
          simp only [Option.some.injEq] at h
          simp only
          exact runTrap_interrupt body c exit _ x (by rw [hd, h])
        | none =>
          rw [hd] at h
          exact ih _ _ _ h
      | default => rw [hact] at h; exact ih _ _ _ h
      | ignore => rw [hact] at h; exact ih _ _ _ h

theorem runTraps_conserve (body : Body) (hm : MapPreserving body) (t : TrapMap) (exit : Int) :
    (runTrapsForCaughtSignals body false t exit).runs
        ++ pendingCommands (runTrapsForCaughtSignals body false t exit).traps = pendingCommands t
    ∧ ((runTrapsForCaughtSignals body false t exit).divert = none →
        npend (runTrapsForCaughtSignals body false t exit).traps = 0
        ∧ (runTrapsForCaughtSignals body false t exit).exit = exit)
    ∧ (pendingCommands t ≠ [] → 0 < (runTrapsForCaughtSignals body false t exit).runs.length) := by
  have hf : npend t < t.length + 1 := Nat.lt_succ_of_le (npend_le_length t)
  have := drain_conserve body hm (t.length + 1) t exit [] hf
  simp only [runTrapsForCaughtSignals, Bool.false_eq_true, if_false]
  refine ⟨by simpa using this.1, this.2.1, ?_⟩
  intro hne
  simpa using this.2.2.1 hne

theorem boundaries_conserve (body : Body) (hm : MapPreserving body) (es : List Int) (t : TrapMap)
    (runs : List (Nat × Nat)) :
    (boundaries body es t runs).2 ++ pendingCommands (boundaries body es t runs).1
      = runs ++ pendingCommands t := by
  induction es generalizing t runs with
  | nil => rfl
  | cons e es ih =>
    simp only [boundaries]
    rw [ih, List.append_assoc, (runTraps_conserve body hm t e).1]

theorem boundaries_complete (body : Body) (hm : MapPreserving body) (es : List Int) (t : TrapMap)
    (runs : List (Nat × Nat)) (hlen : (pendingCommands t).length ≤ es.length) :
    pendingCommands (boundaries body es t runs).1 = [] := by
  induction es generalizing t runs with
  | nil =>
    simp only [List.length_nil, Nat.le_zero, List.length_eq_zero_iff] at hlen
    exact hlen
  | cons e es ih =>
    simp only [boundaries]
    apply ih
    have hc := runTraps_conserve body hm t e
    have hl := congrArg List.length hc.1
    simp only [List.length_append, List.length_cons] at hl hlen
    by_cases hne : pendingCommands t = []
    · rw [hne] at hl; simp only [List.length_nil] at hl; omega
    · have := hc.2.2 hne
      omega

/-! ### what is pending for one signal -/

theorem pendingCommands_mem_get (t : TrapMap) (s c : Nat) (h : (s, c) ∈ pendingCommands t) :
    (get t s).isSome = true := by
  induction t with
  | nil => simp [pendingCommands] at h
  | cons kv t ih =>
    obtain ⟨k, g⟩ := kv
    simp only [get]
    by_cases hk : s = k
    · simp [hk]
    · simp only [hk, if_false]
      apply ih
      simp only [pendingCommands] at h
      cases hact : g.current.action with
      | command c' =>
        rw [hact] at h
        simp only at h
        split at h
        · simp only [List.mem_cons, Prod.mk.injEq] at h
          rcases h with h | h
          · exact absurd h.1 hk
          · exact h
        · exact h
      | default => rw [hact] at h; exact h
      | ignore => rw [hact] at h; exact h

/-- the runs owed to signal `s` -/
def owed (e : Option GrandState) (s : Nat) : List (Nat × Nat) :=
  match e with
  | none => []
  | some g =>
    match g.current.action with
    | .command c => if s ≠ 0 ∧ g.current.pending = true then [(s, c)] else []
    | _ => []

theorem pendingCommands_filter (t : TrapMap) (s : Nat) (hsorted : Sorted t) :
    (pendingCommands t).filter (fun p => p.1 == s) = owed (get t s) s := by
  induction t with
  | nil => rfl
  | cons kv t ih =>
    obtain ⟨k, g⟩ := kv
    obtain ⟨hlo, hs⟩ := hsorted
    have ih := ih hs
    simp only [get]
    by_cases hk : s = k
    · subst hk
      -- nothing in the tail belongs to `s`
      have hnone := lo_get_none hlo
      have htail : (pendingCommands t).filter (fun p => p.1 == s) = [] := by
        rw [ih, hnone]; rfl
      simp only [if_true, pendingCommands, owed]
      cases hact : g.current.action with
      | command c =>
        simp only
        split
        · simp [htail]
        · simp [htail]
      | default => simpa using htail
      | ignore => simpa using htail
    · simp only [hk, if_false]
      rw [← ih]
      simp only [pendingCommands]
      cases hact : g.current.action with
      | command c =>
        simp only
        split
        · have : (k == s) = false := by simp; omega
          simp [this]
        · rfl
      | default => rfl
      | ignore => rfl

end YashModel.Trap
