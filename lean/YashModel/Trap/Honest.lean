/-
  C11 — helper lemmas (wave 3): the call record of the system-call layer.  Every operation only appends to
  the record, and the operations that can report a system error report one exactly when one of the
  calls they appended has failed — for every state and every fault plan.
-/
import YashModel.Trap.SyscallLemmas
namespace YashModel.Trap

/-- `after` is `before` plus the record `L` of further calls, of which one failed iff `failed` -/
def Rec (before after : FSys) (failed : Bool) : Prop :=
  ∃ L, after.log = before.log ++ L ∧ anyFailed L = failed

theorem Rec.refl (s : FSys) : Rec s s false := ⟨[], by simp, rfl⟩

theorem Rec.trans {a b c : FSys} {f1 f2 : Bool} (h1 : Rec a b f1) (h2 : Rec b c f2) : Rec a c (f1 || f2) := by
  obtain ⟨L1, e1, g1⟩ := h1
  obtain ⟨L2, e2, g2⟩ := h2
  refine ⟨L1 ++ L2, by rw [e2, e1, List.append_assoc], ?_⟩
  simp only [anyFailed, List.any_append] at g1 g2 ⊢
  rw [g1, g2]

theorem sigmask_rec (s : FSys) (add : Bool) (sig : Nat) :
    Rec s (s.sigmask add sig).2 (!(s.sigmask add sig).1) := by
  unfold FSys.sigmask
  split
  · exact ⟨_, rfl, by simp [anyFailed]⟩
  · exact ⟨_, rfl, by simp [anyFailed]⟩

theorem sigaction_rec (s : FSys) (sig : Nat) (d : Disp) :
    Rec s (s.sigaction sig d).2 ((s.sigaction sig d).1.isNone) := by
  unfold FSys.sigaction
  split
  · exact ⟨_, rfl, by simp [anyFailed]⟩
  · exact ⟨_, rfl, by simp [anyFailed]⟩

theorem setDisposition_rec (s : FSys) (sig : Nat) (d : Disp) :
    Rec s (s.setDisposition sig d).2 ((s.setDisposition sig d).1.isNone) := by
  unfold FSys.setDisposition
  simp only
  by_cases hd : d = .catch
  · simp only [hd, if_true, ne_eq, not_true_eq_false, if_false]
    have h1 := sigmask_rec s true sig
    cases hm : (s.sigmask true sig).1 with
    | false => simpa [hm] using h1
    | true =>
      simp only [hm, Bool.not_true] at h1
      have h2 := sigaction_rec (s.sigmask true sig).2 sig .catch
      simp only [Bool.true_eq_false, if_false]
      cases ha : ((s.sigmask true sig).2.sigaction sig .catch).1 with
      | none => simpa [ha] using h1.trans h2
      | some old => simpa [ha] using h1.trans h2
  · simp only [hd, if_false, ne_eq, not_false_eq_true, if_true, Bool.true_eq_false]
    have h2 := sigaction_rec s sig d
    cases ha : (s.sigaction sig d).1 with
    | none => simpa [ha] using h2
    | some old =>
      simp only [ha, Option.isNone_some] at h2
      have h3 := sigmask_rec (s.sigaction sig d).2 false sig
      simp only
      cases hm : ((s.sigaction sig d).2.sigmask false sig).1 with
      | false => simpa [hm] using h2.trans h3
      | true => simpa [hm] using h2.trans h3


@[simp] theorem base_beq_systemError (e : SetActionError) :
    (SetActionErrorF.base e == SetActionErrorF.systemError) = false := by cases e <;> decide

theorem setActionF_rec (fs : FSys) (e : Option GrandState) (c : Nat) (a : Action) (o : Nat) (ov : Bool) :
    Rec fs (GrandState.setActionF fs e c a o ov).1
      ((GrandState.setActionF fs e c a o ov).2.2 == some .systemError) := by
  unfold GrandState.setActionF
  cases e with
  | none =>
    simp only
    by_cases hc : c ≠ 0
    · rw [if_pos hc]
      have hp : Rec fs (if ov = false then fs.setDisposition c .ignore else (some .default, fs)).2
          ((if ov = false then fs.setDisposition c .ignore else (some Disp.default, fs)).1.isNone) := by
        split
        · exact setDisposition_rec fs c .ignore
        · exact Rec.refl fs
      generalize (if ov = false then fs.setDisposition c .ignore else (some Disp.default, fs)) = p at hp
      cases hp1 : p.1 with
      | none => simpa [hp1] using hp
      | some initial =>
        simp only [hp1, Option.isNone_some] at hp
        simp only
        by_cases hi : ov = false ∧ initial = .ignore
        · simp only [hi, and_self, if_true]
          simpa using hp
        · simp only [hi, if_false]
          have hq : Rec p.2 (if ov = true ∨ a.toDisp ≠ .ignore then p.2.setDisposition c a.toDisp
                else (some Disp.default, p.2)).2
              ((if ov = true ∨ a.toDisp ≠ .ignore then p.2.setDisposition c a.toDisp
                else (some Disp.default, p.2)).1.isNone) := by
            split
            · exact setDisposition_rec _ c _
            · exact Rec.refl _
          generalize (if ov = true ∨ a.toDisp ≠ .ignore then p.2.setDisposition c a.toDisp
                else (some Disp.default, p.2)) = q at hq
          cases hq1 : q.1 with
          | none => simpa [hq1] using hp.trans hq
          | some x => simpa [hq1] using hp.trans hq
    · rw [if_neg hc]
      simpa using Rec.refl fs
  | some g =>
    simp only
    by_cases h1 : ov = false ∧ g.current.action = .ignore ∧ g.current.origin = .inherited
    · simp only [h1, and_self, if_true]
      simpa using Rec.refl fs
    · simp only [h1, if_false]
      have hq : Rec fs (if c ≠ 0 ∧ g.internal.max g.current.action.toDisp ≠ g.internal.max a.toDisp
            then fs.setDisposition c (g.internal.max a.toDisp) else (some Disp.default, fs)).2
          ((if c ≠ 0 ∧ g.internal.max g.current.action.toDisp ≠ g.internal.max a.toDisp
            then fs.setDisposition c (g.internal.max a.toDisp) else (some Disp.default, fs)).1.isNone) := by
        split
        · exact setDisposition_rec _ c _
        · exact Rec.refl _
      generalize (if c ≠ 0 ∧ g.internal.max g.current.action.toDisp ≠ g.internal.max a.toDisp
            then fs.setDisposition c (g.internal.max a.toDisp) else (some Disp.default, fs)) = q at hq
      cases hq1 : q.1 with
      | none => simpa [hq1] using hq
      | some x => simpa [hq1] using hq

theorem setInternalF_rec (fs : FSys) (e : Option GrandState) (s : Nat) (d : Disp) :
    Rec fs (GrandState.setInternalF fs e s d).1 (!(GrandState.setInternalF fs e s d).2.2) := by
  unfold GrandState.setInternalF
  cases e with
  | none =>
    simp only
    by_cases hd : d = .default
    · simp only [hd, if_true]; simpa using Rec.refl fs
    · simp only [hd, if_false]
      have h := setDisposition_rec fs s d
      cases h1 : (fs.setDisposition s d).1 with
      | none => simpa [h1] using h
      | some x => simpa [h1] using h
  | some g =>
    simp only
    have hq : Rec fs (if g.internal.max g.current.action.toDisp ≠ d.max g.current.action.toDisp
          then fs.setDisposition s (d.max g.current.action.toDisp) else (some Disp.default, fs)).2
        ((if g.internal.max g.current.action.toDisp ≠ d.max g.current.action.toDisp
          then fs.setDisposition s (d.max g.current.action.toDisp) else (some Disp.default, fs)).1.isNone) := by
      split
      · exact setDisposition_rec _ s _
      · exact Rec.refl _
    generalize (if g.internal.max g.current.action.toDisp ≠ d.max g.current.action.toDisp
          then fs.setDisposition s (d.max g.current.action.toDisp) else (some Disp.default, fs)) = q at hq
    cases hq1 : q.1 with
    | none => simpa [hq1] using hq
    | some x => simpa [hq1] using hq

theorem seqInternalF_rec (l : List (Nat × Disp)) (st : FState) :
    Rec st.sys (seqInternalF st l).1.sys (!(seqInternalF st l).2) := by
  induction l generalizing st with
  | nil => simpa [seqInternalF] using Rec.refl st.sys
  | cons p l ih =>
    obtain ⟨s, d⟩ := p
    have h1 : Rec st.sys (setInternalF st s d).1.sys (!(setInternalF st s d).2) := by
      unfold setInternalF; exact setInternalF_rec st.sys (get st.traps s) s d
    simp only [seqInternalF]
    cases hx : (setInternalF st s d).2 with
    | false => simpa [hx] using h1
    | true =>
      simp only [hx, Bool.not_true] at h1
      simpa using h1.trans (ih (setInternalF st s d).1)

theorem getDisposition_rec (s : FSys) (sig : Nat) :
    Rec s (s.getDisposition sig).2 ((s.getDisposition sig).1.isNone) := by
  unfold FSys.getDisposition
  split
  · exact ⟨_, rfl, by simp [anyFailed]⟩
  · exact ⟨_, rfl, by simp [anyFailed]⟩

theorem insertF_rec (fs : FSys) (e : Option GrandState) (c : Nat) :
    Rec fs (GrandState.insertFromSystemIfVacantF fs e c).1
      ((GrandState.insertFromSystemIfVacantF fs e c).2.isNone) := by
  unfold GrandState.insertFromSystemIfVacantF
  cases e with
  | some g => simpa using Rec.refl fs
  | none =>
    simp only
    by_cases hc : c ≠ 0
    · rw [if_pos hc]
      have h := getDisposition_rec fs c
      cases h1 : (fs.getDisposition c).1 with
      | none => simpa [h1] using h
      | some d => simpa [h1] using h
    · rw [if_neg hc]
      simpa using Rec.refl fs

theorem peekStateF_rec (st : FState) (c : Nat) :
    Rec st.sys (peekStateF st c).1.sys ((peekStateF st c).2.isNone) := by
  have h := insertF_rec st.sys (get st.traps c) c
  unfold peekStateF
  simp only
  cases h2 : (GrandState.insertFromSystemIfVacantF st.sys (get st.traps c) c).2 with
  | none => simpa [h2] using h
  | some g => simpa [h2] using h

theorem newCalls_of_rec {st st' : FState} {f : Bool} (h : Rec st.sys st'.sys f) :
    anyFailed (newCalls st st') = f := by
  obtain ⟨L, e, g⟩ := h
  unfold newCalls
  rw [e, List.drop_left]
  exact g

/-- for every state of the recording layer (any trap set, any system, ANY fault plan) and every
    operation: the operation reports a system error exactly when one of the calls it made failed -/
theorem honest_step (st : FState) (op : Op) :
    honest (resultF st op) (newCalls st (stepF st op)) = true := by
  have hseq : ∀ l, honest (.ok (seqInternalF st l).2) (newCalls st (seqInternalF st l).1) = true := by
    intro l
    rw [honest, newCalls_of_rec (seqInternalF_rec l st)]
    simp
  cases op with
  | setAction c a o ov =>
    simp only [resultF, stepF, honest]
    have : Rec st.sys (setActionF st c a o ov).1.sys ((setActionF st c a o ov).2 == some .systemError) := by
      unfold setActionF
      by_cases h1 : c = SIGKILL
      · rw [if_pos h1]; simpa using Rec.refl st.sys
      · by_cases h2 : c = SIGSTOP
        · rw [if_neg h1, if_pos h2]; simpa using Rec.refl st.sys
        · simp only [h1, h2, if_false]
          exact setActionF_rec st.sys _ c a o ov
    rw [newCalls_of_rec this]
    simp
  | enableChld => exact hseq _
  | enableTerminators => exact hseq _
  | enableStoppers => exact hseq _
  | disableTerminators => exact hseq _
  | disableStoppers => exact hseq _
  | disableAll => exact hseq _
  | enterSubshell ii ks => rfl
  | peek c =>
    simp only [resultF, stepF, honest]
    rw [newCalls_of_rec (peekStateF_rec st c)]
    cases (peekStateF st c).2 <;> rfl
  | catchSignal s => rfl
  | takeCaught => rfl
  | takeIfCaught s => rfl
  | deliver s => rfl


/-! ### the record only grows (every operation, also those that drop errors) -/

/-- `after` is `before` plus further calls -/
def Grows (a b : FSys) : Prop := ∃ L, b.log = a.log ++ L

theorem Grows.refl (a : FSys) : Grows a a := ⟨[], by simp⟩
theorem Grows.trans {a b c : FSys} (h1 : Grows a b) (h2 : Grows b c) : Grows a c := by
  obtain ⟨L1, e1⟩ := h1; obtain ⟨L2, e2⟩ := h2
  exact ⟨L1 ++ L2, by rw [e2, e1, List.append_assoc]⟩
theorem Rec.grows {a b : FSys} {f : Bool} (h : Rec a b f) : Grows a b := by
  obtain ⟨L, e, _⟩ := h; exact ⟨L, e⟩

theorem enterSubshellF_grows (fs : FSys) (g : GrandState) (c : Nat) (opt : SubOpt) :
    Grows fs (g.enterSubshellF fs c opt).1 := by
  unfold GrandState.enterSubshellF
  simp only
  have hq : Grows fs (if g.internal.max g.current.action.toDisp ≠ g.enterNewDisp opt ∧ c ≠ 0
        then fs.setDisposition c (g.enterNewDisp opt) else (some Disp.default, fs)).2 := by
    split
    · exact (setDisposition_rec _ c _).grows
    · exact Grows.refl _
  generalize (if g.internal.max g.current.action.toDisp ≠ g.enterNewDisp opt ∧ c ≠ 0
        then fs.setDisposition c (g.enterNewDisp opt) else (some Disp.default, fs)) = q at hq
  cases hq1 : q.1 <;> simpa [hq1] using hq

theorem enterAllF_grows (ii ks : Bool) (t : TrapMap) (fs : FSys) : Grows fs (enterAllF fs ii ks t).1 := by
  induction t generalizing fs with
  | nil => exact Grows.refl fs
  | cons kv t ih =>
    obtain ⟨k, g⟩ := kv
    simp only [enterAllF]
    exact (enterSubshellF_grows fs g k _).trans (ih _)

theorem ignoreIfVacantF_grows (st : FState) (s : Nat) : Grows st.sys (ignoreIfVacantF st s).sys := by
  unfold ignoreIfVacantF
  cases hg : get st.traps s with
  | some g => exact Grows.refl _
  | none =>
    simp only
    unfold GrandState.ignoreF
    simp only
    have := (setDisposition_rec st.sys s .ignore).grows
    cases h1 : (st.sys.setDisposition s .ignore).1 <;> simpa [h1] using this

theorem log_grows (st : FState) (op : Op) : ∃ L, (stepF st op).sys.log = st.sys.log ++ L := by
  show Grows st.sys (stepF st op).sys
  cases op with
  | setAction c a o ov =>
    simp only [stepF]
    unfold setActionF
    by_cases h1 : c = SIGKILL
    · rw [if_pos h1]; exact Grows.refl _
    · by_cases h2 : c = SIGSTOP
      · rw [if_neg h1, if_pos h2]; exact Grows.refl _
      · rw [if_neg h1, if_neg h2]; exact (setActionF_rec st.sys _ c a o ov).grows
  | enableChld => exact (seqInternalF_rec _ st).grows
  | enableTerminators => exact (seqInternalF_rec _ st).grows
  | enableStoppers => exact (seqInternalF_rec _ st).grows
  | disableTerminators => exact (seqInternalF_rec _ st).grows
  | disableStoppers => exact (seqInternalF_rec _ st).grows
  | disableAll => exact (seqInternalF_rec _ st).grows
  | enterSubshell ii ks =>
    simp only [stepF]
    unfold enterSubshellF
    have h0 := enterAllF_grows ii ks (clearParents st.traps) st.sys
    cases ii with
    | false => simpa using h0
    | true =>
      simp only [if_true]
      exact (h0.trans (ignoreIfVacantF_grows _ SIGINT)).trans (ignoreIfVacantF_grows _ SIGQUIT)
  | peek c => exact (peekStateF_rec st c).grows
  | catchSignal s => exact Grows.refl _
  | takeCaught => exact Grows.refl _
  | takeIfCaught s => exact Grows.refl _
  | deliver s => exact Grows.refl _

end YashModel.Trap
