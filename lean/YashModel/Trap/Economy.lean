/-
  C11 — helper lemmas (wave 3): the calls of every operation in a faultless history.  `callsOf` = the record of
  a sequence of successful `set_disposition` calls; `Installs` = one state is another after such a sequence;
  `Good` = every install spares KILL/STOP and, on a signal the trap set knows, changes the installed
  disposition.  Each operation of the history alphabet is such a sequence (`*_installs`), hence the Spec
  predicates of SyscallSpec.lean hold of its calls (`good_verdict`).
-/
import YashModel.Trap.Honest
import YashModel.Trap.KillStop
import YashModel.Trap.SyscallLemmas
namespace YashModel.Trap

/-- the record of a sequence of successful `set_disposition(sig, d)` calls, starting from `sys` -/
def callsOf (sys : Sys) : List (Nat × Disp) → List Call
  | [] => []
  | (s, d) :: r => dispCalls sys s d ++ callsOf (sys.setDisposition s d).2 r

def sysAfter (sys : Sys) : List (Nat × Disp) → Sys
  | [] => sys
  | (s, d) :: r => sysAfter (sys.setDisposition s d).2 r

theorem callsOf_append (sys : Sys) (p q : List (Nat × Disp)) :
    callsOf sys (p ++ q) = callsOf sys p ++ callsOf (sysAfter sys p) q := by
  induction p generalizing sys with
  | nil => rfl
  | cons a p ih => obtain ⟨s, d⟩ := a; simp [callsOf, sysAfter, ih, List.append_assoc]

theorem sysAfter_append (sys : Sys) (p q : List (Nat × Disp)) :
    sysAfter sys (p ++ q) = sysAfter (sysAfter sys p) q := by
  induction p generalizing sys with
  | nil => rfl
  | cons a p ih => obtain ⟨s, d⟩ := a; simp [sysAfter, ih]

/-- the faultless relation: `b` is `a` after the installs `ps` -/
def Installs (a b : FSys) (ps : List (Nat × Disp)) : Prop :=
  b.log = a.log ++ callsOf a.sys ps ∧ b.sys = sysAfter a.sys ps ∧ b.plan = []

theorem Installs.refl (a : FSys) (h : a.plan = []) : Installs a a [] := ⟨by simp [callsOf], rfl, h⟩

theorem Installs.trans {a b c : FSys} {p q : List (Nat × Disp)} (h1 : Installs a b p) (h2 : Installs b c q) :
    Installs a c (p ++ q) := by
  obtain ⟨l1, s1, _⟩ := h1
  obtain ⟨l2, s2, p2⟩ := h2
  refine ⟨?_, ?_, p2⟩
  · rw [l2, l1, s1, callsOf_append, List.append_assoc]
  · rw [s2, s1, sysAfter_append]

theorem installs_setDisposition (fs : FSys) (h : fs.plan = []) (s : Nat) (d : Disp) :
    Installs fs (fs.setDisposition s d).2 [(s, d)] := by
  obtain ⟨e1, e2, _, e4⟩ := setDispositionF_nofault_sys fs h s d
  exact ⟨by simp [e4, callsOf], by simp [e1, sysAfter], e2⟩

/-- every install spares KILL/STOP and, on a signal the trap set `traps` knows, changes the disposition -/
def Good (traps : TrapMap) : Sys → List (Nat × Disp) → Prop
  | _, [] => True
  | sys, (s, d) :: r =>
    s ≠ SIGKILL ∧ s ≠ SIGSTOP ∧ ((get traps s).isSome → d ≠ sys.disp s) ∧ Good traps (sys.setDisposition s d).2 r

theorem good_append (traps : TrapMap) (sys : Sys) (p q : List (Nat × Disp))
    (h1 : Good traps sys p) (h2 : Good traps (sysAfter sys p) q) : Good traps sys (p ++ q) := by
  induction p generalizing sys with
  | nil => exact h2
  | cons a p ih =>
    obtain ⟨s, d⟩ := a
    obtain ⟨a1, a2, a3, a4⟩ := h1
    exact ⟨a1, a2, a3, ih _ a4 h2⟩

theorem wellBracketed_append2 (a b : Call) (L : List Call) :
    wellBracketed (a :: b :: L) = (wellBracketed [a, b] && wellBracketed L) := by
  simp [wellBracketed]

theorem good_verdict (traps : TrapMap) (sys : Sys) (ps : List (Nat × Disp)) (h : Good traps sys ps) :
    economical traps (callsOf sys ps) = true ∧ sparesKillStop (callsOf sys ps) = true
    ∧ wellBracketed (writes (callsOf sys ps)) = true ∧ anyFailed (callsOf sys ps) = false := by
  induction ps generalizing sys with
  | nil => simp [callsOf, economical, sparesKillStop, wellBracketed, writes, anyFailed]
  | cons a ps ih =>
    obtain ⟨s, d⟩ := a
    obtain ⟨h1, h2, h3, h4⟩ := h
    obtain ⟨i1, i2, i3, i4⟩ := ih _ h4
    simp only [economical, sparesKillStop, anyFailed, writes] at i1 i2 i3 i4 ⊢
    simp only [callsOf, List.all_append, List.any_append, List.filter_append, i1, i2, i4, Bool.and_true, Bool.or_false]
    by_cases hc : d = .catch
    · subst hc
      refine ⟨?_, ?_, ?_, ?_⟩
      · simp only [dispCalls, if_true, List.all_cons, List.all_nil, Call.needless, Call.sig, Bool.and_true]
        cases hk : (get traps s).isSome with
        | false => simp
        | true =>
          have := h3 hk
          simp only [Bool.not_false, Bool.true_and, Bool.and_true, Bool.not_eq_true',
            beq_eq_false_iff_ne, ne_eq]
          exact fun e => this e.symm
      · simp [dispCalls, h1, h2]
      · simp only [dispCalls, if_true, List.filter_cons, List.filter_nil]
        simp only [List.cons_append, List.nil_append]
        rw [wellBracketed_append2]
        simp [wellBracketed, i3]
      · simp [dispCalls]
    · refine ⟨?_, ?_, ?_, ?_⟩
      · simp only [dispCalls, hc, if_false, List.all_cons, List.all_nil, Call.needless, Call.sig, Bool.and_true]
        cases hk : (get traps s).isSome with
        | false => simp
        | true =>
          have := h3 hk
          simp only [Bool.true_and, Bool.and_true, Bool.not_false, Bool.not_eq_true',
            beq_eq_false_iff_ne, ne_eq]
          exact fun e => this e.symm
      · simp [dispCalls, hc, h1, h2]
      · simp only [dispCalls, hc, if_false, List.filter_cons, List.filter_nil]
        simp only [↓reduceIte, List.cons_append, List.nil_append]
        rw [wellBracketed_append2]
        simp [wellBracketed, i3, hc]
      · simp [dispCalls, hc]


/-- strong goodness: every install spares KILL/STOP and changes the installed disposition -/
def GoodS : Sys → List (Nat × Disp) → Prop
  | _, [] => True
  | sys, (s, d) :: r => s ≠ SIGKILL ∧ s ≠ SIGSTOP ∧ d ≠ sys.disp s ∧ GoodS (sys.setDisposition s d).2 r

theorem good_of_goodS (traps : TrapMap) (sys : Sys) (ps : List (Nat × Disp)) (h : GoodS sys ps) :
    Good traps sys ps := by
  induction ps generalizing sys with
  | nil => trivial
  | cons a ps ih => obtain ⟨s, d⟩ := a; exact ⟨h.1, h.2.1, fun _ => h.2.2.1, ih _ h.2.2.2⟩

/-- goodness on an unknown signal -/
theorem good_unknown (traps : TrapMap) (sys : Sys) (s : Nat) (hs : get traps s = none)
    (h1 : s ≠ SIGKILL) (h2 : s ≠ SIGSTOP) (ds : List Disp) :
    Good traps sys (ds.map fun d => (s, d)) := by
  induction ds generalizing sys with
  | nil => trivial
  | cons d ds ih => exact ⟨h1, h2, by simp [hs], ih _⟩

/-- `GrandState::set_action` without faults: the calls are installs; on a known entry whose installed
    disposition is the merge there is at most one and it changes the disposition; on an unknown signal
    they all concern that signal -/
theorem setActionF_installs (fs : FSys) (hp : fs.plan = []) (e : Option GrandState) (c : Nat) (a : Action)
    (o : Nat) (ov : Bool) (h1 : c ≠ SIGKILL) (h2 : c ≠ SIGSTOP)
    (hinst : ∀ g, e = some g → c ≠ 0 → fs.sys.disp c = g.internal.max g.current.action.toDisp) :
    ∃ ps, Installs fs (GrandState.setActionF fs e c a o ov).1 ps
      ∧ (e.isSome → GoodS fs.sys ps) ∧ (e = none → ∃ ds : List Disp, ps = ds.map fun d => (c, d)) := by
  unfold GrandState.setActionF
  cases e with
  | some g =>
    simp only
    by_cases hr : ov = false ∧ g.current.action = .ignore ∧ g.current.origin = .inherited
    · rw [if_pos hr]; exact ⟨[], Installs.refl fs hp, fun _ => trivial, fun h => by cases h⟩
    · rw [if_neg hr]
      by_cases hc : c ≠ 0 ∧ g.internal.max g.current.action.toDisp ≠ g.internal.max a.toDisp
      · rw [if_pos hc]
        have hi := installs_setDisposition fs hp c (g.internal.max a.toDisp)
        have hsome : (fs.setDisposition c (g.internal.max a.toDisp)).1 = some (fs.sys.disp c) :=
          (setDispositionF_nofault_sys fs hp c _).2.2.1
        refine ⟨[(c, g.internal.max a.toDisp)], by simpa [hsome] using hi, fun _ => ⟨h1, h2, ?_, trivial⟩, fun h => by cases h⟩
        rw [hinst g rfl hc.1]; exact fun h => hc.2 h.symm
      · rw [if_neg hc]; exact ⟨[], Installs.refl fs hp, fun _ => trivial, fun h => by cases h⟩
  | none =>
    simp only
    by_cases hc : c ≠ 0
    · rw [if_pos hc]
      cases ov with
      | true =>
        simp only [Bool.true_eq_false, if_false, false_and, true_or, if_true]
        have hi := installs_setDisposition fs hp c a.toDisp
        have hsome : (fs.setDisposition c a.toDisp).1 = some (fs.sys.disp c) :=
          (setDispositionF_nofault_sys fs hp c _).2.2.1
        exact ⟨[(c, a.toDisp)], by simpa [hsome] using hi, fun h => by simp at h, fun _ => ⟨[a.toDisp], rfl⟩⟩
      | false =>
        simp only [if_true, true_and, Bool.false_eq_true, false_or]
        have hi := installs_setDisposition fs hp c .ignore
        have hsome : (fs.setDisposition c .ignore).1 = some (fs.sys.disp c) :=
          (setDispositionF_nofault_sys fs hp c _).2.2.1
        rw [hsome]
        simp only
        by_cases hig : fs.sys.disp c = .ignore
        · rw [if_pos hig]; exact ⟨[(c, .ignore)], hi, fun h => by simp at h, fun _ => ⟨[.ignore], rfl⟩⟩
        · rw [if_neg hig]
          by_cases hd : a.toDisp ≠ .ignore
          · rw [if_pos hd]
            have hp2 : (fs.setDisposition c .ignore).2.plan = [] := hi.2.2
            have hi2 := installs_setDisposition _ hp2 c a.toDisp
            have hsome2 : ((fs.setDisposition c .ignore).2.setDisposition c a.toDisp).1
                = some ((fs.setDisposition c .ignore).2.sys.disp c) :=
              (setDispositionF_nofault_sys _ hp2 c _).2.2.1
            rw [hsome2]
            exact ⟨[(c, .ignore), (c, a.toDisp)], hi.trans hi2, fun h => by simp at h, fun _ => ⟨[.ignore, a.toDisp], rfl⟩⟩
          · rw [if_neg hd]; exact ⟨[(c, .ignore)], hi, fun h => by simp at h, fun _ => ⟨[.ignore], rfl⟩⟩
    · rw [if_neg hc]; exact ⟨[], Installs.refl fs hp, fun h => by simp at h, fun _ => ⟨[], rfl⟩⟩


theorem setInternalF_installs (fs : FSys) (hp : fs.plan = []) (e : Option GrandState) (s : Nat) (d : Disp)
    (h1 : s ≠ SIGKILL) (h2 : s ≠ SIGSTOP)
    (hinst : ∀ g, e = some g → fs.sys.disp s = g.internal.max g.current.action.toDisp) :
    ∃ ps, Installs fs (GrandState.setInternalF fs e s d).1 ps
      ∧ (e.isSome → GoodS fs.sys ps) ∧ (e = none → ∃ ds : List Disp, ps = ds.map fun d => (s, d)) := by
  unfold GrandState.setInternalF
  cases e with
  | none =>
    simp only
    by_cases hd : d = .default
    · rw [if_pos hd]; exact ⟨[], Installs.refl fs hp, fun h => by simp at h, fun _ => ⟨[], rfl⟩⟩
    · rw [if_neg hd]
      have hi := installs_setDisposition fs hp s d
      have hsome : (fs.setDisposition s d).1 = some (fs.sys.disp s) := (setDispositionF_nofault_sys fs hp s _).2.2.1
      rw [hsome]
      exact ⟨[(s, d)], hi, fun h => by simp at h, fun _ => ⟨[d], rfl⟩⟩
  | some g =>
    simp only
    by_cases hc : g.internal.max g.current.action.toDisp ≠ d.max g.current.action.toDisp
    · rw [if_pos hc]
      have hi := installs_setDisposition fs hp s (d.max g.current.action.toDisp)
      have hsome : (fs.setDisposition s (d.max g.current.action.toDisp)).1 = some (fs.sys.disp s) :=
        (setDispositionF_nofault_sys fs hp s _).2.2.1
      rw [hsome]
      refine ⟨[(s, d.max g.current.action.toDisp)], hi, fun _ => ⟨h1, h2, ?_, trivial⟩, fun h => by cases h⟩
      rw [hinst g rfl]; exact fun h => hc h.symm
    · rw [if_neg hc]; exact ⟨[], Installs.refl fs hp, fun _ => trivial, fun h => by cases h⟩

theorem newCalls_of_installs {st st' : FState} {ps : List (Nat × Disp)} (h : Installs st.sys st'.sys ps) :
    newCalls st st' = callsOf st.sys.sys ps := by
  unfold newCalls; rw [h.1, List.drop_left]

/-- the internal-disposition sequences: signals pairwise distinct, none KILL/STOP/0 -/
theorem seqInternalF_installs (init : Nat → Disp) (hinit : ∀ s, init s ≠ .catch) (T0 : TrapMap)
    (l : List (Nat × Disp)) (hnd : (l.map (·.1)).Nodup)
    (hks : ∀ p ∈ l, p.1 ≠ SIGKILL ∧ p.1 ≠ SIGSTOP ∧ p.1 ≠ 0)
    (st : FState) (hp : st.sys.plan = []) (hinv : Inv init st.toState)
    (hT : ∀ p ∈ l, get st.traps p.1 = get T0 p.1) :
    ∃ ps, Installs st.sys (seqInternalF st l).1.sys ps ∧ Good T0 st.sys.sys ps := by
  induction l generalizing st with
  | nil => exact ⟨[], Installs.refl _ hp, trivial⟩
  | cons p l ih =>
    obtain ⟨s, d⟩ := p
    have hs := hks (s, d) (List.mem_cons_self ..)
    have hget := hT (s, d) (List.mem_cons_self ..)
    simp only at hs hget
    obtain ⟨ps1, i1, g1, g1'⟩ := setInternalF_installs st.sys hp (get st.traps s) s d hs.1 hs.2.1 (by
      intro g hg
      have := hinv.disp s hs.2.2
      simp only [FState.toState] at this
      rw [this, hg]; rfl)
    obtain ⟨e1, e2, e3⟩ := setInternalT_nofault st hp s d
    have hst1 : (setInternalF st s d).1.sys = (GrandState.setInternalF st.sys (get st.traps s) s d).1 := rfl
    simp only [seqInternalF, e3, if_true]
    have hinv1 : Inv init (setInternalF st s d).1.toState := by rw [e1]; exact inv_setInternal init hinit _ s d hinv
    simp only [List.map_cons, List.nodup_cons] at hnd
    obtain ⟨ps2, i2, g2⟩ := ih hnd.2 (fun p hp' => hks p (List.mem_cons_of_mem _ hp')) (setInternalF st s d).1 e2 hinv1 (by
      intro p hp'
      have hne : p.1 ≠ s := by
        intro h; exact hnd.1 (h ▸ List.mem_map_of_mem hp')
      have := hT p (List.mem_cons_of_mem _ hp')
      rw [← this]
      show get (setOpt st.traps s _) p.1 = _
      rw [get_setOpt]; simp [hne])
    refine ⟨ps1 ++ ps2, (hst1 ▸ i1).trans i2, ?_⟩
    apply good_append
    · cases hg : get st.traps s with
      | some g => exact good_of_goodS _ _ _ (g1 (by simp [hg]))
      | none =>
        obtain ⟨ds, rfl⟩ := g1' hg
        exact good_unknown T0 _ s (by rw [← hget, hg]) hs.1 hs.2.1 ds
    · have : sysAfter st.sys.sys ps1 = (setInternalF st s d).1.sys.sys := by rw [hst1, i1.2.1]
      rw [this]; exact g2


theorem goodS_append (sys : Sys) (p q : List (Nat × Disp))
    (h1 : GoodS sys p) (h2 : GoodS (sysAfter sys p) q) : GoodS sys (p ++ q) := by
  induction p generalizing sys with
  | nil => exact h2
  | cons a p ih =>
    obtain ⟨s, d⟩ := a
    obtain ⟨a1, a2, a3, a4⟩ := h1
    exact ⟨a1, a2, a3, ih _ a4 h2⟩

def merge (g : GrandState) : Disp := g.internal.max g.current.action.toDisp

theorem enterSubshellF_installs (fs : FSys) (hp : fs.plan = []) (g : GrandState) (k : Nat) (opt : SubOpt)
    (hinst : k ≠ 0 → fs.sys.disp k = merge g)
    (hks : IsKillStop k → merge g = g.enterNewDisp opt) :
    ∃ ps, Installs fs (g.enterSubshellF fs k opt).1 ps ∧ GoodS fs.sys ps
      ∧ ∀ k', k' ≠ k → (sysAfter fs.sys ps).disp k' = fs.sys.disp k' := by
  unfold GrandState.enterSubshellF
  simp only
  by_cases hc : g.internal.max g.current.action.toDisp ≠ g.enterNewDisp opt ∧ k ≠ 0
  · rw [if_pos hc]
    have hi := installs_setDisposition fs hp k (g.enterNewDisp opt)
    have hsome : (fs.setDisposition k (g.enterNewDisp opt)).1 = some (fs.sys.disp k) :=
      (setDispositionF_nofault_sys fs hp k _).2.2.1
    rw [hsome]
    have hnk : ¬ IsKillStop k := fun h => hc.1 (hks h)
    refine ⟨[(k, g.enterNewDisp opt)], hi, ⟨fun h => hnk (Or.inl h), fun h => hnk (Or.inr h), ?_, trivial⟩, ?_⟩
    · rw [hinst hc.2]; exact fun h => hc.1 h.symm
    · intro k' hk'
      simp only [sysAfter, setDisposition_disp, hk', if_false]
  · rw [if_neg hc]
    exact ⟨[], Installs.refl fs hp, trivial, fun _ _ => rfl⟩

theorem enterAllF_installs (ii ks : Bool) (t : TrapMap) (hs : Sorted t) (fs : FSys) (hp : fs.plan = [])
    (H : ∀ k g, get t k = some g → k ≠ 0 → fs.sys.disp k = merge g)
    (HK : ∀ k g, get t k = some g → IsKillStop k → merge g = g.enterNewDisp (subshellOption k g ii ks)) :
    ∃ ps, Installs fs (enterAllF fs ii ks t).1 ps ∧ GoodS fs.sys ps
      ∧ ∀ k', get t k' = none → (sysAfter fs.sys ps).disp k' = fs.sys.disp k' := by
  induction t generalizing fs with
  | nil => exact ⟨[], Installs.refl fs hp, trivial, fun _ _ => rfl⟩
  | cons kv rest ih =>
    obtain ⟨k, g⟩ := kv
    obtain ⟨hlo, hs'⟩ := hs
    have hgk : get ((k, g) :: rest) k = some g := by simp [get]
    obtain ⟨ps1, i1, g1, d1⟩ := enterSubshellF_installs fs hp g k (subshellOption k g ii ks)
      (H k g hgk) (HK k g hgk)
    have hsys1 : (g.enterSubshellF fs k (subshellOption k g ii ks)).1.sys = sysAfter fs.sys ps1 := i1.2.1
    have hrest : ∀ k' g', get rest k' = some g' → k' ≠ k ∧ get ((k, g) :: rest) k' = some g' := by
      intro k' g' h
      have hlt := hlo k' g' h
      have hne : k' ≠ k := by omega
      exact ⟨hne, by simp [get, hne, h]⟩
    obtain ⟨ps2, i2, g2, d2⟩ := ih hs' (g.enterSubshellF fs k (subshellOption k g ii ks)).1 i1.2.2
      (by
        intro k' g' h h0
        obtain ⟨hne, hg'⟩ := hrest k' g' h
        rw [hsys1, d1 k' hne]; exact H k' g' hg' h0)
      (by
        intro k' g' h hk
        exact HK k' g' (hrest k' g' h).2 hk)
    simp only [enterAllF]
    refine ⟨ps1 ++ ps2, i1.trans i2, goodS_append _ _ _ g1 (by rw [← hsys1]; exact g2), ?_⟩
    intro k' hnone
    have hne : k' ≠ k := by
      intro h; subst h; rw [hgk] at hnone; cases hnone
    have hr : get rest k' = none := by simpa [get, hne] using hnone
    rw [sysAfter_append, ← hsys1, d2 k' hr, hsys1, d1 k' hne]


theorem verdict_of_installs (st st' : FState) (ps : List (Nat × Disp))
    (hi : Installs st.sys st'.sys ps) (hg : Good st.traps st.sys.sys ps) :
    economical st.traps (newCalls st st') = true ∧ sparesKillStop (newCalls st st') = true
    ∧ wellBracketed (writes (newCalls st st')) = true ∧ anyFailed (newCalls st st') = false := by
  rw [newCalls_of_installs hi]; exact good_verdict _ _ _ hg

theorem merge_clearParent (g : GrandState) : merge g.clearParent = merge g := rfl

theorem fromInitial_not_command (d : Disp) : (TrapState.fromInitial d).action.isCommand = false := by
  cases d <;> rfl

theorem untouched_no_call (init : Disp) (g : GrandState) (hU : Untouched init (some g)) :
    merge g.clearParent = g.clearParent.enterNewDisp .clear := by
  obtain ⟨h1, h2, _⟩ := hU g rfl
  obtain ⟨⟨a, o, p⟩, par, i⟩ := g
  simp only at h1 h2
  subst h1
  have hnc := fromInitial_not_command init
  cases a with
  | command c => rw [← h2] at hnc; cases hnc
  | default => rfl
  | ignore => rfl

theorem ignoreIfVacantF_installs (T0 : TrapMap) (stx : FState) (hpx : stx.sys.plan = []) (s : Nat)
    (h1 : s ≠ SIGKILL) (h2 : s ≠ SIGSTOP) (hT : get stx.traps s = none → get T0 s = none) :
    ∃ ps, Installs stx.sys (ignoreIfVacantF stx s).sys ps ∧ Good T0 stx.sys.sys ps
      ∧ ∀ k, k ≠ s → get (ignoreIfVacantF stx s).traps k = get stx.traps k := by
  unfold ignoreIfVacantF
  cases hg : get stx.traps s with
  | some g => exact ⟨[], Installs.refl _ hpx, trivial, fun _ _ => rfl⟩
  | none =>
    simp only
    unfold GrandState.ignoreF
    have hi := installs_setDisposition stx.sys hpx s .ignore
    have hsome : (stx.sys.setDisposition s .ignore).1 = some (stx.sys.sys.disp s) :=
      (setDispositionF_nofault_sys stx.sys hpx s _).2.2.1
    simp only [hsome]
    refine ⟨[(s, .ignore)], hi, good_unknown T0 _ s (hT hg) h1 h2 [.ignore], ?_⟩
    intro k hk
    simp [setOpt, get_set, hk]

theorem faultless_calls_clean_aux (init : Nat → Disp) (hinit : ∀ s, init s ≠ .catch) (ops : List Op) (op : Op) :
    let st := runF (FState.init init []) ops
    economical st.traps (newCalls st (stepF st op)) = true
    ∧ sparesKillStop (newCalls st (stepF st op)) = true
    ∧ wellBracketed (writes (newCalls st (stepF st op))) = true
    ∧ anyFailed (newCalls st (stepF st op)) = false := by
  intro st
  have href := runF_nofault ops (FState.init init []) rfl
  have hinit0 : (FState.init init []).toState = State.init init := rfl
  rw [hinit0] at href
  have hp : st.sys.plan = [] := href.2
  have hinv : Inv init st.toState := by
    rw [href.1]; exact inv_run init hinit ops _ (inv_init_state init hinit)
  have hU : ∀ k, IsKillStop k → Untouched (init k) (get st.traps k) := by
    intro k hk
    have := untouched_run init hinit k hk ops _ (inv_init_state init hinit) (untouched_none _)
    rw [← href.1] at this; exact this
  have hdisp : ∀ k g, get st.traps k = some g → k ≠ 0 → st.sys.sys.disp k = merge g := by
    intro k g hg h0
    have := hinv.disp k h0
    simp only [FState.toState] at this
    rw [this, hg]; rfl
  have hnil : ∀ st' : FState, st'.sys = st.sys → 
      economical st.traps (newCalls st st') = true ∧ sparesKillStop (newCalls st st') = true
      ∧ wellBracketed (writes (newCalls st st')) = true ∧ anyFailed (newCalls st st') = false := by
    intro st' h
    have hi : Installs st.sys st'.sys [] := by rw [h]; exact Installs.refl _ hp
    exact verdict_of_installs st st' [] hi trivial
  have hseq : ∀ l : List (Nat × Disp), (l.map (·.1)).Nodup →
      (∀ p ∈ l, p.1 ≠ SIGKILL ∧ p.1 ≠ SIGSTOP ∧ p.1 ≠ 0) →
      economical st.traps (newCalls st (seqInternalF st l).1) = true
      ∧ sparesKillStop (newCalls st (seqInternalF st l).1) = true
      ∧ wellBracketed (writes (newCalls st (seqInternalF st l).1)) = true
      ∧ anyFailed (newCalls st (seqInternalF st l).1) = false := by
    intro l hnd hks
    obtain ⟨ps, hi, hg⟩ := seqInternalF_installs init hinit st.traps l hnd hks st hp hinv (fun _ _ => rfl)
    exact verdict_of_installs st _ ps hi hg
  cases op with
  | setAction c a o ov =>
    simp only [stepF]
    unfold setActionF
    by_cases h1 : c = SIGKILL
    · rw [if_pos h1]; exact hnil st rfl
    · by_cases h2 : c = SIGSTOP
      · rw [if_neg h1, if_pos h2]; exact hnil st rfl
      · rw [if_neg h1, if_neg h2]
        obtain ⟨ps, hi, g1, g2⟩ := setActionF_installs st.sys hp (get (clearParents st.traps) c) c a o ov h1 h2 (by
          intro g hg h0
          rw [get_clearParents] at hg
          cases hg0 : get st.traps c with
          | none => rw [hg0] at hg; cases hg
          | some g0 =>
            rw [hg0] at hg
            simp only [Option.map_some, Option.some.injEq] at hg
            subst hg
            exact hdisp c g0 hg0 h0)
        apply verdict_of_installs st _ ps hi
        cases hg0 : get st.traps c with
        | none =>
          obtain ⟨ds, rfl⟩ := g2 (by rw [get_clearParents, hg0]; rfl)
          exact good_unknown _ _ c hg0 h1 h2 ds
        | some g0 => exact good_of_goodS _ _ _ (g1 (by rw [get_clearParents, hg0]; rfl))
  | enableChld => exact hseq _ (by decide) (by decide)
  | enableTerminators => exact hseq _ (by decide) (by decide)
  | enableStoppers => exact hseq _ (by decide) (by decide)
  | disableTerminators => exact hseq _ (by decide) (by decide)
  | disableStoppers => exact hseq _ (by decide) (by decide)
  | disableAll => exact hseq _ (by decide) (by decide)
  | enterSubshell ii ks =>
    simp only [stepF]
    unfold enterSubshellF
    have H : ∀ k g, get (clearParents st.traps) k = some g → k ≠ 0 → st.sys.sys.disp k = merge g := by
      intro k g hg h0
      rw [get_clearParents] at hg
      cases hg0 : get st.traps k with
      | none => rw [hg0] at hg; cases hg
      | some g0 =>
        rw [hg0] at hg
        simp only [Option.map_some, Option.some.injEq] at hg
        subst hg
        rw [merge_clearParent]; exact hdisp k g0 hg0 h0
    have HK : ∀ k g, get (clearParents st.traps) k = some g → IsKillStop k →
        merge g = g.enterNewDisp (subshellOption k g ii ks) := by
      intro k g hg hk
      rw [get_clearParents] at hg
      cases hg0 : get st.traps k with
      | none => rw [hg0] at hg; cases hg
      | some g0 =>
        rw [hg0] at hg
        simp only [Option.map_some, Option.some.injEq] at hg
        subst hg
        rw [subshellOption_killStop hk]
        have := hU k hk
        rw [hg0] at this
        exact untouched_no_call (init k) g0 this
    obtain ⟨ps, hi, hg, _⟩ := enterAllF_installs ii ks (clearParents st.traps)
      (sorted_clearParents _ hinv.sorted) st.sys hp H HK
    obtain ⟨_, _, e3⟩ := enterAllF_nofault ii ks (clearParents st.traps) st.sys hp
    have hvac : ∀ s, get (enterAllF st.sys ii ks (clearParents st.traps)).2 s = none → get st.traps s = none := by
      intro s h
      rw [e3, get_enterAll, get_clearParents] at h
      cases hs : get st.traps s with
      | none => rfl
      | some g => rw [hs] at h; simp at h
    cases ii with
    | false =>
      simp only [Bool.false_eq_true, if_false]
      exact verdict_of_installs st ⟨_, _⟩ ps hi (good_of_goodS _ _ _ hg)
    | true =>
      simp only [if_true]
      let st1 : FState := ⟨(enterAllF st.sys true ks (clearParents st.traps)).1,
        (enterAllF st.sys true ks (clearParents st.traps)).2⟩
      have hi1 : Installs st.sys st1.sys ps := hi
      obtain ⟨pa, ia, ga, ka⟩ := ignoreIfVacantF_installs st.traps st1 hi.2.2 SIGINT (by decide) (by decide)
        (hvac SIGINT)
      obtain ⟨pb, ib, gb, _⟩ := ignoreIfVacantF_installs st.traps (ignoreIfVacantF st1 SIGINT) ia.2.2 SIGQUIT
        (by decide) (by decide) (by
          intro h
          rw [ka SIGQUIT (by decide)] at h
          exact hvac SIGQUIT h)
      apply verdict_of_installs st _ (ps ++ pa ++ pb) ((hi1.trans ia).trans ib)
      apply good_append
      · apply good_append
        · exact good_of_goodS _ _ _ hg
        · rw [← hi1.2.1]; exact ga
      · rw [← (hi1.trans ia).2.1]; exact gb
  | peek c =>
    simp only [stepF]
    cases hg : get st.traps c with
    | some g => apply hnil; simp [peekStateF, GrandState.insertFromSystemIfVacantF, hg]
    | none =>
      by_cases hc : c = 0
      · subst hc; apply hnil; simp [peekStateF, GrandState.insertFromSystemIfVacantF, hg]
      · have hlog : (peekStateF st c).1.sys.log
            = st.sys.log ++ [{ prim := .get c, ok := true, old := st.sys.sys.disp c }] := by
          simp [peekStateF, GrandState.insertFromSystemIfVacantF, hg, hc, FSys.getDisposition, hp]
        unfold newCalls
        rw [hlog, List.drop_left]
        simp [economical, Call.needless, sparesKillStop, writes, wellBracketed, anyFailed]
  | catchSignal s => exact hnil _ rfl
  | takeCaught => exact hnil _ rfl
  | takeIfCaught s => exact hnil _ rfl
  | deliver s => exact hnil _ rfl

theorem runF_snoc (st : FState) (ops : List Op) (op : Op) : runF st (ops ++ [op]) = stepF (runF st ops) op := by
  induction ops generalizing st with
  | nil => rfl
  | cons o ops ih => exact ih _

end YashModel.Trap
