/-
  Driver for C11.  stdin: one case per line, stdout: `<model observation>\t<spec verdict>`.

  Case = operations separated by `;` (optionally preceded by `ign SIG…`, the signals ignored on entry):
    set COND (d|i|c<N>) (0|1)   TrapSet::set_action (origin = position of the operation), override flag
    chld | term+ | term- | stop+ | stop- | dis     internal dispositions
    sub I K                     TrapSet::enter_subshell(ignore_sigint_sigquit, keep_stoppers)
    peek COND                   TrapSet::peek_state
    catch SIG | take | takeif SIG
    deliver SIG                 signal sent to the process, collected by Env::poll_signals
    blk A+B/C+INT               an interactive shell runs a built-in that never finishes by itself; the batches of
                                signals `A B`, then `C INT` are sent; SIGINT interrupts it (`execute_builtin`)
    run N                       run_traps_for_caught_signals with `$?` = N; the body of `c<N>` is chosen by N / 1000:
                                0 `probe N; st 7`, 1 `probe N; return 3`, 2 `probe N; exit 4`, 3 `probe N; false`
  Observation per operation: `r=<result>` and, for every condition whose view changed,
  `NAME=<current>/<parent>/<disposition><blocked>`.
  A line starting with `script ` is a script-level case (see `scriptLine`).
-/
import YashModel.Common.Proto
import YashModel.Trap.Model
import YashModel.Trap.Spec
import YashModel.Trap.Builtin
import YashModel.Trap.SyscallSpec
open YashModel YashModel.Trap YashModel.Proto

def condTable : List (String × Nat) :=
  [("EXIT", 0), ("INT", SIGINT), ("QUIT", SIGQUIT), ("KILL", SIGKILL), ("TERM", SIGTERM),
   ("CHLD", SIGCHLD), ("STOP", SIGSTOP), ("TSTP", SIGTSTP), ("TTIN", SIGTTIN), ("TTOU", SIGTTOU),
   ("USR1", SIGUSR1)]

def parseCond (s : String) : Option Nat := (condTable.find? (·.1 == s)).map (·.2)
def condName (n : Nat) : String := ((condTable.find? (·.2 == n)).map (·.1)).getD s!"#{n}"
def parseSig (s : String) : Option Nat := (parseCond s).bind fun n => if n = 0 then none else some n

def parseAction (s : String) : Option Action :=
  match s.toList with
  | ['d'] => some .default
  | ['i'] => some .ignore
  | 'c' :: r => (String.ofList r).toNat?.map .command
  | _ => none

def parseBool (s : String) : Option Bool :=
  if s == "0" then some false else if s == "1" then some true else none

inductive DOp where
  | op (o : Op)
  | runTraps (exit : Nat)
  /-- a signal sent to the process, then `run_traps_for_caught_signals` (which polls itself) -/
  | raiseRun (sig : Nat) (exit : Nat)
  /-- an interactive shell runs a built-in that never finishes; batches of signals arrive -/
  | blocked (batches : List (List Nat))
  /-- the `trap` built-in itself: `trap ACTION COND…` (origin = position of the operation) -/
  | trapCmd (a : Action) (conds : List String) (origin : Nat)
  /-- `run_traps_for_caught_signals` with the frames pushed on `env.stack` (outermost first) -/
  | framedRun (stack : List Frame) (exit : Nat)

/-- `frun` frames: `L` loop, `S` subshell, `C` condition, `B` built-in, `D` dot script, `I` init file,
    `T<COND>` trap action; separated by `.`, outermost first; `-` = empty stack -/
def parseFrames (s : String) (parseCond : String → Option Nat) : Option (List Frame) :=
  if s == "-" then some [] else
  (s.splitOn ".").mapM fun w =>
    match w.toList with
    | ['L'] => some .loop
    | ['S'] => some .subshell
    | ['C'] => some .condition
    | ['B'] => some .builtin
    | ['D'] => some .dotScript
    | ['I'] => some .initFile
    | 'T' :: r => (parseCond (String.ofList r)).map .trap
    | _ => none

def parseOp (k : Nat) (t : String) : Option DOp :=
  match words t with
  | ["set", c, a, ov] => do pure (.op (.setAction (← parseCond c) (← parseAction a) k (← parseBool ov)))
  | ["chld"] => some (.op .enableChld)
  | ["term+"] => some (.op .enableTerminators)
  | ["term-"] => some (.op .disableTerminators)
  | ["stop+"] => some (.op .enableStoppers)
  | ["stop-"] => some (.op .disableStoppers)
  | ["dis"] => some (.op .disableAll)
  | ["sub", i, ks] => do pure (.op (.enterSubshell (← parseBool i) (← parseBool ks)))
  | ["peek", c] => do pure (.op (.peek (← parseCond c)))
  | ["catch", s] => do pure (.op (.catchSignal (← parseSig s)))
  | ["take"] => some (.op .takeCaught)
  | ["takeif", s] => do pure (.op (.takeIfCaught (← parseSig s)))
  | ["deliver", s] => do
    let n ← parseSig s
    if n = SIGKILL ∨ n = SIGSTOP then none else pure (.op (.deliver n))
  | ["run", n] => do pure (.runTraps (← n.toNat?))
  | ["frun", fr, n] => do pure (.framedRun (← parseFrames fr parseCond) (← n.toNat?))
  | ["tr", a, cs] => do
    let act ← parseAction a
    let names := cs.splitOn ","
    -- names of the watched conditions only (the harness knows no others)
    let _ ← names.mapM parseCond
    pure (.trapCmd act names k)
  | ["blk", b] => do
    let batches ← (b.splitOn "/").mapM fun x => (x.splitOn "+").mapM parseSig
    -- the last batch, and only it, contains INT; KILL/STOP cannot be sent
    let ok := (batches.getLast?.map (·.contains SIGINT)).getD false
      && batches.dropLast.all (fun x => !x.contains SIGINT)
      && batches.all (fun x => !x.contains SIGKILL && !x.contains SIGSTOP)
    if ok then pure (.blocked batches) else none
  | ["irun", s, n] => do
    let sig ← parseSig s
    if sig = SIGKILL ∨ sig = SIGSTOP then none else pure (.raiseRun sig (← n.toNat?))
  | _ => none

def showAction : Action → String
  | .default => "d"
  | .ignore => "i"
  | .command c => s!"c{c}"

def showOrigin : Origin → String
  | .inherited => "I"
  | .subshell => "S"
  | .user l => s!"U{l}"

def showTS (t : TrapState) : String :=
  s!"{showAction t.action}.{showOrigin t.origin}.{if t.pending then 1 else 0}"

def showOptTS : Option TrapState → String
  | none => "-"
  | some t => showTS t

def showDisp : Disp → String
  | .default => "D"
  | .ignore => "I"
  | .catch => "C"

def showErr : Option SetActionError → String
  | none => "ok"
  | some .initiallyIgnored => "initially-ignored"
  | some .sigkill => "sigkill"
  | some .sigstop => "sigstop"

def viewCond (st : State) (c : Nat) : String :=
  let s := getState st.traps c
  let base := s!"{showOptTS s.1}/{showOptTS s.2}"
  if c = 0 then base else s!"{base}/{showDisp (st.sys.disp c)}{if st.sys.blocked c then 1 else 0}"

def views (st : State) : List String := condTable.map fun (_, c) => viewCond st c

def delta (old new : List String) : List String :=
  (condTable.zip (old.zip new)).filterMap fun ((name, _), (o, n)) =>
    if o == n then none else some s!"{name}={n}"

/-- bodies used by the harness, by `c / 1000`: `probe c; st 7`, `probe c; return 3`,
    `probe c; exit 4`, `probe c; false`, `probe c; : ${U?}` (an expansion error: `Interrupt(Some(2))`) -/
def body7 : Body := fun c e t =>
  (match c / 1000 with
   | 1 => { exit := 0, divert := some (.ret (some 3)) }
   | 2 => { exit := 0, divert := some (.exit (some 4)) }
   | 3 => { exit := 1 }
   | 4 => { exit := e, divert := some (.interrupt (some 2)) }
   | 5 => { exit := 1, divert := some (.ret none) }   -- `probe c; false; return`
   | 6 => { exit := 1, divert := some (.ret none) }   -- `probe c; ! :; return`
   | _ => { exit := 7 }, t)

def showDivert : Option Divert → String
  | none => "-"
  | some (.ret st) => s!"ret{st.getD (-1)}"
  | some (.exit st) => s!"exit{st.getD (-1)}"
  | some (.interrupt st) => s!"int{st.getD (-1)}"
  | some .other => "other"
  | some (.abort st) => s!"abort{st.getD (-1)}"

/-- what `poll_signals` collects after `sig` was sent: the signal, if `Catch` is installed -/
def polledBy (st : State) (sig : Nat) : List Nat :=
  if st.sys.disp sig = .catch ∧ (st.sys.selectMask.getD st.sys.blocked) sig = false then [sig] else []

/-- `execute_builtin` treats the built-in as interruptible, and SIGINT can reach the shell -/
def blockable (st : State) : Bool :=
  st.sys.disp SIGINT = .catch && sigintHasDefaultAction st.traps

/-- of a batch sent to the process, what the system reports: the signals with `Catch` installed -/
def reported (st : State) (batch : List Nat) : List Nat := batch.filter fun s => (polledBy st s).contains s

/-- the operands of `trap` for an action of the case language (the command text only matters
    through `cmdOf`, which the driver fixes to the number of the action) -/
def trapOperands (a : Action) (names : List String) : List String × (String → Nat) :=
  match a with
  | .default => ("-" :: names, fun _ => 0)
  | .ignore => ("" :: names, fun _ => 0)
  | .command c => ("cmd" :: names, fun _ => c)

def runTrapCmd (st : State) (a : Action) (names : List String) (origin : Nat) : TrapResult :=
  let (ops, cmdOf) := trapOperands a names
  trapMain cmdOf st origin false false ops

def opResult (st : State) : DOp → String
  | .op (.setAction c a o ov) => showErr (setAction st c a o ov).2
  | .op (.peek c) => showTS (peekState st c).2
  | .op .takeCaught =>
    match (takeCaughtSignal st.traps).2 with
    | none => "-"
    | some (s, t) => s!"{condName s}:{showTS t}"
  | .op (.takeIfCaught s) => showOptTS (takeSignalIfCaught st.traps s).2
  | .op (.deliver s) =>
    match st.sys.disp s with
    | .default => "dfl"
    | .ignore => "none"
    | .catch => if (st.sys.selectMask.getD st.sys.blocked) s = false then s!"caught:{condName s}" else "stuck"
  | .runTraps e =>
    let r := runTrapsForCaughtSignals body7 false st.traps e
    let runs := r.runs.map fun (s, c) => s!"{condName s}:{c}@{e}"
    s!"runs={",".intercalate runs};exit={r.exit};div={showDivert r.divert}"
  | .framedRun stack e =>
    let r := runTrapsOnStack body7 stack st.traps e
    let runs := r.runs.map fun (s, c) => s!"{condName s}:{c}@{e}"
    s!"runs={",".intercalate runs};exit={r.exit};div={showDivert r.divert};intrap={if inTrap stack then 1 else 0}"
  | .blocked batches =>
    if blockable st then
      if (interruptedBuiltin st.traps (batches.map (reported st))).2 then "int386" else "hang"
    else "n/a"
  | .trapCmd a names origin =>
    let r := runTrapCmd st a names origin
    s!"st{r.status}"
  | .raiseRun sig e =>
    let r := runTrapsAfterPoll body7 false (polledBy st sig) st.traps e
    let runs := r.runs.map fun (s, c) => s!"{condName s}:{c}@{e}"
    s!"runs={",".intercalate runs};exit={r.exit};div={showDivert r.divert}"
  | _ => "-"

def dstep (st : State) : DOp → State
  | .op o => step st o
  | .runTraps e => { st with traps := (runTrapsForCaughtSignals body7 false st.traps e).traps }
  | .framedRun stack e => { st with traps := (runTrapsOnStack body7 stack st.traps e).traps }
  | .raiseRun sig e =>
    { st with traps := (runTrapsAfterPoll body7 false (polledBy st sig) st.traps e).traps }
  | .blocked batches =>
    if blockable st then
      { st with traps := (interruptedBuiltin st.traps (batches.map (reported st))).1 }
    else st
  | .trapCmd a names origin => (runTrapCmd st a names origin).st

/-- Spec verdict for a `run`: the bodies run followed by the bodies still pending are exactly the
    bodies that were pending, once each (whatever the bodies end in); `$?` is preserved, except that
    an error interrupting an action leaves its own status; a run not cut short by a divert leaves
    nothing pending -/
def runVerdict (st : State) (e : Nat) : Option String :=
  let r := runTrapsForCaughtSignals body7 false st.traps e
  if r.runs ++ pendingCommands r.traps ≠ pendingCommands st.traps then some "runs"
  else if r.exit ≠ (match r.divert with | some (.interrupt (some x)) => x | _ => (e : Int)) then some "exit-status"
  else if r.divert = none ∧ pendingCommands r.traps ≠ [] then some "left-pending"
  else none

/-- Spec verdict for a `frun`: is a signal trap action running in this shell process (a `Trap(signal)`
    frame with no `Subshell` frame inside it)?  Then nothing runs and nothing changes; otherwise as `run`.
    (`signalTrapRunning`, Spec.lean: a direct recursion from the outermost frame, not `inTrap`). -/
def framedVerdict (st : State) (stack : List Frame) (e : Nat) : Option String :=
  let r := runTrapsOnStack body7 stack st.traps e
  if signalTrapRunning stack false then
    if r.runs ≠ [] then some "ran-inside-trap"
    else if pendingCommands r.traps ≠ pendingCommands st.traps then some "lost-inside-trap"
    else if r.exit ≠ (e : Int) ∨ r.divert ≠ none then some "exit-status"
    else none
  else if r.runs ++ pendingCommands r.traps ≠ pendingCommands st.traps then some "runs"
  else if r.divert = none ∧ pendingCommands r.traps ≠ [] then some "left-pending"
  else none

/-- Spec verdict for one `trap ACTION COND…` command (no KILL/STOP among the conditions): every
    listed condition holds, afterwards, what `trapCommandExpect` says — ignored on entry: still
    `{Ignore, Inherited}`; every other one: the action, wherever it stands in the list -/
def trapVerdict (st st' : State) (a : Action) (names : List String) (origin : Nat) : Option String :=
  let conds := names.filterMap parseCond
  if conds.contains SIGKILL || conds.contains SIGSTOP || conds.length ≠ names.length then none else
  names.findSome? fun n =>
    match parseCond n with
    | none => none
    | some c =>
      let want := trapCommandExpect st c a origin false
      match (getState st'.traps c).1 with
      | some ts => if ts.action = want.1 ∧ ts.origin = want.2 then none else some s!"skipped:{n}"
      | none => some s!"skipped:{n}"

/-- Spec verdict for one `sub I K`: every watched signal has, afterwards, the installed disposition and
    the action `subshellExpect` reads off the documentation of `enter_subshell` from the state before -/
def subshellVerdict (st st' : State) (ii ks : Bool) : Option String :=
  watched.findSome? fun s =>
    let want := subshellExpect st ii ks s
    if st'.sys.disp s ≠ want.1 then some s!"subshell-disposition:{condName s}"
    else if (get st'.traps s).map (·.current.action) ≠ want.2 then some s!"subshell-action:{condName s}"
    else none

def parseInit (t : String) : Option (List Nat) :=
  match words t with
  | "ign" :: sigs => sigs.mapM parseSig
  | _ => none

def opsLine (line : String) : String :=
  let parts := (splitTrim line ";").filter (· ≠ "")
  let (ign, parts) := match parts with
    | p :: rest => match parseInit p with
      | some l => (l, rest)
      | none => ([], p :: rest)
    | [] => ([], [])
  let init : Nat → Disp := fun s => if ign.contains s then .ignore else .default
  let rec parseAll (l : List String) (k : Nat) : Option (List DOp) :=
    match l with
    | [] => some []
    | p :: rest => do
      let o ← parseOp k p
      let r ← parseAll rest (k + 1)
      pure (o :: r)
  match parseAll parts 0 with
  | none => "bad-case\t-"
  | some ops =>
    let rec go (st : State) (vs : List String) (ops : List DOp) (k : Nat) (obs : List String)
        (verdict : Option String) : List String × Option String :=
      match ops with
      | [] => (obs.reverse, verdict)
      | op :: rest =>
        let r := opResult st op
        let st' := dstep st op
        let vs' := views st'
        let d := delta vs vs'
        let v := match verdict with
          | some v => some v
          | none =>
            match specCheck init st' with
            | some w => some s!"FAIL:{w}@{k}"
            | none =>
              match op with
              | .runTraps e => (runVerdict st e).map fun w => s!"FAIL:{w}@{k}"
              | .framedRun stack e => (framedVerdict st stack e).map fun w => s!"FAIL:{w}@{k}"
              | .trapCmd a names origin => (trapVerdict st st' a names origin).map fun w => s!"FAIL:{w}@{k}"
              | .op (.enterSubshell ii ks) => (subshellVerdict st st' ii ks).map fun w => s!"FAIL:{w}@{k}"
              | _ => none
        go st' vs' rest (k + 1) (" ".intercalate (s!"r={r}" :: d) :: obs) v
    let st0 := State.init init
    let (obs, verdict) := go st0 (views st0) ops 0 [] none
    " | ".intercalate obs ++ "\t" ++ verdict.getD "ok"

/-! Script-level cases: `script <k> <m> <shape> <s1> … <sn>`: the script is
    `trap 'probe T; st 9' USR1` followed by the commands `st <si>; probe <i>` for i = 1…n (laid out
    in one of seven shapes that do not change what runs), with the signal sent to the shell itself
    before the k-th of these 2n commands (k = 0…2n; larger = never) by `kill -s USR1 $$` (m = 0) or
    by a built-in that also leaves `$?` = m.  The Spec predicts the probe trace: every `probe`
    prints `<$?>:<hex>`; the trap body runs exactly once, at the boundary right after the sending
    command, sees that command's `$?`, and `$?` afterwards is that same value (not the body's 9). -/

def scriptSpec (k m : Nat) (sts : List Nat) : String :=
  let cmds : List (Nat ⊕ Nat) := (sts.zipIdx.map fun (s, i) => [Sum.inl s, Sum.inr (i + 1)]).flatten
  let rec go (l : List (Nat ⊕ Nat)) (i : Nat) (exit : Nat) (acc : List String) : List String × Nat :=
    match l with
    | [] =>
      if i = k then ((s!"{m}:{encStr "T"}" :: acc).reverse, m) else (acc.reverse, exit)
    | c :: rest =>
      let (acc, exit) := if i = k then (s!"{m}:{encStr "T"}" :: acc, m) else (acc, exit)
      match c with
      | .inl s => go rest (i + 1) s acc
      | .inr p => go rest (i + 1) exit (s!"{exit}:{encStr (toString p)}" :: acc)
  let (tr, e) := go cmds 0 0 []
  s!"trace={",".intercalate tr} exit={e}"

def scriptLine (ws : List String) : String :=
  match ws.mapM String.toNat? with
  | some (k :: m :: shape :: s :: sts) =>
    if shape > 6 then "bad-case\t-" else
    let o := scriptSpec k m (s :: sts); s!"{o}\t={o}"
  | _ => "bad-case\t-"

/-! Script-level cases with several trapped signals pending at the same boundary:
    `multi <layout> <mode> <second> SIG:K SIG:K [SIG:K]`.  The script sets the traps, then runs a
    function (layout 0; 2 = the signals are sent inside a nested brace group) or a dot script
    (layout 1) whose body is `probe 1; RAISE; probe 2; st 5; probe 3`, then `probe 4`, optionally a
    second RAISE, `probe 5`, `probe 6`.  RAISE sends all the trapped signals to the shell at once
    (mode 0: a built-in that leaves `$?` = 6; mode 1: `(kill …; kill …)`, `$?` = 0).  Action kinds:
    P `probe T`, R `probe T; return 3`, E `probe T; exit 4`, F `probe T; false`,
    N `probe T; trap 'probe T+500' SIG` (T = signal number + 200).  The interpreter below mirrors
    `Command::execute` (run the command, then `run_traps_for_caught_signals`, diverts merged by
    `max`), the function / dot-script call (catches `Return`), and the end of the script. -/

inductive Cmd where
  | probe (n : Nat)
  | st (n : Nat)
  | raise (sigs : List Nat) (m : Nat)
  | group (l : List Cmd)
  | call (l : List Cmd)

structure SS where
  traps : TrapMap
  exit : Int := 0
  trace : List String := []

/-- trap bodies of the `multi` scripts: `c = kind * 1000 + tag`, `tag % 500 - 200` = the signal -/
def scriptBody : Body := fun c e t =>
  let tag := c % 1000
  match c / 1000 with
  | 5 => ({ exit := e, divert := some (.interrupt (some 2)) }, t)
  | 1 => ({ exit := 0, divert := some (.ret (some 3)) }, t)
  | 2 => ({ exit := 0, divert := some (.exit (some 4)) }, t)
  | 3 => ({ exit := 1 }, t)
  | 6 => ({ exit := 1, divert := some (.ret none) }, t)   -- `probe T; false; return`
  | 7 => ({ exit := 1, divert := some (.ret none) }, t)   -- `probe T; ! :; return`
  | 4 =>
    let sys : Sys := { disp := fun _ => .catch, blocked := fun _ => true }
    ({ exit := 0 }, (setAction { sys := sys, traps := t } (tag % 500 - 200) (.command (tag + 500)) 0 false).1.traps)
  | _ => ({ exit := 0 }, t)

/-- the hook of `Command::execute`: pending traps run after every command -/
def hook (s : SS) (main : Option Divert) : SS × Option Divert :=
  let r := afterCommand scriptBody false main s.traps s.exit
  let lines := r.runs.map fun (_, c) => s!"{s.exit}:{encStr (toString (c % 1000))}"
  ({ traps := r.traps, exit := r.exit, trace := lines.reverse ++ s.trace }, r.divert)

mutual
def execCmd : Cmd → SS → SS × Option Divert
  | .probe n, s => hook { s with trace := s!"{s.exit}:{encStr (toString n)}" :: s.trace } none
  | .st n, s => hook { s with exit := n } none
  | .raise sigs m, s =>
    hook { s with traps := sigs.foldl catchSignal s.traps, exit := m } none
  | .group l, s =>
    let r := execList l s
    hook r.1 r.2
  | .call l, s =>
    let r := execList l s
    match r.2 with
    | some (.ret st) => hook { r.1 with exit := st.getD r.1.exit } none
    | d => hook r.1 d
def execList : List Cmd → SS → SS × Option Divert
  | [], s => (s, none)
  | c :: rest, s =>
    let r := execCmd c s
    match r.2 with
    | some d => (r.1, some d)
    | none => execList rest r.1
end

def parseKind (k : String) : Option Nat :=
  match k with
  | "P" => some 0 | "R" => some 1 | "E" => some 2 | "F" => some 3 | "N" => some 4 | "I" => some 5
  | "Q" => some 6 | "B" => some 7
  | _ => none

def parseSK (w : String) : Option (Nat × Nat) :=
  match w.splitOn ":" with
  | [s, k] => do pure ((← parseSig s), (← parseKind k))
  | _ => none

def multiLine (ws : List String) : String :=
  match ws with
  | l :: m :: sec :: sks =>
    match l.toNat?, m.toNat?, sec.toNat?, sks.mapM parseSK with
    | some layout, some mode, some second, some sks =>
      if layout > 2 ∨ mode > 1 ∨ second > 1 ∨ sks.isEmpty then "bad-case\t-" else
      let sigs := sks.map (·.1)
      -- `trap` commands in the given order (each is a command: `$?` = 0 afterwards)
      let traps : TrapMap := sks.foldl (fun t (sig, k) =>
        set t sig { current := { action := .command (k * 1000 + sig + 200), origin := .user 0 } }) []
      let raise1 := Cmd.raise sigs (if mode = 0 then 6 else 0)
      let body := if layout = 2
        then [Cmd.probe 1, .group [raise1, .probe 2], .st 5, .probe 3]
        else [Cmd.probe 1, raise1, .probe 2, .st 5, .probe 3]
      let prog := [Cmd.call body, .probe 4] ++ (if second = 1 then [Cmd.raise sigs 2] else [])
        ++ [Cmd.probe 5, .probe 6]
      let r := execList prog { traps := traps }
      -- end of the script: `Env::apply_result`
      let exit := match r.2 with
        | some d => d.payload.getD r.1.exit
        | none => r.1.exit
      let o := s!"trace={",".intercalate r.1.trace.reverse} exit={exit}"
      s!"{o}\t={o}"
    | _, _, _, _ => "bad-case\t-"
  | _ => "bad-case\t-"

/-! `tb` cases: the `trap` built-in in all its forms, `kill` to the shell itself under every
    disposition, subshells printing the traps of their parent, `wait` interrupted by trapped signals,
    the EXIT trap.  `tb [ign SIG…;] stmt; stmt; …` with statements
      T <a> <operand>…   `trap <action> <operand>…`; a = `-`, `E` (empty string), `c<N>` (`probe N`),
                         `k<N>` (`probe N; kill -s USR2 $$`)
      TN <operand>…      `trap <operand>…` (no action operand)       TX   `trap -z INT` (invalid option)
      P | PP | PC <operand>…   `trap`, `trap -p`, `trap -p <operand>…`
      K SIG | R n | S n | X n  `kill -s SIG $$`, `probe n`, `st n`, `exit n`
      sub a , b …        `( a; b; … )`        cs a , b …   `x=$( a; b; … ); echo "$x"`
      bg a , b …         `{ a; b; …; } & wait $!`
      W SIG…             `( kill -s SIG $$; …; st 3 ) & wait $!`
    Observation: the lines written to standard output (probe lines as they are, `trap -- …` lines as
    `T:<action>:<COND>`), how the shell ended and its exit status. -/

def parseAnySig (s : String) : Option Nat := (signalTable.find? (·.2 == s)).map (·.1)

structure TB where
  st : State
  exit : Int := 0
  out : List String := []
  /-- the process was terminated / stopped by a signal -/
  ended : Option String := none
  /-- the shell is leaving (`exit`, or a failed special built-in) -/
  quit : Bool := false
  /-- the `interactive` option is on (`tbi` cases): the `trap` built-in overrides "ignored on entry" -/
  inter : Bool := false

/-- the number that stands for an action text: `probe N` ↦ N, `probe N; kill -s USR2 $$` ↦ 1000 + N,
    `probe N; trap "probe N+500" SIG; kill -s SIG $$` ↦ (1000 + SIG) * 1000 + N -/
def tbCmdOf (text : String) : Nat :=
  match text.splitOn "; " with
  | [p] => ((p.dropPrefix? "probe ").bind (·.toString.toNat?)).getD 999
  | [p, _] => (((p.dropPrefix? "probe ").bind (·.toString.toNat?)).getD 999) + 1000
  | [p, _, k] =>
    let sig := match words k with
      | ["kill", "-s", s, _] => ((signalTable.find? (·.2 == s)).map (·.1)).getD 0
      | _ => 0
    (((p.dropPrefix? "probe ").bind (·.toString.toNat?)).getD 999) + 1000 * (1000 + sig)
  | _ => 999

/-- bodies of the `tb` scripts: `probe N` (c < 1000), `probe N; kill -s USR2 $$`, or the action that
    replaces itself by `probe N+500` and then sends its own signal to the shell again: the delivery
    arrives (is collected by the poll after the `kill` command) while the action is still running -/
def tbBody : Body := fun c _ t =>
  ({ exit := 0 },
   if c / 1000 = 1 then catchSignal t 125
   else if c / 1000 ≥ 1000 then
     let sig := c / 1000 - 1000
     let sys : Sys := { disp := fun _ => .catch, blocked := fun _ => true }
     catchSignal (setAction { sys := sys, traps := t } sig (.command (c % 1000 + 500)) 0 false).1.traps sig
   else t)

def tbLine (exit : Int) (c : Nat) : String := s!"{exit}:{encStr (toString (c % 1000))}"

def showTrapLine (l : TrapLine) : String :=
  let a := match l.action with
    | .default => "-"
    | .ignore => "E"
    | .command c =>
      if c / 1000 = 1 then s!"k{c % 1000}"
      else if c / 1000 ≥ 1000 then s!"r{condToString (c / 1000 - 1000)}.{c % 1000}"
      else s!"c{c}"
  s!"T:{a}:{condToString l.cond}"

/-- the hook after every command: pending traps run -/
def tbHook (s : TB) : TB :=
  if s.ended.isSome then s else
  let r := drain tbBody (2 * s.st.traps.length + 4) s.st.traps s.exit []
  { s with st := { s.st with traps := r.traps }, exit := r.exit,
           out := (r.runs.map fun (_, c) => tbLine s.exit c).reverse ++ s.out }

/-- a signal sent to the shell process -/
def tbSend (s : TB) (sig : Nat) : TB :=
  match delivery s.st sig with
  | .caught => { s with st := deliver s.st sig }
  | .ignored => s
  | .effect .terminate => { s with ended := some s!"sig{sig}" }
  | .effect .suspend => { s with ended := some s!"stop{sig}" }
  | .effect _ => s

def actionText (a : String) : Option String :=
  match a.toList with
  | ['-'] => some "-"
  | ['E'] => some ""
  | 'c' :: r => (String.ofList r).toNat?.map fun n => s!"probe {n}"
  | 'k' :: r => (String.ofList r).toNat?.map fun n => s!"probe {n}; kill -s USR2 $$"
  | 'r' :: r =>
    match (String.ofList r).splitOn "." with
    | [s, n] => do
      let _ ← (signalTable.find? (·.2 == s))
      let n ← n.toNat?
      if n < 500 then some s!"probe {n}; trap \"probe {n + 500}\" {s}; kill -s {s} $$" else none
    | _ => none
  | _ => none

/-- `run_exit_trap` at the end of a (sub)shell -/
def tbExitTrap (s : TB) : TB :=
  if s.ended.isSome then s else
  match (getState s.st.traps 0).1 with
  | some ts =>
    match ts.action with
    | .command c =>
      -- the EXIT trap is not a signal trap: signal traps run inside it, after its own `kill`
      -- (`$?` = 0 there); `run_trap` then restores `$?`
      let s1 : TB := { s with out := tbLine s.exit c :: s.out }
      if c / 1000 = 1 then
        let s2 := tbHook { s1 with st := { s1.st with traps := (tbBody c s.exit s.st.traps).2 }, exit := 0 }
        { s2 with exit := s.exit }
      else s1
    | _ => s
  | none => s

def tbTrap (s : TB) (k : Nat) (print : Bool) (operands : List String) : TB :=
  let r := trapMain tbCmdOf s.st k s.inter print operands
  { s with st := r.st, out := (r.out.map showTrapLine).reverse ++ s.out, exit := r.status,
           quit := r.abort }

/-- a child process of the shell has ended: the parent waited for it with the internal SIGCHLD
    disposition installed, and the SIGCHLD is collected at the next poll -/
def tbChildDone (s : TB) : TB :=
  let st := enableChld s.st
  { s with st := deliver st SIGCHLD }

mutual
/-- simple statements; `inner` = inside a subshell (no `kill`, no nested subshell) -/
def tbSimple (k : Nat) (inner : Bool) (s : TB) (ws : List String) : Option TB :=
  match ws with
  | "T" :: a :: ops =>
    -- a body that signals `$$` from inside a subshell would reach the parent: not in the language
    if inner ∧ (a.startsWith "k" ∨ a.startsWith "r") then none
    -- a re-sending action is set for the signal it names, and only for it
    else if a.startsWith "r" ∧ ops ≠ [((a.drop 1).toString.splitOn ".").headD ""] then none
    else (actionText a).map fun t => tbTrap s k false (t :: ops)
  | "TN" :: ops => some (tbTrap s k false ops)
  | ["TX"] => some { s with exit := 2, quit := true }  -- `trap -z INT`: invalid option, hard error
  | ["P"] => some (tbTrap s k false [])
  | ["PP"] => some (tbTrap s k true [])
  | "PC" :: ops => some (tbTrap s k true ops)
  | ["R", n] => n.toNat?.map fun n => { s with out := s!"{s.exit}:{encStr (toString n)}" :: s.out }
  | ["S", n] => n.toNat?.map fun n => { s with exit := n }
  | ["X", n] => n.toNat?.map fun n => { s with exit := n, quit := true }
  | _ => none
end

def tbList (k : Nat) (s : TB) (stmts : List (List String)) : Option TB :=
  stmts.foldlM (fun s ws => if s.quit ∨ s.ended.isSome then some s else (tbSimple k true s ws).map tbHook) s

/-- the body of a subshell: the traps are reset for the child, its output is collected -/
def tbChild (k : Nat) (s : TB) (ii : Bool) (inner : List (List String)) : Option TB :=
  (tbList k { st := enterSubshell s.st ii false, exit := s.exit, inter := s.inter } inner).map tbExitTrap

def splitInner (ws : List String) : List (List String) :=
  ((" ".intercalate ws).splitOn ",").map words

def tbStmt (k : Nat) (s : TB) (ws : List String) : Option TB :=
  match ws with
  | ["K", sig] => (parseAnySig sig).map fun n => tbSend { s with exit := 0 } n
  | "sub" :: inner => do
    let c ← tbChild k s false (splitInner inner)
    pure (tbChildDone { s with out := c.out ++ s.out, exit := c.exit })
  | "cs" :: inner => do
    let c ← tbChild k s false (splitInner inner)
    let lines := if c.out.isEmpty then ["-"] else c.out
    -- the assignment `x=$(…)` is a command of its own: pending traps run before `echo "$x"`
    let s1 := tbHook (tbChildDone { s with exit := c.exit })
    pure { s1 with out := lines ++ s1.out, exit := 0 }
  | "bg" :: inner => do
    let c ← tbChild k s true (splitInner inner)
    -- `wait $!`: a trapped SIGCHLD interrupts the wait like any other trapped signal
    let s1 := tbChildDone { s with out := c.out ++ s.out, exit := 0 }
    let r := waitTrapLoop tbBody [SIGCHLD] s1.st.traps s1.exit
    match r.2 with
    | some (sig, cmd, _, _) =>
      pure { s1 with st := { s1.st with traps := r.1 }, out := tbLine s1.exit cmd :: s1.out,
                     exit := 384 + sig }
    | none => pure { s1 with st := { s1.st with traps := r.1 }, exit := c.exit }
  | "W" :: sigs => do
    let sigs ← sigs.mapM parseAnySig
    -- `wait` installs the internal SIGCHLD disposition first; the child then sends the signals
    let s0 : TB := { s with st := enableChld s.st, exit := 0 }
    -- the child keeps sending; a terminated process keeps its final state (`Process::set_state`),
    -- a stopped one can still be terminated
    let (s1, caught) := sigs.foldl (fun (acc : TB × List Nat) sig =>
      if (acc.1.ended.getD "").startsWith "sig" then acc else
      match delivery acc.1.st sig with
      | .caught => (tbSend acc.1 sig, acc.2 ++ [sig])
      | _ => (tbSend acc.1 sig, acc.2)) (s0, [])
    if s1.ended.isSome then pure s1 else
    -- the child is still running when the signals it sent wake the parent
    let r := waitAfterSignals tbBody caught s1.st.traps s1.exit
    match r.2 with
    | some (_, none, _, d) =>
      -- SIGINT shortcut (interactive shell): `Interrupt(Some(386))` ends the script of the non-interactive
      -- read-eval loop the harness uses; the hook after `wait` still runs the other caught traps, with `$?` = 386
      pure { s1 with st := { s1.st with traps := r.1 }, exit := (d.bind Divert.payload).getD s1.exit, quit := true }
    | some (sig, some c, _, _) =>
      pure { s1 with st := { s1.st with traps := r.1 }, out := tbLine s1.exit c :: s1.out,
                     exit := 384 + sig }
    | none =>
      -- nothing interrupted the wait: the child ends, its SIGCHLD is collected, its status returned
      let s2 : TB := { s1 with st := deliver { s1.st with traps := r.1 } SIGCHLD }
      pure { s2 with exit := 3 }
  | _ => tbSimple k false s ws

def tbLineRun (line : String) : String :=
  let parts := ((splitTrim line ";").filter (· ≠ "")).map words
  -- `tbi …` = the same script in a shell started with the `interactive` option on (and `monitor` off):
  -- the internal dispositions of the terminators are installed at start-up
  let inter := (parts.head?.bind List.head?) == some "tbi"
  let parts := match parts with
    | ("tb" :: r) :: rest => if r.isEmpty then rest else r :: rest
    | ("tbi" :: r) :: rest => if r.isEmpty then rest else r :: rest
    | p => p
  let (ign, parts) := match parts with
    | ("ign" :: sigs) :: rest => (sigs.filterMap parseAnySig, rest)
    | p => ([], p)
  let init : Nat → Disp := fun s => if ign.contains s then .ignore else .default
  let rec go (s : TB) (l : List (List String)) (k : Nat) : Option TB :=
    match l with
    | [] => some s
    | ws :: rest =>
      if s.quit ∨ s.ended.isSome then some s else
      match tbStmt k s ws with
      | none => none
      | some s' => go (tbHook s') rest (k + 1)
  -- `W` leaves a child running when a trap interrupts the wait: it must be the last statement that
  -- creates a child, and SIGCHLD must not be named in such a case
  let isChild := fun (ws : List String) => ws.head? ∈ [some "sub", some "cs", some "bg", some "W"]
  let afterW := (parts.dropWhile fun ws => ws.head? ≠ some "W").drop 1
  let wOK := !(parts.any fun ws => ws.head? = some "W")
    || (!(afterW.any isChild) && !(parts.any fun ws => ws.contains "CHLD" || ws.contains "102"))
  let st0 := if inter then enableTerminators (State.init init) else State.init init
  match (if wOK then go { st := st0, inter := inter } parts 0 else none) with
  | none => "bad-case\t-"
  | some s =>
    let s := tbExitTrap s
    let verdict := match specCheck init s.st with
      | some w => s!"FAIL:{w}"
      | none => "ok"
    let o := s!"out={",".intercalate s.out.reverse} end={s.ended.getD "exit"} exit={if s.ended.isSome then -1 else s.exit}"
    s!"{o}\t{verdict}"

/-! `sc PLAN; [ign SIG…;] op; …`: the operations that make system calls, over the recording system
    of `Syscalls.lean`; PLAN = `-` or one `0`/`1` per primitive call (`1` = that call fails).
    Observation per operation: `r=<result> k=<calls>` and the changed views. -/

def showCall (c : Call) : String :=
  match c.prim with
  | .mask add s => s!"M{if add then "+" else "-"}{condName s}{if c.ok then "" else "!"}"
  | .action s d => if c.ok then s!"A:{condName s}:{showDisp d}>{showDisp c.old}" else s!"A:{condName s}:{showDisp d}!"
  | .get s => if c.ok then s!"G:{condName s}>{showDisp c.old}" else s!"G:{condName s}!"

def showOpResult (st : FState) (op : Op) : String :=
  match op, resultF st op with
  | .peek c, _ => ((peekStateF st c).2.map showTS).getD "errno"
  | _, .none => "-"
  | _, .setAction none => "ok"
  | _, .setAction (some .systemError) => "errno"
  | _, .setAction (some (.base e)) => showErr (some e)
  | _, .ok b => if b then "ok" else "errno"

def scLine (line : String) : String :=
  let parts := (splitTrim line ";").filter (· ≠ "")
  match parts with
  | [] => "bad-case\t-"
  | hd :: parts =>
    let plan? : Option (List Bool) := match words hd with
      | ["sc", "-"] => some []
      | ["sc", p] => if p.length ≤ 64 ∧ p.toList.all (fun c => c = '0' ∨ c = '1') then some (p.toList.map (· = '1')) else none
      | _ => none
    let (ign, parts) := match parts with
      | p :: rest => match parseInit p with
        | some l => (l, rest)
        | none => ([], p :: rest)
      | [] => ([], [])
    let init : Nat → Disp := fun s => if ign.contains s then .ignore else .default
    let rec parseAll (l : List String) (k : Nat) : Option (List Op) :=
      match l with
      | [] => some []
      | p :: rest => do
        let o ← match parseOp k p with
          | some (.op o) => match o with
            | .setAction .. | .enableChld | .enableTerminators | .enableStoppers | .disableTerminators
            | .disableStoppers | .disableAll | .enterSubshell .. | .peek .. => some o
            | _ => none
          | _ => none
        let r ← parseAll rest (k + 1)
        pure (o :: r)
    match plan?, parseAll parts 0 with
    | some plan, some ops =>
      let rec go (st : FState) (vs : List String) (ops : List Op) (k : Nat) (obs : List String)
          (faulted : Bool) (verdict : Option String) : List String × Option String :=
        match ops with
        | [] => (obs.reverse, verdict)
        | op :: rest =>
          let r := showOpResult st op
          let st' := stepF st op
          let calls := newCalls st st'
          let vs' := views st'.toState
          let d := delta vs vs'
          let v := match verdict with
            | some v => some v
            | none => (scViolation init faulted st st' (resultF st op)).map fun w => s!"FAIL:{w}@{k}"
          let ks := if calls.isEmpty then "-" else ",".intercalate (calls.map showCall)
          go st' vs' rest (k + 1) (" ".intercalate (s!"r={r}" :: s!"k={ks}" :: d) :: obs)
            (faulted || anyFailed calls) v
      let st0 := FState.init init plan
      let (obs, verdict) := go st0 (views st0.toState) ops 0 [] false none
      " | ".intercalate obs ++ "\t" ++ verdict.getD "ok"
    | _, _ => "bad-case\t-"

def condsLine : String :=
  ",".intercalate (allConditions.map fun c => s!"{c}:{condToString c}") ++ "\tok"

def runLine (line : String) : String :=
  match words line with
  | "script" :: ws => scriptLine ws
  | "multi" :: ws => multiLine ws
  | "tb" :: _ => tbLineRun line
  | "tbi" :: _ => tbLineRun line
  | ["conds"] => condsLine
  | "sc" :: _ => scLine line
  | _ => opsLine line

def main : IO Unit := mainLoop runLine
