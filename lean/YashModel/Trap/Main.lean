/-
  Driver for C11.  stdin: one case per line, stdout: `<model observation>\t<spec verdict>`.

  Case = operations separated by `;` (optionally preceded by `ign SIG…`, the signals ignored on entry):
    set COND (d|i|c<N>) (0|1)   TrapSet::set_action (origin = position of the operation), override flag
    chld | term+ | term- | stop+ | stop- | dis     internal dispositions
    sub I K                     TrapSet::enter_subshell(ignore_sigint_sigquit, keep_stoppers)
    peek COND                   TrapSet::peek_state
    catch SIG | take | takeif SIG
    deliver SIG                 signal sent to the process, collected by Env::poll_signals
    run N                       run_traps_for_caught_signals with `$?` = N (bodies: `probe <c>; st 7`)
  Observation per operation: `r=<result>` and, for every condition whose view changed,
  `NAME=<current>/<parent>/<disposition><blocked>`.
  A line starting with `script ` is a script-level case (see `scriptLine`).
-/
import YashModel.Common.Proto
import YashModel.Trap.Model
import YashModel.Trap.Spec
open YashModel YashModel.Trap YashModel.Proto

def condTable : List (String × Nat) :=
  [("EXIT", 0), ("INT", SIGINT), ("QUIT", SIGQUIT), ("KILL", SIGKILL), ("TERM", SIGTERM),
   ("CHLD", SIGCHLD), ("STOP", SIGSTOP), ("TSTP", SIGTSTP), ("TTIN", SIGTTIN), ("TTOU", SIGTTOU),
   ("USR1", SIGUSR1)]

def parseCond (s : String) : Option Nat := (condTable.find? (·.1 == s)).map (·.2)
def condName (n : Nat) : String := ((condTable.find? (·.2 == n)).map (·.1)).getD s!"#{n}"
def parseSig (s : String) : Option Nat := (parseCond s).bind fun n => if n = 0 then none else some n

def parseAction (s : String) : Option Action :=
  match s.toList with
  | ['d'] => some .default
  | ['i'] => some .ignore
  | 'c' :: r => (String.ofList r).toNat?.map .command
  | _ => none

def parseBool (s : String) : Option Bool :=
  if s == "0" then some false else if s == "1" then some true else none

inductive DOp where
  | op (o : Op)
  | runTraps (exit : Nat)

def parseOp (k : Nat) (t : String) : Option DOp :=
  match words t with
  | ["set", c, a, ov] => do pure (.op (.setAction (← parseCond c) (← parseAction a) k (← parseBool ov)))
  | ["chld"] => some (.op .enableChld)
  | ["term+"] => some (.op .enableTerminators)
  | ["term-"] => some (.op .disableTerminators)
  | ["stop+"] => some (.op .enableStoppers)
  | ["stop-"] => some (.op .disableStoppers)
  | ["dis"] => some (.op .disableAll)
  | ["sub", i, ks] => do pure (.op (.enterSubshell (← parseBool i) (← parseBool ks)))
  | ["peek", c] => do pure (.op (.peek (← parseCond c)))
  | ["catch", s] => do pure (.op (.catchSignal (← parseSig s)))
  | ["take"] => some (.op .takeCaught)
  | ["takeif", s] => do pure (.op (.takeIfCaught (← parseSig s)))
  | ["deliver", s] => do
    let n ← parseSig s
    if n = SIGKILL ∨ n = SIGSTOP then none else pure (.op (.deliver n))
  | ["run", n] => do pure (.runTraps (← n.toNat?))
  | _ => none

def showAction : Action → String
  | .default => "d"
  | .ignore => "i"
  | .command c => s!"c{c}"

def showOrigin : Origin → String
  | .inherited => "I"
  | .subshell => "S"
  | .user l => s!"U{l}"

def showTS (t : TrapState) : String :=
  s!"{showAction t.action}.{showOrigin t.origin}.{if t.pending then 1 else 0}"

def showOptTS : Option TrapState → String
  | none => "-"
  | some t => showTS t

def showDisp : Disp → String
  | .default => "D"
  | .ignore => "I"
  | .catch => "C"

def showErr : Option SetActionError → String
  | none => "ok"
  | some .initiallyIgnored => "initially-ignored"
  | some .sigkill => "sigkill"
  | some .sigstop => "sigstop"

def viewCond (st : State) (c : Nat) : String :=
  let s := getState st.traps c
  let base := s!"{showOptTS s.1}/{showOptTS s.2}"
  if c = 0 then base else s!"{base}/{showDisp (st.sys.disp c)}{if st.sys.blocked c then 1 else 0}"

def views (st : State) : List String := condTable.map fun (_, c) => viewCond st c

def delta (old new : List String) : List String :=
  (condTable.zip (old.zip new)).filterMap fun ((name, _), (o, n)) =>
    if o == n then none else some s!"{name}={n}"

/-- bodies used by the harness: `probe <c>; st 7` -/
def body7 (_ : Nat) (_ : Int) : BodyResult := { exit := 7 }

def opResult (st : State) : DOp → String
  | .op (.setAction c a o ov) => showErr (setAction st c a o ov).2
  | .op (.peek c) => showTS (peekState st c).2
  | .op .takeCaught =>
    match (takeCaughtSignal st.traps).2 with
    | none => "-"
    | some (s, t) => s!"{condName s}:{showTS t}"
  | .op (.takeIfCaught s) => showOptTS (takeSignalIfCaught st.traps s).2
  | .op (.deliver s) =>
    match st.sys.disp s with
    | .default => "dfl"
    | .ignore => "none"
    | .catch => if (st.sys.selectMask.getD st.sys.blocked) s = false then s!"caught:{condName s}" else "stuck"
  | .runTraps e =>
    let r := runTrapsForCaughtSignals body7 false st.traps e
    let runs := r.2.2.map fun (s, c) => s!"{condName s}:{c}@{e}"
    s!"runs={",".intercalate runs};exit={r.2.1}"
  | _ => "-"

def dstep (st : State) : DOp → State
  | .op o => step st o
  | .runTraps e => { st with traps := (runTrapsForCaughtSignals body7 false st.traps e).1 }

/-- Spec verdict for a `run`: the bodies run are exactly the pending command traps, once each, and
    `$?` is preserved; a second run right after runs nothing -/
def runVerdict (st : State) (e : Nat) : Option String :=
  let r := runTrapsForCaughtSignals body7 false st.traps e
  if r.2.2 ≠ pendingCommands st.traps then some "runs"
  else if r.2.1 ≠ (e : Int) then some "exit-status"
  else if (runTrapsForCaughtSignals body7 false r.1 e).2.2 ≠ [] then some "ran-twice"
  else none

def parseInit (t : String) : Option (List Nat) :=
  match words t with
  | "ign" :: sigs => sigs.mapM parseSig
  | _ => none

def opsLine (line : String) : String :=
  let parts := (splitTrim line ";").filter (· ≠ "")
  let (ign, parts) := match parts with
    | p :: rest => match parseInit p with
      | some l => (l, rest)
      | none => ([], p :: rest)
    | [] => ([], [])
  let init : Nat → Disp := fun s => if ign.contains s then .ignore else .default
  let rec parseAll (l : List String) (k : Nat) : Option (List DOp) :=
    match l with
    | [] => some []
    | p :: rest => do
      let o ← parseOp k p
      let r ← parseAll rest (k + 1)
      pure (o :: r)
  match parseAll parts 0 with
  | none => "bad-case\t-"
  | some ops =>
    let rec go (st : State) (vs : List String) (ops : List DOp) (k : Nat) (obs : List String)
        (verdict : Option String) : List String × Option String :=
      match ops with
      | [] => (obs.reverse, verdict)
      | op :: rest =>
        let r := opResult st op
        let st' := dstep st op
        let vs' := views st'
        let d := delta vs vs'
        let v := match verdict with
          | some v => some v
          | none =>
            match specCheck init st' with
            | some w => some s!"FAIL:{w}@{k}"
            | none =>
              match op with
              | .runTraps e => (runVerdict st e).map fun w => s!"FAIL:{w}@{k}"
              | _ => none
        go st' vs' rest (k + 1) (" ".intercalate (s!"r={r}" :: d) :: obs) v
    let st0 := State.init init
    let (obs, verdict) := go st0 (views st0) ops 0 [] none
    " | ".intercalate obs ++ "\t" ++ verdict.getD "ok"

/-! Script-level cases: `script <k> <m> <shape> <s1> … <sn>`: the script is
    `trap 'probe T; st 9' USR1` followed by the commands `st <si>; probe <i>` for i = 1…n (laid out
    in one of seven shapes that do not change what runs), with the signal sent to the shell itself
    before the k-th of these 2n commands (k = 0…2n; larger = never) by `kill -s USR1 $$` (m = 0) or
    by a built-in that also leaves `$?` = m.  The Spec predicts the probe trace: every `probe`
    prints `<$?>:<hex>`; the trap body runs exactly once, at the boundary right after the sending
    command, sees that command's `$?`, and `$?` afterwards is that same value (not the body's 9). -/

def scriptSpec (k m : Nat) (sts : List Nat) : String :=
  let cmds : List (Nat ⊕ Nat) := (sts.zipIdx.map fun (s, i) => [Sum.inl s, Sum.inr (i + 1)]).flatten
  let rec go (l : List (Nat ⊕ Nat)) (i : Nat) (exit : Nat) (acc : List String) : List String × Nat :=
    match l with
    | [] =>
      if i = k then ((s!"{m}:{encStr "T"}" :: acc).reverse, m) else (acc.reverse, exit)
    | c :: rest =>
      let (acc, exit) := if i = k then (s!"{m}:{encStr "T"}" :: acc, m) else (acc, exit)
      match c with
      | .inl s => go rest (i + 1) s acc
      | .inr p => go rest (i + 1) exit (s!"{exit}:{encStr (toString p)}" :: acc)
  let (tr, e) := go cmds 0 0 []
  s!"trace={",".intercalate tr} exit={e}"

def scriptLine (ws : List String) : String :=
  match ws.mapM String.toNat? with
  | some (k :: m :: shape :: s :: sts) =>
    if shape > 6 then "bad-case\t-" else
    let o := scriptSpec k m (s :: sts); s!"{o}\t={o}"
  | _ => "bad-case\t-"

def runLine (line : String) : String :=
  match words line with
  | "script" :: ws => scriptLine ws
  | _ => opsLine line

def main : IO Unit := mainLoop runLine
