/-
  Impl model of the `trap` built-in (`yash-builtin/src/trap.rs`, `trap/syntax.rs`), of
  `Condition::iter` / `Condition::to_string` (`yash-env/src/trap/cond.rs`), of the default effect of a
  signal on the virtual process (`yash-env/src/system/virtual/signal.rs` `SignalEffect::of`), and of
  `wait_for_any_job_or_trap` (`yash-builtin/src/wait/core.rs`) as far as traps are concerned.
  Import-free and executable.
-/
import YashModel.Trap.Model
namespace YashModel.Trap

/-! ## Conditions and their names -/

/-- `Signals::NAMED_SIGNALS` + real-time signals of the virtual system: number and `sig2str` name,
    in ascending number order (the correspondence case `conds` compares this table with
    `Condition::iter` / `Condition::to_string` of the real system on every run) -/
def signalTable : List (Nat × String) :=
  [(1, "HUP"), (2, "INT"), (3, "QUIT"), (6, "ABRT"), (9, "KILL"), (14, "ALRM"), (15, "TERM"),
   (101, "BUS"), (102, "CHLD"), (103, "CONT"), (104, "EMT"), (105, "FPE"), (106, "ILL"), (107, "INFO"),
   (108, "IO"), (109, "LOST"), (110, "PIPE"), (111, "POLL"), (112, "PROF"), (113, "PWR"), (114, "SEGV"),
   (115, "STKFLT"), (116, "STOP"), (117, "SYS"), (118, "THR"), (119, "TRAP"), (120, "TSTP"),
   (121, "TTIN"), (122, "TTOU"), (123, "URG"), (124, "USR1"), (125, "USR2"), (126, "VTALRM"),
   (127, "WINCH"), (128, "XCPU"), (129, "XFSZ"), (201, "RTMIN"), (202, "RTMIN+1"), (203, "RTMIN+2"),
   (204, "RTMIN+3"), (205, "RTMIN+4"), (206, "RTMAX-3"), (207, "RTMAX-2"), (208, "RTMAX-1"),
   (209, "RTMAX")]

/-- `Condition::iter`: `Exit`, then every signal by number -/
def allConditions : List Nat := 0 :: signalTable.map (·.1)

/-- `Condition::to_string` -/
def condToString (c : Nat) : String :=
  if c = 0 then "EXIT" else ((signalTable.find? (·.1 == c)).map (·.2)).getD "?"

def isNonNegativeInteger (s : String) : Bool :=
  !s.isEmpty && s.toList.all Char.isDigit

/-- `syntax::parse_condition`: a number (0 = EXIT, otherwise a valid signal number), `EXIT`, or a
    signal name (`str2sig`: the bare name; case-sensitive, no `SIG` prefix in this model's cases) -/
def parseCondition (s : String) : Option Nat :=
  if isNonNegativeInteger s then
    match s.toNat? with
    | some 0 => some 0
    | some n => if signalTable.any (·.1 == n) then some n else none
    | none => none
  else if s = "EXIT" then some 0
  else (signalTable.find? (·.2 == s)).map (·.1)

/-! ## `syntax::interpret` -/

inductive TrapCmd where
  | printAll (includeDefault : Bool)
  | print (conds : List Nat)
  | setAction (a : Action) (conds : List Nat)
  deriving Repr

inductive SyntaxError where
  /-- only `UnknownCondition` errors: exit status 1, the shell goes on -/
  | unknownCondition
  /-- `MissingCondition`: a hard error of a special built-in -/
  | missingCondition
  deriving Repr, DecidableEq

/-- the action operand: `-`, the empty string, or a command text (`cmdOf` maps the text to the
    number that stands for it in the model) -/
def parseActionOperand (cmdOf : String → Nat) (s : String) : Action :=
  if s = "-" then .default else if s = "" then .ignore else .command (cmdOf s)

/-- `syntax::interpret` (`print` = option `-p` given) -/
def interpret (cmdOf : String → Nat) (print : Bool) (operands : List String) : Except SyntaxError TrapCmd :=
  let (actionField, rest) : Option String × List String :=
    match operands with
    | f :: r => if !print && !isNonNegativeInteger f then (some f, r) else (none, f :: r)
    | [] => (none, [])
  let parsed := rest.map parseCondition
  if parsed.any Option.isNone then .error .unknownCondition
  else
    let conds := parsed.filterMap id
    if print then
      if conds.isEmpty then .ok (.printAll true) else .ok (.print conds)
    else
      match conds.isEmpty, actionField with
      | true, none => .ok (.printAll false)
      | true, some _ => .error .missingCondition
      | false, a => .ok (.setAction ((a.map (parseActionOperand cmdOf)).getD .default) conds)

/-! ## `Command::execute` and `main` -/

/-- one printed line `trap -- <quoted action> <COND>`, kept structured -/
structure TrapLine where
  action : Action
  cond : Nat
  deriving Repr, DecidableEq

/-- `display_trap` -/
def displayTrap (st : State) (cond : Nat) (includeDefault : Bool) : State × List TrapLine :=
  let r := peekState st cond
  match r.2.action with
  | .default => (r.1, if includeDefault then [{ action := .default, cond := cond }] else [])
  | a => (r.1, [{ action := a, cond := cond }])

/-- `display_all_traps`: every condition except KILL and STOP -/
def displayAll (includeDefault : Bool) : List Nat → State → State × List TrapLine
  | [], st => (st, [])
  | c :: cs, st =>
    if c = SIGKILL ∨ c = SIGSTOP then displayAll includeDefault cs st
    else
      let r := displayTrap st c includeDefault
      let r' := displayAll includeDefault cs r.1
      (r'.1, r.2 ++ r'.2)

def displayEach : List Nat → State → State × List TrapLine
  | [], st => (st, [])
  | c :: cs, st =>
    let r := displayTrap st c true
    let r' := displayEach cs r.1
    (r'.1, r.2 ++ r'.2)

/-- the loop of `Command::execute` for `SetAction`: every condition is attempted, errors collected -/
def setActions (a : Action) (origin : Nat) (overrideIgnore : Bool) :
    List Nat → State → State × List SetActionError
  | [], st => (st, [])
  | c :: cs, st =>
    let r := setAction st c a origin overrideIgnore
    let r' := setActions a origin overrideIgnore cs r.1
    (r'.1, (match r.2 with | some e => [e] | none => []) ++ r'.2)

/-- result of the built-in: state, printed lines, exit status, and whether the special built-in
    failed hard (a non-interactive shell then exits) -/
structure TrapResult where
  st : State
  out : List TrapLine := []
  status : Nat := 0
  abort : Bool := false

/-- `Command::execute` -/
def TrapCmd.execute (st : State) (origin : Nat) (interactive : Bool) : TrapCmd → State × List TrapLine × List SetActionError
  | .printAll incl => let r := displayAll incl allConditions st; (r.1, r.2, [])
  | .print conds => let r := displayEach conds st; (r.1, r.2, [])
  | .setAction a conds => let r := setActions a origin interactive conds st; (r.1, [], r.2)

/-- `trap::main`: `InitiallyIgnored` errors are dropped; any other error fails the built-in -/
def trapMain (cmdOf : String → Nat) (st : State) (origin : Nat) (interactive : Bool) (print : Bool)
    (operands : List String) : TrapResult :=
  match interpret cmdOf print operands with
  | .error .unknownCondition => { st := st, status := 1 }
  | .error .missingCondition => { st := st, status := 2, abort := true }
  | .ok cmd =>
    let r := cmd.execute st origin interactive
    let errors := r.2.2.filter (· ≠ .initiallyIgnored)
    if errors.isEmpty then { st := r.1, out := r.2.1 }
    else { st := r.1, status := 1, abort := true }

/-! ## Default effect of a signal on the process (`SignalEffect::of`) -/

inductive Effect where
  | none | terminate | suspend | resume
  deriving DecidableEq, Repr

def defaultEffect (sig : Nat) : Effect :=
  if sig = 102 ∨ sig = 123 ∨ sig = 127 then .none            -- CHLD, URG, WINCH
  else if sig = 103 then .resume                               -- CONT
  else if sig = 116 ∨ sig = 120 ∨ sig = 121 ∨ sig = 122 then .suspend   -- STOP, TSTP, TTIN, TTOU
  else .terminate

/-- what sending `sig` to the shell does (`Process::raise_signal` / `deliver_signal`): KILL and STOP
    always take their default effect; a blocked (= caught) signal stays pending until the next poll;
    otherwise the disposition decides -/
inductive Delivery where
  | caught | ignored | effect (e : Effect)
  deriving DecidableEq, Repr

def delivery (st : State) (sig : Nat) : Delivery :=
  if sig = SIGKILL ∨ sig = SIGSTOP then .effect (defaultEffect sig)
  else match st.sys.disp sig with
    | .catch => .caught
    | .ignore => .ignored
    | .default => .effect (defaultEffect sig)

/-! ## `wait` interrupted by a trapped signal (`wait_for_any_job_or_trap`, `run_trap_if_caught`) -/

/-- `run_trap_if_caught`: take the flag of this one signal; run the action if it is a command -/
def runTrapIfCaught (body : Body) (t : TrapMap) (sig : Nat) (exit : Int)
    : TrapMap × Option (Nat × Int × Option Divert) :=
  let r := takeSignalIfCaught t sig
  match r.2 with
  | none => (r.1, none)
  | some ts =>
    match ts.action with
    | .command c =>
      let x := runTrap body c exit r.1
      (x.2.2, some (c, x.1, x.2.1))
    | _ => (r.1, none)

/-- the `for signal in signals` loop of `wait_for_any_job_or_trap`: the first caught signal (in
    the order the system reported them) whose action is a command interrupts the wait; the flags
    of the later ones are left for the next command boundary -/
def waitTrapLoop (body : Body) : List Nat → TrapMap → Int → TrapMap × Option (Nat × Nat × Int × Option Divert)
  | [], t, _ => (t, none)
  | s :: rest, t, exit =>
    let r := runTrapIfCaught body t s exit
    match r.2 with
    | some (c, e, d) => (r.1, some (s, c, e, d))
    | none => waitTrapLoop body rest r.1 exit

/-- the SIGINT shortcut of `wait_for_any_job_or_trap` (interactive shells: the internal disposition of SIGINT is
    `Catch`): `signals.contains(SIGINT) && env.sigint_has_default_action()` — checked BEFORE the loop over the
    caught signals, on the trap set in which `wait_for_signals` has already marked them pending -/
def waitSigintShortcut (sigs : List Nat) (t : TrapMap) : Bool :=
  sigs.contains SIGINT && sigintHasDefaultAction t

/-- `wait_for_any_job_or_trap` after `wait_for_signals` returned `sigs`: the shortcut ends the built-in with
    `Trapped(SIGINT, Interrupt(Some(384 + SIGINT)))` and runs no action and touches no flag; otherwise the loop -/
def waitAfterSignals (body : Body) (sigs : List Nat) (t : TrapMap) (exit : Int)
    : TrapMap × Option (Nat × Option Nat × Int × Option Divert) :=
  if waitSigintShortcut sigs t then
    (t, some (SIGINT, none, exit, some (.interrupt (some (384 + SIGINT)))))
  else
    match waitTrapLoop body sigs t exit with
    | (t', some (s, c, e, d)) => (t', some (s, some c, e, d))
    | (t', none) => (t', none)

end YashModel.Trap
