/-
  C11 — property theorems of wave 3 (and non-vacuity examples) ONLY.
  Helper lemmas: `Arrivals.lean` (signals arriving while an action runs), `Honest.lean` (the call record),
  `Frames.lean` (the frame walk of `in_trap`), `Economy.lean` (the calls of every operation of a faultless history).
-/
import YashModel.Trap.Arrivals
import YashModel.Trap.Honest
import YashModel.Trap.Theorems
import YashModel.Trap.Frames
import YashModel.Trap.Tables
import YashModel.Trap.TheoremsExt
import YashModel.Trap.Economy
namespace YashModel.Trap

/-! ## 1. "regardless of when the signal arrives": arrivals while an action runs -/

/-- ★ `exactly_once_arrivals_during_actions` — `exactly_once_any_interleaving` without `MapPreserving`.
    Signals may arrive at ANY moment: between commands (`deliver x`) and also WHILE a trap action runs —
    the hypothesis on actions is only `Arrivals body arr`: what an action does to the trap set is that the
    signals `arr c e t` (any signals, any number, its own included, depending on anything) are handed to
    `catch_signal` while it runs; actions may end in any way (normally, `return`, `exit`, an error …).
    For every trap set in key order, every signal `s` with a command trap `c`, every sequence of
    `deliver` / `boundary main exit` events: the history of `s` — deliveries outside and inside actions
    (`true`) and takes of its action (`false`), in the order they happen (`drainEvs` follows the
    recursion of the runner's loop) — is accepted by the POSIX pending discipline `account` (never a run
    without a delivery not yet run, never two runs for one), `s` is pending at the end exactly if its
    last delivery has not run yet,  #runs + [still pending] = #coalesced deliveries,  and the actions
    actually run for `s` over the whole history (`RunResult.runs` of every boundary) are `(s, c)`,
    exactly #runs times.  A runner that cleared the flag after the action (round-6 seed), or drained the
    flags first (round-2 seed), does not satisfy this. -/
theorem exactly_once_arrivals_during_actions (body : Body) (arr : Nat → Int → TrapMap → List Nat)
    (hA : Arrivals body arr) (s c : Nat) (hs0 : s ≠ 0) (t : TrapMap) (hsorted : Sorted t)
    (hact : actionAt t s = some (.command c)) (hp : pendingAt t s = false) (evs : List BEv) :
    let r := runBigA body arr s { traps := t } evs
    ∃ runs deliveries,
      account false r.trace = some (pendingAt r.traps s, runs, deliveries)
      ∧ runs + (if pendingAt r.traps s then 1 else 0) = deliveries
      ∧ r.runs.filter (fun p => p.1 == s) = List.replicate runs (s, c) := by
  intro r
  have h := invA_run body arr hA s c hs0 false evs { traps := t }
    ⟨hsorted, hact, by simp [account, hp], by simp⟩
  have hacc := h.acc
  cases hq : account false r.trace with
  | none => rw [hq] at hacc; simp at hacc
  | some p =>
    obtain ⟨a, n, e⟩ := p
    rw [hq] at hacc
    simp only [Option.map_some, Option.some.injEq] at hacc
    subst hacc
    refine ⟨n, e, rfl, ?_, ?_⟩
    · simpa using account_conserve false _ _ n e hq
    · rw [h.runs, account_runs false _ _ n e hq]

/-- `MapPreserving` is the special case "nothing arrives during an action" -/
theorem arrivals_generalises_mapPreserving (body : Body) (hm : MapPreserving body) :
    Arrivals body (fun _ _ _ => []) := arrivals_of_mapPreserving body hm

/-- non-vacuity: the action of USR1 (`c = 5`) re-sends USR1 and sends INT while it runs; INT's action
    (`c = 7`) ends in `return`.  USR1 is delivered twice before the first boundary (coalesced), runs,
    is delivered again by its own action, runs again at the same boundary … the fuel of one boundary is
    the map size + 1, the rest runs at the next boundary: 3 coalesced deliveries, 3 runs. -/
example :
    let body : Body := fun c _ t =>
      if c = 5 then ({ exit := 0 }, [SIGUSR1, SIGINT].foldl catchSignal t)
      else ({ exit := 0, divert := some (.ret (some 3)) }, t)
    let arr : Nat → Int → TrapMap → List Nat := fun c _ _ => if c = 5 then [SIGUSR1, SIGINT] else []
    let t : TrapMap := set (set [] SIGUSR1 { current := { action := .command 5, origin := .user 0 } })
      SIGINT { current := { action := .command 7, origin := .user 1 } }
    let r := runBigA body arr SIGUSR1 { traps := t }
      [.deliver SIGUSR1, .deliver SIGUSR1, .boundary none 0, .boundary none 1]
    Arrivals body arr
    ∧ r.trace = [true, true, false, true, false, true]
    ∧ r.runs = [(SIGUSR1, 5), (SIGINT, 7), (SIGUSR1, 5), (SIGINT, 7)]
    ∧ pendingAt r.traps SIGUSR1 = true := by
  refine ⟨?_, by decide, by decide, by decide⟩
  intro c e t
  by_cases h : c = 5 <;> simp [h]

/-! ## 2. The call record under faults: a system error is reported exactly when a call failed -/

/-- ★ `system_error_reported_iff_call_failed` (was: evaluated per case by the Spec verdict `honest` and
    by the Rust oracle only).  For EVERY state of the recording layer — any trap set, any system, any
    fault plan — and every operation of the history alphabet: the record only grows, and `set_action`
    reports `SystemError` / an enable-disable function returns `Err` exactly when one of the primitive
    calls (`sigmask`, `sigaction`) the operation made has failed.  In particular no failed call is
    swallowed by these operations (`enter_subshell` drops errors by design and reports nothing), and an
    error is never reported without a failed call. -/
theorem system_error_reported_iff_call_failed (st : FState) (op : Op) :
    honest (resultF st op) (newCalls st (stepF st op)) = true
    ∧ ∃ L, (stepF st op).sys.log = st.sys.log ++ L := by
  exact ⟨honest_step st op, log_grows st op⟩

/-- `peek_state` (`trap -p`) whose `get_disposition` fails (was: "assumed not to fail"): the error is
    returned, no entry is inserted, and neither the trap set nor the system changes — for every state and
    fault plan; a successful peek never changes the system either (it only reads). -/
theorem peek_error_changes_nothing (st : FState) (c : Nat) :
    ((peekStateF st c).2 = none →
        (peekStateF st c).1.traps = st.traps ∧ get st.traps c = none ∧ c ≠ 0)
    ∧ (peekStateF st c).1.sys.sys = st.sys.sys := by
  have hins : ∀ (fs : FSys) (e : Option GrandState),
      ((GrandState.insertFromSystemIfVacantF fs e c).2 = none → e = none ∧ c ≠ 0)
      ∧ (GrandState.insertFromSystemIfVacantF fs e c).1.sys = fs.sys := by
    intro fs e
    unfold GrandState.insertFromSystemIfVacantF
    cases e with
    | some g => simp
    | none =>
      simp only
      by_cases hc : c ≠ 0
      · rw [if_pos hc]
        have hg : (fs.getDisposition c).2.sys = fs.sys := by
          unfold FSys.getDisposition; split <;> rfl
        cases h1 : (fs.getDisposition c).1 with
        | none => simp [hg, hc]
        | some d => simp [hg]
      · rw [if_neg hc]; simp
  have h := hins st.sys (get st.traps c)
  unfold peekStateF
  simp only
  cases h2 : (GrandState.insertFromSystemIfVacantF st.sys (get st.traps c) c).2 with
  | none => exact ⟨fun _ => ⟨rfl, h.1 h2⟩, h.2⟩
  | some g => exact ⟨fun hh => by simp at hh, h.2⟩

/-- non-vacuity: the first `trap -p INT` fails, the second succeeds and records the inherited `Ignore` -/
example :
    let st := FState.init (fun s => if s = SIGINT then .ignore else .default) [true]
    (peekStateF st SIGINT).2 = none
    ∧ ((peekStateF (peekStateF st SIGINT).1 SIGINT).2.map (·.action)) = some .ignore := by decide

/-- non-vacuity: `enable_internal_dispositions_for_terminators` whose fourth primitive call (the
    `sigaction(TERM, Ignore)`) fails: three calls succeeded, the fourth is recorded as failed, no fifth
    is made, and `Err` is returned -/
example :
    let st := FState.init (fun _ => .default) [false, false, true]
    (newCalls st (stepF st .enableTerminators)).map (·.ok) = [true, true, false]
    ∧ resultF st .enableTerminators = .ok false := by decide


/-! ## 3. `enter_subshell` against its documentation (round-7 seed) -/

/-- ★ `subshell_meets_documentation` — the Spec function `subshellExpect` (Spec.lean: what the
    documentation of `TrapSet::enter_subshell` and POSIX say, computed from the state BEFORE the call
    without looking at the per-signal option of the code) is what the model does, in every reachable
    state, for every signal and both flags: SIGINT and SIGQUIT of an asynchronous list are ignored —
    installed disposition AND recorded action — whether the trap set knew them or not and whatever it
    held for them (vacant, `{Default}` left by `trap - INT` / `trap -p`, a command, an internal `Catch`);
    enabled stoppers stay ignored under `keep_stoppers`; every other signal gets the POSIX reset of its
    action merged with SIGCHLD's internal disposition only; unknown signals are not touched.
    (`subshell_dispositions` says the same through `subshellOption`; this statement does not mention it,
    so a loop that skips entries "with nothing to reset" cannot satisfy it.) -/
theorem subshell_meets_documentation (init : Nat → Disp) (st : State) (h : Inv init st) (ii ks : Bool)
    (s : Nat) (hs0 : s ≠ 0) :
    (enterSubshell st ii ks).sys.disp s = (subshellExpect st ii ks s).1
    ∧ (get (enterSubshell st ii ks).traps s).map (·.current.action) = (subshellExpect st ii ks s).2 := by
  have hci : ¬ SIGCHLD = SIGINT := by decide
  have hcq : ¬ SIGCHLD = SIGQUIT := by decide
  cases hg : get st.traps s with
  | none =>
    have hv := subshell_vacant init st h ii ks s hs0 hg
    have hn := get_enterSubshell_none st ii ks s hg
    unfold subshellExpect
    by_cases hc : ii = true ∧ (s = SIGINT ∨ s = SIGQUIT)
    · obtain ⟨g', hg', ha, _⟩ := hn.1 hc
      rw [if_pos hc]
      exact ⟨hv.1 hc, by rw [hg']; simp [ha]⟩
    · rw [if_neg hc, hg]
      exact ⟨(hv.2 hc).2, by rw [(hv.2 hc).1]; rfl⟩
  | some g =>
    obtain ⟨g', hg', _, hact, _, hdisp⟩ := subshell_dispositions init st h ii ks s hs0 g hg
    unfold subshellExpect
    rw [hg', hdisp, Option.map_some, hact]
    unfold subshellOption
    simp only [hs0, if_false, hg, posixReset_eq]
    by_cases hchld : s = SIGCHLD
    · subst hchld
      have hst : ¬ (SIGCHLD = SIGTSTP ∨ SIGCHLD = SIGTTIN ∨ SIGCHLD = SIGTTOU) := by decide
      simp [hci, hcq, hst]
    · simp only [hchld, if_false]
      by_cases hc : ii = true ∧ (s = SIGINT ∨ s = SIGQUIT)
      · simp [hc]
      · simp only [hc, if_false]
        by_cases hk : ks = true ∧ (s = SIGTSTP ∨ s = SIGTTIN ∨ s = SIGTTOU) ∧ g.internal ≠ .default
        · simp [hk]
        · simp [hk, Disp.max_default_left]

/-- … for every history: the state reached by any operation sequence from any inherited dispositions -/
theorem subshell_meets_documentation_all_histories (init : Nat → Disp) (hinit : ∀ s, init s ≠ .catch)
    (ops : List Op) (ii ks : Bool) (s : Nat) (hs0 : s ≠ 0) :
    let st := run (State.init init) ops
    (enterSubshell st ii ks).sys.disp s = (subshellExpect st ii ks s).1
    ∧ (get (enterSubshell st ii ks).traps s).map (·.current.action) = (subshellExpect st ii ks s).2 :=
  subshell_meets_documentation init _ (inv_run init hinit ops _ (inv_init_state init hinit)) ii ks s hs0

/-- non-vacuity (the round-7 scenario): `trap - INT` (or `trap -p INT`) leaves an entry `{Default}`;
    the asynchronous list must still get SIGINT ignored, and SIGQUIT (unknown to the trap set) too -/
example :
    let st := run (State.init fun _ => .default) [.setAction SIGINT .default 0 false, .peek SIGTERM]
    (get st.traps SIGINT).map (·.current.action) = some .default
    ∧ subshellExpect st true false SIGINT = (.ignore, some .ignore)
    ∧ (enterSubshell st true false).sys.disp SIGINT = .ignore
    ∧ (enterSubshell st true false).sys.disp SIGQUIT = .ignore
    ∧ (enterSubshell st true false).sys.disp SIGTERM = .default := by decide

/-! ## 4. `in_trap`: the frame walk that was a Boolean parameter -/

/-- ★ `in_trap_is_signal_trap_above_nearest_subshell` — `in_trap` (transcribed as the iterator chain of the
    code) says `true` exactly when the stack is `outer ++ [Trap(Signal c)] ++ inner` with no `Subshell` frame
    in `inner`: some signal trap action is running in THIS shell process.  Per frame pushed: a signal trap
    frame sets it, an EXIT trap frame (`c = 0`) and every other frame leave it as it was, a `Subshell` frame
    clears it ("this function does run traps in a subshell executed in a trap"). -/
theorem in_trap_is_signal_trap_above_nearest_subshell (stack : List Frame) :
    (inTrap stack = true ↔
      ∃ outer c inner, stack = outer ++ Frame.trap c :: inner ∧ c ≠ 0 ∧ Frame.subshell ∉ inner)
    ∧ (∀ c, inTrap (stack ++ [.trap c]) = (c != 0 || inTrap stack))
    ∧ inTrap (stack ++ [.subshell]) = false
    ∧ (∀ f, f ≠ .subshell → (∀ c, f ≠ .trap c) → inTrap (stack ++ [f]) = inTrap stack) := by
  refine ⟨inTrap_iff stack, fun c => by rw [inTrap_push], by rw [inTrap_push], ?_⟩
  intro f h1 h2
  rw [inTrap_push]
  cases f <;> simp_all

/-- the Spec function `signalTrapRunning` (read from the outermost frame: a `Subshell` frame forgets, a
    signal trap frame is remembered) is the code's walk from the innermost frame -/
theorem signal_trap_running_is_in_trap (stack : List Frame) : signalTrapRunning stack false = inTrap stack :=
  signalTrapRunning_inTrap stack

/-- ★ `no_trap_action_inside_a_trap_action` — `no_nested_trap` on the real stack: while the action of a
    signal trap runs (its `Frame::Trap` is pushed by `run_trap`), every command boundary inside it — under
    any further loop / condition / dot-script / built-in / EXIT-trap frames — runs nothing, loses nothing
    (the trap set, with every pending flag, and `$?` are untouched; no divert); in a subshell started inside
    the action, and in an EXIT trap action, the runner behaves as at top level. -/
theorem no_trap_action_inside_a_trap_action (body : Body) (outer inner : List Frame) (c : Nat) (hc : c ≠ 0)
    (hin : Frame.subshell ∉ inner) (t : TrapMap) (exit : Int) :
    (runTrapsOnStack body (outer ++ Frame.trap c :: inner) t exit).runs = []
    ∧ (runTrapsOnStack body (outer ++ Frame.trap c :: inner) t exit).traps = t
    ∧ (runTrapsOnStack body (outer ++ Frame.trap c :: inner) t exit).exit = exit
    ∧ (runTrapsOnStack body (outer ++ Frame.trap c :: inner) t exit).divert = none
    ∧ (∀ rest, (∀ f ∈ rest, Frame.isSignalTrap f = false) →
        runTrapsOnStack body (outer ++ Frame.trap c :: inner ++ Frame.subshell :: rest) t exit
          = runTrapsForCaughtSignals body false t exit)
    ∧ runTrapsOnStack body [Frame.trap 0] t exit = runTrapsForCaughtSignals body false t exit := by
  have h : inTrap (outer ++ Frame.trap c :: inner) = true :=
    (inTrap_iff _).mpr ⟨outer, c, inner, rfl, hc, hin⟩
  refine ⟨by simp [runTrapsOnStack, runTrapsForCaughtSignals, h], by simp [runTrapsOnStack, runTrapsForCaughtSignals, h],
    by simp [runTrapsOnStack, runTrapsForCaughtSignals, h], by simp [runTrapsOnStack, runTrapsForCaughtSignals, h], ?_, ?_⟩
  · intro rest hrest
    have : inTrap (outer ++ Frame.trap c :: inner ++ Frame.subshell :: rest) = false := by
      cases hx : inTrap (outer ++ Frame.trap c :: inner ++ Frame.subshell :: rest) with
      | false => rfl
      | true =>
        obtain ⟨o, c', i, e, hc', hi⟩ := (inTrap_iff _).mp hx
        -- the signal trap frame found lies after the `Subshell` frame, i.e. in `rest`
        have hmem : Frame.trap c' ∈ rest := by
          have e' : (outer ++ Frame.trap c :: inner) ++ Frame.subshell :: rest = o ++ Frame.trap c' :: i := by
            simpa using e
          rcases List.append_eq_append_iff.mp e' with ⟨a, h1, h2⟩ | ⟨a, h1, h2⟩
          · -- o = (outer ++ …) ++ a, subshell :: rest = a ++ trap c' :: i
            cases a with
            | nil => simp at h2
            | cons x a =>
              simp only [List.cons_append, List.cons.injEq] at h2
              rw [h2.2]; simp
          · -- (outer ++ …) = o ++ a, trap c' :: i = a ++ subshell :: rest : then subshell ∈ i
            cases a with
            | nil => simp at h2
            | cons x a =>
              simp only [List.cons_append, List.cons.injEq] at h2
              exact absurd (by rw [h2.2]; simp) hi
        have := hrest _ hmem
        simp [Frame.isSignalTrap, hc'] at this
    have this' : inTrap (outer ++ Frame.trap c :: (inner ++ Frame.subshell :: rest)) = false := by
      simpa using this
    simp [runTrapsOnStack, this']
  · rfl

/-- non-vacuity: inside the action of USR1, under a loop in a dot script, nothing runs and INT stays
    pending; in a subshell of that action INT's action runs -/
example :
    let body : Body := fun _ _ t => ({ exit := 0 }, t)
    let t : TrapMap := [(SIGINT, { current := { action := .command 7, origin := .user 0, pending := true } })]
    (runTrapsOnStack body [.dotScript, .trap SIGUSR1, .loop, .condition] t 0).runs = []
    ∧ pendingCommands (runTrapsOnStack body [.dotScript, .trap SIGUSR1, .loop, .condition] t 0).traps = [(SIGINT, 7)]
    ∧ (runTrapsOnStack body [.trap SIGUSR1, .loop, .subshell, .trap 0] t 0).runs = [(SIGINT, 7)] := by decide

/-! ## 5. Tie of the wave-3 tables to the model -/

open YashModel.Generated in
/-- the per-condition option of `TrapSet::enter_subshell` that the model types by hand (`subshellOption`:
    EXIT clears, SIGCHLD keeps, SIGINT/SIGQUIT under the first flag and enabled SIGTSTP/SIGTTIN/SIGTTOU under
    the second are ignored, everything else clears) is the `if`-chain re-extracted from yash-env/src/trap.rs on
    every run — for every condition number, entry and flag pair; and the trailing loop of the model is the
    generated one.  (The extractor refuses a loop body with any statement besides the option selection and
    the `enter_subshell` call, so the chain is all that decides the option.) -/
theorem tables_subshell_rules (cond : Nat) (g : GrandState) (ii ks : Bool) (st : State) :
    subshellOption cond g ii ks = genSubshellOption cond g ii ks
    ∧ enterSubshell st ii ks
        = genSubshellTrailing ⟨(enterAll st.sys ii ks (clearParents st.traps)).1,
                               (enterAll st.sys ii ks (clearParents st.traps)).2⟩ ii ks := by
  have hrows : genSubshellRows
      = [([102], [], .keep), ([2, 3], [0], .ignore), ([120, 121, 122], [1, 2], .ignore)] := by decide
  have hexit : parseSubOpt TrapTables.subshellExit = .clear := by decide
  have helse : parseSubOpt TrapTables.subshellElse = .clear := by decide
  constructor
  · unfold subshellOption genSubshellOption
    rw [hrows, hexit, helse]
    by_cases h0 : cond = 0
    · simp [h0]
    · simp only [h0, if_false, genSubshellChain, SIGCHLD, SIGINT, SIGQUIT, SIGTSTP, SIGTTIN, SIGTTOU]
      by_cases h1 : cond = 102
      · simp [h1]
      · by_cases h2 : cond = 2 ∨ cond = 3
        · cases ii <;> rcases h2 with h2 | h2 <;> simp [h2, subFlag]
        · have h2a : ¬ cond = 2 := fun h => h2 (Or.inl h)
          have h2b : ¬ cond = 3 := fun h => h2 (Or.inr h)
          by_cases h3 : cond = 120 ∨ cond = 121 ∨ cond = 122
          · cases ks <;> cases hi : g.internal <;> rcases h3 with h3 | h3 | h3 <;> simp [h3, hi, subFlag]
          · have h3a : ¬ cond = 120 := fun h => h3 (Or.inl h)
            have h3b : ¬ cond = 121 := fun h => h3 (Or.inr (Or.inl h))
            have h3c : ¬ cond = 122 := fun h => h3 (Or.inr (Or.inr h))
            simp [h1, h2a, h2b, h3a, h3b, h3c, subFlag]
  · unfold enterSubshell genSubshellTrailing
    cases ii <;> simp [TrapTables.subshellTrailing, SIGINT, SIGQUIT]

open YashModel.Generated in
/-- `Frame` has exactly the variants of `pub enum Frame` (yash-env/src/stack.rs), and `inTrap` walks as the
    extracted `in_trap` does: from the innermost frame, up to the first `Subshell`, looking for
    `Trap(Signal(_))` -/
theorem tables_frames_and_in_trap :
    Frame.samples.map Frame.variant = TrapTables.frameVariants
    ∧ TrapTables.inTrapWalk = (true, Frame.subshell.variant, "Trap.Signal")
    ∧ (∀ f : Frame, f.variant ∈ TrapTables.frameVariants)
    ∧ (∀ f : Frame, f.isSignalTrap = true → f.variant = "Trap") := by
  refine ⟨by decide, by decide, ?_, ?_⟩
  · intro f; cases f <;> simp [Frame.variant, TrapTables.frameVariants]
  · intro f; cases f <;> simp [Frame.isSignalTrap, Frame.variant]

/-! ## 6. The Spec column's state verdict, for all histories -/

/-- `specCheck` — the executable verdict the driver prints in the Spec column after every operation of an ops
    / `tb` case (installed = merge, blocked ⇔ caught, KILL/STOP untouched, for the ten watched signals) — is
    `none` for EVERY history from every inherited dispositions ∈ {Default, Ignore}: the per-case evaluation can
    only ever fire when the model itself is changed (it is a consequence of `disposition_invariant`,
    `mask_iff_catch`, `kill_stop_never_caught`). -/
theorem spec_check_never_fires (init : Nat → Disp) (hinit : ∀ s, init s ≠ .catch) (ops : List Op) :
    specCheck init (run (State.init init) ops) = none := by
  unfold specCheck
  rw [List.findSome?_eq_none_iff]
  intro sig hsig
  have hs0 : sig ≠ 0 := by
    intro h; subst h; revert hsig; decide
  have h1 := disposition_invariant init hinit ops sig hs0
  have h2 := mask_iff_catch init hinit ops sig
  have h3 := fun hk => (kill_stop_never_caught init hinit ops sig hk).1
  simp only [Option.map_eq_none_iff]
  unfold specViolation
  rw [if_neg (by simpa using h1)]
  have hb : (run (State.init init) ops).sys.blocked sig
      = ((run (State.init init) ops).sys.disp sig == .catch) := by
    by_cases hd : (run (State.init init) ops).sys.disp sig = .catch
    · rw [h2.mpr hd, hd]; rfl
    · have hbl : (run (State.init init) ops).sys.blocked sig = false := by
        cases hbl : (run (State.init init) ops).sys.blocked sig with
        | false => rfl
        | true => exact absurd (h2.mp hbl) hd
      rw [hbl]
      exact (beq_eq_false_iff_ne.mpr hd).symm
  rw [if_neg (by simpa using hb)]
  rw [if_neg]
  rintro ⟨hk, hne⟩
  exact hne (h3 hk)

/-- … and over the recording layer when no call fails (the `state:` clause of `scViolation`) -/
theorem spec_check_never_fires_faultless (init : Nat → Disp) (hinit : ∀ s, init s ≠ .catch) (ops : List Op) :
    specCheck init (runF (FState.init init []) ops).toState = none := by
  rw [(faultless_refines init ops).1]
  exact spec_check_never_fires init hinit ops

/-! ## 7. The calls of whole histories ("system call issued only when the effective maximum changes") -/

/-- ★ `faultless_calls_clean` (was: proved per entry by `occupied_no_needless_syscall`, evaluated per case for whole
    operations).  For EVERY history without faults, from every inherited dispositions ∈ {Default, Ignore}, and
    every next operation — also the multi-signal ones: the six enable/disable sequences, `enter_subshell` with
    its loop over the whole trap set and the trailing SIGINT/SIGQUIT loop —: the calls the operation makes
    never re-install the installed disposition of a signal the trap set knows (`economical`), never touch KILL
    or STOP (`sparesKillStop`), come as `mask+, sigaction(Catch)` / `sigaction(d), mask-` (`wellBracketed`; a
    `get_sigaction` of `peek` apart), and none fails. -/
theorem faultless_calls_clean (init : Nat → Disp) (hinit : ∀ s, init s ≠ .catch) (ops : List Op) (op : Op) :
    let st := runF (FState.init init []) ops
    economical st.traps (newCalls st (stepF st op)) = true
    ∧ sparesKillStop (newCalls st (stepF st op)) = true
    ∧ wellBracketed (writes (newCalls st (stepF st op))) = true
    ∧ anyFailed (newCalls st (stepF st op)) = false :=
  faultless_calls_clean_aux init hinit ops op

/-- ★ `sc_verdict_never_fires` — the whole Spec verdict of the `sc` leg (`scViolation`: KILL/STOP spared,
    error reported iff a call failed, no needless call, bracket order, state predicate) is `none` for every
    operation after every faultless history: all five clauses are now theorems about the model, the per-case
    evaluation can only fire when the model is changed (or a fault is injected: then only `honest` and
    `sparesKillStop` are demanded, and `honest` is proved for every fault plan). -/
theorem sc_verdict_never_fires (init : Nat → Disp) (hinit : ∀ s, init s ≠ .catch) (ops : List Op) (op : Op) :
    let st := runF (FState.init init []) ops
    scViolation init false st (stepF st op) (resultF st op) = none := by
  intro st
  obtain ⟨h1, h2, h3, h4⟩ :
      economical st.traps (newCalls st (stepF st op)) = true
      ∧ sparesKillStop (newCalls st (stepF st op)) = true
      ∧ wellBracketed (writes (newCalls st (stepF st op))) = true
      ∧ anyFailed (newCalls st (stepF st op)) = false := faultless_calls_clean init hinit ops op
  have h5 := honest_step st op
  have h6 : specCheck init (stepF st op).toState = none := by
    have := spec_check_never_fires_faultless init hinit (ops ++ [op])
    rwa [runF_snoc] at this
  unfold scViolation
  simp only [h2, h5, h4, h1, h3, h6, Bool.not_true, Bool.false_eq_true, if_false, Bool.or_false, Option.map_none]

/-- non-vacuity: an asynchronous list entered from an interactive shell with a command trap and a peeked
    signal — six calls, verdict clean -/
example :
    let ops : List Op := [.enableTerminators, .setAction SIGUSR1 (.command 1) 0 false, .peek SIGKILL, .enableChld]
    let st := runF (FState.init (fun _ => .default) []) ops
    (newCalls st (stepF st (.enterSubshell true false))).length = 6
    ∧ scViolation (fun _ => .default) false st (stepF st (.enterSubshell true false))
        (resultF st (.enterSubshell true false)) = none := by decide

end YashModel.Trap
