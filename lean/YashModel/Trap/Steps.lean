/-
  C11 — helper lemmas, part 2: every `GrandState` / `TrapSet` operation preserves the invariant
  (sorted map, installed disposition = reference merge, mask consistent).
-/
import YashModel.Trap.Lemmas
namespace YashModel.Trap

/-- the installed disposition of every signal is the reference merge -/
def DInv (init : Nat → Disp) (st : State) : Prop :=
  ∀ s, s ≠ 0 → st.sys.disp s = expected (get st.traps s) (init s)

structure Inv (init : Nat → Disp) (st : State) : Prop where
  sorted : Sorted st.traps
  disp : DInv init st
  sys : SysOK st.sys

/-! ### entry level: `GrandState::set_action` -/

theorem setActionE_other (sys : Sys) (e : Option GrandState) (k s : Nat) (a : Action) (o : Nat) (ov : Bool)
    (hs : s ≠ k) : (GrandState.setAction sys e k a o ov).1.disp s = sys.disp s := by
  unfold GrandState.setAction
  cases e with
  | none =>
    simp only
    split
    · split
      · simp [hs]
      · simp only []
        split <;> split <;> simp [hs]
    · rfl
  | some g =>
    simp only
    split
    · rfl
    · simp only []
      split <;> simp [hs]

theorem setActionE_same (sys : Sys) (e : Option GrandState) (k : Nat) (a : Action) (o : Nat) (ov : Bool)
    (init : Disp) (hk : k ≠ 0) (hi : init ≠ .catch) (h : sys.disp k = expected e init) :
    (GrandState.setAction sys e k a o ov).1.disp k
      = expected (some (GrandState.setAction sys e k a o ov).2.1) init := by
  unfold GrandState.setAction
  cases e with
  | none =>
    simp only [expected_none] at h
    simp only [hk, ne_eq, not_false_eq_true, if_true, setDisposition_fst, h]
    cases ov <;> cases init <;> cases a <;>
      simp_all [Action.toDisp, TrapState.fromInitial, Disp.max, Disp.rank]
  | some g =>
    simp only [expected_some] at h
    simp only [hk, ne_eq, not_false_eq_true, true_and]
    split
    · simpa using h
    · simp only [expected_some]
      split
      · simp
      · rename_i hne
        simp only [Decidable.not_not] at hne
        rw [← hne, h]

theorem setActionE_sysOK (sys : Sys) (e : Option GrandState) (k : Nat) (a : Action) (o : Nat) (ov : Bool)
    (h : SysOK sys) : SysOK (GrandState.setAction sys e k a o ov).1 := by
  unfold GrandState.setAction
  cases e with
  | none =>
    simp only
    split
    · split
      · exact sysOK_setDisposition sys k .ignore h
      · simp only []
        split <;> split <;>
          first
            | exact sysOK_setDisposition _ _ _ (sysOK_setDisposition _ _ _ h)
            | exact sysOK_setDisposition _ _ _ h
            | exact h
    · exact h
  | some g =>
    simp only
    split
    · exact h
    · simp only []
      split
      · exact sysOK_setDisposition _ _ _ h
      · exact h

/-! ### entry level: `GrandState::set_internal_disposition` -/

theorem setInternalE_other (sys : Sys) (e : Option GrandState) (k s : Nat) (d : Disp) (hs : s ≠ k) :
    (GrandState.setInternal sys e k d).1.disp s = sys.disp s := by
  unfold GrandState.setInternal
  cases e with
  | none => simp only; split <;> simp [hs]
  | some g => simp only; split <;> simp [hs]

theorem setInternalE_same (sys : Sys) (e : Option GrandState) (k : Nat) (d : Disp)
    (init : Disp) (hi : init ≠ .catch) (h : sys.disp k = expected e init) :
    (GrandState.setInternal sys e k d).1.disp k
      = expected (GrandState.setInternal sys e k d).2 init := by
  unfold GrandState.setInternal
  cases e with
  | none =>
    simp only [expected_none] at h
    simp only [setDisposition_fst, h]
    cases d <;> cases init <;> simp_all [Action.toDisp, TrapState.fromInitial, Disp.max, Disp.rank]
  | some g =>
    simp only [expected_some] at h
    simp only [expected_some]
    split
    · simp
    · rename_i hne
      simp only [Decidable.not_not] at hne
      rw [← hne, h]

theorem setInternalE_sysOK (sys : Sys) (e : Option GrandState) (k : Nat) (d : Disp) (h : SysOK sys) :
    SysOK (GrandState.setInternal sys e k d).1 := by
  unfold GrandState.setInternal
  cases e with
  | none => simp only; split <;> first | exact h | exact sysOK_setDisposition _ _ _ h
  | some g => simp only; split <;> first | exact h | exact sysOK_setDisposition _ _ _ h

/-! ### entry level: `GrandState::enter_subshell`, `GrandState::ignore` -/

theorem enterE_other (sys : Sys) (g : GrandState) (k s : Nat) (opt : SubOpt) (hs : s ≠ k) :
    (g.enterSubshell sys k opt).1.disp s = sys.disp s := by
  unfold GrandState.enterSubshell
  simp only; split <;> simp [hs]

/-- after `enter_subshell` the new disposition is again the reference merge -/
theorem enterNewDisp_eq (g : GrandState) (opt : SubOpt) :
    g.enterNewDisp opt = (g.enterState opt).internal.max (g.enterState opt).current.action.toDisp := by
  obtain ⟨⟨a, o, p⟩, par, i⟩ := g
  cases opt <;> cases a <;> cases i <;> rfl

theorem enterE_same (sys : Sys) (g : GrandState) (k : Nat) (opt : SubOpt) (hk : k ≠ 0)
    (h : sys.disp k = g.internal.max g.current.action.toDisp) :
    (g.enterSubshell sys k opt).1.disp k
      = (g.enterSubshell sys k opt).2.internal.max (g.enterSubshell sys k opt).2.current.action.toDisp := by
  unfold GrandState.enterSubshell
  simp only [hk, ne_eq, not_false_eq_true, and_true]
  rw [← enterNewDisp_eq]
  split
  · simp
  · rename_i hne
    simp only [Decidable.not_not] at hne
    rw [← hne, h]

theorem enterE_sysOK (sys : Sys) (g : GrandState) (k : Nat) (opt : SubOpt) (h : SysOK sys) :
    SysOK (g.enterSubshell sys k opt).1 := by
  unfold GrandState.enterSubshell
  simp only; split <;> first | exact h | exact sysOK_setDisposition _ _ _ h

theorem enterE_snd (sys : Sys) (g : GrandState) (k : Nat) (opt : SubOpt) :
    (g.enterSubshell sys k opt).2 = g.enterState opt := rfl

theorem ignoreE_other (sys : Sys) (k s : Nat) (hs : s ≠ k) :
    (GrandState.ignore sys k).1.disp s = sys.disp s := by
  simp [GrandState.ignore, hs]

theorem ignoreE_same (sys : Sys) (k : Nat) :
    (GrandState.ignore sys k).1.disp k
      = (GrandState.ignore sys k).2.internal.max (GrandState.ignore sys k).2.current.action.toDisp := by
  simp [GrandState.ignore, Action.toDisp, Disp.max_default_left]

theorem ignoreE_sysOK (sys : Sys) (k : Nat) (h : SysOK sys) : SysOK (GrandState.ignore sys k).1 :=
  sysOK_setDisposition sys k .ignore h

/-- what `enter_subshell` installs for its own signal depends only on what was installed for it -/
theorem enterE_congr (sys sys' : Sys) (g : GrandState) (k : Nat) (opt : SubOpt)
    (h : sys'.disp k = sys.disp k) :
    (g.enterSubshell sys' k opt).1.disp k = (g.enterSubshell sys k opt).1.disp k := by
  unfold GrandState.enterSubshell
  simp only; split <;> simp [h]

/-! ### the loop of `TrapSet::enter_subshell` -/

theorem enterAll_sysOK (sys : Sys) (ii ks : Bool) (t : TrapMap) (h : SysOK sys) :
    SysOK (enterAll sys ii ks t).1 := by
  induction t generalizing sys with
  | nil => exact h
  | cons kv t ih =>
    obtain ⟨k, g⟩ := kv
    simp only [enterAll]
    exact ih _ (enterE_sysOK _ _ _ _ h)

theorem get_enterAll (sys : Sys) (ii ks : Bool) (t : TrapMap) (s : Nat) :
    get (enterAll sys ii ks t).2 s
      = (get t s).map fun g => g.enterState (subshellOption s g ii ks) := by
  induction t generalizing sys with
  | nil => simp [enterAll, get]
  | cons kv t ih =>
    obtain ⟨k, g⟩ := kv
    simp only [enterAll, get]
    by_cases h : s = k
    · subst h; simp [enterE_snd]
    · simp [h, ih]

theorem sorted_enterAll (sys : Sys) (ii ks : Bool) (t : TrapMap) (h : Sorted t) :
    Sorted (enterAll sys ii ks t).2 := by
  induction t generalizing sys with
  | nil => exact h
  | cons kv t ih =>
    obtain ⟨k, g⟩ := kv
    obtain ⟨hlo, hs⟩ := h
    simp only [enterAll]
    refine ⟨?_, ih _ hs⟩
    apply lo_of_get_eq _ hlo
    intro s
    rw [get_enterAll]
    cases get t s <;> rfl

/-- the loop touches the disposition of `s` only through the entry of `s` -/
theorem enterAll_disp (sys : Sys) (ii ks : Bool) (t : TrapMap) (s : Nat) (hsorted : Sorted t) :
    (enterAll sys ii ks t).1.disp s
      = match get t s with
        | none => sys.disp s
        | some g => (g.enterSubshell sys s (subshellOption s g ii ks)).1.disp s := by
  induction t generalizing sys with
  | nil => simp [enterAll, get]
  | cons kv t ih =>
    obtain ⟨k, g⟩ := kv
    obtain ⟨hlo, hs⟩ := hsorted
    simp only [enterAll, get]
    rw [ih _ hs]
    by_cases h : s = k
    · subst h
      simp [lo_get_none hlo]
    · simp only [h, if_false]
      cases hg : get t s with
      | none => simp [enterE_other _ _ _ _ _ h]
      | some g' =>
        simp only
        exact enterE_congr _ _ _ _ _ (enterE_other _ _ _ _ _ h)

end YashModel.Trap
