/-
  C11 — helper lemmas (wave 3, second pass): `trap` commands run while signals are pending — in the script or
  inside a trap action, on the signal being handled or on another one.
-/
import YashModel.Trap.Interleave
namespace YashModel.Trap

theorem pendingAt_clearParents (t : TrapMap) (s : Nat) : pendingAt (clearParents t) s = pendingAt t s := by
  unfold pendingAt
  rw [get_clearParents]
  cases get t s <;> rfl

/-- what `TrapSet::set_action` does to the pending flag of signal `s`: a command for another condition, or a
    rejected one (KILL/STOP, ignored on entry), leaves it; an accepted one on `s` clears it (the whole
    `TrapState` is replaced, `pending: false`) -/
theorem pendingAt_setAction (st : State) (x : Nat) (a : Action) (o : Nat) (ov : Bool) (s : Nat) :
    pendingAt (setAction st x a o ov).1.traps s
      = if x = s ∧ (setAction st x a o ov).2 = none then false else pendingAt st.traps s := by
  unfold setAction
  by_cases h1 : x = SIGKILL
  · simp [h1]
  · by_cases h2 : x = SIGSTOP
    · have h3 : ¬ SIGSTOP = SIGKILL := by decide
      simp [h2, h3]
    · simp only [h1, h2, if_false]
      by_cases hx : x = s
      · subst hx
        simp only [true_and]
        unfold pendingAt
        rw [get_set]
        simp only [if_true]
        have hcp := get_clearParents st.traps x
        unfold GrandState.setAction
        cases hg : get (clearParents st.traps) x with
        | none =>
          have hn : get st.traps x = none := by
            rw [hg] at hcp; cases h : get st.traps x with
            | none => rfl
            | some g => rw [h] at hcp; cases hcp
          simp only [hn]
          split <;> (try split) <;> simp [TrapState.fromInitial]
        | some g =>
          rw [hg] at hcp
          cases hg0 : get st.traps x with
          | none => rw [hg0] at hcp; cases hcp
          | some g0 =>
            rw [hg0] at hcp
            simp only [Option.map_some, Option.some.injEq] at hcp
            subst hcp
            simp only
            split <;> simp [GrandState.clearParent]
      · have hne : ¬ s = x := fun h => hx h.symm
        simp only [hx, false_and, if_false]
        unfold pendingAt
        rw [get_set]
        simp only [hne, if_false]
        rw [get_clearParents]
        cases get st.traps s <;> rfl

/-- an accepted `set_action` leaves exactly the new trap state (not pending) for its condition -/
theorem get_setAction_accepted (st : State) (x : Nat) (a : Action) (o : Nat) (ov : Bool)
    (h : (setAction st x a o ov).2 = none) :
    ∃ g, get (setAction st x a o ov).1.traps x = some g
      ∧ g.current = { action := a, origin := .user o, pending := false } := by
  unfold setAction at h ⊢
  by_cases h1 : x = SIGKILL
  · simp [h1] at h
  · by_cases h2 : x = SIGSTOP
    · have h3 : ¬ SIGSTOP = SIGKILL := by decide
      simp [h2, h3] at h
    · simp only [h1, h2, if_false] at h ⊢
      rw [get_set]
      simp only [if_true]
      refine ⟨_, rfl, ?_⟩
      unfold GrandState.setAction at h ⊢
      cases hg : get (clearParents st.traps) x with
      | none =>
        rw [hg] at h
        simp only at h ⊢
        split at h
        · split at h
          · simp at h
          · rename_i hc hi; simp only [hc, ne_eq, not_false_eq_true, if_true, hi, if_false]
        · rename_i hc; simp [hc]
      | some g =>
        rw [hg] at h
        simp only at h ⊢
        split at h
        · simp at h
        · rename_i hc; simp [hc]

theorem sorted_setAction (st : State) (x : Nat) (a : Action) (o : Nat) (ov : Bool) (h : Sorted st.traps) :
    Sorted (setAction st x a o ov).1.traps := by
  unfold setAction
  split
  · exact h
  · split
    · exact h
    · exact sorted_set _ _ _ (sorted_clearParents _ h)

/-- the small events of a shell whose trap actions may run `trap` themselves -/
inductive TEv where
  | deliver (x : Nat)
  | take
  /-- a `trap` command (anywhere: in the script, inside an action — on the signal being handled or another one) -/
  | trapCmd (x : Nat) (a : Action) (origin : Nat) (ov : Bool)

/-- what happened to signal `s`: delivered, its action taken to be run, or its pending delivery discarded by an
    accepted `trap` command on `s` -/
inductive TMark where
  | delivered | ran | discarded
  deriving DecidableEq, Repr

def TMark.toS : TMark → Bool
  | .delivered => true
  | _ => false

def stepTEv (s : Nat) (st : State) : TEv → State × List TMark
  | .deliver x => ({ st with traps := catchSignal st.traps x }, if x = s ∧ (get st.traps s).isSome then [.delivered] else [])
  | .take =>
    match (takeCaughtSignal st.traps).2 with
    | some (k, _) => ({ st with traps := (takeCaughtSignal st.traps).1 }, if k = s then [.ran] else [])
    | none => ({ st with traps := (takeCaughtSignal st.traps).1 }, [])
  | .trapCmd x a o ov =>
    ((setAction st x a o ov).1,
     if x = s ∧ (setAction st x a o ov).2 = none ∧ pendingAt st.traps s = true then [.discarded] else [])

def runTEvs (s : Nat) : State → List TEv → List TMark → State × List TMark
  | st, [], tr => (st, tr)
  | st, ev :: evs, tr => runTEvs s (stepTEv s st ev).1 evs (tr ++ (stepTEv s st ev).2)

theorem sorted_stepTEv (s : Nat) (st : State) (ev : TEv) (h : Sorted st.traps) : Sorted (stepTEv s st ev).1.traps := by
  cases ev with
  | deliver x => exact sorted_catchSignal _ _ h
  | take => simp only [stepTEv]; split <;> exact sorted_takeCaught _ h
  | trapCmd x a o ov => exact sorted_setAction st x a o ov h

theorem stepTEv_account (s : Nat) (hs0 : s ≠ 0) (st : State) (ev : TEv) (h : Sorted st.traps) :
    (account (pendingAt st.traps s) ((stepTEv s st ev).2.map TMark.toS)).map (·.1)
      = some (pendingAt (stepTEv s st ev).1.traps s) := by
  cases ev with
  | deliver x =>
    have := stepEv_account s hs0 st.traps (.deliver x) h
    simp only [stepEv] at this
    simp only [stepTEv]
    by_cases hc : x = s ∧ (get st.traps s).isSome
    · rw [if_pos hc] at this ⊢; simpa [TMark.toS] using this
    · rw [if_neg hc] at this ⊢; simpa using this
  | take =>
    have := stepEv_account s hs0 st.traps .take h
    simp only [stepEv] at this
    simp only [stepTEv]
    cases hr : (takeCaughtSignal st.traps).2 with
    | none => rw [hr] at this; simpa using this
    | some p =>
      obtain ⟨k, ts⟩ := p
      rw [hr] at this
      simp only at this ⊢
      by_cases hc : k = s
      · rw [if_pos hc] at this ⊢; simpa [TMark.toS] using this
      · rw [if_neg hc] at this ⊢; simpa using this
  | trapCmd x a o ov =>
    simp only [stepTEv]
    rw [pendingAt_setAction]
    by_cases hc : x = s ∧ (setAction st x a o ov).2 = none
    · cases hp : pendingAt st.traps s with
      | true =>
        rw [if_pos hc, if_pos ⟨hc.1, hc.2, rfl⟩]; simp [TMark.toS, account]
      | false =>
        rw [if_pos hc, if_neg (by simp)]; simp [account]
    · have : ¬ (x = s ∧ (setAction st x a o ov).2 = none ∧ pendingAt st.traps s = true) :=
        fun h => hc ⟨h.1, h.2.1⟩
      simp [hc, this, account]

theorem runTEvs_account (s : Nat) (hs0 : s ≠ 0) (evs : List TEv) (st : State) (h : Sorted st.traps)
    (armed0 : Bool) (tr : List TMark)
    (htr : (account armed0 (tr.map TMark.toS)).map (·.1) = some (pendingAt st.traps s)) :
    (account armed0 ((runTEvs s st evs tr).2.map TMark.toS)).map (·.1)
      = some (pendingAt (runTEvs s st evs tr).1.traps s) := by
  induction evs generalizing st tr with
  | nil => exact htr
  | cons ev evs ih =>
    simp only [runTEvs]
    apply ih _ (sorted_stepTEv s st ev h)
    rw [List.map_append]
    exact account_snoc_ok armed0 _ _ _ _ htr (stepTEv_account s hs0 st ev h)

end YashModel.Trap
