/-
  C11 — helper lemmas (wave 3, second pass): where the runner is called — the extracted call sites, and C02's Exec
  model (`Exec/Model.lean`: `pollWith` after the single command of `execCommands` = `Command::execute`, and before
  every line of `runScript` = `runner::run_command`).
-/
import YashModel.Trap.Frames
import YashModel.Trap.Pending
import YashModel.Exec.Model
import YashModel.Generated.TrapTables
namespace YashModel.Trap
open YashModel.Generated

/-- C02's execution stack (head = innermost; its `Trap` frames are signal-trap frames: the EXIT trap runs under
    its own function there) as this area's stack (last = innermost) -/
def ofExecStack (st : List Exec.Frame) : List Frame :=
  st.reverse.map fun f => match f with
    | .loop => .loop | .subshell => .subshell | .condition => .condition | .builtin _ => .builtin
    | .dotScript => .dotScript | .trap => .trap SIGUSR1 | .initFile => .initFile

/-- C02's one-signal stand-in as a one-entry trap set -/
def ofExecTraps (s : Exec.St) : TrapMap :=
  [(SIGUSR1, { current := { action := if s.sigTrap.isSome then .command 0 else .default, origin := .user 0,
                            pending := s.pending } })]

theorem inTrap_ofExecStack (st : List Exec.Frame) (h : st.contains .subshell = false) :
    inTrap (ofExecStack st) = st.contains .trap := by
  unfold inTrap ofExecStack
  rw [← List.map_reverse, List.reverse_reverse]
  induction st with
  | nil => rfl
  | cons f st ih =>
    have hf : f ≠ .subshell := by intro e; subst e; simp at h
    have hst : st.contains .subshell = false := by
      simp only [List.contains_cons, Bool.or_eq_false_iff] at h; exact h.2
    have := ih hst
    cases f <;> simp_all [List.takeWhile, Frame.isSignalTrap, SIGUSR1]


theorem exec_trapDue_is_runner_condition (s : Exec.St) (h : s.stack.contains .subshell = false) :
    s.trapDue.isSome
      = (!inTrap (ofExecStack s.stack) && !(pendingCommands (ofExecTraps s)).isEmpty) := by
  rw [inTrap_ofExecStack _ h]
  unfold Exec.St.trapDue ofExecTraps
  rw [h]
  cases hp : s.pending <;> cases ht : s.stack.contains .trap <;> cases hs : s.sigTrap <;>
    simp [pendingCommands, SIGUSR1]

theorem exec_poll_after_every_command (fuel : Nat) (s : Exec.St) (c : Exec.Cmd) :
    Exec.execCommands (fuel + 1) s [c]
      = Exec.pollWith (Exec.execList fuel) (Exec.execCmd fuel s c).1 (Exec.execCmd fuel s c).2 := by
  simp [Exec.execCommands]

theorem exec_poll_before_every_line (fuel : Nat) (s : Exec.St) (line : List Exec.Item) (rest : List Exec.Line)
    (h : (Exec.pollWith (Exec.execList fuel) s .continue_).2 = .continue_) :
    Exec.runScript (fuel + 1) s (.cmds line :: rest)
      = (match (Exec.execList fuel (Exec.pollWith (Exec.execList fuel) s .continue_).1 line).2 with
         | .continue_ => Exec.runScript fuel (Exec.execList fuel (Exec.pollWith (Exec.execList fuel) s .continue_).1 line).1 rest
         | r => ((Exec.execList fuel (Exec.pollWith (Exec.execList fuel) s .continue_).1 line).1.applyResult r, r)) := by
  simp only [Exec.runScript, h]
  rcases hx : Exec.execList fuel (Exec.pollWith (Exec.execList fuel) s .continue_).1 line with ⟨s1, r⟩
  cases r <;> rfl

end YashModel.Trap
