/-
  C11 — property theorems (and non-vacuity examples) ONLY.
  Helper lemmas: `Lemmas.lean`, `Steps.lean`, `Ops.lean`, `Pending.lean`, `Sticky.lean`.

  Property text: "After any sequence of `trap` commands, shell-internal handler changes and subshell
  entries, the disposition actually installed for each signal is the one implied by the user's trap
  action combined with the shell's own needs - never dropping a handler still needed, never
  catching what should be ignored or defaulted - and in a non-interactive shell a signal that was
  ignored on entry can be neither trapped nor reset; KILL and STOP can never be trapped.  Each
  delivery of a trapped signal makes its action run exactly once, at the next command boundary (or
  on interrupting `wait`), with `$?` preserved, regardless of when the signal arrives."

  Histories are lists of `Op` (the public `TrapSet` API: `set_action` with/without override, the six
  enable/disable operations for internal dispositions, `enter_subshell` with both flags,
  `peek_state`, `catch_signal`, `take_caught_signal`, `take_signal_if_caught`, and the delivery of
  a signal through the blocked-mask / `select` path), of any length, from any inherited
  dispositions `init` that are `Default` or `Ignore` (a freshly exec'ed process cannot inherit a
  handler), over all signal numbers.  Running the pending traps at a command boundary is, on the
  trap set, a run of `take_caught_signal` steps interleaved with whatever the bodies do, so it is
  covered by these histories; its once-only / `$?` law is `pending_exactly_once`.
-/
import YashModel.Trap.Pending
import YashModel.Trap.Sticky
import YashModel.Trap.KillStop
import YashModel.Trap.BuiltinLemmas
import YashModel.Trap.Interleave
import YashModel.Trap.Subshell
namespace YashModel.Trap

/-! ## The installed disposition is the reference merge -/

/-- ★ per-operation preservation: every operation keeps "installed = expected" for every signal
    (together with the side conditions it needs: map in key order, mask consistent) -/
theorem disposition_step (init : Nat → Disp) (hinit : ∀ s, init s ≠ .catch) (st : State) (op : Op)
    (h : Inv init st) : Inv init (step st op) :=
  inv_step_all init hinit st op h

/-- ★ `disposition_invariant`: after every operation history, from any inherited dispositions, the
    disposition installed in the system for every signal is
    `if vacant then inherited else max internal (disposition of the current action)`. -/
theorem disposition_invariant (init : Nat → Disp) (hinit : ∀ s, init s ≠ .catch) (ops : List Op)
    (s : Nat) (hs : s ≠ 0) :
    (run (State.init init) ops).sys.disp s
      = expected (get (run (State.init init) ops).traps s) (init s) :=
  (inv_run init hinit ops _ (inv_init_state init hinit)).disp s hs

/-- the reading of the property text: a handler still needed is never dropped (`Catch` is installed
    whenever the user action is a command or the shell needs to catch), nothing is caught that
    should be ignored or defaulted (`Catch` is installed only then), and `Default` is installed
    only if neither side needs anything -/
theorem disposition_meaning (init : Nat → Disp) (hinit : ∀ s, init s ≠ .catch) (ops : List Op)
    (s : Nat) (hs : s ≠ 0) (g : GrandState) (hg : get (run (State.init init) ops).traps s = some g) :
    ((run (State.init init) ops).sys.disp s = .catch
        ↔ (g.internal = .catch ∨ g.current.action.isCommand = true))
    ∧ ((run (State.init init) ops).sys.disp s = .default
        ↔ (g.internal = .default ∧ g.current.action = .default)) := by
  rw [disposition_invariant init hinit ops s hs, hg, expected_some]
  constructor
  · rw [Disp.max_eq_catch]
    cases g.current.action <;> simp [Action.toDisp, Action.isCommand]
  · rw [Disp.max_eq_default]
    cases g.current.action <;> simp [Action.toDisp]

example : ∀ s, (fun s => if s = SIGQUIT then Disp.ignore else Disp.default) s ≠ .catch := by
  intro s; by_cases h : s = SIGQUIT <;> simp [h]

/-- non-vacuity: a history in which the merge matters (user ignores SIGCHLD, the shell must catch it;
    then a subshell is entered) -/
example :
    let st := run (State.init fun _ => .default)
      [.setAction SIGCHLD .ignore 0 false, .enableChld, .setAction SIGINT (.command 1) 2 false,
       .enterSubshell true false]
    st.sys.disp SIGCHLD = .catch ∧ st.sys.disp SIGINT = .ignore
      ∧ (getState st.traps SIGINT).2 = some { action := .command 1, origin := .user 2, pending := false } := by
  decide

/-! ## Blocking mask -/

/-- ★ `mask_iff_catch`: over all histories a signal is blocked exactly when `Catch` is installed for
    it (so a trapped signal is delivered only inside `select`, i.e. at command boundaries and in
    `wait`, and an untrapped one is never left blocked). -/
theorem mask_iff_catch (init : Nat → Disp) (hinit : ∀ s, init s ≠ .catch) (ops : List Op) (s : Nat) :
    (run (State.init init) ops).sys.blocked s = true
      ↔ (run (State.init init) ops).sys.disp s = .catch := by
  have := (inv_run init hinit ops _ (inv_init_state init hinit)).sys.mask s
  rw [this]
  simp

/-- ☆ the mask used inside `select` never blocks a signal, so a caught (blocked) signal is
    deliverable there -/
theorem select_mask_open (init : Nat → Disp) (hinit : ∀ s, init s ≠ .catch) (ops : List Op)
    (m : Nat → Bool) (hm : (run (State.init init) ops).sys.selectMask = some m) (s : Nat) :
    m s = false := by
  have := (inv_run init hinit ops _ (inv_init_state init hinit)).sys.sel
  rw [hm] at this
  exact this s

/-- ☆ hence a signal sent while `Catch` is installed is recorded as pending by the next poll -/
theorem delivery_reaches_trap_set (init : Nat → Disp) (hinit : ∀ s, init s ≠ .catch) (ops : List Op)
    (s : Nat) (hc : (run (State.init init) ops).sys.disp s = .catch) :
    (deliver (run (State.init init) ops) s).traps = catchSignal (run (State.init init) ops).traps s := by
  have hi := inv_run init hinit ops _ (inv_init_state init hinit)
  have hsel := hi.sys.sel
  have hmask := hi.sys.mask s
  unfold deliver
  have : ((run (State.init init) ops).sys.selectMask.getD (run (State.init init) ops).sys.blocked) s = false := by
    cases hm : (run (State.init init) ops).sys.selectMask with
    | none => rw [hm] at hsel; simpa using hsel s
    | some m => rw [hm] at hsel; simpa using hsel s
  simp [hc, this]

/-! ## KILL and STOP -/

/-- ★ `kill_stop_untrappable`: `set_action` on SIGKILL / SIGSTOP returns the error and touches
    neither the trap set nor the system, whatever the action and the override flag. -/
theorem kill_stop_untrappable (st : State) (a : Action) (o : Nat) (ov : Bool) :
    setAction st SIGKILL a o ov = (st, some .sigkill)
    ∧ setAction st SIGSTOP a o ov = (st, some .sigstop) := by
  constructor <;> simp [setAction, SIGKILL, SIGSTOP]

/-- ★ over whole histories: whatever is attempted, SIGKILL and SIGSTOP keep the inherited
    disposition, are never blocked, and their entries (created only by `peek_state`) never hold a
    user action or an internal disposition. -/
theorem kill_stop_never_caught (init : Nat → Disp) (hinit : ∀ s, init s ≠ .catch) (ops : List Op)
    (k : Nat) (hk : k = SIGKILL ∨ k = SIGSTOP) :
    let st := run (State.init init) ops
    st.sys.disp k = init k ∧ st.sys.blocked k = false
    ∧ ∀ g, get st.traps k = some g →
        g.current.action.isCommand = false ∧ g.current.origin = .inherited ∧ g.internal = .default := by
  intro st
  have hi : Inv init st := inv_run init hinit ops _ (inv_init_state init hinit)
  have hu : Untouched (init k) (get st.traps k) :=
    untouched_run init hinit k hk ops _ (inv_init_state init hinit) (untouched_none _)
  have hk0 : k ≠ 0 := (killStop_ne hk).1
  have hd : st.sys.disp k = init k := by
    rw [hi.disp k hk0]
    cases hg : get st.traps k with
    | none => rfl
    | some g =>
      have := hu g hg
      rw [expected_some, this.1, this.2.1, Disp.max_default_left]
      exact fromInitial_toDisp _ (hinit k)
  refine ⟨hd, ?_, ?_⟩
  · rw [hi.sys.mask k, hd]
    have := hinit k
    cases hik : init k <;> simp_all
  · intro g hg
    have := hu g hg
    refine ⟨?_, this.2.2, this.1⟩
    rw [this.2.1]
    cases init k <;> rfl

example : (setAction (State.init fun _ => .default) SIGKILL (.command 1) 0 true).2 = some .sigkill := by
  decide

/-! ## Ignored on entry -/

/-- histories without `set_action(…, override_ignore = true)` on `s` (a non-interactive shell) -/
def NoOverride (s : Nat) (ops : List Op) : Prop := ∀ op ∈ ops, opNoOverride s op

theorem sticky_run (init : Nat → Disp) (hinit : ∀ s, init s ≠ .catch) (s : Nat) (hs0 : s ≠ 0)
    (hign : init s = .ignore) (ops : List Op) (st : State) (h : Inv init st)
    (he : IgnInh (get st.traps s)) (hno : NoOverride s ops) :
    IgnInh (get (run st ops).traps s) := by
  induction ops generalizing st with
  | nil => exact he
  | cons op ops ih =>
    apply ih _ (inv_step_all init hinit st op h)
    · exact sticky_step init hinit st s op hs0 hign h he (hno op (List.mem_cons_self ..))
    · exact fun op' hm => hno op' (List.mem_cons_of_mem _ hm)

/-- ★ `initially_ignored_sticky`: for a signal ignored on entry, after any history without override
    (i) the trap set still records `{Ignore, Inherited}` for it (or nothing),
    (ii) the installed disposition is never `Default`, and is `Ignore` unless the shell itself
         needs to catch the signal,
    (iii) a further `set_action` without override fails with `InitiallyIgnored`, leaves the recorded
         action `{Ignore, Inherited}` and leaves the installed disposition as it was — the signal
         can be neither trapped nor reset. -/
theorem initially_ignored_sticky (init : Nat → Disp) (hinit : ∀ s, init s ≠ .catch) (s : Nat)
    (hs0 : s ≠ 0) (hign : init s = .ignore) (ops : List Op) (hno : NoOverride s ops) :
    let st := run (State.init init) ops
    (∀ g, get st.traps s = some g → g.current.action = .ignore ∧ g.current.origin = .inherited)
    ∧ st.sys.disp s ≠ .default
    ∧ (st.sys.disp s = .ignore ∨ ∃ g, get st.traps s = some g ∧ g.internal = .catch)
    ∧ (∀ a o, s ≠ SIGKILL → s ≠ SIGSTOP →
        (setAction st s a o false).2 = some .initiallyIgnored
        ∧ (∀ g, get (setAction st s a o false).1.traps s = some g →
              g.current.action = .ignore ∧ g.current.origin = .inherited)
        ∧ (setAction st s a o false).1.sys.disp s = st.sys.disp s) := by
  intro st
  have hi : Inv init st := inv_run init hinit ops _ (inv_init_state init hinit)
  have he : IgnInh (get st.traps s) :=
    sticky_run init hinit s hs0 hign ops _ (inv_init_state init hinit) ignInh_none hno
  have hd := hi.disp s hs0
  refine ⟨he, ?_, ?_, ?_⟩
  · rw [hd]
    cases hg : get st.traps s with
    | none => simp [hign]
    | some g =>
      have := he g hg
      simp only [expected_some, this.1, Action.toDisp, ne_eq, Disp.max_eq_default]
      simp
  · rw [hd]
    cases hg : get st.traps s with
    | none => left; simp [hign]
    | some g =>
      have := he g hg
      simp only [expected_some, this.1, Action.toDisp]
      cases hint : g.internal
      · left; rfl
      · left; rfl
      · right; exact ⟨g, rfl, hint⟩
  · intro a o hk hst
    have hvac : get (clearParents st.traps) s = none → st.sys.disp s = .ignore := by
      intro hn
      rw [get_clearParents] at hn
      have : get st.traps s = none := by
        cases hg : get st.traps s with
        | none => rfl
        | some g => rw [hg] at hn; simp at hn
      rw [hd, this, expected_none, hign]
    have hcp : IgnInh (get (clearParents st.traps) s) := by
      rw [get_clearParents]; exact ignInh_clearParent he
    have := setActionE_sticky st.sys (get (clearParents st.traps) s) s a o hs0 hvac hcp
    unfold setAction
    simp only [hk, hst, if_false, get_set, if_true]
    exact ⟨this.1, this.2.1, this.2.2⟩

/-- non-vacuity: SIGQUIT ignored on entry, a history that tries to trap and reset it, enables the
    interactive dispositions and enters a subshell -/
example :
    let init : Nat → Disp := fun s => if s = SIGQUIT then .ignore else .default
    let ops : List Op := [.setAction SIGQUIT (.command 1) 0 false, .enableTerminators,
      .setAction SIGQUIT .default 2 false, .enterSubshell true true, .peek SIGQUIT]
    NoOverride SIGQUIT ops ∧ (run (State.init init) ops).sys.disp SIGQUIT = .ignore := by
  refine ⟨?_, by decide⟩
  intro op hop
  simp only [List.mem_cons, List.mem_nil_iff, or_false] at hop
  rcases hop with h | h | h | h | h <;> subst h <;> simp [opNoOverride]

/-! ## A caught signal runs its trap exactly once -/

/-- ★ `pending_exactly_once`, trap-set level: between two takes, any number ≥ 1 of catches of a
    signal yields exactly one pending trap state (the one set), zero catches yield none, and after
    the take nothing is pending. -/
theorem pending_exactly_once_take (t : TrapMap) (s : Nat) (g : GrandState) (n : Nat)
    (hg : get t s = some g) (hp : g.current.pending = false) :
    (takeSignalIfCaught (catchN t s n) s).2 = (if n = 0 then none else some g.current)
    ∧ (takeSignalIfCaught (takeSignalIfCaught (catchN t s n) s).1 s).2 = none := by
  cases n with
  | zero =>
    simp [catchN, takeSignalIfCaught, hg, GrandState.handleIfCaught, hp, get_set]
  | succ n =>
    have h1 := catchN_get t s g n hg
    have hcur : ({ g.current with pending := false } : TrapState) = g.current := by
      cases hc : g.current with
      | mk a o p => rw [hc] at hp; simp only at hp; subst hp; rfl
    simp [takeSignalIfCaught, h1, GrandState.handleIfCaught, GrandState.markAsCaught, get_set, hcur, hp]

/-- ★ `pending_exactly_once`, command-boundary level: a signal `s` with command trap `c`, nothing
    pending for it; it is then caught `n` times (any other signals may be pending too).  The next
    `run_traps_for_caught_signals` outside a trap runs the body of `s` exactly once if `n ≥ 1` and
    not at all if `n = 0`; `$?` after the run is `$?` before; a second run right after runs
    nothing.  (Bodies that do not end in a divert; for diverting bodies see
    `pending_survives_divert`.) -/
theorem pending_exactly_once (body : Body) (hm : MapPreserving body) (hb : NoDivert body)
    (t : TrapMap) (hsorted : Sorted t) (s c : Nat) (hs0 : s ≠ 0) (g : GrandState)
    (hg : get t s = some g) (hact : g.current.action = .command c) (hp : g.current.pending = false)
    (n : Nat) (exit : Int) :
    let r := runTrapsForCaughtSignals body false (catchN t s n) exit
    r.runs.filter (fun p => p.1 == s) = (if n = 0 then [] else [(s, c)])
    ∧ r.exit = exit
    ∧ (runTrapsForCaughtSignals body false r.traps exit).runs = [] := by
  intro r
  have hfuel : ∀ t' : TrapMap, npend t' < t'.length + 1 := fun t' =>
    Nat.lt_succ_of_le (npend_le_length t')
  have hd := drain_spec body hm hb ((catchN t s n).length + 1) (catchN t s n) exit [] (hfuel _)
  have hr : r = drain body ((catchN t s n).length + 1) (catchN t s n) exit [] := by
    simp [r, runTrapsForCaughtSignals]
  refine ⟨?_, ?_, ?_⟩
  · rw [hr, hd.1, List.nil_append, pendingCommands_filter _ _ (sorted_catchN _ _ _ hsorted)]
    cases n with
    | zero => simp [catchN, hg, owed, hact, hp]
    | succ n =>
      rw [catchN_get t s g n hg]
      simp [owed, GrandState.markAsCaught, hact, hs0]
  · rw [hr]; exact hd.2.1
  · have hz : npend r.traps = 0 := by rw [hr]; exact hd.2.2.1
    have hd2 := drain_spec body hm hb (r.traps.length + 1) r.traps exit [] (hfuel _)
    simp only [runTrapsForCaughtSignals, Bool.false_eq_true, if_false]
    rw [hd2.1, npend_zero_pendingCommands _ hz]
    rfl

/-- ★ `pending_survives_divert`: the runner takes ONE caught signal, runs its action and, if the
    action ends in a divert (`return`, `exit`, interrupt, …), leaves at once.  For every set of
    pending signals and every outcome of every action:
    (i) at one boundary, the actions run followed by the actions still pending are exactly the
        actions that were pending, in signal order — so after a run cut short by a divert every
        signal not yet run is still pending, and none is run twice;
    (ii) a run that is not cut short leaves nothing pending and keeps `$?`;
    (iii) over any sequence of later boundaries (whatever `$?` is there) the same conservation
        holds, and once there have been as many boundaries as pending actions, every one of them
        has run exactly once: the total run list *is* the list that was pending;
    (iv) per signal: the runs of `s` so far plus what is still owed to `s` is what was owed to `s`
        (at most one run, and exactly one in the end). -/
theorem pending_survives_divert (body : Body) (hm : MapPreserving body) (t : TrapMap)
    (hsorted : Sorted t) (exit : Int) (es : List Int) :
    ((runTrapsForCaughtSignals body false t exit).runs
        ++ pendingCommands (runTrapsForCaughtSignals body false t exit).traps = pendingCommands t)
    ∧ ((runTrapsForCaughtSignals body false t exit).divert = none →
        pendingCommands (runTrapsForCaughtSignals body false t exit).traps = []
        ∧ (runTrapsForCaughtSignals body false t exit).exit = exit)
    ∧ ((boundaries body es t []).2 ++ pendingCommands (boundaries body es t []).1 = pendingCommands t)
    ∧ ((pendingCommands t).length ≤ es.length → (boundaries body es t []).2 = pendingCommands t)
    ∧ (∀ s, ((boundaries body es t []).2 ++ pendingCommands (boundaries body es t []).1).filter
              (fun p => p.1 == s) = owed (get t s) s) := by
  have hc := runTraps_conserve body hm t exit
  have hb := boundaries_conserve body hm es t []
  simp only [List.nil_append] at hb
  refine ⟨hc.1, ?_, hb, ?_, ?_⟩
  · intro hd
    have := hc.2.1 hd
    exact ⟨npend_zero_pendingCommands _ this.1, this.2⟩
  · intro hlen
    have := boundaries_complete body hm es t [] hlen
    rw [this, List.append_nil] at hb
    exact hb
  · intro s
    rw [hb]
    exact pendingCommands_filter t s hsorted

/-- ★ `trap_error_status_propagates`: when a trap action is interrupted by an error
    (`Divert::Interrupt(Some(x))`, e.g. an expansion error, `x` = 2), `run_trap` leaves `$?` = `x` and
    passes `Interrupt(Some(x))` on unchanged; hence a run of the pending traps that ends in
    `Interrupt(Some(x))` leaves `$?` = `x` (the non-interactive shell then exits with it) — never the
    `$?` of before the action. -/
theorem trap_error_status_propagates (body : Body) (c : Nat) (exit : Int) (t : TrapMap) (x : Int)
    (hb : (body c exit t).1.divert = some (.interrupt (some x))) :
    (runTrap body c exit t).1 = x ∧ (runTrap body c exit t).2.1 = some (.interrupt (some x))
    ∧ ∀ (inTrap : Bool) (t' : TrapMap) (e' : Int) (y : Int),
        (runTrapsForCaughtSignals body inTrap t' e').divert = some (.interrupt (some y)) →
        (runTrapsForCaughtSignals body inTrap t' e').exit = y := by
  refine ⟨?_, ?_, ?_⟩
  · simp [runTrap, hb]
  · simp [runTrap, hb]
  · intro inTrap t' e' y h
    unfold runTrapsForCaughtSignals at h ⊢
    cases inTrap with
    | true => simp at h
    | false =>
      simp only [Bool.false_eq_true, if_false] at h ⊢
      exact drain_interrupt_exit body _ t' e' [] y h

/-- non-vacuity: the action of SIGINT fails with status 2 while `$?` = 5: the run ends in
    `Interrupt(Some(2))` with `$?` = 2, and SIGUSR1 is still pending -/
example :
    let t : TrapMap := catchSignal (catchSignal
      (set (set [] SIGUSR1 { current := { action := .command 1, origin := .user 0 } })
        SIGINT { current := { action := .command 2, origin := .user 1 } }) SIGINT) SIGUSR1
    let body : Body := fun c e t => ({ exit := e, divert := if c = 2 then some (.interrupt (some 2)) else none }, t)
    let r := runTrapsForCaughtSignals body false t 5
    (r.exit, r.divert, pendingCommands r.traps) = (2, some (.interrupt (some 2)), [(SIGUSR1, 1)]) := by
  decide

/-- ☆ while a signal trap is running (`in_trap`), nothing is run and nothing is lost: the pending
    flags stay for the next boundary -/
theorem no_nested_trap (body : Body) (t : TrapMap) (exit : Int) :
    runTrapsForCaughtSignals body true t exit = { traps := t, exit := exit, runs := [] } := rfl

/-- ☆ `run_trap` restores `$?` unless the body ends in `Divert::Interrupt` -/
theorem run_trap_restores_status (body : Body) (c : Nat) (exit : Int) (t : TrapMap)
    (h : ∀ st, (body c exit t).1.divert ≠ some (.interrupt st)) :
    (runTrap body c exit t).1 = exit := by
  unfold runTrap
  cases hd : (body c exit t).1.divert with
  | none => simp only [hd]
  | some d =>
    cases d with
    | interrupt st => exact absurd hd (h st)
    | ret st => simp only [hd]
    | exit st => simp only [hd]
    | other => simp only [hd]
    | abort st => simp only [hd]

/-- non-vacuity: two signals pending (one caught three times), one command each; both bodies run
    once, in signal order, with `$?` = 5 kept although every body sets `$?` to 7 -/
example :
    let t : TrapMap := catchN (catchSignal
      (set (set [] SIGUSR1 { current := { action := .command 1, origin := .user 0 } })
        SIGINT { current := { action := .command 2, origin := .user 1 } }) SIGINT) SIGUSR1 3
    let r := runTrapsForCaughtSignals (fun _ _ t => ({ exit := 7 }, t)) false t 5
    (r.exit, r.runs, r.divert) = (5, [(SIGINT, 2), (SIGUSR1, 1)], none) := by
  decide

/-- non-vacuity of `pending_survives_divert`: the action of SIGINT ends in `return 3`; SIGUSR1 stays
    pending at that boundary and runs, once, at the next one -/
example :
    let t : TrapMap := catchSignal (catchSignal
      (set (set [] SIGUSR1 { current := { action := .command 1, origin := .user 0 } })
        SIGINT { current := { action := .command 2, origin := .user 1 } }) SIGINT) SIGUSR1
    let body : Body := fun c _ t => ({ exit := 3, divert := if c = 2 then some (.ret (some 3)) else none }, t)
    let r := runTrapsForCaughtSignals body false t 5
    (r.runs, r.divert, pendingCommands r.traps) = ([(SIGINT, 2)], some (.ret (some 3)), [(SIGUSR1, 1)])
    ∧ (boundaries body [5, 3] t []).2 = [(SIGINT, 2), (SIGUSR1, 1)] := by
  decide

/-! ## The `trap` built-in, the poll shortcut, `wait` -/

/-- ★ every form of the `trap` built-in (print all, `-p`, `-p COND…`, set / reset / ignore for any
    list of named or numeric conditions, with its syntax errors and with KILL/STOP/initially-ignored
    failures) keeps the invariant: the built-in only composes `peek_state` and `set_action`. -/
theorem trap_builtin_preserves_invariant (init : Nat → Disp) (hinit : ∀ s, init s ≠ .catch)
    (cmdOf : String → Nat) (st : State) (origin : Nat) (interactive print : Bool) (operands : List String)
    (h : Inv init st) : Inv init (trapMain cmdOf st origin interactive print operands).st :=
  inv_trapMain init hinit cmdOf st origin interactive print operands h

/-- ★ `trap ACTION … KILL …` / `… STOP …` always fails the built-in (an error other than
    `InitiallyIgnored` is reported), whatever else is in the list -/
theorem trap_builtin_kill_stop_fails (a : Action) (origin : Nat) (ov : Bool) (conds : List Nat)
    (st : State) (k : Nat) (hk : k = SIGKILL ∨ k = SIGSTOP) (hm : k ∈ conds) :
    ∃ e, e ∈ (setActions a origin ov conds st).2 ∧ e ≠ .initiallyIgnored :=
  setActions_killStop a origin ov conds st k hk hm

/-- ★ `trap -p COND` right after a successful `trap ACTION COND` prints exactly that action
    (default as `-`, ignore as `''`, a command as itself) -/
theorem trap_print_reads_back (st : State) (c : Nat) (a : Action) (origin : Nat) (ov : Bool)
    (hok : (setAction st c a origin ov).2 = none) :
    (displayTrap (setAction st c a origin ov).1 c true).2 = [{ action := a, cond := c }] :=
  print_reads_back st c a origin ov hok

example : (setAction (State.init fun _ => .default) SIGINT (.command 1) 0 false).2 = none := by decide

/-- ★ the runner including its poll and the SIGINT shortcut of interactive shells (a caught SIGINT
    without a user trap interrupts at once, even inside a trap): whatever was collected, what ran
    plus what is still pending is what was pending after the poll — the shortcut loses nothing. -/
theorem poll_shortcut_loses_nothing (body : Body) (hm : MapPreserving body) (polled : List Nat)
    (t : TrapMap) (exit : Int) :
    (runTrapsAfterPoll body false polled t exit).runs
        ++ pendingCommands (runTrapsAfterPoll body false polled t exit).traps
      = pendingCommands (polled.foldl catchSignal t) :=
  runTrapsAfterPoll_conserve body hm polled t exit

/-- ★ `wait` interrupted by trapped signals (`wait_for_any_job_or_trap` + `run_trap_if_caught`):
    for the signals reported by the system in any order, at most one action runs (the first caught
    signal whose action is a command) and, for every signal `x`, the run made for `x` followed by what
    is still owed to `x` is what was owed to `x` — the other caught signals keep their pending flag
    for the next command boundary, and none runs twice. -/
theorem wait_interrupt_conserves (body : Body) (hm : MapPreserving body) (sigs : List Nat)
    (h0 : ¬ (0 ∈ sigs)) (t : TrapMap) (exit : Int) (x : Nat) :
    ranFor (waitTrapLoop body sigs t exit).2 x ++ owed (get (waitTrapLoop body sigs t exit).1 x) x
      = owed (get t x) x :=
  waitTrapLoop_conserve body hm sigs h0 t exit x

/-- non-vacuity: USR1 and INT both caught while waiting, reported in that order: USR1's action
    interrupts the wait, INT's is still pending afterwards -/
example :
    let t : TrapMap := catchSignal (catchSignal
      (set (set [] SIGUSR1 { current := { action := .command 1, origin := .user 0 } })
        SIGINT { current := { action := .command 2, origin := .user 1 } }) SIGINT) SIGUSR1
    let r := waitTrapLoop (fun _ _ t => ({ exit := 0 }, t)) [SIGUSR1, SIGINT] t 0
    (r.2.map fun x => (x.1, x.2.1)) = some (SIGUSR1, 1) ∧ pendingCommands r.1 = [(SIGINT, 2)] := by
  decide

/-! ## End-to-end statements (proof-deepening round) -/

/-- ★ `exactly_once_any_interleaving` — "each delivery of a trapped signal makes its action run
    exactly once, at the next command boundary, regardless of when the signal arrives".
    ONE statement over every sequence of events `deliver x` (any signal, any number of times, at any
    point) and `boundary main exit` (the boundary after a command whose own result `main` may be a
    divert — `Command::execute` calls the runner in any case), for every trap set in key order,
    every signal `s` with a command trap `c`, and actions that end in ANY way (normally, `return`,
    `exit`, interrupted by an error …; they only must leave the trap set alone):
    the history of `s` — deliveries (`true`) and runs (`false`) in order — is accepted by the POSIX
    pending discipline `account` (a run only after a delivery not yet run: never spurious, never
    twice), the signal is pending at the end exactly if its last delivery has not run yet, and
      #runs + [still pending] = #coalesced deliveries,
    where the coalescing is exactly the pending *flag*: a delivery that finds the signal already
    pending merges with the earlier one (as the process's pending set and `catch_signal` do). -/
theorem exactly_once_any_interleaving (body : Body) (hm : MapPreserving body) (s c : Nat)
    (hs0 : s ≠ 0) (t : TrapMap) (hsorted : Sorted t) (hact : actionAt t s = some (.command c))
    (hp : pendingAt t s = false) (evs : List BEv) :
    ∃ runs deliveries,
      account false (runBig body s t evs []).2
        = some (pendingAt (runBig body s t evs []).1 s, runs, deliveries)
      ∧ runs + (if pendingAt (runBig body s t evs []).1 s then 1 else 0) = deliveries := by
  have h := runBig_account body hm s c hs0 evs t hsorted hact false [] (by simp [account, hp])
  cases hacc : account false (runBig body s t evs []).2 with
  | none => rw [hacc] at h; simp at h
  | some p =>
    obtain ⟨a, r, e⟩ := p
    rw [hacc] at h
    simp only [Option.map_some, Option.some.injEq] at h
    subst h
    refine ⟨r, e, rfl, ?_⟩
    simpa using account_conserve false _ _ r e hacc

/-- ★ "at the next command boundary": at a boundary where no action diverts, every pending command
    trap has run (nothing stays pending), whatever the command itself resulted in; if an action
    diverts, `pending_survives_divert` says the rest stays pending, and after as many boundaries as
    pending actions all have run. -/
theorem runs_at_next_boundary (body : Body) (hm : MapPreserving body) (main : Option Divert)
    (t : TrapMap) (exit : Int)
    (hnd : (runTrapsForCaughtSignals body false t exit).divert = none) :
    (afterCommand body false main t exit).runs = pendingCommands t
    ∧ pendingCommands (afterCommand body false main t exit).traps = [] := by
  have hc := runTraps_conserve body hm t exit
  have h0 := hc.2.1 hnd
  have hpc := npend_zero_pendingCommands _ h0.1
  have h1 := hc.1
  rw [hpc, List.append_nil] at h1
  exact ⟨h1, hpc⟩

/-- ★ the runner is called after EVERY command, also one that itself ends in a divert (`return`,
    `exit`, …): what runs and what stays pending does not depend on the command's own result, a due
    action does run there, and neither divert is dropped by the merge. -/
theorem boundary_after_diverting_command (body : Body) (hm : MapPreserving body)
    (main : Option Divert) (t : TrapMap) (exit : Int) :
    (afterCommand body false main t exit).runs = (runTrapsForCaughtSignals body false t exit).runs
    ∧ (afterCommand body false main t exit).traps = (runTrapsForCaughtSignals body false t exit).traps
    ∧ (pendingCommands t ≠ [] → (afterCommand body false main t exit).runs ≠ [])
    ∧ (main.isSome → (afterCommand body false main t exit).divert.isSome)
    ∧ ((runTrapsForCaughtSignals body false t exit).divert.isSome →
        (afterCommand body false main t exit).divert.isSome) := by
  refine ⟨rfl, rfl, ?_, ?_, ?_⟩
  · intro hne hnil
    have := (runTraps_conserve body hm t exit).2.2 hne
    simp only [afterCommand] at hnil
    rw [hnil] at this
    simp at this
  · intro hmain
    simp only [afterCommand]
    cases main with
    | none => simp at hmain
    | some d => cases (runTrapsForCaughtSignals body false t exit).divert <;> simp [mergeDivert]
  · intro htrap
    simp only [afterCommand]
    cases hd : (runTrapsForCaughtSignals body false t exit).divert with
    | none => rw [hd] at htrap; simp at htrap
    | some d => cases main <;> simp [mergeDivert]

/-- ★ flags only: over every interleaving of `catch_signal` calls (at any moment, also while an
    action is running) and single iterations of the runner's loop, for every trap set in key order
    and every signal — no assumption on the actions at all — the history of the signal is accepted
    by the pending discipline and `#takes + [still pending] = #coalesced deliveries + [pending at the
    start]`. -/
theorem exactly_once_small_steps (s : Nat) (hs0 : s ≠ 0) (t : TrapMap) (hsorted : Sorted t)
    (evs : List Ev) :
    ∃ runs deliveries,
      account (pendingAt t s) (runEvs s t evs []).2
        = some (pendingAt (runEvs s t evs []).1 s, runs, deliveries)
      ∧ runs + (if pendingAt (runEvs s t evs []).1 s then 1 else 0)
          = deliveries + (if pendingAt t s then 1 else 0) := by
  have h := runEvs_account s hs0 evs t hsorted (pendingAt t s) [] (by simp [account])
  cases hacc : account (pendingAt t s) (runEvs s t evs []).2 with
  | none => rw [hacc] at h; simp at h
  | some p =>
    obtain ⟨a, r, e⟩ := p
    rw [hacc] at h
    simp only [Option.map_some, Option.some.injEq] at h
    subst h
    exact ⟨r, e, rfl, account_conserve _ _ _ r e hacc⟩

/-- ★ run order: `take_caught_signal` returns the pending signal with the LEAST number, clears
    exactly its flag, and returns nothing only when no signal is pending. -/
theorem least_pending_first (t : TrapMap) (hsorted : Sorted t) :
    match (takeCaughtSignal t).2 with
    | none => ∀ x, x ≠ 0 → pendingAt t x = false
    | some (k, ts) =>
      k ≠ 0 ∧ pendingAt t k = true
      ∧ (∃ g, get t k = some g ∧ ts = { g.current with pending := false }
          ∧ ∀ x, get (takeCaughtSignal t).1 x = if x = k then some g.handleIfCaught.1 else get t x)
      ∧ ∀ x, x ≠ 0 → x < k → pendingAt t x = false :=
  takeCaught_spec t hsorted

/-- non-vacuity of `exactly_once_any_interleaving`: SIGINT (`return 3`) and SIGUSR1 trapped; USR1
    delivered twice, INT once, a boundary after a command that itself diverted, USR1 again, two
    more boundaries: USR1's history is D D R D R — two runs for two coalesced deliveries. -/
example :
    let t : TrapMap := set (set [] SIGUSR1 { current := { action := .command 1, origin := .user 0 } })
        SIGINT { current := { action := .command 2, origin := .user 1 } }
    let body : Body := fun c _ t => ({ exit := 3, divert := if c = 2 then some (.ret (some 3)) else none }, t)
    let evs : List BEv := [.deliver SIGUSR1, .deliver SIGUSR1, .deliver SIGINT,
      .boundary (some (.ret none)) 5, .boundary none 3, .deliver SIGUSR1, .boundary none 0]
    (runBig body SIGUSR1 t evs []).2 = [true, true, false, true, false]
    ∧ account false (runBig body SIGUSR1 t evs []).2 = some (false, 2, 2) := by
  decide

/-- ★ `subshell_dispositions` — what `enter_subshell` leaves for a signal that has an entry, for
    each of the three per-signal options (`subshellOption`: SIGCHLD keeps, INT/QUIT of an
    asynchronous command and the job-control stoppers are ignored, everything else is cleared):
    the internal disposition survives only under `keep`; the action becomes `Ignore` under `ignore`
    and otherwise the POSIX reset (a command trap becomes default and is remembered as the parent
    state, ignore and default stay); and the installed disposition is accordingly
    `Ignore` / `max internal reset` / `reset` — never a handler that is no longer needed. -/
theorem subshell_dispositions (init : Nat → Disp) (st : State)
    (h : Inv init st) (ii ks : Bool) (s : Nat) (hs0 : s ≠ 0) (g : GrandState)
    (hg : get st.traps s = some g) :
    ∃ g', get (enterSubshell st ii ks).traps s = some g'
      ∧ g'.internal = (if subshellOption s g ii ks = .keep then g.internal else .default)
      ∧ g'.current.action
          = (if subshellOption s g ii ks = .ignore then .ignore else resetAction g.current.action)
      ∧ g'.parent = (if g.current.action.isCommand then some g.current else none)
      ∧ (enterSubshell st ii ks).sys.disp s
          = (match subshellOption s g ii ks with
             | .ignore => .ignore
             | .keep => g.internal.max (resetAction g.current.action).toDisp
             | .clear => (resetAction g.current.action).toDisp) := by
  have hopt : subshellOption s g.clearParent ii ks = subshellOption s g ii ks := rfl
  have hget := get_enterSubshell_some st ii ks s g hg
  rw [hopt] at hget
  have hf := enterState_fields g.clearParent (subshellOption s g ii ks)
  have hinv := (inv_enterSubshell init st ii ks h).disp s hs0
  rw [hget, expected_some, hf.1, hf.2.1] at hinv
  refine ⟨_, hget, hf.1, hf.2.1, ?_, ?_⟩
  · rw [hf.2.2]; rfl
  · rw [hinv]
    show (if subshellOption s g ii ks = .keep then g.internal else .default).max
        (if subshellOption s g ii ks = .ignore then Action.ignore else resetAction g.current.action).toDisp = _
    cases subshellOption s g ii ks <;>
      simp [Action.toDisp, Disp.max_default_left]

/-- ★ vacant entries on `enter_subshell`: SIGINT/SIGQUIT of an asynchronous command get an
    `Ignore` entry and the `Ignore` disposition; every other untouched signal stays untouched. -/
theorem subshell_vacant (init : Nat → Disp) (st : State)
    (h : Inv init st) (ii ks : Bool) (s : Nat) (hs0 : s ≠ 0) (hg : get st.traps s = none) :
    (ii = true ∧ (s = SIGINT ∨ s = SIGQUIT) → (enterSubshell st ii ks).sys.disp s = .ignore)
    ∧ (¬ (ii = true ∧ (s = SIGINT ∨ s = SIGQUIT)) →
        get (enterSubshell st ii ks).traps s = none
        ∧ (enterSubshell st ii ks).sys.disp s = st.sys.disp s) := by
  have hn := get_enterSubshell_none st ii ks s hg
  have hinv := (inv_enterSubshell init st ii ks h).disp s hs0
  have h0 := h.disp s hs0
  rw [hg, expected_none] at h0
  constructor
  · intro hc
    obtain ⟨g', hg', ha, hi⟩ := hn.1 hc
    rw [hinv, hg', expected_some, ha, hi]; rfl
  · intro hc
    have := hn.2 hc
    refine ⟨this, ?_⟩
    rw [hinv, this, expected_none, h0]

/-- non-vacuity of `subshell_dispositions` (the case of the seeded change: an interactive shell's
    SIGINT, internal `Catch`, asynchronous command → `Ignore` installed, internal disposition gone) -/
example :
    let st := run (State.init fun _ => .default) [.enableTerminators, .enableChld]
    subshellOption SIGINT ((get st.traps SIGINT).getD default) true false = .ignore
    ∧ (enterSubshell st true false).sys.disp SIGINT = .ignore
    ∧ ((get (enterSubshell st true false).traps SIGINT).map (·.internal)) = some .default
    ∧ (enterSubshell st true false).sys.disp SIGCHLD = .catch := by
  decide

/-- ★ the Spec function `pendingCommands` meets its description: `(s, c)` is listed iff `s` is a
    signal whose entry is pending with command `c`, at most once, and the list is in signal order
    (for each `s` the sub-list is `owed`). -/
theorem pendingCommands_spec (t : TrapMap) (hsorted : Sorted t) (s : Nat) :
    (pendingCommands t).filter (fun p => p.1 == s) = owed (get t s) s :=
  pendingCommands_filter t s hsorted

/-! ## An interruptible built-in interrupted by SIGINT -/

/-- ★ `interrupted_builtin_drops_nothing` — an interactive shell runs a built-in that does not handle
    signals itself (`read` waiting for input, …); the system reports batches of caught signals until
    one contains SIGINT, which interrupts the built-in (`execute_builtin`).  For every trap set and
    every sequence of batches: the built-in is interrupted iff some batch contains SIGINT, and
    afterwards EVERY signal reported up to and including that batch — also the ones reported in the
    same batch as SIGINT — is pending in the trap set (if it has an entry at all), no other flag
    changes, and no action, origin or internal disposition changes.  So none of them is dropped:
    with a command trap `c` the run `(s, c)` is owed, and the next command boundary where no action
    diverts runs it (`runs_at_next_boundary`). -/
theorem interrupted_builtin_drops_nothing (t : TrapMap) (hsorted : Sorted t) (batches : List (List Nat)) :
    (interruptedBuiltin t batches).2 = batches.any (·.contains SIGINT)
    ∧ (∀ s, pendingAt (interruptedBuiltin t batches).1 s
          = (((deliveredBatches batches).contains s && (get t s).isSome) || pendingAt t s))
    ∧ (∀ s, (get (interruptedBuiltin t batches).1 s).map core = (get t s).map core)
    ∧ (∀ s c, s ≠ 0 → (deliveredBatches batches).contains s = true →
          actionAt t s = some (.command c) →
          (pendingCommands (interruptedBuiltin t batches).1).filter (fun p => p.1 == s) = [(s, c)]) := by
  have hspec := sigintLoop_spec batches []
  simp only [List.nil_append] at hspec
  have hp : ∀ s, pendingAt (interruptedBuiltin t batches).1 s
      = (((deliveredBatches batches).contains s && (get t s).isSome) || pendingAt t s) := by
    intro s
    simp only [interruptedBuiltin, hspec.1]
    exact pendingAt_foldl_catch _ t s
  have hc : ∀ s, (get (interruptedBuiltin t batches).1 s).map core = (get t s).map core := by
    intro s
    simp only [interruptedBuiltin]
    exact core_foldl_catch _ t s
  refine ⟨by simp only [interruptedBuiltin]; exact hspec.2, hp, hc, ?_⟩
  intro s c hs0 hdel hact
  have hsorted' : Sorted (interruptedBuiltin t batches).1 := by
    simp only [interruptedBuiltin]; exact sorted_foldl_catch _ t hsorted
  rw [pendingCommands_filter _ s hsorted']
  unfold actionAt at hact
  cases hg : get t s with
  | none => rw [hg] at hact; simp at hact
  | some g =>
    rw [hg] at hact
    simp only [Option.map_some, Option.some.injEq] at hact
    have hcs := hc s
    have hps := hp s
    rw [hg] at hcs hps
    cases hg' : get (interruptedBuiltin t batches).1 s with
    | none => rw [hg'] at hcs; simp at hcs
    | some g' =>
      rw [hg'] at hcs
      simp only [Option.map_some, Option.some.injEq, core, Prod.mk.injEq] at hcs
      have hact' : g'.current.action = .command c := hcs.1.trans hact
      have hpend : g'.current.pending = true := by
        simp only [pendingAt, hg', hdel, Option.isSome_some, Bool.and_self, Bool.true_or] at hps
        exact hps
      rw [owed_pending _ s c hs0 g' rfl hact', hpend]
      rfl

/-- non-vacuity (the shape of the round-4 seed): USR1 (command trap) and SIGINT reported in the
    same batch; USR1 is pending afterwards and its action runs at the next boundary -/
example :
    let t : TrapMap := set (set [] SIGUSR1 { current := { action := .command 1, origin := .user 0 } })
        SIGINT { current := { action := .default, origin := .inherited }, internal := .catch }
    let r := interruptedBuiltin t [[SIGUSR1, SIGINT]]
    r.2 = true ∧ pendingAt r.1 SIGUSR1 = true
    ∧ (afterCommand (fun _ _ t => ({ exit := 0 }, t)) false (some (.interrupt (some 386))) r.1 386).runs
        = [(SIGUSR1, 1)] := by
  decide

/-! ## One `trap` command with several conditions -/

/-- ★ `trap_command_sets_every_condition` — the per-condition loop of the built-in
    (`Command::execute`, `SetAction`): for every action, origin, override flag, list of conditions
    (in any order, with repetitions, with KILL/STOP or ignored-on-entry signals anywhere in it) and
    every listed condition `c` other than KILL/STOP that is not ignored on entry (`refused`), the
    command leaves `c` with exactly that action — whatever stands before or after `c` in the list:
    an ignored-on-entry or failing condition never makes the loop skip the others — and, in a
    reachable state, with the disposition `max internal action` installed.  (An ignored-on-entry
    condition itself stays `{Ignore, Inherited}`: `initially_ignored_sticky`.) -/
theorem trap_command_sets_every_condition (init : Nat → Disp) (hinit : ∀ s, init s ≠ .catch)
    (st : State) (h : Inv init st) (a : Action) (origin : Nat) (ov : Bool) (conds : List Nat) (c : Nat)
    (hm : c ∈ conds) (hk : c ≠ SIGKILL) (hs : c ≠ SIGSTOP) (hr : refused st c ov = false) :
    ∃ g, get (setActions a origin ov conds st).1.traps c = some g
      ∧ g.current = { action := a, origin := .user origin, pending := false }
      ∧ (c ≠ 0 → (setActions a origin ov conds st).1.sys.disp c = g.internal.max a.toDisp) := by
  obtain ⟨g, hg, hn⟩ := setActions_sets_each a origin ov conds st c hm hk hs hr
  refine ⟨g, hg, hn, ?_⟩
  intro h0
  have hinv := (inv_setActions init hinit a origin ov conds st h).disp c h0
  rw [hinv, hg, expected_some, hn]
  rfl

/-- non-vacuity (the shape of the round-5 seed): `trap 'cmd' HUP INT TERM EXIT` with HUP ignored on
    entry: HUP stays ignored, INT, TERM and EXIT get the action -/
example :
    let init : Nat → Disp := fun s => if s = 1 then .ignore else .default
    let st := (setActions (.command 7) 0 false [1, SIGINT, SIGTERM, 0] (State.init init)).1
    refused (State.init init) 1 false = true ∧ refused (State.init init) SIGTERM false = false
    ∧ st.sys.disp 1 = .ignore ∧ st.sys.disp SIGINT = .catch ∧ st.sys.disp SIGTERM = .catch
    ∧ (getState st.traps 0).1 = some { action := .command 7, origin := .user 0, pending := false } := by
  decide

/-! ## Shell-level histories: `TrapSet` operations and `trap` commands in any order -/

/-- what a shell does to its trap set: a `TrapSet` operation, or a whole `trap` command -/
inductive ShOp where
  | op (o : Op)
  | trap (origin : Nat) (interactive print : Bool) (operands : List String)

def stepSh (cmdOf : String → Nat) (st : State) : ShOp → State
  | .op o => step st o
  | .trap origin i p operands => (trapMain cmdOf st origin i p operands).st

def runSh (cmdOf : String → Nat) (st : State) : List ShOp → State
  | [] => st
  | o :: os => runSh cmdOf (stepSh cmdOf st o) os

def flattenSh (cmdOf : String → Nat) : List ShOp → List Op
  | [] => []
  | .op o :: os => o :: flattenSh cmdOf os
  | .trap origin i p operands :: os => trapMainOps cmdOf origin i p operands ++ flattenSh cmdOf os

/-- ★ connecting theorem: every `trap` command (any options, any operands, accepted or rejected)
    is a finite history of `peek_state` / `set_action` operations, so a shell-level history is a
    `TrapSet` history and every theorem over all `Op` histories applies to it. -/
theorem shell_history_is_op_history (cmdOf : String → Nat) (st : State) (ops : List ShOp) :
    runSh cmdOf st ops = run st (flattenSh cmdOf ops) := by
  induction ops generalizing st with
  | nil => rfl
  | cons o os ih =>
    cases o with
    | op o => simp only [runSh, stepSh, flattenSh, run]; exact ih _
    | trap origin i p operands =>
      simp only [runSh, stepSh, flattenSh]
      rw [ih, trapMain_run, run_append]

/-- in a non-interactive shell no `trap` command overrides an ignored-on-entry signal -/
theorem trapMainOps_noOverride (cmdOf : String → Nat) (origin : Nat) (print : Bool)
    (operands : List String) (s : Nat) : NoOverride s (trapMainOps cmdOf origin false print operands) := by
  intro op hop
  unfold trapMainOps at hop
  cases hi : interpret cmdOf print operands with
  | error e => rw [hi] at hop; cases hop
  | ok cmd =>
    rw [hi] at hop
    cases cmd with
    | printAll incl =>
      simp only [trapCmdOps, List.mem_map] at hop
      obtain ⟨c, _, rfl⟩ := hop; trivial
    | print cs =>
      simp only [trapCmdOps, List.mem_map] at hop
      obtain ⟨c, _, rfl⟩ := hop; trivial
    | setAction a cs =>
      simp only [trapCmdOps, List.mem_map] at hop
      obtain ⟨c, _, rfl⟩ := hop
      simp [opNoOverride]

/-- ★ `disposition_invariant`, `mask_iff_catch` and `initially_ignored_sticky` for shell-level
    histories: any mix of `TrapSet` operations and `trap` commands (non-interactive for the
    stickiness clause), from any inherited dispositions, for every signal. -/
theorem shell_level_invariants (init : Nat → Disp) (hinit : ∀ s, init s ≠ .catch)
    (cmdOf : String → Nat) (ops : List ShOp) (s : Nat) (hs0 : s ≠ 0) :
    let st := runSh cmdOf (State.init init) ops
    st.sys.disp s = expected (get st.traps s) (init s)
    ∧ (st.sys.blocked s = true ↔ st.sys.disp s = .catch)
    ∧ (init s = .ignore → NoOverride s (flattenSh cmdOf ops) →
        (∀ g, get st.traps s = some g → g.current.action = .ignore ∧ g.current.origin = .inherited)
        ∧ st.sys.disp s ≠ .default) := by
  intro st
  have hst : st = run (State.init init) (flattenSh cmdOf ops) := shell_history_is_op_history _ _ _
  rw [hst]
  refine ⟨disposition_invariant init hinit _ s hs0, mask_iff_catch init hinit _ s, ?_⟩
  intro hign hno
  have := initially_ignored_sticky init hinit s hs0 hign _ hno
  exact ⟨this.1, this.2.1⟩

/-- non-vacuity: `set_action`, then a plain `trap` (which peeks at every condition), then an
    asynchronous subshell, in a shell that inherited QUIT ignored: 46 `TrapSet` operations in all -/
example :
    let init : Nat → Disp := fun s => if s = SIGQUIT then .ignore else .default
    let cmdOf : String → Nat := fun _ => 1
    let ops : List ShOp := [.op (.setAction SIGUSR1 (.command 1) 0 false), .trap 1 false false [],
      .op (.enterSubshell true false)]
    let st := runSh cmdOf (State.init init) ops
    st.sys.disp SIGINT = .ignore ∧ st.sys.disp SIGQUIT = .ignore ∧ st.sys.disp SIGUSR1 = .default
    ∧ (flattenSh cmdOf ops).length = 46 := by
  set_option maxRecDepth 20000 in decide

end YashModel.Trap
