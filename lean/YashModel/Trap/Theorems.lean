/-
  C11 — property theorems (and non-vacuity examples) ONLY.
  Helper lemmas: `Lemmas.lean`, `Steps.lean`, `Ops.lean`, `Pending.lean`, `Sticky.lean`.

  Property text: "After any sequence of `trap` commands, shell-internal handler changes and subshell
  entries, the disposition actually installed for each signal is the one implied by the user's trap
  action combined with the shell's own needs - never dropping a handler still needed, never
  catching what should be ignored or defaulted - and in a non-interactive shell a signal that was
  ignored on entry can be neither trapped nor reset; KILL and STOP can never be trapped.  Each
  delivery of a trapped signal makes its action run exactly once, at the next command boundary (or
  on interrupting `wait`), with `$?` preserved, regardless of when the signal arrives."

  Histories are lists of `Op` (the public `TrapSet` API: `set_action` with/without override, the six
  enable/disable operations for internal dispositions, `enter_subshell` with both flags,
  `peek_state`, `catch_signal`, `take_caught_signal`, `take_signal_if_caught`, and the delivery of
  a signal through the blocked-mask / `select` path), of any length, from any inherited
  dispositions `init` that are `Default` or `Ignore` (a freshly exec'ed process cannot inherit a
  handler), over all signal numbers.  Running the pending traps at a command boundary is, on the
  trap set, a run of `take_caught_signal` steps interleaved with whatever the bodies do, so it is
  covered by these histories; its once-only / `$?` law is `pending_exactly_once`.
-/
import YashModel.Trap.Pending
import YashModel.Trap.Sticky
import YashModel.Trap.KillStop
import YashModel.Trap.BuiltinLemmas
namespace YashModel.Trap

/-! ## The installed disposition is the reference merge -/

/-- ★ per-operation preservation: every operation keeps "installed = expected" for every signal
    (together with the side conditions it needs: map in key order, mask consistent) -/
theorem disposition_step (init : Nat → Disp) (hinit : ∀ s, init s ≠ .catch) (st : State) (op : Op)
    (h : Inv init st) : Inv init (step st op) :=
  inv_step_all init hinit st op h

/-- ★ `disposition_invariant`: after every operation history, from any inherited dispositions, the
    disposition installed in the system for every signal is
    `if vacant then inherited else max internal (disposition of the current action)`. -/
theorem disposition_invariant (init : Nat → Disp) (hinit : ∀ s, init s ≠ .catch) (ops : List Op)
    (s : Nat) (hs : s ≠ 0) :
    (run (State.init init) ops).sys.disp s
      = expected (get (run (State.init init) ops).traps s) (init s) :=
  (inv_run init hinit ops _ (inv_init_state init hinit)).disp s hs

/-- the reading of the property text: a handler still needed is never dropped (`Catch` is installed
    whenever the user action is a command or the shell needs to catch), nothing is caught that
    should be ignored or defaulted (`Catch` is installed only then), and `Default` is installed
    only if neither side needs anything -/
theorem disposition_meaning (init : Nat → Disp) (hinit : ∀ s, init s ≠ .catch) (ops : List Op)
    (s : Nat) (hs : s ≠ 0) (g : GrandState) (hg : get (run (State.init init) ops).traps s = some g) :
    ((run (State.init init) ops).sys.disp s = .catch
        ↔ (g.internal = .catch ∨ g.current.action.isCommand = true))
    ∧ ((run (State.init init) ops).sys.disp s = .default
        ↔ (g.internal = .default ∧ g.current.action = .default)) := by
  rw [disposition_invariant init hinit ops s hs, hg, expected_some]
  constructor
  · rw [Disp.max_eq_catch]
    cases g.current.action <;> simp [Action.toDisp, Action.isCommand]
  · rw [Disp.max_eq_default]
    cases g.current.action <;> simp [Action.toDisp]

example : ∀ s, (fun s => if s = SIGQUIT then Disp.ignore else Disp.default) s ≠ .catch := by
  intro s; by_cases h : s = SIGQUIT <;> simp [h]

/-- non-vacuity: a history in which the merge matters (user ignores SIGCHLD, the shell must catch it;
    then a subshell is entered) -/
example :
    let st := run (State.init fun _ => .default)
      [.setAction SIGCHLD .ignore 0 false, .enableChld, .setAction SIGINT (.command 1) 2 false,
       .enterSubshell true false]
    st.sys.disp SIGCHLD = .catch ∧ st.sys.disp SIGINT = .ignore
      ∧ (getState st.traps SIGINT).2 = some { action := .command 1, origin := .user 2, pending := false } := by
  decide

/-! ## Blocking mask -/

/-- ★ `mask_iff_catch`: over all histories a signal is blocked exactly when `Catch` is installed for
    it (so a trapped signal is delivered only inside `select`, i.e. at command boundaries and in
    `wait`, and an untrapped one is never left blocked). -/
theorem mask_iff_catch (init : Nat → Disp) (hinit : ∀ s, init s ≠ .catch) (ops : List Op) (s : Nat) :
    (run (State.init init) ops).sys.blocked s = true
      ↔ (run (State.init init) ops).sys.disp s = .catch := by
  have := (inv_run init hinit ops _ (inv_init_state init hinit)).sys.mask s
  rw [this]
  simp

/-- ☆ the mask used inside `select` never blocks a signal, so a caught (blocked) signal is
    deliverable there -/
theorem select_mask_open (init : Nat → Disp) (hinit : ∀ s, init s ≠ .catch) (ops : List Op)
    (m : Nat → Bool) (hm : (run (State.init init) ops).sys.selectMask = some m) (s : Nat) :
    m s = false := by
  have := (inv_run init hinit ops _ (inv_init_state init hinit)).sys.sel
  rw [hm] at this
  exact this s

/-- ☆ hence a signal sent while `Catch` is installed is recorded as pending by the next poll -/
theorem delivery_reaches_trap_set (init : Nat → Disp) (hinit : ∀ s, init s ≠ .catch) (ops : List Op)
    (s : Nat) (hc : (run (State.init init) ops).sys.disp s = .catch) :
    (deliver (run (State.init init) ops) s).traps = catchSignal (run (State.init init) ops).traps s := by
  have hi := inv_run init hinit ops _ (inv_init_state init hinit)
  have hsel := hi.sys.sel
  have hmask := hi.sys.mask s
  unfold deliver
  have : ((run (State.init init) ops).sys.selectMask.getD (run (State.init init) ops).sys.blocked) s = false := by
    cases hm : (run (State.init init) ops).sys.selectMask with
    | none => rw [hm] at hsel; simpa using hsel s
    | some m => rw [hm] at hsel; simpa using hsel s
  simp [hc, this]

/-! ## KILL and STOP -/

/-- ★ `kill_stop_untrappable`: `set_action` on SIGKILL / SIGSTOP returns the error and touches
    neither the trap set nor the system, whatever the action and the override flag. -/
theorem kill_stop_untrappable (st : State) (a : Action) (o : Nat) (ov : Bool) :
    setAction st SIGKILL a o ov = (st, some .sigkill)
    ∧ setAction st SIGSTOP a o ov = (st, some .sigstop) := by
  constructor <;> simp [setAction, SIGKILL, SIGSTOP]

/-- ★ over whole histories: whatever is attempted, SIGKILL and SIGSTOP keep the inherited
    disposition, are never blocked, and their entries (created only by `peek_state`) never hold a
    user action or an internal disposition. -/
theorem kill_stop_never_caught (init : Nat → Disp) (hinit : ∀ s, init s ≠ .catch) (ops : List Op)
    (k : Nat) (hk : k = SIGKILL ∨ k = SIGSTOP) :
    let st := run (State.init init) ops
    st.sys.disp k = init k ∧ st.sys.blocked k = false
    ∧ ∀ g, get st.traps k = some g →
        g.current.action.isCommand = false ∧ g.current.origin = .inherited ∧ g.internal = .default := by
  intro st
  have hi : Inv init st := inv_run init hinit ops _ (inv_init_state init hinit)
  have hu : Untouched (init k) (get st.traps k) :=
    untouched_run init hinit k hk ops _ (inv_init_state init hinit) (untouched_none _)
  have hk0 : k ≠ 0 := (killStop_ne hk).1
  have hd : st.sys.disp k = init k := by
    rw [hi.disp k hk0]
    cases hg : get st.traps k with
    | none => rfl
    | some g =>
      have := hu g hg
      rw [expected_some, this.1, this.2.1, Disp.max_default_left]
      exact fromInitial_toDisp _ (hinit k)
  refine ⟨hd, ?_, ?_⟩
  · rw [hi.sys.mask k, hd]
    have := hinit k
    cases hik : init k <;> simp_all
  · intro g hg
    have := hu g hg
    refine ⟨?_, this.2.2, this.1⟩
    rw [this.2.1]
    cases init k <;> rfl

example : (setAction (State.init fun _ => .default) SIGKILL (.command 1) 0 true).2 = some .sigkill := by
  decide

/-! ## Ignored on entry -/

/-- histories without `set_action(…, override_ignore = true)` on `s` (a non-interactive shell) -/
def NoOverride (s : Nat) (ops : List Op) : Prop := ∀ op ∈ ops, opNoOverride s op

theorem sticky_run (init : Nat → Disp) (hinit : ∀ s, init s ≠ .catch) (s : Nat) (hs0 : s ≠ 0)
    (hign : init s = .ignore) (ops : List Op) (st : State) (h : Inv init st)
    (he : IgnInh (get st.traps s)) (hno : NoOverride s ops) :
    IgnInh (get (run st ops).traps s) := by
  induction ops generalizing st with
  | nil => exact he
  | cons op ops ih =>
    apply ih _ (inv_step_all init hinit st op h)
    · exact sticky_step init hinit st s op hs0 hign h he (hno op (List.mem_cons_self ..))
    · exact fun op' hm => hno op' (List.mem_cons_of_mem _ hm)

/-- ★ `initially_ignored_sticky`: for a signal ignored on entry, after any history without override
    (i) the trap set still records `{Ignore, Inherited}` for it (or nothing),
    (ii) the installed disposition is never `Default`, and is `Ignore` unless the shell itself
         needs to catch the signal,
    (iii) a further `set_action` without override fails with `InitiallyIgnored`, leaves the recorded
         action `{Ignore, Inherited}` and leaves the installed disposition as it was — the signal
         can be neither trapped nor reset. -/
theorem initially_ignored_sticky (init : Nat → Disp) (hinit : ∀ s, init s ≠ .catch) (s : Nat)
    (hs0 : s ≠ 0) (hign : init s = .ignore) (ops : List Op) (hno : NoOverride s ops) :
    let st := run (State.init init) ops
    (∀ g, get st.traps s = some g → g.current.action = .ignore ∧ g.current.origin = .inherited)
    ∧ st.sys.disp s ≠ .default
    ∧ (st.sys.disp s = .ignore ∨ ∃ g, get st.traps s = some g ∧ g.internal = .catch)
    ∧ (∀ a o, s ≠ SIGKILL → s ≠ SIGSTOP →
        (setAction st s a o false).2 = some .initiallyIgnored
        ∧ (∀ g, get (setAction st s a o false).1.traps s = some g →
              g.current.action = .ignore ∧ g.current.origin = .inherited)
        ∧ (setAction st s a o false).1.sys.disp s = st.sys.disp s) := by
  intro st
  have hi : Inv init st := inv_run init hinit ops _ (inv_init_state init hinit)
  have he : IgnInh (get st.traps s) :=
    sticky_run init hinit s hs0 hign ops _ (inv_init_state init hinit) ignInh_none hno
  have hd := hi.disp s hs0
  refine ⟨he, ?_, ?_, ?_⟩
  · rw [hd]
    cases hg : get st.traps s with
    | none => simp [hign]
    | some g =>
      have := he g hg
      simp only [expected_some, this.1, Action.toDisp, ne_eq, Disp.max_eq_default]
      simp
  · rw [hd]
    cases hg : get st.traps s with
    | none => left; simp [hign]
    | some g =>
      have := he g hg
      simp only [expected_some, this.1, Action.toDisp]
      cases hint : g.internal
      · left; rfl
      · left; rfl
      · right; exact ⟨g, rfl, hint⟩
  · intro a o hk hst
    have hvac : get (clearParents st.traps) s = none → st.sys.disp s = .ignore := by
      intro hn
      rw [get_clearParents] at hn
      have : get st.traps s = none := by
        cases hg : get st.traps s with
        | none => rfl
        | some g => rw [hg] at hn; simp at hn
      rw [hd, this, expected_none, hign]
    have hcp : IgnInh (get (clearParents st.traps) s) := by
      rw [get_clearParents]; exact ignInh_clearParent he
    have := setActionE_sticky st.sys (get (clearParents st.traps) s) s a o hs0 hvac hcp
    unfold setAction
    simp only [hk, hst, if_false, get_set, if_true]
    exact ⟨this.1, this.2.1, this.2.2⟩

/-- non-vacuity: SIGQUIT ignored on entry, a history that tries to trap and reset it, enables the
    interactive dispositions and enters a subshell -/
example :
    let init : Nat → Disp := fun s => if s = SIGQUIT then .ignore else .default
    let ops : List Op := [.setAction SIGQUIT (.command 1) 0 false, .enableTerminators,
      .setAction SIGQUIT .default 2 false, .enterSubshell true true, .peek SIGQUIT]
    NoOverride SIGQUIT ops ∧ (run (State.init init) ops).sys.disp SIGQUIT = .ignore := by
  refine ⟨?_, by decide⟩
  intro op hop
  simp only [List.mem_cons, List.mem_nil_iff, or_false] at hop
  rcases hop with h | h | h | h | h <;> subst h <;> simp [opNoOverride]

/-! ## A caught signal runs its trap exactly once -/

/-- ★ `pending_exactly_once`, trap-set level: between two takes, any number ≥ 1 of catches of a
    signal yields exactly one pending trap state (the one set), zero catches yield none, and after
    the take nothing is pending. -/
theorem pending_exactly_once_take (t : TrapMap) (s : Nat) (g : GrandState) (n : Nat)
    (hg : get t s = some g) (hp : g.current.pending = false) :
    (takeSignalIfCaught (catchN t s n) s).2 = (if n = 0 then none else some g.current)
    ∧ (takeSignalIfCaught (takeSignalIfCaught (catchN t s n) s).1 s).2 = none := by
  cases n with
  | zero =>
    simp [catchN, takeSignalIfCaught, hg, GrandState.handleIfCaught, hp, get_set]
  | succ n =>
    have h1 := catchN_get t s g n hg
    have hcur : ({ g.current with pending := false } : TrapState) = g.current := by
      cases hc : g.current with
      | mk a o p => rw [hc] at hp; simp only at hp; subst hp; rfl
    simp [takeSignalIfCaught, h1, GrandState.handleIfCaught, GrandState.markAsCaught, get_set, hcur, hp]

/-- ★ `pending_exactly_once`, command-boundary level: a signal `s` with command trap `c`, nothing
    pending for it; it is then caught `n` times (any other signals may be pending too).  The next
    `run_traps_for_caught_signals` outside a trap runs the body of `s` exactly once if `n ≥ 1` and
    not at all if `n = 0`; `$?` after the run is `$?` before; a second run right after runs
    nothing.  (Bodies that do not end in a divert; for diverting bodies see
    `pending_survives_divert`.) -/
theorem pending_exactly_once (body : Body) (hm : MapPreserving body) (hb : NoDivert body)
    (t : TrapMap) (hsorted : Sorted t) (s c : Nat) (hs0 : s ≠ 0) (g : GrandState)
    (hg : get t s = some g) (hact : g.current.action = .command c) (hp : g.current.pending = false)
    (n : Nat) (exit : Int) :
    let r := runTrapsForCaughtSignals body false (catchN t s n) exit
    r.runs.filter (fun p => p.1 == s) = (if n = 0 then [] else [(s, c)])
    ∧ r.exit = exit
    ∧ (runTrapsForCaughtSignals body false r.traps exit).runs = [] := by
  intro r
  have hfuel : ∀ t' : TrapMap, npend t' < t'.length + 1 := fun t' =>
    Nat.lt_succ_of_le (npend_le_length t')
  have hd := drain_spec body hm hb ((catchN t s n).length + 1) (catchN t s n) exit [] (hfuel _)
  have hr : r = drain body ((catchN t s n).length + 1) (catchN t s n) exit [] := by
    simp [r, runTrapsForCaughtSignals]
  refine ⟨?_, ?_, ?_⟩
  · rw [hr, hd.1, List.nil_append, pendingCommands_filter _ _ (sorted_catchN _ _ _ hsorted)]
    cases n with
    | zero => simp [catchN, hg, owed, hact, hp]
    | succ n =>
      rw [catchN_get t s g n hg]
      simp [owed, GrandState.markAsCaught, hact, hs0]
  · rw [hr]; exact hd.2.1
  · have hz : npend r.traps = 0 := by rw [hr]; exact hd.2.2.1
    have hd2 := drain_spec body hm hb (r.traps.length + 1) r.traps exit [] (hfuel _)
    simp only [runTrapsForCaughtSignals, Bool.false_eq_true, if_false]
    rw [hd2.1, npend_zero_pendingCommands _ hz]
    rfl

/-- ★ `pending_survives_divert`: the runner takes ONE caught signal, runs its action and, if the
    action ends in a divert (`return`, `exit`, interrupt, …), leaves at once.  For every set of
    pending signals and every outcome of every action:
    (i) at one boundary, the actions run followed by the actions still pending are exactly the
        actions that were pending, in signal order — so after a run cut short by a divert every
        signal not yet run is still pending, and none is run twice;
    (ii) a run that is not cut short leaves nothing pending and keeps `$?`;
    (iii) over any sequence of later boundaries (whatever `$?` is there) the same conservation
        holds, and once there have been as many boundaries as pending actions, every one of them
        has run exactly once: the total run list *is* the list that was pending;
    (iv) per signal: the runs of `s` so far plus what is still owed to `s` is what was owed to `s`
        (at most one run, and exactly one in the end). -/
theorem pending_survives_divert (body : Body) (hm : MapPreserving body) (t : TrapMap)
    (hsorted : Sorted t) (exit : Int) (es : List Int) :
    ((runTrapsForCaughtSignals body false t exit).runs
        ++ pendingCommands (runTrapsForCaughtSignals body false t exit).traps = pendingCommands t)
    ∧ ((runTrapsForCaughtSignals body false t exit).divert = none →
        pendingCommands (runTrapsForCaughtSignals body false t exit).traps = []
        ∧ (runTrapsForCaughtSignals body false t exit).exit = exit)
    ∧ ((boundaries body es t []).2 ++ pendingCommands (boundaries body es t []).1 = pendingCommands t)
    ∧ ((pendingCommands t).length ≤ es.length → (boundaries body es t []).2 = pendingCommands t)
    ∧ (∀ s, ((boundaries body es t []).2 ++ pendingCommands (boundaries body es t []).1).filter
              (fun p => p.1 == s) = owed (get t s) s) := by
  have hc := runTraps_conserve body hm t exit
  have hb := boundaries_conserve body hm es t []
  simp only [List.nil_append] at hb
  refine ⟨hc.1, ?_, hb, ?_, ?_⟩
  · intro hd
    have := hc.2.1 hd
    exact ⟨npend_zero_pendingCommands _ this.1, this.2⟩
  · intro hlen
    have := boundaries_complete body hm es t [] hlen
    rw [this, List.append_nil] at hb
    exact hb
  · intro s
    rw [hb]
    exact pendingCommands_filter t s hsorted

/-- ★ `trap_error_status_propagates`: when a trap action is interrupted by an error
    (`Divert::Interrupt(Some(x))`, e.g. an expansion error, `x` = 2), `run_trap` leaves `$?` = `x` and
    passes `Interrupt(Some(x))` on unchanged; hence a run of the pending traps that ends in
    `Interrupt(Some(x))` leaves `$?` = `x` (the non-interactive shell then exits with it) — never the
    `$?` of before the action. -/
theorem trap_error_status_propagates (body : Body) (c : Nat) (exit : Int) (t : TrapMap) (x : Int)
    (hb : (body c exit t).1.divert = some (.interrupt (some x))) :
    (runTrap body c exit t).1 = x ∧ (runTrap body c exit t).2.1 = some (.interrupt (some x))
    ∧ ∀ (inTrap : Bool) (t' : TrapMap) (e' : Int) (y : Int),
        (runTrapsForCaughtSignals body inTrap t' e').divert = some (.interrupt (some y)) →
        (runTrapsForCaughtSignals body inTrap t' e').exit = y := by
  refine ⟨?_, ?_, ?_⟩
  · simp [runTrap, hb]
  · simp [runTrap, hb]
  · intro inTrap t' e' y h
    unfold runTrapsForCaughtSignals at h ⊢
    cases inTrap with
    | true => simp at h
    | false =>
      simp only [Bool.false_eq_true, if_false] at h ⊢
      exact drain_interrupt_exit body _ t' e' [] y h

/-- non-vacuity: the action of SIGINT fails with status 2 while `$?` = 5: the run ends in
    `Interrupt(Some(2))` with `$?` = 2, and SIGUSR1 is still pending -/
example :
    let t : TrapMap := catchSignal (catchSignal
      (set (set [] SIGUSR1 { current := { action := .command 1, origin := .user 0 } })
        SIGINT { current := { action := .command 2, origin := .user 1 } }) SIGINT) SIGUSR1
    let body : Body := fun c e t => ({ exit := e, divert := if c = 2 then some (.interrupt (some 2)) else none }, t)
    let r := runTrapsForCaughtSignals body false t 5
    (r.exit, r.divert, pendingCommands r.traps) = (2, some (.interrupt (some 2)), [(SIGUSR1, 1)]) := by
  decide

/-- ☆ while a signal trap is running (`in_trap`), nothing is run and nothing is lost: the pending
    flags stay for the next boundary -/
theorem no_nested_trap (body : Body) (t : TrapMap) (exit : Int) :
    runTrapsForCaughtSignals body true t exit = { traps := t, exit := exit, runs := [] } := rfl

/-- ☆ `run_trap` restores `$?` unless the body ends in `Divert::Interrupt` -/
theorem run_trap_restores_status (body : Body) (c : Nat) (exit : Int) (t : TrapMap)
    (h : ∀ st, (body c exit t).1.divert ≠ some (.interrupt st)) :
    (runTrap body c exit t).1 = exit := by
  unfold runTrap
  cases hd : (body c exit t).1.divert with
  | none => simp only [hd]
  | some d =>
    cases d with
    | interrupt st => exact absurd hd (h st)
    | ret st => simp only [hd]
    | exit st => simp only [hd]
    | other => simp only [hd]

/-- non-vacuity: two signals pending (one caught three times), one command each; both bodies run
    once, in signal order, with `$?` = 5 kept although every body sets `$?` to 7 -/
example :
    let t : TrapMap := catchN (catchSignal
      (set (set [] SIGUSR1 { current := { action := .command 1, origin := .user 0 } })
        SIGINT { current := { action := .command 2, origin := .user 1 } }) SIGINT) SIGUSR1 3
    let r := runTrapsForCaughtSignals (fun _ _ t => ({ exit := 7 }, t)) false t 5
    (r.exit, r.runs, r.divert) = (5, [(SIGINT, 2), (SIGUSR1, 1)], none) := by
  decide

/-- non-vacuity of `pending_survives_divert`: the action of SIGINT ends in `return 3`; SIGUSR1 stays
    pending at that boundary and runs, once, at the next one -/
example :
    let t : TrapMap := catchSignal (catchSignal
      (set (set [] SIGUSR1 { current := { action := .command 1, origin := .user 0 } })
        SIGINT { current := { action := .command 2, origin := .user 1 } }) SIGINT) SIGUSR1
    let body : Body := fun c _ t => ({ exit := 3, divert := if c = 2 then some (.ret (some 3)) else none }, t)
    let r := runTrapsForCaughtSignals body false t 5
    (r.runs, r.divert, pendingCommands r.traps) = ([(SIGINT, 2)], some (.ret (some 3)), [(SIGUSR1, 1)])
    ∧ (boundaries body [5, 3] t []).2 = [(SIGINT, 2), (SIGUSR1, 1)] := by
  decide

/-! ## The `trap` built-in, the poll shortcut, `wait` -/

/-- ★ every form of the `trap` built-in (print all, `-p`, `-p COND…`, set / reset / ignore for any
    list of named or numeric conditions, with its syntax errors and with KILL/STOP/initially-ignored
    failures) keeps the invariant: the built-in only composes `peek_state` and `set_action`. -/
theorem trap_builtin_preserves_invariant (init : Nat → Disp) (hinit : ∀ s, init s ≠ .catch)
    (cmdOf : String → Nat) (st : State) (origin : Nat) (interactive print : Bool) (operands : List String)
    (h : Inv init st) : Inv init (trapMain cmdOf st origin interactive print operands).st :=
  inv_trapMain init hinit cmdOf st origin interactive print operands h

/-- ★ `trap ACTION … KILL …` / `… STOP …` always fails the built-in (an error other than
    `InitiallyIgnored` is reported), whatever else is in the list -/
theorem trap_builtin_kill_stop_fails (a : Action) (origin : Nat) (ov : Bool) (conds : List Nat)
    (st : State) (k : Nat) (hk : k = SIGKILL ∨ k = SIGSTOP) (hm : k ∈ conds) :
    ∃ e, e ∈ (setActions a origin ov conds st).2 ∧ e ≠ .initiallyIgnored :=
  setActions_killStop a origin ov conds st k hk hm

/-- ★ `trap -p COND` right after a successful `trap ACTION COND` prints exactly that action
    (default as `-`, ignore as `''`, a command as itself) -/
theorem trap_print_reads_back (st : State) (c : Nat) (a : Action) (origin : Nat) (ov : Bool)
    (hok : (setAction st c a origin ov).2 = none) :
    (displayTrap (setAction st c a origin ov).1 c true).2 = [{ action := a, cond := c }] :=
  print_reads_back st c a origin ov hok

example : (setAction (State.init fun _ => .default) SIGINT (.command 1) 0 false).2 = none := by decide

/-- ★ the runner including its poll and the SIGINT shortcut of interactive shells (a caught SIGINT
    without a user trap interrupts at once, even inside a trap): whatever was collected, what ran
    plus what is still pending is what was pending after the poll — the shortcut loses nothing. -/
theorem poll_shortcut_loses_nothing (body : Body) (hm : MapPreserving body) (polled : List Nat)
    (t : TrapMap) (exit : Int) :
    (runTrapsAfterPoll body false polled t exit).runs
        ++ pendingCommands (runTrapsAfterPoll body false polled t exit).traps
      = pendingCommands (polled.foldl catchSignal t) :=
  runTrapsAfterPoll_conserve body hm polled t exit

/-- ★ `wait` interrupted by trapped signals (`wait_for_any_job_or_trap` + `run_trap_if_caught`):
    for the signals reported by the system in any order, at most one action runs (the first caught
    signal whose action is a command) and, for every signal `x`, the run made for `x` followed by what
    is still owed to `x` is what was owed to `x` — the other caught signals keep their pending flag
    for the next command boundary, and none runs twice. -/
theorem wait_interrupt_conserves (body : Body) (hm : MapPreserving body) (sigs : List Nat)
    (h0 : ¬ (0 ∈ sigs)) (t : TrapMap) (exit : Int) (x : Nat) :
    ranFor (waitTrapLoop body sigs t exit).2 x ++ owed (get (waitTrapLoop body sigs t exit).1 x) x
      = owed (get t x) x :=
  waitTrapLoop_conserve body hm sigs h0 t exit x

/-- non-vacuity: USR1 and INT both caught while waiting, reported in that order: USR1's action
    interrupts the wait, INT's is still pending afterwards -/
example :
    let t : TrapMap := catchSignal (catchSignal
      (set (set [] SIGUSR1 { current := { action := .command 1, origin := .user 0 } })
        SIGINT { current := { action := .command 2, origin := .user 1 } }) SIGINT) SIGUSR1
    let r := waitTrapLoop (fun _ _ t => ({ exit := 0 }, t)) [SIGUSR1, SIGINT] t 0
    (r.2.map fun x => (x.1, x.2.1)) = some (SIGUSR1, 1) ∧ pendingCommands r.1 = [(SIGINT, 2)] := by
  decide

end YashModel.Trap
