/-
  C11 — helper lemmas (wave 3, second pass): the model's fuel vs the code's unbounded `while let` loop.
-/
import YashModel.Trap.Arrivals
namespace YashModel.Trap

/-- did `drain` end because the loop ended (nothing left to take, or a divert) rather than because the
    model's fuel ran out?  (follows the recursion of `drain`) -/
def drainCompleted (body : Body) : Nat → TrapMap → Int → Bool
  | 0, t, _ => (takeCaughtSignal t).2.isNone
  | fuel + 1, t, exit =>
    match (takeCaughtSignal t).2 with
    | none => true
    | some (_, ts) =>
      match ts.action with
      | .command c =>
        match (runTrap body c exit (takeCaughtSignal t).1).2.1 with
        | some _ => true
        | none => drainCompleted body fuel (runTrap body c exit (takeCaughtSignal t).1).2.2
                    (runTrap body c exit (takeCaughtSignal t).1).1
      | _ => drainCompleted body fuel (takeCaughtSignal t).1 exit

/-- a completed run does not depend on the fuel: more fuel gives the same result — the result of the
    code's unbounded `while let` loop -/
theorem drain_fuel_irrelevant (body : Body) (fuel : Nat) (t : TrapMap) (exit : Int) (runs : List (Nat × Nat))
    (h : drainCompleted body fuel t exit = true) (k : Nat) :
    drain body (fuel + k) t exit runs = drain body fuel t exit runs := by
  induction fuel generalizing t exit runs with
  | zero =>
    simp only [drainCompleted, Option.isNone_iff_eq_none] at h
    cases k with
    | zero => rfl
    | succ k => simp [drain, h]
  | succ fuel ih =>
    rw [show fuel + 1 + k = (fuel + k) + 1 by omega]
    simp only [drain, drainCompleted] at h ⊢
    cases hr : (takeCaughtSignal t).2 with
    | none => rfl
    | some p =>
      obtain ⟨sig, ts⟩ := p
      rw [hr] at h
      simp only at h ⊢
      cases hact : ts.action with
      | command c =>
        rw [hact] at h
        simp only at h ⊢
        cases hd : (runTrap body c exit (takeCaughtSignal t).1).2.1 with
        | some d => rfl
        | none => rw [hd] at h; exact ih _ _ _ h
      | default => rw [hact] at h; exact ih _ _ _ h
      | ignore => rw [hact] at h; exact ih _ _ _ h

theorem npend_set_le (t : TrapMap) (x : Nat) (v : GrandState) : npend (set t x v) ≤ npend t + 1 := by
  induction t with
  | nil => simp only [set, npend]; split <;> omega
  | cons kv t ih =>
    obtain ⟨k, g'⟩ := kv
    simp only [set]
    split
    · simp only [npend]; split <;> split <;> omega
    · split
      · simp only [npend]; split <;> split <;> omega
      · simp only [npend]; omega

theorem npend_catchSignal_le (t : TrapMap) (x : Nat) : npend (catchSignal t x) ≤ npend t + 1 := by
  unfold catchSignal
  cases hg : get t x with
  | none => simp only; omega
  | some g => simp only; exact npend_set_le t x _

theorem npend_foldl_catch_le (l : List Nat) (t : TrapMap) : npend (l.foldl catchSignal t) ≤ npend t + l.length := by
  induction l generalizing t with
  | nil => simp
  | cons x l ih =>
    simp only [List.foldl_cons, List.length_cons]
    have := ih (catchSignal t x)
    have := npend_catchSignal_le t x
    omega

def Ev.isDeliver : Ev → Bool
  | .deliver _ => true
  | .take => false

/-- if, whatever the fuel, the actions of one runner invocation receive at most `n` signals in all
    (`drainEvs` lists them), then fuel `npend t + n + 1` completes the loop -/
theorem drain_completes (body : Body) (arr : Nat → Int → TrapMap → List Nat) (hA : Arrivals body arr)
    (fuel n : Nat) (t : TrapMap) (exit : Int)
    (hn : ∀ f, ((drainEvs body arr f t exit).filter Ev.isDeliver).length ≤ n)
    (hf : npend t + n < fuel) : drainCompleted body fuel t exit = true := by
  induction fuel generalizing t exit n with
  | zero => omega
  | succ fuel ih =>
    simp only [drainCompleted]
    cases hr : (takeCaughtSignal t).2 with
    | none => rfl
    | some p =>
      obtain ⟨sig, ts⟩ := p
      have hs := (takeCaught_some t sig ts hr).2
      simp only
      cases hact : ts.action with
      | command c =>
        simp only
        cases hd : (runTrap body c exit (takeCaughtSignal t).1).2.1 with
        | some d => rfl
        | none =>
          simp only
          have htr := runTrap_traps_arr body arr hA c exit (takeCaughtSignal t).1
          rw [htr]
          have hle := npend_foldl_catch_le (arr c exit (takeCaughtSignal t).1) (takeCaughtSignal t).1
          -- the arrivals of this action are part of the budget
          have ha : (arr c exit (takeCaughtSignal t).1).length ≤ n := by
            have := hn 1
            simp only [drainEvs, hr, hact, hd, List.filter_cons, Ev.isDeliver, List.filter_append] at this
            simp only [Bool.false_eq_true, if_false, List.length_append] at this
            have hm : ((arr c exit (takeCaughtSignal t).1).map Ev.deliver).filter Ev.isDeliver
                = (arr c exit (takeCaughtSignal t).1).map Ev.deliver := by
              rw [List.filter_eq_self]; intro a ha; simp only [List.mem_map] at ha
              obtain ⟨x, _, rfl⟩ := ha; rfl
            rw [hm, List.length_map] at this
            omega
          apply ih (n - (arr c exit (takeCaughtSignal t).1).length)
          · intro f
            have := hn (f + 1)
            simp only [drainEvs, hr, hact, hd, List.filter_cons, Ev.isDeliver, List.filter_append] at this
            simp only [Bool.false_eq_true, if_false, List.length_append] at this
            have hm : ((arr c exit (takeCaughtSignal t).1).map Ev.deliver).filter Ev.isDeliver
                = (arr c exit (takeCaughtSignal t).1).map Ev.deliver := by
              rw [List.filter_eq_self]; intro a ha; simp only [List.mem_map] at ha
              obtain ⟨x, _, rfl⟩ := ha; rfl
            rw [hm, List.length_map, htr] at this
            omega
          · omega
      | default =>
        apply ih n
        · intro f
          have := hn (f + 1)
          simpa [drainEvs, hr, hact, Ev.isDeliver] using this
        · omega
      | ignore =>
        apply ih n
        · intro f
          have := hn (f + 1)
          simpa [drainEvs, hr, hact, Ev.isDeliver] using this
        · omega


/-- a completed run that did not end in a divert leaves nothing to take: "at the next boundary" -/
theorem drain_completed_nothing_left (body : Body) (fuel : Nat) (t : TrapMap) (exit : Int) (runs : List (Nat × Nat))
    (h : drainCompleted body fuel t exit = true) (hd : (drain body fuel t exit runs).divert = none) :
    (takeCaughtSignal (drain body fuel t exit runs).traps).2 = none := by
  induction fuel generalizing t exit runs with
  | zero => simpa [drainCompleted, drain] using h
  | succ fuel ih =>
    simp only [drain, drainCompleted] at h hd ⊢
    cases hr : (takeCaughtSignal t).2 with
    | none => simp [hr]
    | some p =>
      obtain ⟨sig, ts⟩ := p
      rw [hr] at h hd
      simp only at h hd ⊢
      cases hact : ts.action with
      | command c =>
        rw [hact] at h hd
        simp only at h hd ⊢
        cases hdv : (runTrap body c exit (takeCaughtSignal t).1).2.1 with
        | some d => rw [hdv] at hd; simp at hd
        | none => rw [hdv] at h hd; exact ih _ _ _ h hd
      | default => rw [hact] at h hd; exact ih _ _ _ h hd
      | ignore => rw [hact] at h hd; exact ih _ _ _ h hd

end YashModel.Trap
