/-
  C11 — helper lemmas, part 9: what `TrapSet::enter_subshell` leaves for each signal.
-/
import YashModel.Trap.Ops
namespace YashModel.Trap

/-- POSIX: on entry to a subshell a trap that is a command is reset to the default action; ignored
    and default ones stay -/
def resetAction : Action → Action
  | .command _ => .default
  | a => a

/-- the Spec's `posixReset` (Spec.lean) is the same function -/
theorem posixReset_eq (a : Action) : posixReset a = resetAction a := by cases a <;> rfl

theorem enterState_fields (g : GrandState) (opt : SubOpt) :
    (g.enterState opt).internal = (if opt = .keep then g.internal else .default)
    ∧ (g.enterState opt).current.action = (if opt = .ignore then .ignore else resetAction g.current.action)
    ∧ (g.enterState opt).parent = (if g.current.action.isCommand then some g.current else g.parent) := by
  obtain ⟨⟨a, o, p⟩, par, i⟩ := g
  cases opt <;> cases a <;> simp [GrandState.enterState, Action.isCommand, resetAction]

theorem get_ignoreIfVacant (st : State) (k x : Nat) :
    get (ignoreIfVacant st k).traps x
      = if x = k ∧ get st.traps k = none then some (GrandState.ignore st.sys k).2 else get st.traps x := by
  unfold ignoreIfVacant
  cases hg : get st.traps k with
  | some g => simp
  | none =>
    simp only [get_set]
    by_cases hx : x = k <;> simp [hx]

theorem ignoreE_entry (sys : Sys) (k : Nat) :
    (GrandState.ignore sys k).2.current.action = .ignore ∧ (GrandState.ignore sys k).2.internal = .default :=
  ⟨rfl, rfl⟩

theorem get_ignoreBoth (st1 : State) (s : Nat) :
    get (ignoreIfVacant (ignoreIfVacant st1 SIGINT) SIGQUIT).traps s
      = if s = SIGQUIT ∧ get st1.traps SIGQUIT = none
          then some (GrandState.ignore (ignoreIfVacant st1 SIGINT).sys SIGQUIT).2
        else if s = SIGINT ∧ get st1.traps SIGINT = none then some (GrandState.ignore st1.sys SIGINT).2
        else get st1.traps s := by
  have hne : ¬ SIGQUIT = SIGINT := by decide
  have hq : get (ignoreIfVacant st1 SIGINT).traps SIGQUIT = get st1.traps SIGQUIT := by
    rw [get_ignoreIfVacant]; simp [hne]
  rw [get_ignoreIfVacant (ignoreIfVacant st1 SIGINT) SIGQUIT s, hq, get_ignoreIfVacant st1 SIGINT s]

/-- the entry of an occupied signal after `enter_subshell` -/
theorem get_enterSubshell_some (st : State) (ii ks : Bool) (s : Nat) (g : GrandState)
    (hg : get st.traps s = some g) :
    get (enterSubshell st ii ks).traps s
      = some (g.clearParent.enterState (subshellOption s g.clearParent ii ks)) := by
  have h1 : get (enterAll st.sys ii ks (clearParents st.traps)).2 s
      = some (g.clearParent.enterState (subshellOption s g.clearParent ii ks)) := by
    rw [get_enterAll, get_clearParents, hg]; rfl
  unfold enterSubshell
  simp only
  split
  · rw [get_ignoreBoth]
    simp only
    have hne' : ¬ SIGQUIT = SIGINT := by decide
    by_cases hq : s = SIGQUIT
    · subst hq; simp [h1, hne']
    · by_cases hi : s = SIGINT
      · subst hi; simp [hq, h1]
      · simp [hq, hi, h1]
  · exact h1

/-- the entry of a vacant signal after `enter_subshell` -/
theorem get_enterSubshell_none (st : State) (ii ks : Bool) (s : Nat)
    (hg : get st.traps s = none) :
    (ii = true ∧ (s = SIGINT ∨ s = SIGQUIT) →
        ∃ g', get (enterSubshell st ii ks).traps s = some g'
          ∧ g'.current.action = .ignore ∧ g'.internal = .default)
    ∧ (¬ (ii = true ∧ (s = SIGINT ∨ s = SIGQUIT)) → get (enterSubshell st ii ks).traps s = none) := by
  have h1 : get (enterAll st.sys ii ks (clearParents st.traps)).2 s = none := by
    rw [get_enterAll, get_clearParents, hg]; rfl
  have hne : ¬ SIGINT = SIGQUIT := by decide
  unfold enterSubshell
  simp only
  constructor
  · rintro ⟨hii, hs⟩
    subst hii
    simp only [if_true]
    rw [get_ignoreBoth]
    rcases hs with hs | hs
    · subst hs
      rw [if_neg (by simp [hne]), if_pos ⟨rfl, h1⟩]
      exact ⟨_, rfl, (ignoreE_entry _ _).1, (ignoreE_entry _ _).2⟩
    · subst hs
      rw [if_pos ⟨rfl, h1⟩]
      exact ⟨_, rfl, (ignoreE_entry _ _).1, (ignoreE_entry _ _).2⟩
  · intro hn
    split
    · rename_i hii
      have hs : ¬ s = SIGINT ∧ ¬ s = SIGQUIT := by
        constructor <;> intro h <;> exact hn ⟨hii, by simp [h]⟩
      rw [get_ignoreBoth]
      simp [hs.1, hs.2, h1]
    · exact h1

end YashModel.Trap
