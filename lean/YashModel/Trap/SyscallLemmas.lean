/-
  C11 — helper lemmas for the system-call layer (`Syscalls.lean`): what `set_disposition` records when
  nothing fails, and that each entry-level operation then computes what `Model.lean` computes.
-/
import YashModel.Trap.Ops
import YashModel.Trap.SyscallSpec
namespace YashModel.Trap

/-- the two primitive calls of a successful `set_disposition` -/
def dispCalls (sys : Sys) (sig : Nat) (d : Disp) : List Call :=
  if d = .catch then
    [{ prim := .mask true sig, ok := true }, { prim := .action sig d, ok := true, old := sys.disp sig }]
  else
    [{ prim := .action sig d, ok := true, old := sys.disp sig }, { prim := .mask false sig, ok := true }]

theorem setDispositionF_nofault (s : FSys) (h : s.plan = []) (sig : Nat) (d : Disp) :
    s.setDisposition sig d
      = (some (s.sys.disp sig),
         { sys := (s.sys.setDisposition sig d).2, log := s.log ++ dispCalls s.sys sig d, plan := [] }) := by
  obtain ⟨sys, log, plan⟩ := s
  simp only at h
  subst h
  cases d <;>
    simp [FSys.setDisposition, FSys.sigmask, FSys.sigaction, Sys.setDisposition, Sys.updateMask, dispCalls]

/-- `sys`, `plan` and the shape of `log` after a faultless `set_disposition` -/
theorem setDispositionF_nofault_sys (s : FSys) (h : s.plan = []) (sig : Nat) (d : Disp) :
    (s.setDisposition sig d).2.sys = (s.sys.setDisposition sig d).2
    ∧ (s.setDisposition sig d).2.plan = []
    ∧ (s.setDisposition sig d).1 = some (s.sys.disp sig)
    ∧ (s.setDisposition sig d).2.log = s.log ++ dispCalls s.sys sig d := by
  rw [setDispositionF_nofault s h]; simp

/-- the faultless relation between the two layers -/
def Sim (fs : FSys) (sys : Sys) : Prop := fs.sys = sys ∧ fs.plan = []

theorem setActionF_nofault (fs : FSys) (h : fs.plan = []) (e : Option GrandState) (c : Nat) (a : Action)
    (o : Nat) (ov : Bool) :
    (GrandState.setActionF fs e c a o ov).1.sys = (GrandState.setAction fs.sys e c a o ov).1
    ∧ (GrandState.setActionF fs e c a o ov).1.plan = []
    ∧ (GrandState.setActionF fs e c a o ov).2.1 = some (GrandState.setAction fs.sys e c a o ov).2.1
    ∧ (GrandState.setActionF fs e c a o ov).2.2
        = (GrandState.setAction fs.sys e c a o ov).2.2.map SetActionErrorF.base := by
  unfold GrandState.setActionF GrandState.setAction
  cases e with
  | none =>
    by_cases hc : c = 0
    · simp [hc, h]
    · cases ov
      · simp only [hc, ne_eq, not_false_eq_true, if_true, setDispositionF_nofault fs h, setDisposition_fst]
        by_cases hi : fs.sys.disp c = .ignore
        · simp [hi]
        · by_cases hd : a.toDisp = .ignore
          · simp [hi, hd]
          · have h2 : ({ sys := (fs.sys.setDisposition c .ignore).2,
                         log := fs.log ++ dispCalls fs.sys c .ignore, plan := [] } : FSys).plan = [] := rfl
            simp [hi, hd, setDispositionF_nofault _ h2]
      · simp [hc, setDispositionF_nofault fs h]
  | some g =>
    simp only
    by_cases h1 : ov = false ∧ g.current.action = .ignore ∧ g.current.origin = .inherited
    · simp [h1, h]
    · by_cases hcond : c ≠ 0 ∧ g.internal.max g.current.action.toDisp ≠ g.internal.max a.toDisp
      · simp [h1, hcond, setDispositionF_nofault fs h]
      · simp [h1, hcond, h]

theorem setInternalF_nofault (fs : FSys) (h : fs.plan = []) (e : Option GrandState) (s : Nat) (d : Disp) :
    (GrandState.setInternalF fs e s d).1.sys = (GrandState.setInternal fs.sys e s d).1
    ∧ (GrandState.setInternalF fs e s d).1.plan = []
    ∧ (GrandState.setInternalF fs e s d).2.1 = (GrandState.setInternal fs.sys e s d).2
    ∧ (GrandState.setInternalF fs e s d).2.2 = true := by
  unfold GrandState.setInternalF GrandState.setInternal
  cases e with
  | none =>
    by_cases hd : d = .default
    · simp [hd, h]
    · simp [hd, setDispositionF_nofault fs h]
  | some g =>
    simp only
    by_cases hcond : g.internal.max g.current.action.toDisp ≠ d.max g.current.action.toDisp
    · simp [hcond, setDispositionF_nofault fs h]
    · simp [hcond, h]

theorem enterSubshellF_nofault (fs : FSys) (h : fs.plan = []) (g : GrandState) (c : Nat) (opt : SubOpt) :
    (g.enterSubshellF fs c opt).1.sys = (g.enterSubshell fs.sys c opt).1
    ∧ (g.enterSubshellF fs c opt).1.plan = []
    ∧ (g.enterSubshellF fs c opt).2 = (g.enterSubshell fs.sys c opt).2 := by
  unfold GrandState.enterSubshellF GrandState.enterSubshell
  simp only
  by_cases hcond : g.internal.max g.current.action.toDisp ≠ g.enterNewDisp opt ∧ c ≠ 0
  · simp [hcond, setDispositionF_nofault fs h]
  · simp [hcond, h]

theorem ignoreF_nofault (fs : FSys) (h : fs.plan = []) (s : Nat) :
    (GrandState.ignoreF fs s).1.sys = (GrandState.ignore fs.sys s).1
    ∧ (GrandState.ignoreF fs s).1.plan = []
    ∧ (GrandState.ignoreF fs s).2 = some (GrandState.ignore fs.sys s).2 := by
  unfold GrandState.ignoreF GrandState.ignore
  simp only [setDispositionF_nofault fs h, setDisposition_fst]
  refine ⟨trivial, trivial, ?_⟩
  cases fs.sys.disp s <;> rfl

/-! ### `TrapSet` level -/

theorem setActionT_nofault (st : FState) (h : st.sys.plan = []) (c : Nat) (a : Action) (o : Nat) (ov : Bool) :
    (setActionF st c a o ov).1.toState = (setAction st.toState c a o ov).1
    ∧ (setActionF st c a o ov).1.sys.plan = []
    ∧ (setActionF st c a o ov).2 = (setAction st.toState c a o ov).2.map SetActionErrorF.base := by
  unfold setActionF setAction
  by_cases h1 : c = SIGKILL
  · simp [h1, h]
  · by_cases h2 : c = SIGSTOP
    · have h3 : SIGSTOP ≠ SIGKILL := by decide
      simp [h2, h3, h]
    · have := setActionF_nofault st.sys h (get (clearParents st.traps) c) c a o ov
      simp only [h1, h2, if_false, FState.toState]
      obtain ⟨e1, e2, e3, e4⟩ := this
      simp [e1, e2, e3, e4, setOpt]

theorem setInternalT_nofault (st : FState) (h : st.sys.plan = []) (s : Nat) (d : Disp) :
    (setInternalF st s d).1.toState = setInternal st.toState s d
    ∧ (setInternalF st s d).1.sys.plan = []
    ∧ (setInternalF st s d).2 = true := by
  unfold setInternalF setInternal
  obtain ⟨e1, e2, e3, e4⟩ := setInternalF_nofault st.sys h (get st.traps s) s d
  simp [FState.toState, e1, e2, e3, e4]

theorem seqInternalF_nofault (l : List (Nat × Disp)) (st : FState) (h : st.sys.plan = []) :
    (seqInternalF st l).1.toState = l.foldl (fun st p => setInternal st p.1 p.2) st.toState
    ∧ (seqInternalF st l).1.sys.plan = []
    ∧ (seqInternalF st l).2 = true := by
  induction l generalizing st with
  | nil => simp [seqInternalF, h]
  | cons p l ih =>
    obtain ⟨s, d⟩ := p
    obtain ⟨e1, e2, e3⟩ := setInternalT_nofault st h s d
    simp only [seqInternalF, e3, if_true, List.foldl_cons]
    rw [← e1]
    exact ih _ e2

theorem enterAllF_nofault (ii ks : Bool) (t : TrapMap) (fs : FSys) (h : fs.plan = []) :
    (enterAllF fs ii ks t).1.sys = (enterAll fs.sys ii ks t).1
    ∧ (enterAllF fs ii ks t).1.plan = []
    ∧ (enterAllF fs ii ks t).2 = (enterAll fs.sys ii ks t).2 := by
  induction t generalizing fs with
  | nil => simp [enterAllF, enterAll, h]
  | cons kv t ih =>
    obtain ⟨k, g⟩ := kv
    obtain ⟨e1, e2, e3⟩ := enterSubshellF_nofault fs h g k (subshellOption k g ii ks)
    obtain ⟨i1, i2, i3⟩ := ih _ e2
    simp only [enterAllF, enterAll]
    rw [e1] at i1 i3
    simp [i1, i2, i3, e3]

theorem ignoreIfVacantF_nofault (st : FState) (h : st.sys.plan = []) (s : Nat) :
    (ignoreIfVacantF st s).toState = ignoreIfVacant st.toState s
    ∧ (ignoreIfVacantF st s).sys.plan = [] := by
  unfold ignoreIfVacantF ignoreIfVacant
  simp only [FState.toState]
  cases hg : get st.traps s with
  | none =>
    obtain ⟨e1, e2, e3⟩ := ignoreF_nofault st.sys h s
    simp [e1, e2, e3, setOpt]
  | some g => simp [h]

theorem enterSubshellT_nofault (st : FState) (h : st.sys.plan = []) (ii ks : Bool) :
    (enterSubshellF st ii ks).toState = enterSubshell st.toState ii ks
    ∧ (enterSubshellF st ii ks).sys.plan = [] := by
  unfold enterSubshellF enterSubshell
  obtain ⟨e1, e2, e3⟩ := enterAllF_nofault ii ks (clearParents st.traps) st.sys h
  have hst1 : ({ sys := (enterAllF st.sys ii ks (clearParents st.traps)).1,
                 traps := (enterAllF st.sys ii ks (clearParents st.traps)).2 } : FState).toState
      = { sys := (enterAll st.toState.sys ii ks (clearParents st.toState.traps)).1,
          traps := (enterAll st.toState.sys ii ks (clearParents st.toState.traps)).2 } := by
    simp [FState.toState, e1, e3]
  cases ii with
  | false => simp only [Bool.false_eq_true, if_false]; exact ⟨hst1, e2⟩
  | true =>
    simp only [if_true]
    obtain ⟨a1, a2⟩ := ignoreIfVacantF_nofault
      (⟨(enterAllF st.sys true ks (clearParents st.traps)).1,
        (enterAllF st.sys true ks (clearParents st.traps)).2⟩ : FState) e2 SIGINT
    obtain ⟨b1, b2⟩ := ignoreIfVacantF_nofault _ a2 SIGQUIT
    refine ⟨?_, b2⟩
    rw [b1, a1, hst1]

theorem peekStateF_nofault (st : FState) (h : st.sys.plan = []) (c : Nat) :
    (peekStateF st c).1.toState = (peekState st.toState c).1
    ∧ (peekStateF st c).1.sys.plan = []
    ∧ (peekStateF st c).2 = some (peekState st.toState c).2 := by
  unfold peekStateF peekState GrandState.insertFromSystemIfVacantF GrandState.insertFromSystemIfVacant
    FSys.getDisposition
  simp only [FState.toState, Sys.getDisposition]
  cases hg : get st.traps c with
  | some g => simp [h]
  | none =>
    by_cases hc : c = 0
    · simp [hc, h]
    · simp [hc, h]

theorem stepF_nofault (st : FState) (h : st.sys.plan = []) (op : Op) :
    (stepF st op).toState = step st.toState op ∧ (stepF st op).sys.plan = [] := by
  cases op with
  | setAction c a o ov =>
    obtain ⟨e1, e2, _⟩ := setActionT_nofault st h c a o ov
    exact ⟨e1, e2⟩
  | enableChld =>
    obtain ⟨e1, e2, _⟩ := seqInternalF_nofault enableChldOps st h
    exact ⟨e1, e2⟩
  | enableTerminators =>
    obtain ⟨e1, e2, _⟩ := seqInternalF_nofault enableTerminatorsOps st h
    exact ⟨e1, e2⟩
  | enableStoppers =>
    obtain ⟨e1, e2, _⟩ := seqInternalF_nofault enableStoppersOps st h
    exact ⟨e1, e2⟩
  | disableTerminators =>
    obtain ⟨e1, e2, _⟩ := seqInternalF_nofault disableTerminatorsOps st h
    exact ⟨e1, e2⟩
  | disableStoppers =>
    obtain ⟨e1, e2, _⟩ := seqInternalF_nofault disableStoppersOps st h
    exact ⟨e1, e2⟩
  | disableAll =>
    obtain ⟨e1, e2, _⟩ := seqInternalF_nofault disableAllOps st h
    exact ⟨e1, e2⟩
  | enterSubshell ii ks => exact enterSubshellT_nofault st h ii ks
  | peek c =>
    obtain ⟨e1, e2, _⟩ := peekStateF_nofault st h c
    exact ⟨e1, e2⟩
  | catchSignal s => exact ⟨rfl, h⟩
  | takeCaught => exact ⟨rfl, h⟩
  | takeIfCaught s => exact ⟨rfl, h⟩
  | deliver s =>
    refine ⟨?_, h⟩
    by_cases hc : st.sys.sys.disp s = .catch ∧ (st.sys.sys.selectMask.getD st.sys.sys.blocked) s = false
    · simp [stepF, step, deliver, FState.toState, hc]
    · simp [stepF, step, deliver, FState.toState, hc]

theorem runF_nofault (ops : List Op) (st : FState) (h : st.sys.plan = []) :
    (runF st ops).toState = run st.toState ops ∧ (runF st ops).sys.plan = [] := by
  induction ops generalizing st with
  | nil => exact ⟨rfl, h⟩
  | cons op ops ih =>
    obtain ⟨e1, e2⟩ := stepF_nofault st h op
    simp only [runF, run]
    rw [← e1]
    exact ih _ e2

end YashModel.Trap
