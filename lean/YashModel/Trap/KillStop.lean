/-
  C11 — helper lemmas, part 6: over whole histories the entries of SIGKILL and SIGSTOP never hold a
  user action or an internal disposition.
-/
import YashModel.Trap.Ops
namespace YashModel.Trap

/-- the entry, if any, is just the record of the inherited disposition -/
def Untouched (init : Disp) (e : Option GrandState) : Prop :=
  ∀ g, e = some g → g.internal = .default
    ∧ g.current.action = (TrapState.fromInitial init).action ∧ g.current.origin = .inherited

theorem untouched_none (init : Disp) : Untouched init none := fun _ h => by cases h

theorem untouched_of_core {init : Disp} {e e' : Option GrandState} (h : e'.map core = e.map core)
    (he : Untouched init e) : Untouched init e' := by
  intro g' hg'
  subst hg'
  cases e with
  | none => simp at h
  | some g =>
    have := he g rfl
    simp only [Option.map_some, Option.some.injEq, core, Prod.mk.injEq] at h
    exact ⟨h.2.2.2.trans this.1, h.1.trans this.2.1, h.2.1.trans this.2.2⟩

theorem untouched_clearParent {init : Disp} {e : Option GrandState} (he : Untouched init e) :
    Untouched init (e.map GrandState.clearParent) := by
  intro g' hg'
  cases e with
  | none => simp at hg'
  | some g =>
    simp only [Option.map_some, Option.some.injEq] at hg'
    subst hg'
    exact he g rfl

def IsKillStop (k : Nat) : Prop := k = SIGKILL ∨ k = SIGSTOP

theorem killStop_ne {k : Nat} (hk : IsKillStop k) :
    k ≠ 0 ∧ k ≠ SIGCHLD ∧ k ≠ SIGINT ∧ k ≠ SIGQUIT ∧ k ≠ SIGTERM ∧ k ≠ SIGTSTP ∧ k ≠ SIGTTIN ∧ k ≠ SIGTTOU := by
  rcases hk with h | h <;> subst h <;> decide

theorem subshellOption_killStop {k : Nat} (hk : IsKillStop k) (g : GrandState) (ii ks : Bool) :
    subshellOption k g ii ks = .clear := by
  have := killStop_ne hk
  simp [subshellOption, this]

theorem untouched_setInternal (init : Disp) (st : State) (k k' : Nat) (d : Disp) (hne : k ≠ k')
    (he : Untouched init (get st.traps k)) : Untouched init (get (setInternal st k' d).traps k) := by
  unfold setInternal
  simp only [setInternalE_get, hne, if_false]
  exact he

theorem untouched_ignoreIfVacant (init : Disp) (st : State) (k k' : Nat) (hne : k ≠ k')
    (he : Untouched init (get st.traps k)) : Untouched init (get (ignoreIfVacant st k').traps k) := by
  unfold ignoreIfVacant
  cases get st.traps k' with
  | some g => exact he
  | none => simp only [get_set, hne, if_false]; exact he

theorem untouched_step (init : Nat → Disp) (st : State) (k : Nat)
    (op : Op) (hk : IsKillStop k) (h : Inv init st) (he : Untouched (init k) (get st.traps k)) :
    Untouched (init k) (get (step st op).traps k) := by
  have hne := killStop_ne hk
  have hI := fun st' k' d (hne : k ≠ k') he' => untouched_setInternal (init k) st' k k' d hne he'
  cases op with
  | setAction c a o ov =>
    simp only [step]
    unfold setAction
    split
    · exact he
    · split
      · exact he
      · rename_i h1 h2
        have hc : k ≠ c := by
          rcases hk with h | h <;> subst h <;> intro hc <;> subst hc <;> simp_all
        simp only [get_set, hc, if_false]
        rw [get_clearParents]; exact untouched_clearParent he
  | enableChld => exact hI _ _ _ hne.2.1 he
  | enableTerminators =>
    exact hI _ _ _ hne.2.2.2.1 (hI _ _ _ hne.2.2.2.2.1 (hI _ _ _ hne.2.2.1 he))
  | disableTerminators =>
    exact hI _ _ _ hne.2.2.2.1 (hI _ _ _ hne.2.2.2.2.1 (hI _ _ _ hne.2.2.1 he))
  | enableStoppers =>
    exact hI _ _ _ hne.2.2.2.2.2.2.2 (hI _ _ _ hne.2.2.2.2.2.2.1 (hI _ _ _ hne.2.2.2.2.2.1 he))
  | disableStoppers =>
    exact hI _ _ _ hne.2.2.2.2.2.2.2 (hI _ _ _ hne.2.2.2.2.2.2.1 (hI _ _ _ hne.2.2.2.2.2.1 he))
  | disableAll =>
    exact hI _ _ _ hne.2.2.2.2.2.2.2 (hI _ _ _ hne.2.2.2.2.2.2.1 (hI _ _ _ hne.2.2.2.2.2.1
      (hI _ _ _ hne.2.2.2.1 (hI _ _ _ hne.2.2.2.2.1 (hI _ _ _ hne.2.2.1 (hI _ _ _ hne.2.1 he))))))
  | enterSubshell ii ks =>
    simp only [step]
    unfold enterSubshell
    have e1 : Untouched (init k) (get (enterAll st.sys ii ks (clearParents st.traps)).2 k) := by
      rw [get_enterAll, get_clearParents]
      cases hg : get st.traps k with
      | none => exact untouched_none _
      | some g =>
        have hu := he g hg
        intro g' hg'
        simp only [Option.map_some, Option.some.injEq] at hg'
        subst hg'
        rw [subshellOption_killStop hk]
        have hnc : (TrapState.fromInitial (init k)).action.isCommand = false := by
          cases init k <;> rfl
        unfold GrandState.enterState
        simp [GrandState.clearParent, hu.2.1, hu.2.2, hnc]
    simp only
    split
    · exact untouched_ignoreIfVacant _ _ _ _ hne.2.2.2.1
        (untouched_ignoreIfVacant _ _ _ _ hne.2.2.1 e1)
    · exact e1
  | peek c =>
    simp only [step, peekState, get_set]
    by_cases hs : k = c
    · subst hs
      simp only [if_true]
      unfold GrandState.insertFromSystemIfVacant
      cases hg : get st.traps k with
      | none =>
        have hd := h.disp k hne.1
        rw [hg, expected_none] at hd
        intro g' hg'
        simp only [Option.some.injEq] at hg'
        subst hg'
        simp [hne.1, Sys.getDisposition, hd, TrapState.fromInitial]
      | some g => intro g' hg'; simp only [Option.some.injEq] at hg'; subst hg'; exact he g hg
    · simp only [hs, if_false]; exact he
  | catchSignal s => exact untouched_of_core (catchSignal_core _ _ _) he
  | takeCaught => exact untouched_of_core (takeCaught_core _ _) he
  | takeIfCaught s => exact untouched_of_core (takeIf_core _ _ _) he
  | deliver s =>
    simp only [step, deliver]
    split
    · exact untouched_of_core (catchSignal_core _ _ _) he
    · exact he

theorem untouched_run (init : Nat → Disp) (hinit : ∀ s, init s ≠ .catch) (k : Nat) (hk : IsKillStop k)
    (ops : List Op) (st : State) (h : Inv init st) (he : Untouched (init k) (get st.traps k)) :
    Untouched (init k) (get (run st ops).traps k) := by
  induction ops generalizing st with
  | nil => exact he
  | cons op ops ih =>
    exact ih _ (inv_step_all init hinit st op h) (untouched_step init st k op hk h he)

end YashModel.Trap
