/-
  Spec for the system-call layer (`Syscalls.lean`): what one may demand of the calls a trap-set
  operation makes, stated on the record alone.

  * economy ("system call issued only when the effective maximum changes", properties.jsonl):
    a `sigaction` that re-installs the disposition it finds installed is justified only for a signal
    the trap set knew nothing about before the operation (the probe of `set_action`, the first
    installation of an internal disposition, `GrandState::ignore`);
  * KILL and STOP are never the subject of a `sigaction`;
  * `Catch` is installed only with the signal blocked first, anything else is followed by an unblock
    (the order that makes "blocked ⇔ caught" hold at every instant a signal could arrive);
  * honesty under faults: an operation that can report a system error reports one exactly when one
    of its calls failed.
-/
import YashModel.Trap.Spec
import YashModel.Trap.Syscalls
namespace YashModel.Trap

/-- the calls an operation added to the record -/
def newCalls (before after : FState) : List Call := after.sys.log.drop before.sys.log.length

/-- economy: no needless `sigaction` on a signal the trap set already knew -/
def economical (traps : TrapMap) (calls : List Call) : Bool :=
  calls.all fun c => !(c.needless && (get traps c.sig).isSome)

/-- KILL and STOP are never touched -/
def sparesKillStop (calls : List Call) : Bool :=
  calls.all fun c => match c.prim with
    | .action s _ => s != SIGKILL && s != SIGSTOP
    | .mask _ s => s != SIGKILL && s != SIGSTOP
    | .get _ => true

/-- the shape of successful calls: `[mask+ s, action s Catch]` or `[action s d, mask- s]` (d ≠ Catch),
    repeated -/
def wellBracketed : List Call → Bool
  | [] => true
  | c1 :: c2 :: rest =>
    (match c1.prim, c2.prim with
     | .mask true s, .action s' .catch => s == s'
     | .action s d, .mask false s' => s == s' && d != .catch
     | _, _ => false) && wellBracketed rest
  | [_] => false

/-- whether some call of the operation failed -/
def anyFailed (calls : List Call) : Bool := calls.any fun c => !c.ok

/-- honesty: the reported result says "system error" exactly when a call failed -/
def honest (r : OpResult) (calls : List Call) : Bool :=
  match r with
  | .none => true
  | .setAction e => (e == some .systemError) == anyFailed calls
  | .ok b => b == !anyFailed calls

/-- the calls that change something (`get_sigaction` only reads) -/
def writes (calls : List Call) : List Call :=
  calls.filter fun c => match c.prim with | .get _ => false | _ => true

/-- the Spec verdict for one operation of an `sc` case (`faulted` = a call failed earlier) -/
def scViolation (init : Nat → Disp) (faulted : Bool) (before after : FState) (r : OpResult) : Option String :=
  let calls := newCalls before after
  if !sparesKillStop calls then some "sigaction-on-kill-stop"
  else if !honest r calls then some "system-error-misreported"
  else if faulted || anyFailed calls then none
  else if !economical before.traps calls then some "needless-syscall"
  else if !wellBracketed (writes calls) then some "mask-order"
  else (specCheck init after.toState).map fun w => s!"state:{w}"

end YashModel.Trap
