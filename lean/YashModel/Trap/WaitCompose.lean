/-
  C11 — helper lemmas (wave 3, second pass): composition of the `wait` path with C13's `Proc/WaitTrap.lean`.
-/
import YashModel.Trap.BuiltinLemmas
import YashModel.Trap.Interleave
import YashModel.Proc.Theorems
namespace YashModel.Trap

/-- the condition has a command trap -/
def isCmd (t : TrapMap) (x : Nat) : Bool :=
  match get t x with
  | some g => g.current.action.isCommand
  | none => false

theorem isCmd_of_core (t t' : TrapMap) (x : Nat) (h : (get t' x).map core = (get t x).map core) :
    isCmd t' x = isCmd t x := by
  unfold isCmd
  cases h1 : get t' x <;> cases h2 : get t x <;> simp_all [core]

/-- `wait_for_any_job_or_trap`'s loop runs the action of the FIRST reported signal that has a command trap,
    provided the reported signals with a command trap are pending -/
theorem waitTrapLoop_first (body : Body) (sigs : List Nat) (t : TrapMap) (exit : Int)
    (hP : ∀ x ∈ sigs, isCmd t x = true → pendingAt t x = true) :
    ((waitTrapLoop body sigs t exit).2.map (·.1)) = sigs.find? (isCmd t)
    ∧ ∀ s c e d, (waitTrapLoop body sigs t exit).2 = some (s, c, e, d) → actionAt t s = some (.command c) := by
  induction sigs generalizing t with
  | nil => simp [waitTrapLoop]
  | cons s rest ih =>
    simp only [waitTrapLoop, runTrapIfCaught, takeSignalIfCaught, List.find?_cons]
    cases hg : get t s with
    | none =>
      have hc : isCmd t s = false := by simp [isCmd, hg]
      simp only [hc]
      exact ih t (fun x hx => hP x (List.mem_cons_of_mem _ hx))
    | some g =>
      cases hact : g.current.action with
      | command c =>
        have hc : isCmd t s = true := by simp [isCmd, hg, hact, Action.isCommand]
        have hp := hP s (List.mem_cons_self ..) hc
        simp only [pendingAt, hg] at hp
        simp only [GrandState.handleIfCaught, hp, if_true, hact, hc]
        refine ⟨rfl, ?_⟩
        intro s' c' e d h
        simp only [Option.some.injEq, Prod.mk.injEq] at h
        obtain ⟨h1, h2, _⟩ := h
        subst h1; subst h2
        simp [actionAt, hg, hact]
      | default | ignore =>
        have hc : isCmd t s = false := by simp [isCmd, hg, hact, Action.isCommand]
        simp only [hc]
        -- whether or not the flag was set, the loop goes on with a map that differs in `pending` of `s` only
        have key : ∀ t' : TrapMap, (∀ x, (get t' x).map core = (get t x).map core) →
            (∀ x, x ≠ s → pendingAt t' x = pendingAt t x) →
            ((waitTrapLoop body rest t' exit).2.map (·.1)) = rest.find? (isCmd t)
            ∧ ∀ s' c e d, (waitTrapLoop body rest t' exit).2 = some (s', c, e, d) → actionAt t s' = some (.command c) := by
          intro t' hcore hpend
          have hcmd : ∀ x, isCmd t' x = isCmd t x := fun x => isCmd_of_core t t' x (hcore x)
          have := ih t' (by
            intro x hx hcx
            rw [hcmd] at hcx
            have hne : x ≠ s := by intro h; subst h; rw [hc] at hcx; cases hcx
            rw [hpend x hne]; exact hP x (List.mem_cons_of_mem _ hx) hcx)
          have hf : rest.find? (isCmd t') = rest.find? (isCmd t) := by
            congr 1; funext x; exact hcmd x
          refine ⟨by rw [this.1, hf], ?_⟩
          intro s' c e d h
          have := this.2 s' c e d h
          unfold actionAt at this ⊢
          have hc2 := hcore s'
          cases h1 : get t' s' <;> cases h2 : get t s' <;> simp_all [core]
        by_cases hp : g.current.pending = true
        · simp only [GrandState.handleIfCaught, hp, if_true, hact]
          apply key
          · intro x; rw [get_set]; by_cases hx : x = s
            · subst hx; simp [hg, core, hact]
            · simp [hx]
          · intro x hx; unfold pendingAt; rw [get_set]; simp [hx]
        · simp only [GrandState.handleIfCaught, hp]
          simp only [Bool.false_eq_true, if_false]
          apply key
          · intro x; rw [get_set]; by_cases hx : x = s
            · subst hx; simp [hg]
            · simp [hx]
          · intro x hx; unfold pendingAt; rw [get_set]; simp [hx]


open YashModel.Proc in
/-- composition with C13's `Proc/WaitTrap.lean`: see `TheoremsW3b.wait_trap_runs_once_then_boundary` -/
theorem wait_compose (body : Body) (m : TrapMap) (t : TSys) (σ : Nat) (exit : Int)
    (hout : t.out = none) (hpc : t.sys.pc = .await)
    (hσ : firstTrapped t.traps t.sigPending = some σ)
    (habs : ∀ x, t.traps.contains x = isCmd m x) :
    (∃ t', tstep t .parent = some t' ∧ t'.out = some (.trapped σ))
    ∧ (∀ u o, TSteps t u → u.out = some o → o = .trapped σ)
    ∧ ∃ c e d, (waitTrapLoop body t.sigPending (t.sigPending.foldl catchSignal m) exit).2 = some (σ, c, e, d)
        ∧ actionAt m σ = some (.command c) := by
  obtain ⟨h1, h2⟩ := trap_interrupts_wait hout hpc hσ
  refine ⟨h1, fun u o hs ho => (h2 u o hs ho).1, ?_⟩
  have hcmd : ∀ x, isCmd (t.sigPending.foldl catchSignal m) x = isCmd m x :=
    fun x => isCmd_of_core m _ x (core_foldl_catch _ _ x)
  obtain ⟨f1, f2⟩ := waitTrapLoop_first body t.sigPending (t.sigPending.foldl catchSignal m) exit (by
    intro x hx hc
    rw [pendingAt_foldl_catch]
    have hs : (get m x).isSome = true := by
      rw [hcmd] at hc; unfold isCmd at hc
      cases h : get m x with
      | none => rw [h] at hc; cases hc
      | some g => rfl
    simp [hx, hs])
  have hfind : t.sigPending.find? (isCmd (t.sigPending.foldl catchSignal m)) = some σ := by
    have : (isCmd (t.sigPending.foldl catchSignal m)) = fun x => t.traps.contains x := by
      funext x; rw [hcmd, habs]
    rw [this]; exact hσ
  rw [hfind] at f1
  cases hr : (waitTrapLoop body t.sigPending (t.sigPending.foldl catchSignal m) exit).2 with
  | none => rw [hr] at f1; cases f1
  | some p =>
    obtain ⟨s, c, e, d⟩ := p
    rw [hr] at f1
    simp only [Option.map_some, Option.some.injEq] at f1
    subst f1
    have := f2 _ c e d hr
    refine ⟨c, e, d, rfl, ?_⟩
    unfold actionAt at this ⊢
    have hc := core_foldl_catch t.sigPending m s
    cases h1 : get (t.sigPending.foldl catchSignal m) s <;> cases h2 : get m s <;> simp_all [core]

end YashModel.Trap
