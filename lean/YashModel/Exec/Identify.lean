/-
  Impl model of `command -v` / `command -V` / `type` (C02, wave 3, third pass): a transcription of
  yash-builtin/src/command/identify.rs (`categorize`, `normalize_target`, `describe`, `describe_target`,
  `Identify::result`, the exit status of `Identify::execute`) and of the `ClassifyEnv`/`PathEnv` view
  command/search.rs gives the search when every category is acceptable (`Search::default_for_identify`), on top of
  the transcribed command search (`Exec/Search.lean`).  The keyword test is the `IsKeyword` hook of yash-cli
  (`Keyword::from_str(word).is_ok()`): membership in the extracted `ExecTables.keywords`.

  Import-free (only `YashModel.*`) and executable.
-/
import YashModel.Exec.Search
namespace YashModel.Exec.Identify
open YashModel.Exec.Search
open YashModel.Generated

/-- what `categorize` reads besides the search's environment: the alias set (name, replacement) -/
structure IdEnv where
  env : Search.Env := {}
  aliases : List (Str × Str) := []
  deriving Repr

/-- the `IsKeyword` hook -/
def isKeyword (name : Str) : Bool := ExecTables.keywords.any fun k => k.toList == name

/-- `Categorization` -/
inductive Cat where
  | keyword
  | alias (name replacement : Str)
  | target (t : Target)
  deriving DecidableEq, Repr

/-- `normalize_target`: an external utility, or the utility a substitutive built-in stands for, must be an
    executable file (a name with a slash is not checked by `search`); a relative path is made absolute with the
    working directory (`/` in the harness: `Search.absPath`) -/
def normalizeTarget (env : Search.Env) : Target → Option Target
  | .external p => if env.isExecutableFile p then some (.external (absPath p)) else none
  | .builtin .substitutive a p =>
    if env.isExecutableFile p then some (.builtin .substitutive a (absPath p)) else none
  | t => some t

/-- `categorize` with all categories acceptable -/
def categorize (e : IdEnv) (name : Str) : Except Search.Error Cat :=
  if isKeyword name then .ok .keyword
  else
    match e.aliases.lookup name with
    | some r => .ok (.alias name r)
    | none =>
      match search e.env name with
      | .error cause => .error cause
      | .ok t =>
        match normalizeTarget e.env t with
        | none => .error .notFound
        | some t => .ok (.target t)

/-- the classes `describe` / `describe_target` distinguish in the verbose form -/
inductive Kind where
  | keyword | alias | builtin (t : BType) | function | external
  deriving DecidableEq, Repr

def Cat.kind : Cat → Kind
  | .keyword => .keyword
  | .alias _ _ => .alias
  | .target (.builtin t _ _) => .builtin t
  | .target .function => .function
  | .target (.external _) => .external

/-- `describe` with `verbose = false` (`command -v`), without the final newline: the name of a keyword, function
    or built-in, the path of an external utility or of the utility a substitutive built-in stands for, the
    defining command of an alias (names and replacements that need no quoting) -/
def describeShort (name : Str) : Cat → Str
  | .keyword => name
  | .alias n r => "alias ".toList ++ (if n.head? = some '-' then "-- ".toList else []) ++ n ++ '=' :: r
  | .target (.builtin _ _ p) => if p = [] then name else p
  | .target .function => name
  | .target (.external p) => p

/-- `Identify::result` + `Identify::execute` for one name: what is written to the standard output (`none` =
    nothing) and the exit status — `FAILURE` when the name is not found, and then nothing is printed -/
def identify (e : IdEnv) (name : Str) : Option Cat × Nat :=
  match categorize e name with
  | .ok c => (some c, ExecTables.SUCCESS)
  | .error _ => (none, ExecTables.FAILURE)

end YashModel.Exec.Identify
