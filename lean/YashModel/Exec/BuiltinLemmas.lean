/- Helper lemmas for the wave-3 theorems about the control-flow built-ins (Exec/Builtins.lean). -/
import YashModel.Exec.Builtins
import YashModel.Exec.Loops
namespace YashModel.Exec.Builtins
open YashModel.Exec

/-- the chain's length without `take`: the visible loops -/
theorem chain_loops (stack : List Frame) :
    ((stack.takeWhile Frame.retainsContext).filter (fun f => f = .loop)).length = loops stack := by
  induction stack with
  | nil => simp [loops]
  | cons f rest ih =>
    simp only [List.takeWhile_cons, loops]
    cases h : f.retainsContext
    · simp
    · simp only [if_true]
      by_cases hl : f = .loop
      · simp [hl, ih]; omega
      · simp [hl, ih]

theorem loopCountChain_eq_min (stack : List Frame) (max : Nat) :
    loopCountChain stack max = min max (loops stack) := by
  simp [loopCountChain, List.length_take, chain_loops]

theorem loopCountChain_eq (stack : List Frame) (max : Nat) : loopCountChain stack max = loopCount stack max := by
  rw [loopCountChain_eq_min, loopCount_eq_min]

end YashModel.Exec.Builtins

namespace YashModel.Exec.Builtins
open YashModel.Exec

/-- a word that does not begin with `-` is an operand whatever the option table and the mode -/
theorem parseArguments_operand (specs : List Args.OptionSpec) (mode : Args.Mode) (w : Str)
    (hw : w.head? ≠ some '-') : Args.parseArguments specs mode [w] = .ok ([], [w]) := by
  have h1 : Args.startsWithSingleHyphen w = false := by
    unfold Args.startsWithSingleHyphen; split <;> simp_all
  have h2 : Args.startsWithDoubleHyphen w = false := by
    unfold Args.startsWithDoubleHyphen; split <;> simp_all
  have h3 : w ≠ Args.dashdash := by
    intro h; subst h; simp [Args.dashdash] at hw
  simp [Args.parseArguments, Args.optLoop, Args.step, h1, h2, Args.finish, Args.skipSeparator, h3]

theorem parseArguments_nil (specs : List Args.OptionSpec) (mode : Args.Mode) :
    Args.parseArguments specs mode [] = .ok ([], []) := by
  simp [Args.parseArguments, Args.optLoop, Args.finish, Args.skipSeparator]

theorem parseDigits_minus (b : Nat) (o : IntErr) (ds : List Char) (acc : Nat) :
    parseDigits b o ('-' :: ds) acc = .error .invalidDigit := by
  simp [parseDigits, digitVal]

/-- an operand `str::parse::<usize>` accepts does not begin with `-` -/
theorem parseUsize_ok_head (w : Str) (n : Nat) (h : parseUsize w = .ok n) : w.head? ≠ some '-' := by
  intro hh
  cases w with
  | nil => simp at hh
  | cons c ds =>
    simp at hh
    subst hh
    cases ds with
    | nil => simp [parseUsize] at h
    | cons d ds =>
      unfold parseUsize at h
      simp [parseDigits_minus] at h

theorem parseNonZeroUsize_ok (w : Str) (n : Nat) (h : parseNonZeroUsize w = .ok n) :
    parseUsize w = .ok n ∧ 1 ≤ n := by
  unfold parseNonZeroUsize at h
  split at h
  · simp at h
  · rename_i hne
    refine ⟨h, ?_⟩
    cases n with
    | zero => exact absurd h (by intro h'; exact hne h')
    | succ k => omega

end YashModel.Exec.Builtins

namespace YashModel.Exec.Builtins
open YashModel.Exec

theorem breakParse_operand (p : Bool) (w : Str) (n : Nat) (h : parseNonZeroUsize w = .ok n) :
    breakParse p [w] = .ok n := by
  have hw := parseUsize_ok_head w n (parseNonZeroUsize_ok w n h).1
  simp [breakParse, parseArguments_operand _ _ w hw, h]

theorem breakParse_nil (p : Bool) : breakParse p [] = .ok 1 := by
  simp [breakParse, parseArguments_nil]

theorem currentBuiltin_top (b : Bool) (st : List Frame) : currentBuiltin (.builtin b :: st) = some b := rfl

/-- `breakMain` once the operands are parsed, in terms of the model's `breakBuiltin` -/
theorem breakMain_of_parse (isBreak p : Bool) (st : List Frame) (args : List Str) (n : Nat)
    (h : breakParse p args = .ok n) :
    breakMain isBreak p (.builtin true :: st) args =
      ⟨(breakBuiltin (.builtin true :: st) n isBreak).1, (breakBuiltin (.builtin true :: st) n isBreak).2⟩ := by
  simp only [breakMain, h, breakRun, breakBuiltin, loopCountChain_eq]
  by_cases hc : loopCount (.builtin true :: st) n = 0
  · simp [hc, reportSimpleFailure, reportDivert, currentBuiltin_top, Generated.ExecTables.FAILURE]
  · simp [hc, Generated.ExecTables.SUCCESS]

end YashModel.Exec.Builtins

namespace YashModel.Exec

theorem optLe_refl (a : Option Nat) : optLe a a = true := by cases a <;> simp [optLe]
theorem optLe_total (a b : Option Nat) : optLe a b = true ∨ optLe b a = true := by
  cases a <;> cases b <;> simp [optLe]; omega
theorem optLe_antisymm (a b : Option Nat) (h1 : optLe a b = true) (h2 : optLe b a = true) : a = b := by
  cases a <;> cases b <;> simp_all [optLe]; omega
theorem optLe_trans (a b c : Option Nat) (h1 : optLe a b = true) (h2 : optLe b c = true) : optLe a c = true := by
  cases a <;> cases b <;> cases c <;> simp_all [optLe]; omega

end YashModel.Exec

namespace YashModel.Exec.Builtins

/-- the number a digit string denotes, continuing from `acc` -/
def decimalValue (ds : List Char) (acc : Nat) : Nat :=
  ds.foldl (fun a c => a * 10 + (digitVal c).getD 0) acc

theorem decimalValue_ge (ds : List Char) (acc : Nat) : acc ≤ decimalValue ds acc := by
  induction ds generalizing acc with
  | nil => simp [decimalValue]
  | cons c cs ih =>
    have := ih (acc * 10 + (digitVal c).getD 0)
    simp only [decimalValue, List.foldl_cons] at this ⊢
    omega

theorem parseDigits_ok_iff (b : Nat) (o : IntErr) (ds : List Char) (acc n : Nat) (hacc : acc ≤ b) :
    parseDigits b o ds acc = .ok n ↔
      (∀ c ∈ ds, (digitVal c).isSome = true) ∧ n = decimalValue ds acc ∧ n ≤ b := by
  induction ds generalizing acc with
  | nil => simp [parseDigits, decimalValue]; constructor
           · intro h; subst h; exact ⟨rfl, hacc⟩
           · intro h; exact h.1.symm
  | cons c cs ih =>
    simp only [parseDigits]
    cases hd : digitVal c with
    | none => simp [hd]
    | some d =>
      simp only
      by_cases hov : acc * 10 + d > b
      · simp only [hov, if_true]
        constructor
        · intro h; cases h
        · intro ⟨_, h2, h3⟩
          have := decimalValue_ge cs (acc * 10 + d)
          simp only [decimalValue, List.foldl_cons, hd, Option.getD_some] at h2 this
          omega
      · simp only [hov, if_false]
        rw [ih (acc * 10 + d) (by omega)]
        simp [decimalValue, hd]

end YashModel.Exec.Builtins

namespace YashModel.Exec.Builtins

theorem parseUsize_unsigned (ds : List Char) (hne : ds ≠ [])
    (hp : ds.head? ≠ some '+') (hm : ds.head? ≠ some '-') :
    parseUsize ds = parseDigits usizeMax .posOverflow ds 0 := by
  unfold parseUsize
  split <;> simp_all

theorem parseI32_unsigned (ds : List Char) (hne : ds ≠ [])
    (hp : ds.head? ≠ some '+') (hm : ds.head? ≠ some '-') :
    parseI32 ds = (parseDigits (2 ^ 31 - 1) .posOverflow ds 0).map Int.ofNat := by
  unfold parseI32
  split <;> simp_all

end YashModel.Exec.Builtins
