/-
  Composition: the name classes of `Exec.Model.classify` are the transcribed command search
  (`Search.runSimple`) run in the environment the harness installs.
-/
import YashModel.Exec.SearchEnv
import YashModel.Exec.SearchLemmas
import Std.Data.String.ToNat
namespace YashModel.Exec
open Search

theorem toDigits_injective {a b : Nat} (h : Nat.toDigits 10 a = Nat.toDigits 10 b) : a = b := by
  apply Nat.repr_injective
  apply String.toList_injective
  rw [Nat.toList_repr, Nat.toList_repr, h]

theorem nameStr_injective {a b : Name} (h : nameStr a = nameStr b) : a = b := by
  cases a <;> cases b <;> simp [nameStr] at h ⊢
  exact toDigits_injective h

theorem mem_names_iff (funcs : List (Name × Cmd)) (n : Name) :
    nameStr n ∈ funcs.map (fun p => nameStr p.1) ↔ (lookupFn funcs n).isSome = true := by
  induction funcs with
  | nil => simp [lookupFn]
  | cons p rest ih =>
    obtain ⟨m, c⟩ := p
    simp only [List.map_cons, List.mem_cons, lookupFn]
    by_cases h : m = n
    · subst h; simp
    · have : nameStr n ≠ nameStr m := fun e => h (nameStr_injective e).symm
      simp [h, this, ih]

theorem digits_no_slash (k : Nat) : '/' ∉ Nat.toDigits 10 k := by
  intro h
  have := Nat.isDigit_of_mem_toDigits (by decide) (by decide) h
  exact absurd this (by decide)

/-- the outcome of the search for every name class, in the harness environment with function names `F` -/
theorem envWith_specRun (F : List Str) (n : Name) :
    specRun (envWith F) (nameStr n) =
      match n with
      | .colon => .builtin .special []
      | .xtPath => .exec (nameStr .xtPath)
      | .true_ => if nameStr n ∈ F then .function else .builtin .mandatory []
      | .sbIn => if nameStr n ∈ F then .function
                 else .builtin .substitutive ['/', 'b', 'i', 'n', '/', 's', 'b', 'i', 'n']
      | .sbOut => if nameStr n ∈ F then .function else .status 127
      | .xtIn => if nameStr n ∈ F then .function
                 else .exec ['/', 'b', 'i', 'n', '/', 'x', 't', 'i', 'n']
      | .f _ => if nameStr n ∈ F then .function else .status 127 := by
  unfold specRun
  cases n with
  | f k =>
    have hs : '/' ∉ nameStr (.f k) := by
      simp only [nameStr, List.mem_cons, not_or]
      exact ⟨by decide, digits_no_slash k⟩
    have hv : visible (envWith F) (nameStr (.f k)) = none := by
      simp [visible, envWith, nameStr, List.lookup]
    rw [hv]
    by_cases hf : nameStr (.f k) ∈ F
    · simp [hs, hf, envWith]
    · simp only [List.contains_eq_mem, hs, decide_false, Bool.false_eq_true, if_false, hf, envWith]
      simp [firstHitIn, Env.isExecutableFile, joinPath, absPath, nameStr, PathVal.split, splitOn,
        Generated.ExecTables.NOT_FOUND]
  | colon => simp [nameStr, visible, envWith, List.lookup, rejected]
  | xtPath => simp [nameStr]
  | true_ =>
    by_cases hf : ['o', 'k'] ∈ F <;>
      simp [nameStr, visible, envWith, List.lookup, rejected, hf]
  | sbIn =>
    by_cases hf : ['s', 'b', 'i', 'n'] ∈ F <;>
      simp [nameStr, visible, envWith, List.lookup, rejected, hf, firstHitIn, Env.isExecutableFile,
        joinPath, absPath, PathVal.split, splitOn]
  | sbOut =>
    by_cases hf : ['s', 'b', 'o', 'u', 't'] ∈ F <;>
      simp [nameStr, visible, envWith, List.lookup, rejected, hf, firstHitIn, Env.isExecutableFile,
        joinPath, absPath, PathVal.split, splitOn, Generated.ExecTables.NOT_FOUND]
  | xtIn =>
    by_cases hf : ['x', 't', 'i', 'n'] ∈ F <;>
      simp [nameStr, visible, envWith, List.lookup, rejected, hf, firstHitIn, Env.isExecutableFile,
        joinPath, absPath, PathVal.split, splitOn]

/-- `Exec.Model.classify` is the transcribed command search in the harness environment: for every name
    and every function table, what the model's stand-in says runs (a function body, or a bare exit
    status) is what `SimpleCommand::execute` does with the result of `classify`/`resolve_builtin`/
    `search_path` -/
theorem classify_is_search_effect (s : St) (n : Name) :
    (classify s n).effect = outcomeEffect s.funcs n (runSimple (harnessEnv s.funcs) (nameStr n)) := by
  rw [← specRun_eq_runSimple, harnessEnv, envWith_specRun]
  cases h : lookupFn s.funcs n with
  | none =>
    have hmem : nameStr n ∉ s.funcs.map (fun p => nameStr p.1) := fun x => by
      have := (mem_names_iff s.funcs n).1 x
      simp [h] at this
    cases n <;> simp only [classify, h, hmem, if_false] <;> simp [Target.effect, outcomeEffect, Generated.ExecTables.NOEXEC, Generated.ExecTables.NOT_FOUND]
  | some b =>
    have hmem : nameStr n ∈ s.funcs.map (fun p => nameStr p.1) := (mem_names_iff s.funcs n).2 (by simp [h])
    cases n <;> simp only [classify, h, hmem, if_true] <;> simp [Target.effect, outcomeEffect, h, Generated.ExecTables.NOEXEC, Generated.ExecTables.NOT_FOUND]

end YashModel.Exec
