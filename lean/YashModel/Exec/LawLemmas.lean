/- Helper lemmas for the algebraic laws of wave 3 (Exec/Theorems.lean, section "laws"): fuel lifting, dependence on the stack only through its context, the poll after a wrapped command. -/
import YashModel.Exec.Refine
import YashModel.Exec.FuelMono
import YashModel.Exec.Balance
namespace YashModel.Exec

/-! lifting a terminated execution to more fuel -/

theorem lift_cmd (n k : Nat) (s : St) (c : Cmd) (h : (execCmd n s c).2 ≠ .outOfFuel) :
    execCmd (n+k) s c = execCmd n s c :=
  le_add (fun n => execCmd n s c) (fun x => x.2 = .outOfFuel) (fun n => (mono_all n).cmd s c) n k h
theorem lift_list (n k : Nat) (s : St) (l : List Item) (h : (execList n s l).2 ≠ .outOfFuel) :
    execList (n+k) s l = execList n s l :=
  le_add (fun n => execList n s l) (fun x => x.2 = .outOfFuel) (fun n => (mono_all n).list s l) n k h
theorem lift_pipe (n k : Nat) (s : St) (p : Pipeline) (h : (execPipeline n s p).2 ≠ .outOfFuel) :
    execPipeline (n+k) s p = execPipeline n s p :=
  le_add (fun n => execPipeline n s p) (fun x => x.2 = .outOfFuel) (fun n => (mono_all n).pipe s p) n k h
theorem lift_cmds (n k : Nat) (s : St) (cs : List Cmd) (h : (execCommands n s cs).2 ≠ .outOfFuel) :
    execCommands (n+k) s cs = execCommands n s cs :=
  le_add (fun n => execCommands n s cs) (fun x => x.2 = .outOfFuel) (fun n => (mono_all n).cmds s cs) n k h
theorem lift_elifs (n k : Nat) (s : St) (e : List (List Item × List Item)) (els : Option (List Item))
    (h : (execElifs n s e els).2 ≠ .outOfFuel) : execElifs (n+k) s e els = execElifs n s e els :=
  le_add (fun n => execElifs n s e els) (fun x => x.2 = .outOfFuel) (fun n => (mono_all n).elifs s e els) n k h

/-! an execution depends on the frame stack only through the context it stands for -/

theorem eq_of_sbs {x y z : St} (hx : SameButStack x z) (hy : SameButStack y z) :
    y = { x with stack := y.stack } := by
  obtain ⟨st1, h1⟩ := hx
  obtain ⟨st2, h2⟩ := hy
  cases x; cases y; cases z
  simp only [St.mk.injEq] at h1 h2 ⊢
  simp_all

theorem cmds_ctx_only (f : Nat) (s : St) (st : List Frame) (cs : List Cmd)
    (hc : ctxOf st = ctxOf s.stack) :
    execCommands f { s with stack := st } cs =
      ({ (execCommands f s cs).1 with stack := st }, (execCommands f s cs).2) := by
  have r1 := (ref f).cmds s s cs (sbs_refl s)
  have r2 := (ref f).cmds { s with stack := st } s cs ⟨s.stack, rfl⟩
  simp only [hc] at r2
  have hb := (bal f).cmds { s with stack := st } cs
  have he := eq_of_sbs r1.1 r2.1
  simp only at hb
  rw [hb] at he
  exact Prod.ext he (r2.2.trans r1.2.symm)

theorem pipe_ctx_only (f : Nat) (s : St) (st : List Frame) (p : Pipeline)
    (hc : ctxOf st = ctxOf s.stack) :
    execPipeline f { s with stack := st } p =
      ({ (execPipeline f s p).1 with stack := st }, (execPipeline f s p).2) := by
  have r1 := (ref f).pipe s s p (sbs_refl s)
  have r2 := (ref f).pipe { s with stack := st } s p ⟨s.stack, rfl⟩
  simp only [hc] at r2
  have hb := (bal f).pipe { s with stack := st } p
  have he := eq_of_sbs r1.1 r2.1
  simp only at hb
  rw [hb] at he
  exact Prod.ext he (r2.2.trans r1.2.symm)

theorem ctxOf_cond_cond (st : List Frame) : ctxOf (.condition :: .condition :: st) = ctxOf (.condition :: st) := by
  simp [ctxOf, loops, Frame.retainsContext]

theorem pollWith_none (run : St → List Item → St × Res) (s1 : St) (r : Res) (h : s1.trapDue = none) :
    pollWith run s1 r = (s1, r) := by
  unfold pollWith
  cases r <;> simp [h]

/-- `{ c; }` as a list: the command, then the poll for caught signals that ends every command -/
def wrap (c : Cmd) : List Item := [.mk (.mk false [c]) []]

theorem execList_wrap (n : Nat) (s : St) (c : Cmd) (ht : (execCmd n s c).1.trapDue = none) :
    execList (n+4) s (wrap c) = execCmd n s c := by
  simp only [wrap, execList, execItem, execPipeline, execCommands, pollWith_none _ _ _ ht]
  generalize execCmd n s c = x
  obtain ⟨s1, r⟩ := x
  cases r <;> simp

end YashModel.Exec
