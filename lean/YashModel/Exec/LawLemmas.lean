/- Helper lemmas for the algebraic laws of wave 3 (Exec/Theorems.lean, section "laws"): fuel lifting, dependence on the stack only through its context, the poll after a wrapped command. -/
import YashModel.Exec.Refine
import YashModel.Exec.FuelMono
import YashModel.Exec.Balance
namespace YashModel.Exec

/-! lifting a terminated execution to more fuel -/

theorem lift_cmd (n k : Nat) (s : St) (c : Cmd) (h : (execCmd n s c).2 ≠ .outOfFuel) :
    execCmd (n+k) s c = execCmd n s c :=
  le_add (fun n => execCmd n s c) (fun x => x.2 = .outOfFuel) (fun n => (mono_all n).cmd s c) n k h
theorem lift_list (n k : Nat) (s : St) (l : List Item) (h : (execList n s l).2 ≠ .outOfFuel) :
    execList (n+k) s l = execList n s l :=
  le_add (fun n => execList n s l) (fun x => x.2 = .outOfFuel) (fun n => (mono_all n).list s l) n k h
theorem lift_pipe (n k : Nat) (s : St) (p : Pipeline) (h : (execPipeline n s p).2 ≠ .outOfFuel) :
    execPipeline (n+k) s p = execPipeline n s p :=
  le_add (fun n => execPipeline n s p) (fun x => x.2 = .outOfFuel) (fun n => (mono_all n).pipe s p) n k h
theorem lift_cmds (n k : Nat) (s : St) (cs : List Cmd) (h : (execCommands n s cs).2 ≠ .outOfFuel) :
    execCommands (n+k) s cs = execCommands n s cs :=
  le_add (fun n => execCommands n s cs) (fun x => x.2 = .outOfFuel) (fun n => (mono_all n).cmds s cs) n k h
theorem lift_elifs (n k : Nat) (s : St) (e : List (List Item × List Item)) (els : Option (List Item))
    (h : (execElifs n s e els).2 ≠ .outOfFuel) : execElifs (n+k) s e els = execElifs n s e els :=
  le_add (fun n => execElifs n s e els) (fun x => x.2 = .outOfFuel) (fun n => (mono_all n).elifs s e els) n k h

/-! an execution depends on the frame stack only through the context it stands for -/

theorem eq_of_sbs {x y z : St} (hx : SameButStack x z) (hy : SameButStack y z) :
    y = { x with stack := y.stack } := by
  obtain ⟨st1, h1⟩ := hx
  obtain ⟨st2, h2⟩ := hy
  cases x; cases y; cases z
  simp only [St.mk.injEq] at h1 h2 ⊢
  simp_all

theorem cmds_ctx_only (f : Nat) (s : St) (st : List Frame) (cs : List Cmd)
    (hc : ctxOf st = ctxOf s.stack) :
    execCommands f { s with stack := st } cs =
      ({ (execCommands f s cs).1 with stack := st }, (execCommands f s cs).2) := by
  have r1 := (ref f).cmds s s cs (sbs_refl s)
  have r2 := (ref f).cmds { s with stack := st } s cs ⟨s.stack, rfl⟩
  simp only [hc] at r2
  have hb := (bal f).cmds { s with stack := st } cs
  have he := eq_of_sbs r1.1 r2.1
  simp only at hb
  rw [hb] at he
  exact Prod.ext he (r2.2.trans r1.2.symm)

theorem pipe_ctx_only (f : Nat) (s : St) (st : List Frame) (p : Pipeline)
    (hc : ctxOf st = ctxOf s.stack) :
    execPipeline f { s with stack := st } p =
      ({ (execPipeline f s p).1 with stack := st }, (execPipeline f s p).2) := by
  have r1 := (ref f).pipe s s p (sbs_refl s)
  have r2 := (ref f).pipe { s with stack := st } s p ⟨s.stack, rfl⟩
  simp only [hc] at r2
  have hb := (bal f).pipe { s with stack := st } p
  have he := eq_of_sbs r1.1 r2.1
  simp only at hb
  rw [hb] at he
  exact Prod.ext he (r2.2.trans r1.2.symm)

theorem ctxOf_cond_cond (st : List Frame) : ctxOf (.condition :: .condition :: st) = ctxOf (.condition :: st) := by
  simp [ctxOf, loops, Frame.retainsContext]

theorem pollWith_none (run : St → List Item → St × Res) (s1 : St) (r : Res) (h : s1.trapDue = none) :
    pollWith run s1 r = (s1, r) := by
  unfold pollWith
  cases r <;> simp [h]

/-- `{ c; }` as a list: the command, then the poll for caught signals that ends every command -/
def wrap (c : Cmd) : List Item := [.mk (.mk false [c]) []]

theorem execList_wrap (n : Nat) (s : St) (c : Cmd) (ht : (execCmd n s c).1.trapDue = none) :
    execList (n+4) s (wrap c) = execCmd n s c := by
  simp only [wrap, execList, execItem, execPipeline, execCommands, pollWith_none _ _ _ ht]
  generalize execCmd n s c = x
  obtain ⟨s1, r⟩ := x
  cases r <;> simp

theorem execItem_andor (f : Nat) (s : St) (a : Pipeline) (r : Bool × Pipeline) (rest : List (Bool × Pipeline)) :
    execItem (f+1) s (.mk a (r :: rest)) =
      match execPipeline f (s.push .condition) a with
      | (s1, .continue_) => execAndOrRest f s1 (r :: rest)
      | (s1, res) => (s1.pop, res) := by
  simp only [execItem]
  generalize execPipeline f (s.push .condition) a = x
  obtain ⟨s1, res⟩ := x
  cases res <;> rfl

theorem execAndOrRest_last (f : Nat) (s : St) (op : Bool) (p : Pipeline) :
    execAndOrRest (f+1) s [(op, p)] =
      if (s.pop.status = 0) = op then execPipeline f s.pop p else (s.pop, .continue_) := by
  simp [execAndOrRest]

theorem execAndOrRest_more (f : Nat) (s : St) (op : Bool) (p : Pipeline) (q : Bool × Pipeline)
    (rest : List (Bool × Pipeline)) :
    execAndOrRest (f+1) s ((op, p) :: q :: rest) =
      if (s.status = 0) = op then
        match execPipeline f s p with
        | (s1, .continue_) => execAndOrRest f s1 (q :: rest)
        | (s1, r) => (s1.pop, r)
      else execAndOrRest f s (q :: rest) := by
  simp only [execAndOrRest]
  split
  · generalize execPipeline f s p = x
    obtain ⟨s1, r⟩ := x
    cases r <;> rfl
  · rfl

/-- a pipeline that is one brace group around one and-or list: the list, then the poll that ends the command -/
theorem execPipeline_group (f : Nat) (s : St) (it : Item) :
    execPipeline (f+4) s (.mk false [.group [it]]) =
      pollWith (execList (f+2)) (execItem f s it).1 (execItem f s it).2 := by
  have hx : execCmd (f+2) s (.group [it]) = execItem f s it := by
    simp only [execCmd, execList]
    cases f with
    | zero => simp [execItem]
    | succ f =>
      generalize execItem (f+1) s it = y
      obtain ⟨s1, r⟩ := y
      cases r <;> simp [execList]
  simp only [execPipeline, execCommands, Bool.not_false, if_true, hx]

/-- the condition `p` of a loop, and `! p` -/
def condPos (cmds : List Cmd) : List Item := [.mk (.mk false cmds) []]
def condNeg (cmds : List Cmd) : List Item := [.mk (.mk true cmds) []]

/-- what `!` does to a completed condition -/
def flipStatus : St × Res → St × Res
  | (t, .continue_) => ({ t with status := if t.status = 0 then 1 else 0 }, .continue_)
  | x => x

theorem cond_neg_is_flip (f : Nat) (t : St) (st : List Frame) (cmds : List Cmd)
    (hst : t.stack = .condition :: st) :
    execList f t (condNeg cmds) = flipStatus (execList f t (condPos cmds)) := by
  match f with
  | 0 => simp [execList, flipStatus]
  | 1 => simp [execList, execItem, condNeg, condPos, flipStatus]
  | 2 => simp [execList, execItem, execPipeline, condNeg, condPos, flipStatus]
  | f+3 =>
    have hcc := cmds_ctx_only f t (.condition :: t.stack) cmds
      (by rw [hst]; exact ctxOf_cond_cond st)
    have hb := (bal f).cmds t cmds
    have hpush : t.push .condition = { t with stack := .condition :: t.stack } := rfl
    simp only [condNeg, condPos, execList, execItem, execPipeline, Bool.not_true, Bool.not_false,
      Bool.false_eq_true, if_false, if_true, hpush, hcc]
    generalize execCommands f t cmds = x at hb ⊢
    obtain ⟨t1, r⟩ := x
    simp only at hb
    have hu : ({ t1 with stack := .condition :: t.stack } : St).pop = t1 := by
      cases t1; simp_all [St.pop]
    cases r <;> simp [hu, flipStatus]

/-- how `while_loop::execute` turns the loop's result into the command's -/
def whilePost : St × (Res × Nat) → St × Res
  | (s1, (.continue_, e)) => ({ s1 with status := e }, .continue_)
  | (s1, (r, _)) => (s1, r)

theorem until_while_post (cmds : List Cmd) (body : List Item)
    (hbody : ∀ (g : Nat) (t : St) (k : Nat), (execList g t body).2 ≠ .outOfFuel →
      execList g { t with status := k } body = execList g t body) :
    ∀ (f : Nat) (s : St) (e : Nat), (whilePost (execWhile f s true (condPos cmds) body e)).2 ≠ .outOfFuel →
      whilePost (execWhile f s true (condPos cmds) body e) = whilePost (execWhile f s false (condNeg cmds) body e) := by
  intro f
  induction f with
  | zero => intro s e; simp [execWhile, whilePost]
  | succ f ih =>
    intro s e
    simp only [execWhile]
    rw [cond_neg_is_flip f (s.push .condition) s.stack cmds rfl]
    generalize execList f (s.push .condition) (condPos cmds) = x
    obtain ⟨s1, r⟩ := x
    cases r with
    | outOfFuel => simp [flipStatus, loopStep, whilePost]
    | break_ d =>
      simp only [flipStatus]
      cases d with
      | continue_ k =>
        cases k with
        | zero => simp only [loopStep]; exact ih _ _
        | succ k => simp [loopStep, whilePost]
      | break_ k => cases k <;> simp [loopStep, whilePost]
      | _ => simp [loopStep, whilePost]
    | continue_ =>
      simp only [flipStatus, loopStep]
      have hpf : ({ s1 with status := (if s1.status = 0 then 1 else 0) } : St).pop =
          { s1.pop with status := if s1.pop.status = 0 then 1 else 0 } := rfl
      simp only [hpf]
      generalize s1.pop = u
      by_cases h0 : u.status = 0
      · -- the condition succeeded: `until` ends, and so does `while !`
        simp [h0, whilePost]
      · simp only [h0, if_false]
        rw [if_pos (by simp), if_pos (by simp)]
        by_cases hoof : (execList f u body).2 = .outOfFuel
        · intro hne
          exfalso; apply hne
          generalize execList f u body = y at hoof
          obtain ⟨s2, r2⟩ := y
          simp only at hoof; subst hoof
          simp [loopStep, whilePost]
        · rw [hbody f u 0 hoof]
          generalize execList f u body = y
          obtain ⟨s2, r2⟩ := y
          cases r2 with
          | outOfFuel => simp [whilePost]
          | continue_ => simp only; exact ih _ _
          | break_ d =>
            cases d with
            | continue_ k =>
              cases k with
              | zero => simp only; exact ih _ _
              | succ k => simp [whilePost]
            | break_ k => cases k <;> simp [whilePost]
            | _ => simp [whilePost]

theorem execCmd_while_post (f : Nat) (s : St) (u : Bool) (c b : List Item) :
    execCmd (f+1) s (.whileLoop u c b) =
      ((whilePost (execWhile f (s.push .loop) u c b 0)).1.pop, (whilePost (execWhile f (s.push .loop) u c b 0)).2) := by
  simp only [execCmd]
  generalize execWhile f (s.push .loop) u c b 0 = x
  obtain ⟨s1, r, e⟩ := x
  cases r <;> simp [whilePost, St.pop]

/-- a list that begins with a command setting `$?` does not depend on the `$?` it starts with -/
theorem list_after_st (n : Nat) (rest : List Item) (g : Nat) (t : St) (k : Nat)
    (h : (execList g t (.mk (.mk false [.st n]) [] :: rest)).2 ≠ .outOfFuel) :
    execList g { t with status := k } (.mk (.mk false [.st n]) [] :: rest) =
      execList g t (.mk (.mk false [.st n]) [] :: rest) := by
  match g with
  | 0 => simp [execList] at h
  | 1 => simp [execList, execItem] at h
  | 2 => simp [execList, execItem, execPipeline] at h
  | 3 => simp [execList, execItem, execPipeline, execCommands] at h
  | 4 => simp [execList, execItem, execPipeline, execCommands, execCmd, pollWith] at h
  | g+5 => simp only [execList, execItem, execPipeline, execCommands, execCmd]; rfl

end YashModel.Exec
